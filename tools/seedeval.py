#!/usr/bin/env python3
"""Evaluate a seeded change produced in a scratch worktree of /repo.

usage: seedeval.py <seed-id> <worktree> <property-id> [--demo-timeout 120]

1. extracts patch.diff (tracked non-test files) and the demonstration (untracked files) into /verif/seeded/<seed-id>/
2. confirms in scratch copies (under $TMPDIR, removed afterwards): existing tests of the touched modules pass with
   the change; the demonstration fails with the change and passes without it
3. applies the patch to /repo, runs every registered quick check, records which raise an alarm, and undoes the patch
Writes meta.json; prints a summary.  Nothing is committed to /repo.
"""
import json, os, shutil, subprocess, sys, tempfile

ENV = dict(os.environ, GOFLAGS="-mod=mod", GOPROXY="off", GOSUMDB="off", GOTOOLCHAIN="local")
ENV.pop("GOWORK", None)
MODULES = ["mpc/binance/ecdsa", "mpc/binance/eddsa", "mpc/bls", "mpc/ps", "test", "."]


def sh(cmd, cwd=None, timeout=1800):
    p = subprocess.run(cmd, shell=True, cwd=cwd, env=ENV, stdout=subprocess.PIPE, stderr=subprocess.STDOUT, timeout=timeout, text=True, errors="replace")
    return p.returncode, p.stdout


def module_of(path):
    for m in MODULES:
        if m != "." and path.startswith(m + "/"):
            return m
    return "."


def main():
    seed, wt, prop = sys.argv[1], sys.argv[2].rstrip("/"), sys.argv[3]
    race = "-race " if "--race" in sys.argv else ""
    out = os.path.join("/verif/seeded", seed)
    os.makedirs(out, exist_ok=True)
    rc, patch = sh("git diff -- . ':(exclude)*_test.go' ':(exclude)SEED.md'", cwd=wt)
    open(os.path.join(out, "patch.diff"), "w").write(patch)
    rc, untracked = sh("git ls-files --others --exclude-standard", cwd=wt)
    demos = [f for f in untracked.split() if f.endswith(".go")]
    # a seed that renames identifiers its demonstration uses may ship two variants of the demo:
    # <name>_test.go.with (compiles against the changed code) and <name>_test.go.without (against the original)
    variants = [f for f in untracked.split() if f.endswith("_test.go.with") or f.endswith("_test.go.without")]
    for v in variants:
        dst = os.path.join(out, "demo", v)
        os.makedirs(os.path.dirname(dst), exist_ok=True)
        shutil.copy(os.path.join(wt, v), dst)
        base = v.rsplit(".", 1)[0]
        if base not in demos:
            demos.append(base)
    rc, changed = sh("git diff --name-only -- . ':(exclude)*_test.go'", cwd=wt)
    changed = changed.split()
    for d in demos:
        dst = os.path.join(out, "demo", d)
        os.makedirs(os.path.dirname(dst), exist_ok=True)
        if os.path.exists(os.path.join(wt, d)):
            shutil.copy(os.path.join(wt, d), dst)
    if os.path.exists(os.path.join(wt, "SEED.md")):
        shutil.copy(os.path.join(wt, "SEED.md"), os.path.join(out, "AUTHOR_NOTES.md"))
    mods = sorted({module_of(f) for f in changed})
    demo_mods = sorted({module_of(f) for f in demos})
    meta = {"seed": seed, "property": prop, "changed_files": changed, "demo_files": demos, "modules": mods, "ran": []}

    tmp = tempfile.mkdtemp(prefix="seedchk-")
    try:
        w, wo = os.path.join(tmp, "with"), os.path.join(tmp, "without")
        sh(f"rsync -a --exclude .git {wt}/ {w}/")
        sh(f"rsync -a --exclude .git {wt}/ {wo}/")
        rc, o = sh(f"patch -R -p1 < {out}/patch.diff", cwd=wo)
        meta["reverse_patch_ok"] = rc == 0
        for d in demos:
            for label, root in (("with", w), ("without", wo)):
                var = os.path.join(root, d + "." + label)
                if os.path.exists(var):
                    shutil.copy(var, os.path.join(root, d))
        # existing tests with the change (demo moved away)
        for d in demos:
            if os.path.exists(os.path.join(w, d)):
                os.rename(os.path.join(w, d), os.path.join(w, d + ".off"))
        ok_all = True
        for m in mods:
            rc, o = sh("go test -vet=off -count=1 -timeout 25m ./...", cwd=os.path.join(w, m))
            meta["ran"].append({"cmd": f"(with change, demo removed) cd {m} && go test -vet=off -count=1 ./...", "exit": rc, "tail": o.strip().splitlines()[-3:]})
            ok_all = ok_all and rc == 0
        meta["existing_tests_pass_with_change"] = ok_all
        for d in demos:
            if os.path.exists(os.path.join(w, d + ".off")):
                os.rename(os.path.join(w, d + ".off"), os.path.join(w, d))
        # demo with / without
        res = {}
        for label, root in (("with", w), ("without", wo)):
            okd = True
            for d in demos:
                pkgdir = os.path.dirname(d) or "."
                rc, o = sh("go test " + race + "-vet=off -count=1 -timeout 5m -run 'TestSeed' .", cwd=os.path.join(root, pkgdir), timeout=900)
                meta["ran"].append({"cmd": f"({label} change) cd {pkgdir} && go test {race}-run TestSeed .", "exit": rc, "tail": o.strip().splitlines()[-4:]})
                okd = okd and rc == 0
            res[label] = okd
        meta["demo_fails_with_change"] = not res["with"]
        meta["demo_passes_without_change"] = res["without"]
    finally:
        shutil.rmtree(tmp, ignore_errors=True)

    # checks against /repo with the patch applied
    rc, o = sh(f"git -C /repo apply {out}/patch.diff")
    meta["applies_to_repo"] = rc == 0
    alarms, details = [], {}
    if rc == 0:
        try:
            man = json.load(open("/verif/MANIFEST.json"))
            with tempfile.TemporaryDirectory() as ev:
                shutil.copy("/verif/known_findings.json", os.path.join(ev, "known_findings.json"))
                for chk in man["checks"]:
                    pid = chk["property_id"]
                    rc2, o2 = sh(f"/verif/bin/tsscheck -property {pid} -tier quick -repo /repo -verif {ev}", cwd="/verif")
                    if rc2 != 0:
                        alarms.append(pid)
                        details[pid] = [l.strip()[:400] for l in o2.splitlines() if "VIOLATED" in l or "UNDECIDED" in l or "ANALYSIS-FAILURE" in l][:6]
        finally:
            sh("git -C /repo checkout -- .")
    meta["checks_raising_alarm"] = alarms
    meta["alarm_details"] = details
    meta["caught_by_its_property"] = prop in alarms
    json.dump(meta, open(os.path.join(out, "meta.json"), "w"), indent=1)
    print(json.dumps({k: meta[k] for k in ("seed", "property", "changed_files", "existing_tests_pass_with_change", "demo_fails_with_change", "demo_passes_without_change", "applies_to_repo", "checks_raising_alarm", "caught_by_its_property")}, indent=1))
    for p, d in details.items():
        for l in d:
            print("  ", p, l[:300])


if __name__ == "__main__":
    main()
