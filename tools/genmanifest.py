#!/usr/bin/env python3
"""Regenerates /verif/MANIFEST.json from the table below (kept in one place so that it stays valid)."""
import json, os
HERE = os.path.dirname(os.path.dirname(os.path.abspath(__file__)))

CLAIMED = {
 "C02": dict(technique="SSA dominance/guard analysis, provenance slicing and must-lockset over rbc and threshold",
             text="Sound static decision of named structural necessary conditions of RBC agreement (no self-vouching, N-1 quorum in linear normal form, conflicting digest halts, receiver-side classification and digest, participant filter, serialised instance). The agreement argument itself is not decided. Also decided: the receiver's records are permanent (no delete from the pin/reception tables or voucher sets, tables replaced only when nil, flags only set).",
             design="§4 C02"),
 "C03": dict(technique="SSA dominance/guard analysis with calling contexts, test-and-set pattern, counting-argument premises, provenance over rbc and threshold",
             text="Sound static decision of structural necessary conditions of RBC integrity: hand-over at most once (test-and-set on the reception entry), never nil (local guard or re-checked counting premises), self vouches only on direct receipt attributed to the transport source, point-to-point pass-through, receiver-side digest, participant filter, quorum. Behaviour under concrete schedules is not decided. Also decided: the receiver's records are permanent (a pin removed at delivery would let a second payload of the same sender and round be handed over).",
             design="§4 C03"),
 "C04": dict(technique="table extraction from SSA/AST (ClassifyMsg switch, adapter map literals under the classifier's normalisation), writer/reader agreement per send site, context-pruned dominance guards and post-dominator control dependence of unregistered exits on rbc",
             text="Sound static decision of the table clauses of RBC totality (distinct broadcast rounds <=127 per phase for all four backends; sender-side class constant equals receiver-side class at every BLS/PS send site) and of five structural guards (acks about own messages dropped, early acks parked, p2p pass-through, registration under the local classifier's round and class, and no exit of Receive/registerMsg that skips registration other than the enumerated drop reasons or a test of the message alone, decided by control dependence). Exactly-once delivery under every interleaving is not decided. Also decided: every payload handed to Scheme.Send is built in a buffer of its own invocation (no scratch buffer shared across sends, which Send's queues would let the next message overwrite).",
             design="§4 C04"),
 "C16": dict(technique="SSA dominance of the seven authentication guards over every success return, provenance slicing of VerifyASN1 operands and lookup key, store/call ordering for signature blanking, who-may-send on the message channel",
             text="Sound static decision of the full structure of transport attribution: seven guards dominate success, key/digest/signature/lookup-key/returned-id provenance, blanking order, single attributed sender. Cryptographic primitives and TLS exporter uniqueness are trusted.",
             design="§4 C16"),
 "C19": dict(technique="table extraction from the adapters' AST and from the resolved tss-lib source (registry lists, protobuf descriptors, MessageRouting literals), SSA guards and provenance for sender/digest binding",
             text="Sound static decision that the adapters' tables equal tss-lib's registered message types and routing classes, that broadcast rounds are distinct per phase, that classification derives from the received type URL only, that the hand-over is dominated by claimed==from, that the seat index a message is attributed to comes from a lookup that returns a seat only for the party whose key equals the transport sender's, and Sign's success by the digest comparison. The digest compared is the requested one through big.Int only (no padding/truncating helper).",
             design="§4 C19"),
 "C13": dict(technique="byte-lane abstract interpretation of SSA (encoder layout vs decoder layout), lane completeness of hashed identifiers, ASN.1 marshal/unmarshal type pairing, copy completeness by linear arithmetic over lengths",
             text="Sound static decision that both hand-written codecs agree lane by lane for every 16-bit identifier, round and digest region, that id hashing covers both bytes and that stored data/public parameters are (un)marshalled as identical struct types with id fields >= 16 bits. Completion of sessions with large ids as behaviour is not decided. Also decided: no identifier is compared with a constant strictly inside the 16-bit range.",
             design="§4 C13"),
 "C17": dict(technique="byte-lane layout comparison writer/reader, byte-stream content of the writer per success path (segments through append / scratch buffers, copy completeness by linear arithmetic over lengths and guards), SSA dominance for the size limit, who-may-call/who-may-write for the single writer (write helpers recognised by their contract), panic reachability from the sending side, failure-arm pairing per invocation, dequeue-to-write path search",
             text="Sound static decision of frame layout agreement (type, 32-bit little-endian length, 5-byte prefix, 32-byte topic, payload), that on every success path of send the bytes written are the whole header followed by the whole payload, the size limit on the wire-sized allocation, the single writer per connection, absence of peer-induced panics on the sending side, a dequeued message is written before the next one is taken, connection reset on failed writes and no further write after a failed one. Delivery behaviour and fairness are not decided.",
             design="§4 C17"),
 "C05": dict(technique="SSA ordering/dominance (wait outcome honoured up to KeyGen, reveal after successful commitment wait), linear normal forms of wait thresholds, same-key comparison provenance, first-value-wins guards, sibling cross-check of BLS and PS",
             text="Sound static decision of structural necessary conditions of DKG robustness for the built-in BLS and PS backends: expiry reported and honoured, reveal only after all commitments, thresholds n-1/n-1/n, the commitment is a proper SHA-256 digest of the committed key on the sending and on the validating side, commitment and t-subset cross-checks dominate success, commit/reveal broadcast-class on both sides, first value per peer wins, PS vector lengths validated. Algebraic usability of the shares is not decided.",
             design="§4 C05"),
 "C11": dict(technique="SSA all-exits path search with the Synchronize continuation axiom, select-arm analysis, wait-outcome propagation, must-lockset for the monitor, reachability audit of explicit panics against a frozen reason table",
             text="Sound static decision of structural necessary conditions of clean failure: every continuation path reports on the buffered result channel, the API blocks only in a select with a ctx.Done() arm returning an error, BLS/PS waits report expiry and are honoured, the context monitor is armed and signals under the lock, every Cond.Wait parks only after a context check re-evaluated on every cycle, every explicit panic reachable from KeyGen/Sign has a recorded reason, adapter loops watch ctx.Done(). Promptness, tss-lib internals and goroutine leaks are not decided.",
             design="§4 C11"),
 "C12": dict(technique="SSA register/release pairing on all exits (same table, same key root through parameters and captured cells, deferred calls, continuation axiom), critical-section identity from must-locksets, found-arm guards, who-may-write table for Scheme fields",
             text="Sound static decision of structural necessary conditions of residue freedom: every registration into the handler tables / dkgRunning is released on all exits of the registering function or by a deferred release armed in the API entry after the successful outcome of its own admission; refuse-and-insert is one exclusive critical section and nothing is inserted on the refused arm; dispatch only on the found arm; no per-session state stored in Scheme fields; every table key and wire topic of code reached only from Sign derives from Sign's topic parameter (sessions on different topics cannot share a slot). Registrations by a continuation that outlives the API call are a documented limitation.",
             design="§4 C12"),
 "C01": dict(technique="barrier-depth computation over closures/continuations and the channel-closed-in-continuation idiom, happens-before through closure creation sites and static callers, provenance of the second barrier's members/topic/count, structural wiring check of SilentScheme",
             text="Sound static decision of the orchestration clauses necessary for correctness under every delivery order: protocol start at barrier depth >= 2, handlers/classifier/Init in place before the second barrier opens, share data loaded into the session's instance only after its Init, second barrier over the agreed list, counts (Threshold+1, RBC size), silent-mode wiring. The threshold algebra and byte-identity of outputs are numerical and not decided. Also decided: aggregation loops over a re-sliced slice do not index the original slice with their loop index (the one loop shape that silently breaks Lagrange products from three points on).",
             design="§4 C01"),
 "C06": dict(technique="typed backward walk (qualifier inference) over 16-bit carriers seeded by the named id types and closure-parameter roles; provenance slicing of point-to-point destinations; dominance guards in the duplicate check",
             text="Sound static decision of the full structure of id translation: party ids at the backend boundary (Init, OnMsg, factories), node ids at the synchroniser, no relabelling conversions, session-dependent point-to-point destination, party->node maps keyed by a value computed from the node stored, duplicate party refused, sorted result, Init's list from the checked translation. Also decided: the node->party table is filled unconditionally for every configured node.",
             design="§4 C06"),
 "C07": dict(technique="SSA path/dominance analysis of continuation-iff-success for both synchronisers, guards on tag ownership, linear/phi analysis of view and confirmation counting, LoadOrStore arm guard, sort-before-use, tag table provenance",
             text="Sound static decision of structural necessary conditions of membership synchronisation: continuation iff nil return, tag must belong to the authenticated sender, exact-size and identical-list counting guards, one confirmation per peer, sorted output, complete tag table. Agreement under lying members/interleavings and timely completion are not decided.",
             design="§4 C07"),
 "C09": dict(technique="freshness (ownership) analysis of mathlib mutator receivers over SSA, store-target analysis on verification paths, dominance of share uses by the proof check, provenance of Fiat-Shamir oracle operands, error-propagation analysis",
             text="Sound static decision of structural necessary conditions of 'verification rejects altered input and is side-effect free': mutators only on fresh objects, no stores into inputs, proof checked before the share is used, every group-element operand of every Fiat-Shamir oracle (found by role, also through parameter objects) bound by the challenge and every equation fed by it, every inner verdict/parse error returned, every ciphertext vector of a blinded request read element-wise by a per-index equation of the request proof whose failure is returned, BLS aggregation through the party->point table. Soundness of the pairing equations is algebra and not decided.",
             design="§4 C09"),
 "C14": dict(technique="must-lockset analysis with critical-section identity (decide-and-store, mark+snapshot+delete, mark+sweep), calling contexts, provenance of the drained snapshot, ordering of the drain against the started mark",
             text="Sound static decision of the atomicity and ordering conditions necessary for exactly-once, in-order hand-off across the first-send race: decision and store in one exclusive section, Send's mark/snapshot/delete in one section, mark and sweep in one section, drain of exactly the snapshot after the mark, the started mark stamped with the epoch counter as just read (so the collection ending the same Send cannot sweep it). The remaining ordering condition (drain vs. direct forwarding) is violated by the current design and recorded as a known finding. Interleavings are not enumerated.",
             design="§4 C14"),
 "C15": dict(technique="SSA dominance of limit guards with calling contexts, critical-section identity for counter/append and bookkeeping release, construction-site check for the logger, clock-domain inference over provenance slices, direction check of the GC guard",
             text="Sound static decision of structural necessary conditions of boundedness and resource release: limits dominate appends and bookkeeping creation, shedding cannot fail, bookkeeping is entered only together with a buffered message, every buffered message is entered into it, and it is released with every buffer deletion, no comparison mixes clock domains, the GC guard cannot disable collection, lastGC and the started marks are set to the epoch as just read. Quantitative bounds under concurrency are not decided.",
             design="§4 C15"),
 "C20": dict(technique="interprocedural must-lockset analysis (mutex-field abstraction, defer-aware, synchronous-callback inheritance) against a frozen guarded-by table with per-function exemptions justified by publication-ordering rules; atomic-only access; type classification of synchroniser state",
             text="Sound static decision that every access to the guarded fields of Scheme, TBLS, TPS, Box and storedMessages holds its lock in sufficient mode, that backend Init/SetShareData happen before the handler is published, that epoch counters are accessed only atomically and that the synchroniser's shared state is sync.Map/channels. Memory outside these types is not decided.",
             design="§4 C20"),
 "C10": dict(technique="reachability closure from the network entry points (static calls, closures, VTA call graph, consumers of stored state), enumeration of panic-capable constructs using the Go compiler's prove pass as bounds oracle, discharge by dominating length guards with calling contexts and length arithmetic, structural checks (sync.Map value types, map/field initialisation and no reset to nil, allocation bounds) and a frozen reason table",
             text="Sound static decision that every panic-capable construct (unproven bounds checks, unchecked assertions, explicit panics, nil map stores, nil func/interface field calls, wire-sized allocations, divisions, exit calls, dispatcher-path sends) in the closure reachable from the network is discharged by a dominating guard or a recorded reason. Hangs in general, dependency internals and CPU exhaustion are not decided. The premise of the frozen reason for the synchroniser's blocking response send (channel capacity = len(Membership)-1) is decided on every run.",
             design="§4 C10"),
}
NOT_APPLICABLE = {
 "C08": "completeness of blind/sign/unblind/PoK is an algebraic identity over runtime group elements; no clause is visible in the shape of the code (DESIGN.md §4 C08)",
 "C18": "Lagrange reconstruction and completeness of k-subset enumeration are numerical/algorithmic identities over runtime values; the only structural clauses are decided under C05 (DESIGN.md §4 C18)",
}
PENDING = "check not built yet in this session (see DESIGN.md for the planned rules); not claimed until it is"
ALL = ["C%02d" % i for i in range(1, 21)]

checks = []
for pid in ALL:
    if pid in CLAIMED:
        c = CLAIMED[pid]
        checks.append({
            "property_id": pid,
            "quick_cmd": "./check.sh %s quick" % pid,
            "thorough_cmd": "./check.sh %s thorough" % pid,
            "evidence_file": "/verif/evidence/%s.json" % pid,
            "replay_cmd_template": "./bin/tsscheck -replay {path}",
            "engine": "tsscheck",
            "level_claimed": {"category": "other", "text": c["text"], "design_ref": c["design"]},
            "level_note": "Trusted: go/types, go/ssa, go/packages (x/tools v0.29.0), the Go compiler's prove pass where cited, the frozen tables in the checker source, and the library contracts listed under assumptions in the evidence file. Decides structure, not behaviour.",
            "technique": "static analysis: " + c["technique"],
        })
na = []
for pid in ALL:
    if pid in CLAIMED:
        continue
    na.append({"property_id": pid, "reason": NOT_APPLICABLE.get(pid, PENDING)})

manifest = {
 "version": 1,
 "setup_cmd": "cd /verif/checker && GOFLAGS=-mod=mod GOPROXY=off GOSUMDB=off GOTOOLCHAIN=local go build -o /verif/bin/tsscheck .",
 "hooks": {"guard": "verif", "enable": "none needed: static analysis reads the unmodified source (the build tag 'verif' is reserved and unused)",
           "baseline_off_cmd": "/verif/baseline.sh", "source_commits": [], "add_only": True},
 "engines": [{"name": "tsscheck", "path": "/verif/checker", "serves_properties": sorted(CLAIMED),
              "kind_free_text": "bespoke static analyser over go/packages + go/ssa (x/tools v0.29.0): dominance guards, provenance slices, ordering on all exits, must-locksets, table extraction, byte-lane layouts, panic-site closure"}],
 "checks": checks,
 "not_applicable": na,
 "notes": "All checks are static: they load /repo's working tree with go/packages, build SSA and decide rule instances; nothing of IBM/TSS is executed. Thorough tier additionally re-runs the analysis on single-site mutants of a scratch copy (evidence about the checker only).",
}
with open(os.path.join(HERE, "MANIFEST.json"), "w") as f:
    json.dump(manifest, f, indent=1)
    f.write("\n")
print("claimed:", sorted(CLAIMED), "n/a:", len(na))

# textual rendering of the known-findings file (the JSON is what the checker reads)
kf = json.load(open(os.path.join(HERE, "known_findings.json")))
with open(os.path.join(HERE, "KNOWN_FINDINGS.txt"), "w") as f:
    f.write("# generated from known_findings.json by tools/genmanifest.py — one line per entry\n")
    for e in kf["findings"]:
        f.write(e["line"] + "\n")
