#!/usr/bin/env python3
"""Evaluate a behaviour-preserving refactoring (a unified diff against /repo's HEAD).

usage: refeval.py <id> <diff-file> "<title>" [--notes <file>]

1. applies the diff to a scratch copy of /repo (under $TMPDIR, removed afterwards),
2. confirms that the touched modules still build and that their existing tests pass,
3. runs EVERY registered quick check against the scratch copy: any alarm is a false alarm,
4. stores /verif/benign/<id>/{patch.diff, meta.json}.
"""
import json, os, shutil, subprocess, sys, tempfile

ENV = dict(os.environ, GOFLAGS="-mod=mod", GOPROXY="off", GOSUMDB="off", GOTOOLCHAIN="local")
ENV.pop("GOWORK", None)
MODULES = ["mpc/binance/ecdsa", "mpc/binance/eddsa", "mpc/bls", "mpc/ps", "test", "."]
PROPS_BY_DIR = {
    "threshold": ["C01", "C02", "C03", "C04", "C06", "C10", "C11", "C12", "C13", "C20"],
    "rbc": ["C02", "C03", "C04", "C10", "C20"],
    "disc": ["C01", "C07", "C10", "C13", "C20"],
    "msg": ["C10", "C14", "C15", "C20"],
    "net": ["C10", "C16", "C17", "C20"],
    "mpc/bls": ["C04", "C05", "C09", "C10", "C11", "C13", "C20"],
    "mpc/ps": ["C04", "C05", "C09", "C10", "C11", "C13", "C20"],
    "mpc/binance/eddsa": ["C04", "C10", "C11", "C19"],
    "mpc/binance/ecdsa": ["C04", "C10", "C11", "C19"],
}


def sh(cmd, cwd=None, timeout=3600):
    p = subprocess.run(cmd, shell=True, cwd=cwd, env=ENV, stdout=subprocess.PIPE, stderr=subprocess.STDOUT, timeout=timeout, text=True, errors="replace")
    return p.returncode, p.stdout


def module_of(path):
    for m in MODULES:
        if m != "." and path.startswith(m + "/"):
            return m
    return "."


def main():
    rid, diff, title = sys.argv[1], sys.argv[2], sys.argv[3]
    notes = ""
    if "--notes" in sys.argv:
        notes = open(sys.argv[sys.argv.index("--notes") + 1]).read()
    out = os.path.join("/verif/benign", rid)
    tmp = tempfile.mkdtemp(prefix="refchk-")
    try:
        repo = os.path.join(tmp, "repo")
        sh(f"rsync -a --exclude .git /repo/ {repo}/")
        rc, o = sh(f"patch -p1 -s -i {diff}", cwd=repo)
        if rc != 0:
            print("patch does not apply:", o[-400:])
            sys.exit(2)
        files = [l[6:].strip() for l in open(diff) if l.startswith("+++ b/")]
        mods = sorted({module_of(f) for f in files})
        tests_ok = True
        ran = []
        for m in mods:
            rc, o = sh("go build ./... && go test -vet=off -count=1 -timeout 25m ./...", cwd=os.path.join(repo, m))
            ran.append({"cmd": f"cd {m} && go build ./... && go test -vet=off -count=1 ./...", "exit": rc, "tail": o.strip().splitlines()[-3:]})
            tests_ok = tests_ok and rc == 0
        ev = os.path.join(tmp, "verif")
        os.makedirs(ev)
        shutil.copy("/verif/known_findings.json", ev)
        man = json.load(open("/verif/MANIFEST.json"))
        alarms, details = [], {}
        for chk in man["checks"]:
            pid = chk["property_id"]
            rc2, o2 = sh(f"/verif/bin/tsscheck -property {pid} -tier quick -repo {repo} -verif {ev}", cwd="/verif")
            if rc2 != 0:
                alarms.append(pid)
                details[pid] = [l.strip()[:500] for l in o2.splitlines() if "VIOLATED" in l or "UNDECIDED" in l or "ANALYSIS-FAILURE" in l or "load:" in l][:5]
    finally:
        shutil.rmtree(tmp, ignore_errors=True)
    props = sorted({p for f in files for d, ps in PROPS_BY_DIR.items() if f.startswith(d + "/") for p in ps})
    os.makedirs(out, exist_ok=True)
    shutil.copy(diff, os.path.join(out, "patch.diff"))
    meta = {"id": rid, "note": title, "properties": props, "property": props[0] if props else "", "files": files,
            "tests_pass_with_change": tests_ok, "ran": ran, "alarms_at_evaluation": alarms, "alarm_details": details, "author_argument": notes}
    json.dump(meta, open(os.path.join(out, "meta.json"), "w"), indent=1)
    print(json.dumps({"id": rid, "files": files, "tests_pass": tests_ok, "alarms": alarms}, indent=1))
    for p, d in details.items():
        for l in d:
            print("  ", p, l[:400])


if __name__ == "__main__":
    main()
