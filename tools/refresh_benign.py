#!/usr/bin/env python3
"""Re-run the registered quick checks on stored behaviour-preserving patches and refresh their verdicts.

usage: refresh_benign.py <id-prefix> [<id-prefix> ...]      (e.g. ref3- ref4-backends-2)

For every /verif/benign/<id>/ whose id starts with one of the prefixes: applies patch.diff to a scratch
copy of /repo (under $TMPDIR, removed afterwards), runs the quick check of every property listed in the
patch's meta.json (`properties`) and rewrites `alarms_at_evaluation` / `alarm_details`.  The verdict of
the first evaluation is kept once under `first_alarms`.  The tests of the patched tree are not re-run
(tools/refeval.py did that when the patch was stored).  Never touches /repo.
"""
import glob, json, os, shutil, subprocess, sys, tempfile
from concurrent.futures import ThreadPoolExecutor

ENV = dict(os.environ, GOFLAGS="-mod=mod", GOPROXY="off", GOSUMDB="off", GOTOOLCHAIN="local")
ENV.pop("GOWORK", None)


def sh(cmd, cwd=None):
    p = subprocess.run(cmd, shell=True, cwd=cwd, env=ENV, stdout=subprocess.PIPE, stderr=subprocess.STDOUT, text=True, errors="replace")
    return p.returncode, p.stdout


def one(mp):
    meta = json.load(open(mp))
    d = os.path.dirname(mp)
    tmp = tempfile.mkdtemp(prefix="refresh-")
    try:
        repo = os.path.join(tmp, "repo")
        sh(f"rsync -a --exclude .git /repo/ {repo}/")
        rc, o = sh(f"patch -p1 -s -i {d}/patch.diff", cwd=repo)
        if rc != 0:
            return meta["id"], None, "patch does not apply: " + o[-200:]
        ev = os.path.join(tmp, "verif")
        os.makedirs(ev)
        shutil.copy("/verif/known_findings.json", ev)
        if os.path.exists("/verif/anchors.json"):
            shutil.copy("/verif/anchors.json", ev)
        alarms, details = [], {}
        for pid in meta.get("properties") or [meta.get("property")]:
            rc2, o2 = sh(f"/verif/bin/tsscheck -property {pid} -tier quick -repo {repo} -verif {ev}", cwd="/verif")
            if rc2 != 0:
                alarms.append(pid)
                details[pid] = [l.strip()[:500] for l in o2.splitlines() if "VIOLATED" in l or "UNDECIDED" in l or "ANALYSIS-FAILURE" in l or "load:" in l][:5]
    finally:
        shutil.rmtree(tmp, ignore_errors=True)
    if "first_alarms" not in meta:
        meta["first_alarms"] = meta.get("alarms_at_evaluation", [])
    meta["alarms_at_evaluation"] = alarms
    meta["alarm_details"] = details
    json.dump(meta, open(mp, "w"), indent=1)
    return meta["id"], alarms, ""


def main():
    pre = sys.argv[1:]
    mps = [mp for mp in sorted(glob.glob("/verif/benign/*/meta.json")) if any(os.path.basename(os.path.dirname(mp)).startswith(p) for p in pre)]
    with ThreadPoolExecutor(max_workers=4) as ex:
        for rid, alarms, err in ex.map(one, mps):
            print(rid, "ERROR " + err if alarms is None else ("silent" if not alarms else "ALARM " + ",".join(alarms)))


if __name__ == "__main__":
    main()
