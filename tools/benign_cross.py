#!/usr/bin/env python3
"""Cross-check for false alarms: apply every behaviour-preserving variant (benign mutants of all
properties, plus the patches under /verif/benign/*/patch.diff) to a scratch copy of /repo and run
EVERY registered quick check against it.  Any non-zero exit is a false alarm.

usage: benign_cross.py [-j N] [--only <id-substring>]
Scratch copies live under $TMPDIR and are removed as soon as a variant is done.
"""
import glob, json, os, shutil, subprocess, sys, tempfile
from concurrent.futures import ThreadPoolExecutor

ENV = dict(os.environ, GOFLAGS="-mod=mod", GOPROXY="off", GOSUMDB="off", GOTOOLCHAIN="local")
ENV.pop("GOWORK", None)
VERIF = "/verif"
REPO = os.environ.get("TSS_REPO", "/repo")


def variants():
    out = []
    for f in sorted(glob.glob(f"{VERIF}/mutants/C*.json")):
        for x in json.load(open(f)):
            if x.get("benign"):
                out.append(("mutant", x))
    for d in sorted(glob.glob(f"{VERIF}/benign/*/patch.diff")):
        out.append(("patch", {"id": os.path.basename(os.path.dirname(d)), "patch": d}))
    return out


def run_one(kind, v, props):
    tmp = tempfile.mkdtemp(prefix="benign-")
    try:
        repo = os.path.join(tmp, "repo")
        subprocess.run(["rsync", "-a", "--exclude", ".git", REPO + "/", repo + "/"], check=True)
        if kind == "patch":
            p = subprocess.run(["patch", "-p1", "-s", "-i", v["patch"]], cwd=repo, capture_output=True, text=True)
            if p.returncode != 0:
                return v["id"], "stale", [p.stdout[-300:]]
        else:
            edits = [v] + v.get("more", [])
            for e in edits:
                t = os.path.join(repo, e["file"])
                s = open(t).read()
                if s.count(e["old"]) != 1:
                    return v["id"], "stale", ["anchor text not found exactly once in " + e["file"]]
                open(t, "w").write(s.replace(e["old"], e["new"], 1))
        ev = os.path.join(tmp, "verif")
        os.makedirs(ev)
        shutil.copy(f"{VERIF}/known_findings.json", ev)
        alarms = []
        for pid in props:
            p = subprocess.run([f"{VERIF}/bin/tsscheck", "-property", pid, "-tier", "quick", "-repo", repo, "-verif", ev],
                               cwd=VERIF, env=ENV, stdout=subprocess.PIPE, stderr=subprocess.STDOUT, text=True, errors="replace")
            if p.returncode != 0:
                lines = [l.strip()[:500] for l in p.stdout.splitlines() if "VIOLATED" in l or "UNDECIDED" in l or "ANALYSIS-FAILURE" in l or "load:" in l][:4]
                alarms.append(pid + ": " + " | ".join(lines))
        return v["id"], ("false-alarm" if alarms else "silent"), alarms
    finally:
        shutil.rmtree(tmp, ignore_errors=True)


def main():
    j = 4
    only = None
    a = sys.argv[1:]
    while a:
        if a[0] == "-j":
            j = int(a[1]); a = a[2:]
        elif a[0] == "--only":
            only = a[1]; a = a[2:]
        else:
            a = a[1:]
    man = json.load(open(f"{VERIF}/MANIFEST.json"))
    props = [c["property_id"] for c in man["checks"]]
    vs = [(k, v) for k, v in variants() if not only or only in v["id"]]
    bad = 0
    with ThreadPoolExecutor(max_workers=j) as ex:
        for vid, status, details in ex.map(lambda kv: run_one(kv[0], kv[1], props), vs):
            print(f"{vid:45s} {status}")
            for d in details:
                print("    ", d)
            if status != "silent":
                bad += 1
            sys.stdout.flush()
    print(f"{len(vs)} behaviour-preserving variant(s) x {len(props)} checks: {bad} with an alarm or stale")
    sys.exit(1 if bad else 0)


if __name__ == "__main__":
    main()
