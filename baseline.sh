#!/bin/sh
# Runs the repository's pinned test suite with the (unused) guard off — the same command as /root/.vp/BASELINE.json.
export GOFLAGS=-mod=mod GOPROXY=off GOSUMDB=off
unset GOWORK
rc=0
for m in . mpc/binance/ecdsa mpc/binance/eddsa mpc/bls mpc/ps test; do
  (cd /repo/$m && go test -mod=mod -json -vet=off -count=1 -timeout 25m ./...) || rc=1
done
exit $rc
