package main

// Rename-tolerant anchors.
//
// Rules name the unexported functions, fields and types of /repo they are about.  Renaming such an
// identifier changes no behaviour, so it must not make a check fail.  Every anchor that resolves by
// name on the reference tree has a structural fingerprint recorded in /verif/anchors.json (written by
// `tsscheck -learn-anchors`, committed).  At run time a name that no longer resolves is looked up by
// fingerprint among the declarations of the same package: a named type by the shape of its underlying
// type, a field by its owner, type shape and ordinal among the owner's fields of that shape, a function
// by receiver, signature shape and the set of things its body touches (external callees, field shapes
// read and written, constants).  Only a UNIQUE sufficiently similar candidate is accepted; otherwise the
// anchor stays unresolved and the check fails as before.  A fingerprint never decides a property: it
// only says which declaration a rule is talking about.

import (
	"encoding/json"
	"fmt"
	"go/types"
	"os"
	"path/filepath"
	"sort"
	"strings"

	"golang.org/x/tools/go/ssa"
)

type anchorFP struct {
	Kind  string   `json:"kind"` // type | field | func
	Pkg   string   `json:"pkg"`
	Owner string   `json:"owner,omitempty"` // field: struct type; func: receiver type ("" for functions)
	Name  string   `json:"name"`
	Shape string   `json:"shape"`             // type: underlying shape; field: type shape; func: signature shape
	Ord   int      `json:"ord,omitempty"`     // field: ordinal among the owner's fields of the same shape
	Feat  []string `json:"feat,omitempty"`    // func: body features
	NMeth int      `json:"nmeth,omitempty"`   // type: number of methods
	Meths []string `json:"methods,omitempty"` // type: exported method names
}

var (
	anchorTable   map[string]*anchorFP
	anchorLearn   bool
	anchorLearned = map[string]*anchorFP{}
	anchorDir     string
	anchorNotes   []string // fallbacks taken in this run (reported in the evidence)
)

func anchorKey(kind, pkg, owner, name string) string {
	return kind + "|" + pkg + "|" + owner + "|" + name
}

func loadAnchorTable(verifDir string) {
	anchorDir = verifDir
	if anchorTable != nil {
		return
	}
	anchorTable = map[string]*anchorFP{}
	b, err := os.ReadFile(filepath.Join(verifDir, "anchors.json"))
	if err != nil {
		// scratch evidence directories of the mutant harness: fall back to the installed table
		b, err = os.ReadFile("/verif/anchors.json")
		if err != nil {
			return
		}
	}
	var list []*anchorFP
	if json.Unmarshal(b, &list) != nil {
		return
	}
	for _, a := range list {
		anchorTable[anchorKey(a.Kind, a.Pkg, a.Owner, a.Name)] = a
	}
}

func saveLearnedAnchors(verifDir string) error {
	// merge with the existing table (a learn run of one property must not drop the others' anchors)
	merged := map[string]*anchorFP{}
	if b, err := os.ReadFile(filepath.Join(verifDir, "anchors.json")); err == nil {
		var list []*anchorFP
		if json.Unmarshal(b, &list) == nil {
			for _, a := range list {
				merged[anchorKey(a.Kind, a.Pkg, a.Owner, a.Name)] = a
			}
		}
	}
	for k, a := range anchorLearned {
		merged[k] = a
	}
	var keys []string
	for k := range merged {
		keys = append(keys, k)
	}
	sort.Strings(keys)
	var list []*anchorFP
	for _, k := range keys {
		list = append(list, merged[k])
	}
	b, err := json.MarshalIndent(list, "", " ")
	if err != nil {
		return err
	}
	return os.WriteFile(filepath.Join(verifDir, "anchors.json"), b, 0o644)
}

// ---------------------------------------------------------------------------
// shapes

// shapeOf renders a type with own unexported named types replaced by the shape of their underlying type
// (so that renaming them changes nothing), exported and foreign names kept.
func shapeOf(t types.Type, depth int) string {
	if depth > 4 {
		return "…"
	}
	t = types.Unalias(t) // `type point = int64` is int64
	switch x := t.(type) {
	case *types.Named:
		o := x.Obj()
		if o.Pkg() != nil && ownPkgPath(o.Pkg().Path()) && !o.Exported() {
			return "‹" + shapeOf(x.Underlying(), depth+1) + "›"
		}
		if o.Pkg() != nil {
			return o.Pkg().Name() + "." + o.Name()
		}
		return o.Name()
	case *types.Pointer:
		return "*" + shapeOf(x.Elem(), depth)
	case *types.Slice:
		return "[]" + shapeOf(x.Elem(), depth)
	case *types.Array:
		return fmt.Sprintf("[%d]%s", x.Len(), shapeOf(x.Elem(), depth))
	case *types.Map:
		return "map[" + shapeOf(x.Key(), depth) + "]" + shapeOf(x.Elem(), depth)
	case *types.Chan:
		return "chan " + shapeOf(x.Elem(), depth)
	case *types.Struct:
		var fs []string
		for i := 0; i < x.NumFields(); i++ {
			f := x.Field(i)
			n := ""
			if f.Exported() {
				n = f.Name() + " "
			}
			if f.Embedded() {
				n = "embedded "
			}
			fs = append(fs, n+shapeOf(f.Type(), depth+1))
		}
		return "struct{" + strings.Join(fs, "; ") + "}"
	case *types.Signature:
		return sigShape(x, depth)
	case *types.Interface:
		var ms []string
		for i := 0; i < x.NumMethods(); i++ {
			ms = append(ms, x.Method(i).Name())
		}
		return "interface{" + strings.Join(ms, ",") + "}"
	case *types.Tuple:
		var ps []string
		for i := 0; i < x.Len(); i++ {
			ps = append(ps, shapeOf(x.At(i).Type(), depth))
		}
		return "(" + strings.Join(ps, ",") + ")"
	}
	return t.String()
}

func sigShape(s *types.Signature, depth int) string {
	v := ""
	if s.Variadic() {
		v = "…"
	}
	return "func" + shapeOf(s.Params(), depth+1) + v + shapeOf(s.Results(), depth+1)
}

// ---------------------------------------------------------------------------
// fingerprints

func (m *Module) typeFP(pkg string, n *types.Named) *anchorFP {
	fp := &anchorFP{Kind: "type", Pkg: pkg, Name: n.Obj().Name(), Shape: shapeOf(n.Underlying(), 0)}
	fp.NMeth = n.NumMethods()
	for i := 0; i < n.NumMethods(); i++ {
		if n.Method(i).Exported() {
			fp.Meths = append(fp.Meths, n.Method(i).Name())
		}
	}
	sort.Strings(fp.Meths)
	return fp
}

func (m *Module) fieldFP(pkg, owner string, st *types.Struct, f *types.Var) *anchorFP {
	fp := &anchorFP{Kind: "field", Pkg: pkg, Owner: owner, Name: f.Name(), Shape: shapeOf(f.Type(), 0)}
	for i := 0; i < st.NumFields(); i++ {
		if st.Field(i) == f {
			break
		}
		if shapeOf(st.Field(i).Type(), 0) == fp.Shape {
			fp.Ord++
		}
	}
	return fp
}

// funcFeatures: what the body touches, in a rename-independent vocabulary.
func funcFeatures(fn *ssa.Function) []string {
	set := map[string]bool{}
	var walk func(f *ssa.Function)
	walk = func(f *ssa.Function) {
		for _, b := range f.Blocks {
			for _, in := range b.Instrs {
				switch x := in.(type) {
				case ssa.CallInstruction:
					cc := x.Common()
					if cc.IsInvoke() {
						set["invoke "+cc.Method.Name()] = true
					} else if o := calleeObj(cc); o != nil && o.Pkg() != nil {
						if !ownPkgPath(o.Pkg().Path()) || o.Exported() {
							recv := ""
							if sig, ok := o.Type().(*types.Signature); ok && sig.Recv() != nil {
								recv = shapeOf(sig.Recv().Type(), 3) + "."
							}
							set["call "+o.Pkg().Name()+"."+recv+o.Name()] = true
						} else {
							set["owncall "+sigShape(o.Type().(*types.Signature), 2)] = true
						}
					} else if bi, ok := cc.Value.(*ssa.Builtin); ok {
						set["builtin "+bi.Name()] = true
					}
					switch in.(type) {
					case *ssa.Go:
						set["go"] = true
					case *ssa.Defer:
						set["defer"] = true
					}
				case *ssa.FieldAddr:
					fld := fieldOfAddr(x)
					acc := "field "
					if refs := x.Referrers(); refs != nil {
						for _, r := range *refs {
							if st, ok := r.(*ssa.Store); ok && st.Addr == ssa.Value(x) {
								acc = "wfield "
							}
						}
					}
					n := ""
					if fld.Exported() {
						n = fld.Name() + ":"
					}
					set[acc+n+shapeOf(fld.Type(), 2)] = true
				case *ssa.MapUpdate:
					set["mapupdate "+shapeOf(x.Map.Type(), 2)] = true
				case *ssa.Lookup:
					set["lookup "+shapeOf(x.X.Type(), 2)] = true
				case *ssa.Panic:
					set["panic"] = true
				case *ssa.Select:
					set["select"] = true
				case *ssa.Send:
					set["send"] = true
				case *ssa.MakeClosure:
					walk(x.Fn.(*ssa.Function))
				case *ssa.Return:
					set[fmt.Sprintf("return/%d", len(x.Results))] = true
				}
				for _, op := range in.Operands(nil) {
					if op == nil || *op == nil {
						continue
					}
					if k, ok := (*op).(*ssa.Const); ok && k.Value != nil && k.Value.Kind().String() == "String" {
						s := k.Value.ExactString()
						if len(s) > 40 {
							s = s[:40]
						}
						set["str "+s] = true
					}
				}
			}
		}
	}
	walk(fn)
	var out []string
	for k := range set {
		out = append(out, k)
	}
	sort.Strings(out)
	return out
}

func (m *Module) funcFP(pkg, recv string, fn *ssa.Function) *anchorFP {
	return &anchorFP{Kind: "func", Pkg: pkg, Owner: recv, Name: fn.Name(), Shape: sigShape(fn.Signature, 0), Feat: funcFeatures(fn)}
}

func jaccard(a, b []string) float64 {
	sa := map[string]bool{}
	for _, x := range a {
		sa[x] = true
	}
	inter, union := 0, len(sa)
	for _, x := range b {
		if sa[x] {
			inter++
		} else {
			union++
		}
	}
	if union == 0 {
		return 1
	}
	return float64(inter) / float64(union)
}

// ---------------------------------------------------------------------------
// recording and fallback

func (m *Module) learnType(pkg string, n *types.Named) {
	if !anchorLearn || n == nil || n.Obj().Exported() {
		return
	}
	fp := m.typeFP(pkg, n)
	anchorLearned[anchorKey("type", pkg, "", fp.Name)] = fp
}

func (m *Module) learnField(pkg, owner string, st *types.Struct, f *types.Var) {
	if !anchorLearn || f == nil || f.Exported() {
		return
	}
	fp := m.fieldFP(pkg, owner, st, f)
	anchorLearned[anchorKey("field", pkg, owner, fp.Name)] = fp
}

func (m *Module) learnFunc(pkg, recv, name string, fn *ssa.Function) {
	if !anchorLearn || fn == nil || (fn.Object() != nil && fn.Object().Exported()) {
		return
	}
	fp := m.funcFP(pkg, recv, fn)
	fp.Name = name
	anchorLearned[anchorKey("func", pkg, recv, name)] = fp
}

// renamedBack: current identifier → the name it has on the reference tree (for keys of frozen tables
// that mention unexported identifiers: reasons, classifications).
var renamedBack = map[string]string{}

// renamedKind: what kind of declaration a renamed word names — a word is mapped back only where a name
// of that kind can stand (a field `msg` must not rewrite the package qualifier in `msg.Box`).
var renamedKind = map[string]string{}

// nameBack rewrites identifiers that were resolved by fingerprint to their reference names.
func nameBack(s string) string {
	if len(renamedBack) == 0 {
		return s
	}
	var sb strings.Builder
	i := 0
	for i < len(s) {
		j := i
		for j < len(s) && (s[j] == '_' || s[j] >= '0' && s[j] <= '9' || s[j] >= 'a' && s[j] <= 'z' || s[j] >= 'A' && s[j] <= 'Z') {
			j++
		}
		if j > i {
			w := s[i:j]
			if r, ok := renamedBack[w]; ok {
				prev, next := byte(0), byte(0)
				if i > 0 {
					prev = s[i-1]
				}
				if j < len(s) {
					next = s[j]
				}
				okPos := true
				switch renamedKind[w] {
				case "field":
					okPos = prev == '.'
				case "type":
					okPos = prev == '.' || next != '.'
				case "func":
					okPos = prev == '.' || prev == ')' || i == 0
				}
				if okPos {
					w = r
				}
			}
			sb.WriteString(w)
			i = j
			continue
		}
		sb.WriteByte(s[i])
		i++
	}
	return sb.String()
}

// resolveAllAnchors resolves every recorded anchor of the module's packages up front, so that the
// rename map is complete before any frozen table is consulted.
func (m *Module) resolveAllAnchors() {
	var keys []string
	for k := range anchorTable {
		keys = append(keys, k)
	}
	sort.Strings(keys)
	for _, k := range keys {
		a := anchorTable[k]
		if m.All[a.Pkg] == nil || !ownPkgPath(a.Pkg) {
			continue
		}
		initial := false
		for _, p := range m.Initial {
			if p.PkgPath == a.Pkg {
				initial = true
			}
		}
		if !initial {
			continue
		}
		switch a.Kind {
		case "const":
			m.ConstA(a.Pkg, a.Name)
		case "type":
			if n := m.LookupType(a.Pkg, a.Name); n != nil && n.Obj().Name() != a.Name {
				renamedBack[n.Obj().Name()] = a.Name
				renamedKind[n.Obj().Name()] = "type"
			}
		case "field":
			if f := m.Field(a.Pkg, a.Owner, a.Name); f != nil && f.Name() != a.Name {
				renamedBack[f.Name()] = a.Name
				renamedKind[f.Name()] = "field"
			}
		case "func":
			if fn := m.Func(a.Pkg, a.Owner, a.Name); fn != nil && fn.Name() != a.Name {
				renamedBack[fn.Name()] = a.Name
				renamedKind[fn.Name()] = "func"
			}
		}
	}
}

func noteFallback(format string, a ...interface{}) {
	s := fmt.Sprintf(format, a...)
	for _, x := range anchorNotes {
		if x == s {
			return
		}
	}
	anchorNotes = append(anchorNotes, s)
}

// typeByFingerprint: the unique named type of pkg whose shape matches the recorded anchor.
func (m *Module) typeByFingerprint(pkg, name string) *types.Named {
	fp := anchorTable[anchorKey("type", pkg, "", name)]
	p := m.All[pkg]
	if fp == nil || p == nil {
		return nil
	}
	var hits []*types.Named
	sc := p.Types.Scope()
	for _, nm := range sc.Names() {
		tn, ok := sc.Lookup(nm).(*types.TypeName)
		if !ok || tn.Exported() || tn.IsAlias() {
			continue
		}
		n, ok := tn.Type().(*types.Named)
		if !ok {
			continue
		}
		// a type that still carries the name of another recorded anchor is that anchor, not this one
		if _, other := anchorTable[anchorKey("type", pkg, "", nm)]; other {
			continue
		}
		c := m.typeFP(pkg, n)
		if c.Shape == fp.Shape && c.NMeth == fp.NMeth && strings.Join(c.Meths, ",") == strings.Join(fp.Meths, ",") {
			hits = append(hits, n)
		}
	}
	if len(hits) == 1 {
		noteFallback("type %s.%s resolved by its shape to %s (renamed)", pkg, name, hits[0].Obj().Name())
		return hits[0]
	}
	if len(hits) == 0 && strings.Count(fp.Shape, ";") >= 2 {
		// renamed AND its method set reorganised (methods split or merged): a struct of at least three
		// fields whose shape is unique among the package's unexported types
		for _, nm := range sc.Names() {
			tn, ok := sc.Lookup(nm).(*types.TypeName)
			if !ok || tn.Exported() || tn.IsAlias() {
				continue
			}
			n, ok := tn.Type().(*types.Named)
			if !ok {
				continue
			}
			if _, other := anchorTable[anchorKey("type", pkg, "", nm)]; other {
				continue
			}
			if c := m.typeFP(pkg, n); c.Shape == fp.Shape {
				hits = append(hits, n)
			}
		}
		if len(hits) == 1 {
			noteFallback("type %s.%s resolved by its struct shape to %s (renamed, methods reorganised)", pkg, name, hits[0].Obj().Name())
			return hits[0]
		}
	}
	return nil
}

// fieldInNestedStruct: a recorded field of owner that is no longer among the owner's fields may have moved
// into a struct-typed unexported field of the owner (state grouped into a sub-object: `r.ledger.pinned`).
// It is the field of that nested struct with the recorded type shape, provided exactly one nested field
// (over all nested structs, one level) has that shape.
func (m *Module) fieldInNestedStruct(pkg, owner string, st *types.Struct, field string) *types.Var {
	fp := anchorTable[anchorKey("field", pkg, owner, field)]
	if fp == nil {
		return nil
	}
	var hits []*types.Var
	for i := 0; i < st.NumFields(); i++ {
		of := st.Field(i)
		if of.Exported() {
			continue
		}
		t := of.Type()
		if pt, ok := t.Underlying().(*types.Pointer); ok {
			t = pt.Elem()
		}
		nt := namedOf(t)
		if nt == nil || nt.Obj().Pkg() == nil || !ownPkgPath(nt.Obj().Pkg().Path()) || nt.Obj().Exported() {
			continue
		}
		// not a type that is itself a recorded anchor (an entry type, a key type)
		if _, other := anchorTable[anchorKey("type", pkg, "", nt.Obj().Name())]; other {
			continue
		}
		ns, ok := nt.Underlying().(*types.Struct)
		if !ok {
			continue
		}
		for j := 0; j < ns.NumFields(); j++ {
			if nf := ns.Field(j); !nf.Exported() && shapeOf(nf.Type(), 0) == fp.Shape {
				hits = append(hits, nf)
			}
		}
	}
	if len(hits) != 1 {
		return nil
	}
	// the shape must also have been unique among the owner's recorded fields (ordinal 0, no sibling)
	for _, a := range anchorTable {
		if a.Kind == "field" && a.Pkg == pkg && a.Owner == owner && a.Shape == fp.Shape && a.Name != field {
			return nil
		}
	}
	noteFallback("field %s.%s.%s resolved to %s of a nested struct (state grouped into a sub-object)", pkg, owner, field, hits[0].Name())
	return hits[0]
}

func (m *Module) fieldByFingerprint(pkg, owner string, st *types.Struct, field string) *types.Var {
	fp := anchorTable[anchorKey("field", pkg, owner, field)]
	if fp == nil {
		return nil
	}
	ord := 0
	var hit *types.Var
	n := 0
	for i := 0; i < st.NumFields(); i++ {
		f := st.Field(i)
		if shapeOf(f.Type(), 0) != fp.Shape {
			continue
		}
		if ord == fp.Ord {
			hit = f
		}
		ord++
		n++
	}
	if hit == nil && fp.Ord == 0 {
		// renamed AND given a named type of its own (`map[…]…` became `type senderTopics map[…]…`): the
		// only field whose shape is the recorded one up to the marks of unexported named types
		plain := func(sh string) string { return strings.NewReplacer("‹", "", "›", "").Replace(sh) }
		var cands []*types.Var
		for i := 0; i < st.NumFields(); i++ {
			if f := st.Field(i); plain(shapeOf(f.Type(), 0)) == plain(fp.Shape) {
				cands = append(cands, f)
			}
		}
		if len(cands) == 1 {
			hit, n = cands[0], 1
		}
	}
	if hit == nil || hit.Exported() {
		return nil
	}
	// the candidate must not be another recorded anchor that still resolves by its own name
	if _, other := anchorTable[anchorKey("field", pkg, owner, hit.Name())]; other {
		return nil
	}
	// the number of same-shaped fields must be what it was (otherwise the ordinal is meaningless)
	want := 0
	for _, a := range anchorTable {
		if a.Kind == "field" && a.Pkg == pkg && a.Owner == owner && a.Shape == fp.Shape {
			if a.Ord+1 > want {
				want = a.Ord + 1
			}
		}
	}
	if n < want {
		return nil
	}
	noteFallback("field %s.%s.%s resolved by its type and position to %s (renamed)", pkg, owner, field, hit.Name())
	return hit
}

func (m *Module) funcByFingerprint(pkg, recv, name string, cands []*ssa.Function) *ssa.Function {
	fp := anchorTable[anchorKey("func", pkg, recv, name)]
	if fp == nil {
		return nil
	}
	type scored struct {
		fn *ssa.Function
		s  float64
	}
	var sc []scored
	for _, fn := range cands {
		if fn == nil || fn.Blocks == nil || (fn.Object() != nil && fn.Object().Exported()) {
			continue
		}
		if _, other := anchorTable[anchorKey("func", pkg, recv, fn.Name())]; other {
			continue // still carries the name of another recorded anchor
		}
		if sigShape(fn.Signature, 0) != fp.Shape {
			continue
		}
		sc = append(sc, scored{fn, jaccard(fp.Feat, funcFeatures(fn))})
	}
	sort.Slice(sc, func(i, j int) bool { return sc[i].s > sc[j].s })
	if len(sc) == 0 || sc[0].s < 0.6 {
		return nil
	}
	if len(sc) > 1 && sc[0].s-sc[1].s < 0.12 {
		return nil
	}
	noteFallback("function %s.%s%s resolved by its signature and body features to %s (renamed; similarity %.2f)", pkg, map[bool]string{true: "(" + recv + ").", false: ""}[recv != ""], name, sc[0].fn.Name(), sc[0].s)
	return sc[0].fn
}

// anchorReasonFn makes the function a frozen-table entry names an anchor: "(*rbc.Receiver).registerMsg",
// "(threshold.rbcEncoding).Payload", "disc.encodeTagAndMembershipList", "…$1" (literals belong to the
// named function).  Unexported receiver types are anchored as well.
func (c *Ctx) anchorReasonFn(key string) {
	if i := strings.Index(key, "$"); i >= 0 {
		key = key[:i]
	}
	recv, rest := "", key
	if strings.HasPrefix(key, "(") {
		j := strings.Index(key, ")")
		if j < 0 || j+2 > len(key) {
			return
		}
		recv = strings.TrimPrefix(key[1:j], "*")
		rest = key[j+2:]
	}
	var pkgRel, typ, name string
	if recv != "" {
		k := strings.LastIndex(recv, ".")
		if k < 0 {
			return
		}
		pkgRel, typ, name = recv[:k], recv[k+1:], rest
	} else {
		k := strings.LastIndex(rest, ".")
		if k < 0 || k+1 >= len(rest) {
			return
		}
		pkgRel, name = rest[:k], rest[k+1:]
	}
	if name == "" || pkgRel == "" {
		return
	}
	path := "github.com/IBM/TSS/" + pkgRel
	for _, m := range c.mods {
		if m == nil || m.All[path] == nil {
			continue
		}
		m.Func(path, typ, name)
	}
}

// isNamedA: t is the named type pkg.name, where an unexported name is resolved as an anchor.
func (m *Module) isNamedA(t types.Type, pkg, name string) bool {
	n := namedOf(t)
	if n == nil {
		return false
	}
	if isNamed(t, pkg, name) {
		return true
	}
	if r := m.LookupType(pkg, name); r != nil {
		return n.Obj() == r.Obj()
	}
	return false
}

// ConstA resolves a package-level integer constant; a renamed unexported constant is found by its type
// and value when exactly one constant of the package that carries no other anchor's name has them.
func (m *Module) ConstA(pkg, name string) (int64, bool) {
	p := m.All[pkg]
	if p == nil {
		return 0, false
	}
	sc := p.Types.Scope()
	if o, ok := sc.Lookup(name).(*types.Const); ok {
		v, ok := constIntVal(o)
		if ok && anchorLearn && !o.Exported() {
			anchorLearned[anchorKey("const", pkg, "", name)] = &anchorFP{Kind: "const", Pkg: pkg, Name: name, Shape: shapeOf(o.Type(), 0), Ord: int(v)}
		}
		return v, ok
	}
	fp := anchorTable[anchorKey("const", pkg, "", name)]
	if fp == nil {
		return 0, false
	}
	var hit *types.Const
	for _, nm := range sc.Names() {
		o, ok := sc.Lookup(nm).(*types.Const)
		if !ok || o.Exported() {
			continue
		}
		if _, other := anchorTable[anchorKey("const", pkg, "", nm)]; other {
			continue
		}
		v, ok := constIntVal(o)
		if !ok || int(v) != fp.Ord || shapeOf(o.Type(), 0) != fp.Shape {
			continue
		}
		if hit != nil {
			return 0, false
		}
		hit = o
	}
	if hit == nil {
		return 0, false
	}
	noteFallback("constant %s.%s resolved by its type and value to %s (renamed)", pkg, name, hit.Name())
	renamedBack[hit.Name()] = name
	v, ok := constIntVal(hit)
	return v, ok
}
