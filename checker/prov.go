package main

// Engine V (provenance): backward slice over SSA def-use edges, through
// memory cells (allocation/field based), closure bindings, static callees
// and (bounded) callers.

import (
	"go/token"
	"go/types"

	"golang.org/x/tools/go/ssa"
)

type Slicer struct {
	m         *Module
	MaxCall   int // interprocedural depth (callee returns / caller arguments)
	callers   map[*ssa.Function][]ssa.CallInstruction
	closures  map[*ssa.Function][]*ssa.MakeClosure
	pkgs      []string
	fns       []*ssa.Function // every function of pkgs
	sessDepth int
	rootDepth int
	// Stop, when set, ends the walk at values it accepts (they are part of the slice, what they are
	// computed from is not): e.g. a hash, whose inputs are not "read" by what uses the digest.
	Stop func(v ssa.Value) bool
}

// NewSlicer indexes call sites and closure creations in the given own packages.
func NewSlicer(m *Module, pkgs ...string) *Slicer {
	s := &Slicer{m: m, MaxCall: 3, callers: map[*ssa.Function][]ssa.CallInstruction{}, closures: map[*ssa.Function][]*ssa.MakeClosure{}, pkgs: pkgs}
	for _, p := range pkgs {
		for _, fn := range m.PkgFuncs(p) {
			s.fns = append(s.fns, fn)
			for _, in := range instrsOf(fn) {
				if mc, ok := in.(*ssa.MakeClosure); ok {
					f := mc.Fn.(*ssa.Function)
					s.closures[f] = append(s.closures[f], mc)
				}
				if ci, ok := in.(ssa.CallInstruction); ok {
					if f := staticCallee(ci.Common()); f != nil {
						s.callers[f] = append(s.callers[f], ci)
					} else if f := s.localClosureCallee(ci.Common().Value); f != nil {
						s.callers[f] = append(s.callers[f], ci)
					}
				}
			}
		}
	}
	return s
}

// localClosureCallee resolves `f := func(){...}; f()` (single-store cell) to the literal.
func (s *Slicer) localClosureCallee(v ssa.Value) *ssa.Function {
	v = strip(v)
	if mc, ok := v.(*ssa.MakeClosure); ok {
		return mc.Fn.(*ssa.Function)
	}
	if fn, ok := v.(*ssa.Function); ok {
		return fn
	}
	if u, ok := v.(*ssa.UnOp); ok && u.Op == token.MUL {
		cell := cellOf(u.X)
		if cell == nil {
			return nil
		}
		var only *ssa.Function
		n := 0
		for _, st := range storesToCell(cell) {
			n++
			switch x := strip(st.Val).(type) {
			case *ssa.MakeClosure:
				only = x.Fn.(*ssa.Function)
			case *ssa.Function:
				only = x
			default:
				// alias of another closure variable
				if x != v {
					only = s.localClosureCallee(st.Val)
				}
				if only == nil {
					return nil
				}
			}
		}
		if n == 1 {
			return only
		}
	}
	return nil
}

// cellOf maps an address value to the Alloc it denotes (directly or through a
// captured free variable), or nil.
func cellOf(addr ssa.Value) *ssa.Alloc {
	switch a := addr.(type) {
	case *ssa.Alloc:
		return a
	case *ssa.FreeVar:
		fn := a.Parent()
		idx := -1
		for i, fv := range fn.FreeVars {
			if fv == a {
				idx = i
			}
		}
		if idx < 0 || fn.Parent() == nil {
			return nil
		}
		// find the MakeClosure in the parent (all creations must bind the same cell)
		var res *ssa.Alloc
		for _, in := range instrsOf(fn.Parent()) {
			if mc, ok := in.(*ssa.MakeClosure); ok && mc.Fn == fn {
				c := cellOf(mc.Bindings[idx])
				if c == nil || (res != nil && c != res) {
					return nil
				}
				res = c
			}
		}
		return res
	}
	return nil
}

// addrsOfCell returns every address value (the Alloc itself and the free
// variables bound to it in nested closures) that denotes the cell.
func addrsOfCell(cell *ssa.Alloc) []ssa.Value {
	out := []ssa.Value{cell}
	var walk func(addr ssa.Value)
	walk = func(addr ssa.Value) {
		refs := addr.Referrers()
		if refs == nil {
			return
		}
		for _, r := range *refs {
			if mc, ok := r.(*ssa.MakeClosure); ok {
				fn := mc.Fn.(*ssa.Function)
				for i, b := range mc.Bindings {
					if b == addr {
						fv := fn.FreeVars[i]
						out = append(out, fv)
						walk(fv)
					}
				}
			}
		}
	}
	walk(cell)
	return out
}

func storesToCell(cell *ssa.Alloc) []*ssa.Store {
	var out []*ssa.Store
	for _, a := range addrsOfCell(cell) {
		refs := a.Referrers()
		if refs == nil {
			continue
		}
		for _, r := range *refs {
			if st, ok := r.(*ssa.Store); ok && st.Addr == a {
				out = append(out, st)
			}
		}
	}
	return out
}

// fieldStores returns stores to field f through a FieldAddr whose base denotes
// the same object as base (same SSA value after strip, or loads of the same cell).
func fieldStores(fn *ssa.Function, base ssa.Value, f *types.Var) []*ssa.Store {
	var out []*ssa.Store
	for _, in := range instrsOf(fn) {
		st, ok := in.(*ssa.Store)
		if !ok {
			continue
		}
		fa, ok := st.Addr.(*ssa.FieldAddr)
		if !ok || fieldOfAddr(fa) != f {
			continue
		}
		if sameObject(fa.X, base) {
			out = append(out, st)
		}
	}
	return out
}

// sameObject: two pointer/struct values denote the same object (conservative).
func sameObject(a, b ssa.Value) bool {
	a, b = strip(a), strip(b)
	if a == b {
		return true
	}
	la, oka := a.(*ssa.UnOp)
	lb, okb := b.(*ssa.UnOp)
	if oka && okb && la.Op == token.MUL && lb.Op == token.MUL {
		ca, cb := cellOf(la.X), cellOf(lb.X)
		if ca != nil && ca == cb {
			return true
		}
		// loads of the same field of the same object
		fa, ok1 := la.X.(*ssa.FieldAddr)
		fb, ok2 := lb.X.(*ssa.FieldAddr)
		if ok1 && ok2 && fieldOfAddr(fa) == fieldOfAddr(fb) && sameObject(fa.X, fb.X) {
			return true
		}
	}
	return false
}

type callCtx struct {
	call   ssa.CallInstruction
	callee *ssa.Function
	parent *callCtx
}

type sliceKey struct {
	v   ssa.Value
	ctx ssa.CallInstruction
}

type sliceState struct {
	seen    map[ssa.Value]bool
	visited map[sliceKey]int // smallest depth at which the value was expanded (+1)
	parent  map[ssa.Value]ssa.Value
	stack   []ssa.Value
}

// LastTrace: parent links of the most recent Slice call (development aid: why is X in the slice?).
var LastTrace map[ssa.Value]ssa.Value

func TraceTo(v ssa.Value) string {
	out := ""
	for i := 0; i < 60 && v != nil; i++ {
		where := ""
		if in, ok := v.(ssa.Instruction); ok && in.Parent() != nil {
			where = in.Parent().Name()
		} else if p, ok := v.(*ssa.Parameter); ok {
			where = p.Parent().Name() + " param"
		}
		out += "\n   <- [" + where + "] " + v.Name() + " = " + render(v)
		v = LastTrace[v]
	}
	return out
}

// Slice returns the backward slice of v. Descents into callees are
// context-sensitive (a callee's parameter maps back to the call site the
// descent came from); ascents from an un-entered function go to all callers.
func (s *Slicer) Slice(v ssa.Value) map[ssa.Value]bool {
	st := &sliceState{seen: map[ssa.Value]bool{}, visited: map[sliceKey]int{}, parent: map[ssa.Value]ssa.Value{}}
	LastTrace = st.parent
	s.walk(st, v, 0, nil)
	return st.seen
}

// SliceIn: the backward slice of v, a value of the function called at `call`, for that call only: the
// function's parameters map back to the arguments of `call`, not to those of its other callers.
func (s *Slicer) SliceIn(v ssa.Value, call ssa.CallInstruction) map[ssa.Value]bool {
	st := &sliceState{seen: map[ssa.Value]bool{}, visited: map[sliceKey]int{}, parent: map[ssa.Value]ssa.Value{}}
	LastTrace = st.parent
	g := call.Common().StaticCallee()
	if g == nil {
		return s.Slice(v)
	}
	s.walk(st, v, 0, &callCtx{call: call, callee: g})
	return st.seen
}

func (s *Slicer) walk(st *sliceState, v ssa.Value, depth int, ctx *callCtx) {
	if v == nil {
		return
	}
	key := sliceKey{v: v}
	if ctx != nil {
		key.ctx = ctx.call
	}
	if prev, ok := st.visited[key]; ok && prev <= depth+1 {
		return
	}
	st.visited[key] = depth + 1
	st.seen[v] = true
	if _, has := st.parent[v]; !has && len(st.stack) > 0 {
		st.parent[v] = st.stack[len(st.stack)-1]
	}
	st.stack = append(st.stack, v)
	defer func() { st.stack = st.stack[:len(st.stack)-1] }()
	if s.Stop != nil && s.Stop(v) {
		return
	}
	s.walkMutators(st, v, depth, ctx)
	switch x := v.(type) {
	case *ssa.Const, *ssa.Global, *ssa.Function, *ssa.Builtin:
		return
	case *ssa.Parameter:
		fn := x.Parent()
		idx := paramIndex(x)
		// inside a descent: map back to the originating call site only
		for c := ctx; c != nil; c = c.parent {
			if c.callee == fn {
				args := c.call.Common().Args
				if idx >= 0 && idx < len(args) && len(args) == len(fn.Params) {
					s.walk(st, args[idx], depth, c.parent)
				}
				return
			}
		}
		if depth >= s.MaxCall {
			return
		}
		for _, ci := range s.callers[fn] {
			args := ci.Common().Args
			if idx < len(args) && len(args) == len(fn.Params) {
				s.walk(st, args[idx], depth+1, nil)
			}
		}
	case *ssa.FreeVar:
		fn := x.Parent()
		idx := -1
		for i, fv := range fn.FreeVars {
			if fv == x {
				idx = i
			}
		}
		for _, mc := range s.closures[fn] {
			if idx >= 0 && idx < len(mc.Bindings) {
				s.walk(st, mc.Bindings[idx], depth, ctx)
			}
		}
	case *ssa.Alloc:
		for _, sto := range storesToCell(x) {
			s.walk(st, sto.Val, depth, ctx)
		}
		s.walkAggregateStores(st, x, depth, ctx)
		// the cell may hold a map/slice that is filled through loads of the cell (captured variables)
		holdsAggregate := false
		if pt, ok := x.Type().Underlying().(*types.Pointer); ok {
			switch pt.Elem().Underlying().(type) {
			case *types.Map, *types.Slice:
				holdsAggregate = true
			}
		}
		for _, a := range addrsOfCell(x) {
			if !holdsAggregate {
				break
			}
			if refs := a.Referrers(); refs != nil {
				for _, r := range *refs {
					if ld, ok := r.(*ssa.UnOp); ok && ld.Op == token.MUL {
						s.walkAggregateStores(st, ld, depth, ctx)
					}
				}
			}
		}
	case *ssa.UnOp:
		if x.Op == token.MUL {
			s.walkLoad(st, x, depth, ctx)
			return
		}
		s.walk(st, x.X, depth, ctx)
	case *ssa.Extract:
		if c, ok := x.Tuple.(*ssa.Call); ok {
			if callee := s.descendable(c, depth); callee != nil {
				st.seen[c] = true
				nctx := &callCtx{call: c, callee: callee, parent: ctx}
				for _, in := range instrsOf(callee) {
					if r, ok := in.(*ssa.Return); ok && x.Index < len(r.Results) {
						s.walk(st, r.Results[x.Index], depth+1, nctx)
					}
				}
				// arguments of this very call site (dependences through side effects inside the callee)
				for _, a := range c.Call.Args {
					s.walk(st, a, depth, ctx)
				}
				return
			}
		}
		s.walk(st, x.Tuple, depth, ctx)
	case *ssa.Call:
		s.walkCall(st, x, depth, ctx)
	case *ssa.Lookup:
		s.walk(st, x.X, depth, ctx)
		s.walk(st, x.Index, depth, ctx)
	case *ssa.MakeMap, *ssa.MakeSlice:
		s.walkAggregateStores(st, v, depth, ctx)
		if in, ok := v.(ssa.Instruction); ok {
			for _, op := range in.Operands(nil) {
				if *op != nil {
					s.walk(st, *op, depth, ctx)
				}
			}
		}
	default:
		if in, ok := v.(ssa.Instruction); ok {
			for _, op := range in.Operands(nil) {
				if *op != nil {
					s.walk(st, *op, depth, ctx)
				}
			}
		}
	}
}

// descendable: the call has a static own-package callee with a body and the depth budget allows entering it.
func (s *Slicer) descendable(c *ssa.Call, depth int) *ssa.Function {
	callee := staticCallee(&c.Call)
	if callee == nil {
		callee = s.localClosureCallee(c.Call.Value)
	}
	if callee == nil || callee.Blocks == nil || !ownPkgPath(pkgPathOf(callee)) || depth >= s.MaxCall {
		return nil
	}
	if len(c.Call.Args) != len(callee.Params) {
		return nil
	}
	return callee
}

func pkgPathOf(fn *ssa.Function) string {
	if fn.Pkg != nil {
		return fn.Pkg.Pkg.Path()
	}
	if fn.Parent() != nil {
		return pkgPathOf(fn.Parent())
	}
	if o := fn.Object(); o != nil && o.Pkg() != nil {
		return o.Pkg().Path()
	}
	return ""
}

// walkAggregateStores: data written into the object v denotes (map updates,
// stores through FieldAddr/IndexAddr of v, appends are handled by operands).
func (s *Slicer) walkAggregateStores(st *sliceState, v ssa.Value, depth int, ctx *callCtx) {
	refs := v.Referrers()
	if refs == nil {
		return
	}
	for _, r := range *refs {
		switch u := r.(type) {
		case *ssa.MapUpdate:
			if u.Map == v {
				s.walk(st, u.Key, depth, ctx)
				s.walk(st, u.Value, depth, ctx)
			}
		case *ssa.FieldAddr:
			if u.X == v {
				if rr := u.Referrers(); rr != nil {
					for _, q := range *rr {
						if sto, ok := q.(*ssa.Store); ok && sto.Addr == u {
							s.walk(st, sto.Val, depth, ctx)
						}
						if ld, ok := q.(*ssa.UnOp); ok && ld.Op == token.MUL {
							s.walkMutators(st, ld, depth, ctx)
						}
					}
				}
			}
		case *ssa.IndexAddr:
			if u.X == v {
				if rr := u.Referrers(); rr != nil {
					for _, q := range *rr {
						if sto, ok := q.(*ssa.Store); ok && sto.Addr == u {
							s.walk(st, sto.Val, depth, ctx)
						}
					}
				}
			}
		}
	}
}

func (s *Slicer) walkLoad(st *sliceState, ld *ssa.UnOp, depth int, ctx *callCtx) {
	addr := ld.X
	if cell := cellOf(addr); cell != nil {
		st.seen[addr] = true
		s.walk(st, cell, depth, ctx)
		for _, a := range addrsOfCell(cell) {
			if refs := a.Referrers(); refs != nil {
				for _, r := range *refs {
					if o, ok := r.(*ssa.UnOp); ok && o != ld && o.Op == token.MUL {
						s.walkMutators(st, o, depth, ctx)
					}
				}
			}
		}
		return
	}
	switch a := addr.(type) {
	case *ssa.FieldAddr:
		f := fieldOfAddr(a)
		st.seen[a] = true
		for _, sto := range fieldStores(ld.Parent(), a.X, f) {
			s.walk(st, sto.Val, depth, ctx)
		}
		// a field of a session object — unexported, set only by the composite literals that build such
		// objects — read in another function than the one that built it: what those literals gave it
		if !f.Exported() && fieldStoreCount[f] >= 1 && !fieldStoredLater[f] && depth < s.MaxCall {
			for _, fn := range s.fns {
				if fn == ld.Parent() {
					continue
				}
				for _, sto := range storesToField([]*ssa.Function{fn}, f) {
					s.walk(st, sto.Val, depth+1, nil)
				}
			}
		}
		// aliases: other loads of the same field of the same object may be handed to mutating calls
		for _, in := range instrsOf(ld.Parent()) {
			if o, ok := in.(*ssa.UnOp); ok && o != ld && o.Op == token.MUL {
				if fa, ok := o.X.(*ssa.FieldAddr); ok && fieldOfAddr(fa) == f && sameObject(fa.X, a.X) {
					s.walkMutators(st, o, depth, ctx)
				}
			}
		}
		s.walk(st, a.X, depth, ctx)
	case *ssa.IndexAddr:
		st.seen[a] = true
		s.walk(st, a.X, depth, ctx)
		s.walk(st, a.Index, depth, ctx)
		// stores to elements of the same base
		if refs := a.X.Referrers(); refs != nil {
			for _, r := range *refs {
				if ia, ok := r.(*ssa.IndexAddr); ok {
					if rr := ia.Referrers(); rr != nil {
						for _, q := range *rr {
							if sto, ok := q.(*ssa.Store); ok && sto.Addr == ia {
								s.walk(st, sto.Val, depth, ctx)
							}
						}
					}
				}
			}
		}
	default:
		s.walk(st, addr, depth, ctx)
	}
}

func (s *Slicer) walkCall(st *sliceState, c *ssa.Call, depth int, ctx *callCtx) {
	cc := &c.Call
	if cc.IsInvoke() {
		for _, a := range cc.Args {
			s.walk(st, a, depth, ctx)
		}
		s.walk(st, cc.Value, depth, ctx)
		return
	}
	if mc, ok := cc.Value.(*ssa.MakeClosure); ok {
		for _, b := range mc.Bindings {
			s.walk(st, b, depth, ctx)
		}
	}
	if callee := s.descendable(c, depth); callee != nil {
		nctx := &callCtx{call: c, callee: callee, parent: ctx}
		for _, in := range instrsOf(callee) {
			if r, ok := in.(*ssa.Return); ok {
				for _, res := range r.Results {
					s.walk(st, res, depth+1, nctx)
				}
			}
		}
		for _, a := range cc.Args {
			s.walk(st, a, depth, ctx)
		}
		return
	}
	for _, a := range cc.Args {
		s.walk(st, a, depth, ctx)
	}
	if staticCallee(cc) == nil {
		s.walk(st, cc.Value, depth, ctx)
	}
}

// ---------------------------------------------------------------------------
// predicates over slices

func sliceHas(sl map[ssa.Value]bool, pred func(ssa.Value) bool) bool {
	for v := range sl {
		if pred(v) {
			return true
		}
	}
	return false
}

func sliceHasValue(sl map[ssa.Value]bool, v ssa.Value) bool { return sl[v] }

func sliceHasFieldLoad(sl map[ssa.Value]bool, f *types.Var) bool {
	return sliceHas(sl, func(v ssa.Value) bool {
		_, g, ok := fieldLoad(v)
		return ok && g == f
	})
}

func sliceHasCallTo(sl map[ssa.Value]bool, pkg, name string) bool {
	return sliceHas(sl, func(v ssa.Value) bool {
		c, ok := v.(*ssa.Call)
		return ok && isCallTo(&c.Call, pkg, name)
	})
}

// walkMutators: a reference value (pointer, map, slice, interface) handed to a
// call whose body is not analysed may be written through by that call; the
// value then depends on the call's other arguments.
func (s *Slicer) walkMutators(st *sliceState, v ssa.Value, depth int, ctx *callCtx) {
	switch v.Type().Underlying().(type) {
	case *types.Pointer, *types.Interface:
		// objects with methods that accumulate state (hash.Hash, *big.Int, …)
	default:
		return
	}
	switch v.(type) {
	case *ssa.Const, *ssa.Global, *ssa.Function, *ssa.Builtin, *ssa.Parameter, *ssa.FreeVar:
		return
	}
	refs := v.Referrers()
	if refs == nil {
		return
	}
	for _, r := range *refs {
		cl, ok := r.(*ssa.Call)
		if !ok {
			continue
		}
		if _, isB := cl.Call.Value.(*ssa.Builtin); isB {
			continue
		}
		if s.descendable(cl, 0) != nil {
			continue // own function with a body: its effects are field stores, handled where they are loaded
		}
		isArg := false
		if cl.Call.IsInvoke() && cl.Call.Value == v {
			isArg = true
		}
		for i, a := range cl.Call.Args {
			if a == v && (i == 0 || true) {
				isArg = true
			}
		}
		if !isArg {
			continue
		}
		for _, a := range cl.Call.Args {
			if a != v {
				s.walk(st, a, depth, ctx)
			}
		}
	}
}
