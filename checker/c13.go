package main

// C13 — 16-bit identifiers on the wire: byte-lane agreement of the two
// hand-written codecs, lane completeness of id hashing, ASN.1 type pairs.

import (
	"fmt"
	"go/token"
	"go/types"
	"sort"
	"strings"

	"golang.org/x/tools/go/ssa"
)

func init() { register("C13", checkC13) }

type codecPair struct {
	rule           string
	pkg            string
	encRecv, enc   string
	decRecv, dec   string
	minIntRoots    int
	regionsChecked bool
}

var codecPairs = []codecPair{
	{"C13.B1", PkgThreshold, "", "newRBCEncoding", "rbcEncoding", "Ack", 2, true},
	{"C13.B2", PkgDisc, "", "encodeTagAndMembershipList", "", "decodeTagAndMembershipList", 2, true},
}

// decodedRoots: integer values a decoder hands out (returned, or appended to a returned list).
func decodedRoots(fn *ssa.Function) []ssa.Value {
	seen := map[ssa.Value]bool{}
	var out []ssa.Value
	add := func(v ssa.Value) {
		if v == nil || seen[v] || widthLanes(v.Type()) == 0 {
			return
		}
		if _, isK := v.(*ssa.Const); isK {
			return
		}
		seen[v] = true
		out = append(out, v)
	}
	for _, in := range instrsDeep(fn) {
		switch x := in.(type) {
		case *ssa.Return:
			if x.Parent() != fn {
				continue // a helper's return: seen through its call
			}
			for _, r := range expandStructResults(retResults(x)) {
				add(r)
			}
		case *ssa.Call:
			if b, ok := x.Call.Value.(*ssa.Builtin); ok && b.Name() == "append" && len(x.Call.Args) == 2 {
				for _, e := range variadicElems(x.Call.Args[1]) {
					add(e)
				}
			}
		}
	}
	return out
}

type region struct {
	start posExpr
	end   *int64
	at    token.Pos
}

// encoderRegions: copy(buf[a:], X) and append(lit, X...) regions.
func encoderRegions(fn *ssa.Function) []region {
	var out []region
	for _, in := range instrsDeep(fn) {
		c, ok := in.(*ssa.Call)
		if !ok {
			continue
		}
		b, ok := c.Call.Value.(*ssa.Builtin)
		if !ok {
			continue
		}
		switch b.Name() {
		case "copy":
			_, base, ok := sliceBase(c.Call.Args[0])
			if ok {
				out = append(out, region{start: base, at: c.Pos()})
			}
		case "append":
			// append(buf, X...) where buf was built by appends of known length: X starts at that length
			if len(variadicElems(c.Call.Args[1])) == 0 && isByteSlice(c.Type()) {
				if base := appendOffset(c.Call.Args[0]); base >= 0 {
					if _, isAlloc := strip(c.Call.Args[0]).(*ssa.Slice); !isAlloc {
						out = append(out, region{start: posExpr{Off: base, OK: true}, at: c.Pos()})
						continue
					}
				}
			}
			// append(lit, X...) where lit is a slice of a fixed-size array literal
			if s, ok := strip(c.Call.Args[0]).(*ssa.Slice); ok {
				if a, ok := s.X.(*ssa.Alloc); ok {
					if arr, ok := a.Type().(*types.Pointer).Elem().Underlying().(*types.Array); ok {
						if len(variadicElems(c.Call.Args[1])) == 0 { // spread of an existing slice
							out = append(out, region{start: posExpr{Off: arr.Len(), OK: true}, at: c.Pos()})
						}
					}
				}
			}
		}
	}
	return out
}

// decoderRegions: sub-slices of the input parameter that are returned.
func decoderRegions(fn *ssa.Function, input ssa.Value) []region {
	var out []region
	seen := map[*ssa.Slice]bool{}
	for _, in := range instrsOf(fn) {
		r, ok := in.(*ssa.Return)
		if !ok {
			continue
		}
		for _, v := range expandStructResults(retResults(r)) {
			s, ok := strip(v).(*ssa.Slice)
			if !ok || seen[s] || strip(s.X) != input {
				continue
			}
			seen[s] = true
			rg := region{start: posExpr{OK: true}, at: s.Pos()}
			if s.Low != nil {
				rg.start = posOf(s.Low)
			}
			if s.High != nil {
				if h, ok := constInt(s.High); ok {
					rg.end = &h
				}
			}
			out = append(out, rg)
		}
	}
	return out
}

func checkCodecPair(c *Ctx, m *Module, cp codecPair) {
	enc := c.mustFunc(m, cp.pkg, cp.encRecv, cp.enc)
	dec := c.mustFunc(m, cp.pkg, cp.decRecv, cp.dec)
	if enc == nil || dec == nil {
		return
	}
	writes := encoderWrites(enc)
	byPos := map[string]byteWrite{}
	for _, w := range writes {
		if w.Pos.OK {
			byPos[w.Pos.String()] = w
		}
	}
	input := strip(dec.Params[0])
	nInt := 0
	for _, root := range decodedRoots(dec) {
		ls := lanesOf(root, 0)
		// which encoder source does this root reassemble?
		var src ssa.Value
		for _, l := range ls {
			if l.Kind == laneByte && l.Pos.OK && l.Buf == input {
				if w, ok := byPos[l.Pos.String()]; ok && w.Lane.Kind == laneSrc {
					src = w.Lane.Src
					break
				}
			}
		}
		hasByte := false
		for _, l := range ls {
			if l.Kind == laneByte {
				hasByte = true
			}
		}
		if !hasByte {
			continue // not a value read from the buffer (e.g. a length)
		}
		nInt++
		construct := fmt.Sprintf("decoded %s %s", types.TypeString(root.Type(), shortQual), describeLanes(ls))
		pos := m.Pos(root.Pos())
		if src == nil {
			c.Bad(cp.rule, FuncName(dec), construct, pos, "the decoder reads buffer positions that the encoder never writes with a byte of an encoded integer")
			continue
		}
		nsrc := widthLanes(src.Type())
		ok := len(ls) >= nsrc
		why := ""
		for k := 0; k < nsrc && k < len(ls); k++ {
			l := ls[k]
			if l.Kind != laneByte || !l.Pos.OK {
				ok = false
				why += fmt.Sprintf("byte %d of the decoded value is %s, but the encoder transmits byte %d of %s; ", k, l, k, render(src))
				continue
			}
			w, has := byPos[l.Pos.String()]
			if !has || w.Lane.Kind != laneSrc || w.Lane.Src != src || w.Lane.K != k {
				ok = false
				got := "nothing"
				if has {
					got = w.Lane.String()
				}
				why += fmt.Sprintf("byte %d is read from position %s where the encoder wrote %s; ", k, l.Pos, got)
			}
		}
		for k := nsrc; k < len(ls); k++ {
			if ls[k].Kind != laneZero {
				ok = false
				why += fmt.Sprintf("byte %d of the decoded value is not zero; ", k)
			}
		}
		c.Check(ok, cp.rule, FuncName(dec), construct, pos,
			fmt.Sprintf("every byte of %s (%s) is read back from the position %s wrote it to", render(src), types.TypeString(src.Type(), shortQual), enc.Name()),
			"encoder/decoder lane mismatch: "+why+"identifiers above 255 are not decoded to the value that was encoded")
	}
	if nInt < cp.minIntRoots {
		c.Bad(cp.rule, FuncName(dec), "decoded integers", m.Pos(dec.Pos()), fmt.Sprintf("only %d integer value(s) read from the buffer were found, expected at least %d", nInt, cp.minIntRoots))
	}
	// every multi-byte encoder source is fully transmitted
	bySrc := map[ssa.Value]map[int]bool{}
	for _, w := range writes {
		if w.Lane.Kind == laneSrc {
			if bySrc[w.Lane.Src] == nil {
				bySrc[w.Lane.Src] = map[int]bool{}
			}
			bySrc[w.Lane.Src][w.Lane.K] = true
		}
	}
	for s, ks := range bySrc {
		n := widthLanes(s.Type())
		full := true
		for k := 0; k < n; k++ {
			if !ks[k] {
				full = false
			}
		}
		if n > 1 {
			c.Check(full, cp.rule, FuncName(enc), "encoded "+types.TypeString(s.Type(), shortQual)+" "+render(s), m.Pos(enc.Pos()),
				fmt.Sprintf("all %d bytes written", n), "the encoder does not transmit every byte of the value")
		}
	}
	// regions
	er, dr := encoderRegions(enc), decoderRegions(dec, input)
	var es, ds []string
	for _, r := range er {
		es = append(es, r.start.String())
	}
	for _, r := range dr {
		ds = append(ds, r.start.String())
	}
	sort.Strings(es)
	sort.Strings(ds)
	c.Check(len(es) > 0 && strings.Join(es, ",") == strings.Join(ds, ","), cp.rule, FuncName(dec), "variable-length regions", m.Pos(dec.Pos()),
		"encoder region start(s) ["+strings.Join(es, ",")+"] = decoder sub-slice start(s)",
		"the byte region(s) the decoder returns start at ["+strings.Join(ds, ",")+"] but the encoder places them at ["+strings.Join(es, ",")+"]")
	// fixed-size region: decoder's [a:b] must match the length the encoder insists on
	for _, r := range dr {
		if r.end == nil {
			continue
		}
		want := *r.end - r.start.Off
		okLen := false
		for _, in := range instrsOf(enc) {
			iff, ok := in.(*ssa.If)
			if !ok {
				continue
			}
			f := factOf(Guard{iff, true})
			if f.Op == token.NEQ || f.Op == token.EQL {
				if _, isLen := lenOperand(strip(f.X)); isLen {
					if k, ok := constInt(f.Y); ok && k == want {
						okLen = true
					}
				}
			}
		}
		c.Check(okLen, cp.rule, FuncName(dec), fmt.Sprintf("fixed region [%s:%d]", r.start, *r.end), m.Pos(r.at),
			fmt.Sprintf("length %d is the length the encoder checks", want), fmt.Sprintf("the decoder takes %d bytes but the encoder does not insist on that length", want))
	}
}

func describeLanes(ls []lane) string {
	var s []string
	for _, l := range ls {
		s = append(s, l.String())
	}
	return "[" + strings.Join(s, ",") + "]"
}

func checkC13(c *Ctx) {
	c.explanation = "Static decision by byte-lane abstract interpretation of SSA that the two hand-written codecs agree lane by lane (acknowledgement: round[0], sender hi/lo [1],[2], digest [3:]; synchroniser: type[0], tag[1:33], members from 33 stride 2 lo/hi), that id hashing feeds every byte of each identifier, and that ASN.1 marshal/unmarshal sites of stored data and public parameters use identical struct types with id fields at least 16 bits wide. Lanes shifted past the operand's static width are zero (this is what makes `uint16(b<<8)` lose the high byte). End-to-end completion of sessions with large ids is behaviour and is not decided."
	c.notDecided = "end-to-end completion of sessions with large identifiers"
	c.Assume("encoding/asn1 round-trips a struct value through Marshal/Unmarshal of the identical struct type")
	m := c.Mod(ModRoot)
	if m == nil {
		return
	}
	c.Rule("C13.B1", "ack codec: lane agreement newRBCEncoding ↔ rbcEncoding.Ack", 2)
	c.Rule("C13.B2", "synchroniser codec: lane agreement encode/decodeTagAndMembershipList", 2)
	for _, cp := range codecPairs {
		checkCodecPair(c, m, cp)
	}
	ruleC13NoInnerBound(c)
	// B4: byte copies of the hand-written encoders copy all of their source
	const B4 = "C13.B4"
	c.Rule(B4, "byte copies in the encoders are complete (no silent truncation)", 1)
	for _, mp := range []struct{ mod, pkg string }{{ModRoot, PkgDisc}, {ModRoot, PkgThreshold}, {ModRoot, PkgRBC}, {ModBLS, PkgBLS}, {ModPS, PkgPS}} {
		mm := c.Mod(mp.mod)
		if mm == nil {
			continue
		}
		fns := mm.PkgFuncs(mp.pkg)
		for _, fn := range fns {
			for _, cp := range builtinCalls(fn, "copy") {
				if !isByteSlice(cp.Call.Args[0].Type()) {
					continue
				}
				le := &lenEnv{fn: fn, pkgFns: fns}
				ok, why := le.copyComplete(cp)
				c.Check(ok, B4, FuncName(fn), "copy of "+render(cp.Call.Args[1]), mm.Pos(cp.Pos()), why,
					"the destination may be shorter than the source, and copy() truncates silently: the encoded message loses its tail ("+why+")")
			}
		}
	}
	// B3: lane completeness of id hashing
	const B3 = "C13.B3"
	c.Rule(B3, "id hashing feeds every byte of the identifier", 1)
	for _, site := range []struct{ pkg, recv, fn string }{{PkgDisc, "", "makePRF"}, {PkgThreshold, "", "membershipSyncTopicName"}} {
		var fn *ssa.Function
		var cands []*ssa.Function
		if site.pkg == PkgDisc {
			// the tag PRF by role (the literal of makePRF, or the evaluation method of a PRF object)
			for f := range discPRFEvals(m) {
				cands = append(cands, f)
			}
			sort.Slice(cands, func(i, j int) bool { return cands[i].String() < cands[j].String() })
			if len(cands) > 0 {
				fn = cands[0]
			}
		}
		if fn == nil {
			fn = c.mustFunc(m, site.pkg, site.recv, site.fn)
			if fn == nil {
				continue
			}
			cands = WithAnon(fn)
		}
		n := 0
		for _, f := range cands {
			for _, in := range instrsOf(f) {
				cl, ok := in.(*ssa.Call)
				if !ok || !cl.Call.IsInvoke() || cl.Call.Method.Name() != "Write" {
					continue
				}
				// the argument is a byte slice literal
				sl, ok := strip(cl.Call.Args[0]).(*ssa.Slice)
				if !ok {
					continue
				}
				arr, ok := sl.X.(*ssa.Alloc)
				if !ok {
					continue
				}
				lanesBySrc := map[ssa.Value]map[int]bool{}
				for _, w := range encoderWrites(f) {
					if w.Buf == ssa.Value(arr) && w.Lane.Kind == laneSrc {
						src := w.Lane.Src
						for k := range lanesBySrc {
							if k != src && sameValue(k, src) {
								src = k // the identifier read twice (ids[i] … ids[i]>>8)
							}
						}
						if lanesBySrc[src] == nil {
							lanesBySrc[src] = map[int]bool{}
						}
						lanesBySrc[src][w.Lane.K] = true
					}
				}
				for s, ks := range lanesBySrc {
					if widthLanes(s.Type()) < 2 {
						continue
					}
					n++
					full := true
					for k := 0; k < widthLanes(s.Type()); k++ {
						if !ks[k] {
							full = false
						}
					}
					c.Check(full, B3, FuncName(f), "hash input for "+types.TypeString(s.Type(), shortQual)+" "+render(s), m.Pos(cl.Pos()),
						"all bytes of the identifier are written", "only part of the identifier is hashed: two identifiers that differ in the other byte get the same tag/topic")
				}
			}
		}
		if n == 0 {
			c.Bad(B3, FuncName(fn), "hash input", m.Pos(fn.Pos()), "no hashed identifier found (idiom outside the recognised set)")
		}
	}
	// T1: ASN.1 type pairs
	const T1 = "C13.T1"
	c.Rule(T1, "asn1.Unmarshal target type = asn1.Marshal source type for stored data / public parameters; id fields ≥16 bits", 2)
	for _, b := range []struct {
		mod, pkg string
		types    []string
	}{{ModBLS, PkgBLS, []string{"StoredData", "PublicParams"}}, {ModPS, PkgPS, []string{"StoredData", "ThresholdPK"}}} {
		bm := c.Mod(b.mod)
		if bm == nil {
			continue
		}
		marsh, unm := map[string]token.Pos{}, map[string]token.Pos{}
		for _, fn := range bm.PkgFuncs(b.pkg) {
			for _, in := range instrsOf(fn) {
				cl, ok := in.(*ssa.Call)
				if !ok {
					continue
				}
				if isCallTo(&cl.Call, "encoding/asn1", "Marshal") {
					if n := namedOf(strip(cl.Call.Args[0]).Type()); n != nil {
						marsh[n.Obj().Name()] = cl.Pos()
					}
				}
				if isCallTo(&cl.Call, "encoding/asn1", "Unmarshal") {
					if n := namedOf(strip(cl.Call.Args[1]).Type()); n != nil {
						unm[n.Obj().Name()] = cl.Pos()
					}
				}
			}
		}
		for _, tn := range b.types {
			_, okM := marsh[tn]
			_, okU := unm[tn]
			short := b.pkg[strings.LastIndex(b.pkg, "/")+1:] + "." + tn
			c.Check(okM && okU, T1, b.pkg, "ASN.1 pair "+short, bm.Pos(unm[tn]), "marshalled and unmarshalled as the identical struct type",
				fmt.Sprintf("%s is not both marshalled (%v) and unmarshalled (%v) as that very type: saved data does not survive serialisation", short, okM, okU))
			if t := bm.LookupType(b.pkg, tn); t != nil {
				st := t.Underlying().(*types.Struct)
				for i := 0; i < st.NumFields(); i++ {
					ft := st.Field(i).Type()
					if isByteSlice(ft) {
						continue // opaque bytes, not an identifier
					}
					if sl, ok := ft.Underlying().(*types.Slice); ok {
						ft = sl.Elem()
						if isByteSlice(ft) {
							continue
						}
					}
					if w := intWidth(ft); w > 0 {
						c.Check(w >= 16, T1, b.pkg, "width of "+short+"."+st.Field(i).Name(), bm.Pos(st.Field(i).Pos()), fmt.Sprintf("%d bits", w), "an identifier field narrower than 16 bits truncates large ids")
					}
				}
			}
		}
	}
	// conversions of ids at the ASN.1 boundary (BLS): uint16 <-> int without narrowing below 16 bits
	if bm := c.Mod(ModBLS); bm != nil {
		for _, fn := range bm.PkgFuncs(PkgBLS) {
			for _, in := range instrsOf(fn) {
				cv, ok := in.(*ssa.Convert)
				if !ok {
					continue
				}
				fw, tw := intWidth(cv.X.Type()), intWidth(cv.Type())
				if fw >= 16 && tw > 0 && tw < 16 {
					c.Bad(T1, FuncName(fn), "narrowing conversion "+render(cv), bm.Pos(cv.Pos()), "an integer of at least 16 bits is narrowed below 16 bits in the BLS backend (party identifiers are 16-bit)")
				}
			}
		}
	}
}

// expandStructResults: a decoder that hands its outputs back as one struct (`return header{round: …,
// sender: …, digest: …}, nil`): the values given to the fields of the literal stand for the results.
func expandStructResults(res []ssa.Value) []ssa.Value {
	var out []ssa.Value
	for _, r := range res {
		st, isS := r.Type().Underlying().(*types.Struct)
		a := allocOfStructValue(r)
		if !isS || a == nil {
			out = append(out, r)
			continue
		}
		for i := 0; i < st.NumFields(); i++ {
			if v, ok := structLitFieldValue(a, st.Field(i)); ok && v != nil {
				out = append(out, v)
			}
		}
	}
	return out
}

// ruleC13NoInnerBound (C13.R1): no validation cuts the 16-bit identifier range.  Wherever a value that is
// (converted to or from) a 16-bit identifier is compared with a constant K, K is not strictly inside the
// range (255 < K < 65535): a bound like `p >= 1<<15` (the signed 16-bit limit) or `id > 4096` rejects —
// or treats differently — identifiers that every other layer carries faithfully, so sessions whose
// members have large identifiers fail where small ones work.  Bounds at the edge of the range (≤ 255 is a
// byte test, 65535/65536 the range itself) are fine.
func ruleC13NoInnerBound(c *Ctx) {
	const R1 = "C13.R1"
	c.Rule(R1, "no comparison of a 16-bit identifier with a constant strictly inside the 16-bit range", 0)
	n := 0
	for _, mp := range []struct{ mod, pkg string }{{ModRoot, PkgDisc}, {ModRoot, PkgThreshold}, {ModRoot, PkgRBC}, {ModRoot, PkgNet}, {ModBLS, PkgBLS}, {ModPS, PkgPS}, {ModECDSA, PkgECDSA}, {ModEDDSA, PkgEDDSA}} {
		mm := c.Mod(mp.mod)
		if mm == nil {
			continue
		}
		for _, fn := range mm.PkgFuncs(mp.pkg) {
			// values of this function that are identifiers: 16-bit typed, or converted to a 16-bit type
			isID := map[ssa.Value]bool{}
			for _, in := range instrsOf(fn) {
				if cv, ok := in.(*ssa.Convert); ok {
					if intWidth(cv.Type()) == 16 && intWidth(cv.X.Type()) > 0 {
						isID[cv.X] = true
						isID[cv] = true
					}
					if intWidth(cv.X.Type()) == 16 && intWidth(cv.Type()) > 0 {
						isID[cv] = true
					}
				}
			}
			for _, in := range instrsOf(fn) {
				bo, ok := in.(*ssa.BinOp)
				if !ok {
					continue
				}
				switch bo.Op {
				case token.LSS, token.LEQ, token.GTR, token.GEQ:
				default:
					continue
				}
				for _, pr := range [][2]ssa.Value{{bo.X, bo.Y}, {bo.Y, bo.X}} {
					k, isK := constInt(pr[1])
					if !isK || k <= 255 || k >= 65535 {
						continue
					}
					x := pr[0]
					if _, isConst := x.(*ssa.Const); isConst {
						continue
					}
					if !(isID[x] || intWidth(x.Type()) == 16) {
						continue
					}
					if _, isLen := lenOperand(strip(x)); isLen {
						continue
					}
					n++
					c.Bad(R1, FuncName(fn), fmt.Sprintf("comparison of an identifier with %d", k), mm.Pos(bo.Pos()),
						fmt.Sprintf("a 16-bit identifier is compared with the constant %d, strictly inside the identifier range: identifiers on the other side of that bound are rejected or handled differently (e.g. the signed limit 1<<15 refuses every id ≥ 32768), so public parameters / sessions with large identifiers do not survive where small ones do", k))
				}
			}
		}
	}
	if n == 0 {
		c.OK(R1, "all packages", "identifier comparisons", "-", "no comparison of an identifier with a constant strictly inside 256..65534")
	}
}
