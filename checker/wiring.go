package main

// Constructor wiring (LoudScheme / SilentScheme): the RBC receiver and the
// synchroniser are built from the factory's arguments unchanged.

import (
	"go/types"

	"golang.org/x/tools/go/ssa"
)

// forwardsUnchanged: closure fn calls target (a captured func value) exactly once with its own parameters in order.
func forwardsUnchanged(fn *ssa.Function, target ssa.Value) bool {
	n := 0
	ok := false
	for _, in := range instrsOf(fn) {
		cl, isC := in.(*ssa.Call)
		if !isC {
			continue
		}
		if staticCallee(&cl.Call) != nil || cl.Call.IsInvoke() {
			if _, isB := cl.Call.Value.(*ssa.Builtin); !isB {
				// other calls are fine (none expected)
			}
			continue
		}
		n++
		// callee is the captured value
		v := strip(cl.Call.Value)
		fv, isFV := v.(*ssa.FreeVar)
		if !isFV {
			if ld, isLd := v.(*ssa.UnOp); isLd {
				fv, isFV = ld.X.(*ssa.FreeVar)
			}
		}
		if !isFV {
			return false
		}
		// binding of that free variable at creation == target
		idx := -1
		for i, f := range fn.FreeVars {
			if f == fv {
				idx = i
			}
		}
		bound := false
		for _, in2 := range instrsOf(fn.Parent()) {
			if mc, isMC := in2.(*ssa.MakeClosure); isMC && mc.Fn == fn && idx >= 0 {
				b := strip(mc.Bindings[idx])
				if b == strip(target) {
					bound = true
				}
				if a, isA := b.(*ssa.Alloc); isA {
					for _, st := range storesToCell(a) {
						if strip(st.Val) == strip(target) {
							bound = true
						}
					}
				}
			}
		}
		if !bound || len(cl.Call.Args) != len(fn.Params) {
			return false
		}
		ok = true
		for i, a := range cl.Call.Args {
			if strip(a) != strip(fn.Params[i]) {
				ok = false
			}
		}
	}
	return ok && n == 1
}

// ruleConstructorWiring checks both constructors; rule ids are given by the caller.
func ruleConstructorWiring(c *Ctx, t *thrModel, ruleRBC, ruleSync string) {
	m := t.m
	fN := m.Field(PkgRBC, "Receiver", "N")
	fSelf := m.Field(PkgRBC, "Receiver", "SelfID")
	fAck := m.Field(PkgRBC, "Receiver", "BroadcastAck")
	fFwd := m.Field(PkgRBC, "Receiver", "ForwardToBackend")
	fMemb := m.Field(PkgDisc, "Member", "Membership")
	fMID := m.Field(PkgDisc, "Member", "ID")
	fMB := m.Field(PkgDisc, "Member", "Broadcast")
	fMS := m.Field(PkgDisc, "Member", "Send")
	if fN == nil || fSelf == nil || fAck == nil || fFwd == nil || fMemb == nil || fMID == nil || fMB == nil || fMS == nil {
		c.Fatalf("anchor", "rbc.Receiver / disc.Member fields not found")
		return
	}
	for _, name := range []string{"LoudScheme", "SilentScheme"} {
		ctor := c.mustFunc(m, PkgThreshold, "", name)
		if ctor == nil {
			continue
		}
		id := strip(ctor.Params[0])
		nR, nS := 0, 0
		// the constructor's literals, and those made for it by closure factories it calls
		type ctorFn struct {
			fn *ssa.Function
			fc *ssa.Call // the factory call the literal comes from (nil: written in the constructor)
		}
		var fns []ctorFn
		for _, f := range WithAnon(ctor) {
			fns = append(fns, ctorFn{f, nil})
		}
		for _, in := range instrsOf(ctor) {
			if cl, ok := in.(*ssa.Call); ok {
				if mc, fc := closureLiteral(cl); mc != nil && fc != nil && pkgPathOf(fc.Call.StaticCallee()) == PkgThreshold {
					for _, f := range WithAnon(fc.Call.StaticCallee()) {
						fns = append(fns, ctorFn{f, fc})
					}
				}
			}
		}
		isID := func(v ssa.Value, fc *ssa.Call) bool {
			if v == nil {
				return false
			}
			if t.sl.rootOf(v) == id {
				return true
			}
			if a := factoryArg(v, fc); a != nil {
				return strip(a) == id || t.sl.rootOf(a) == id
			}
			return false
		}
		for _, cf := range fns {
			clo := cf.fn
			for _, in := range instrsOf(clo) {
				a, ok := in.(*ssa.Alloc)
				if !ok {
					continue
				}
				el := a.Type().(*types.Pointer).Elem()
				switch {
				case ruleRBC != "" && isNamed(el, PkgRBC, "Receiver"):
					nR++
					nv, _ := structLitFieldValue(a, fN)
					sv, _ := structLitFieldValue(a, fSelf)
					av, _ := structLitFieldValue(a, fAck)
					fv, _ := structLitFieldValue(a, fFwd)
					okN := nv != nil && len(clo.Params) == 3 && strip(nv) == strip(clo.Params[2])
					okS := isID(sv, cf.fc)
					okA, okF := false, false
					if mc, isMC := strip(av).(*ssa.MakeClosure); av != nil && isMC && len(clo.Params) == 3 {
						okA = forwardsUnchanged(mc.Fn.(*ssa.Function), clo.Params[0])
					}
					if mc, isMC := strip(fv).(*ssa.MakeClosure); fv != nil && isMC && len(clo.Params) == 3 {
						okF = forwardsUnchanged(mc.Fn.(*ssa.Function), clo.Params[1])
					}
					c.Check(okN && okS && okA && okF, ruleRBC, FuncName(clo), "rbc.Receiver built from the factory's arguments", m.Pos(a.Pos()),
						"N ← n, SelfID ← id, BroadcastAck/ForwardToBackend forward their arguments unchanged to bcast/fwd",
						"the RBC instance is not built from the factory's arguments unchanged (instance size, own id, acknowledgement or hand-over callback altered): quorum, self-vouching and attribution are off")
				case ruleSync != "" && isNamed(el, PkgDisc, "Member"):
					nS++
					mv, _ := structLitFieldValue(a, fMemb)
					iv, _ := structLitFieldValue(a, fMID)
					bv, _ := structLitFieldValue(a, fMB)
					sv, _ := structLitFieldValue(a, fMS)
					ok := len(clo.Params) == 3 && mv != nil && strip(mv) == strip(clo.Params[0]) && isID(iv, cf.fc) &&
						bv != nil && strip(bv) == strip(clo.Params[1]) && sv != nil && strip(sv) == strip(clo.Params[2])
					c.Check(ok, ruleSync, FuncName(clo), "disc.Member built from the factory's arguments", m.Pos(a.Pos()),
						"Membership ← members, ID ← id, Broadcast/Send ← the factory's callbacks",
						"the synchroniser is not built over the member list / callbacks it was given")
				}
			}
		}
		if ruleRBC != "" && nR == 0 {
			c.Bad(ruleRBC, FuncName(ctor), "rbc.Receiver construction", m.Pos(ctor.Pos()), "the constructor's RBF does not build an rbc.Receiver")
		}
		if ruleSync != "" && name == "LoudScheme" && nS == 0 {
			c.Bad(ruleSync, FuncName(ctor), "disc.Member construction", m.Pos(ctor.Pos()), "LoudScheme's SyncFactory does not build a disc.Member")
		}
	}
}
