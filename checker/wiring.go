package main

// Constructor wiring (LoudScheme / SilentScheme): the RBC receiver and the
// synchroniser are built from the factory's arguments unchanged.

import (
	"go/types"

	"golang.org/x/tools/go/ssa"
)

// forwardsUnchanged: closure fn calls target (a captured func value) exactly once with its own parameters in order.
func forwardsUnchanged(fn *ssa.Function, target ssa.Value) bool {
	// a method value of a small adapter object (`hooks.broadcastAck` with hooks = rbcHooks{bcast: bcast}):
	// the method calls a func-typed field of its by-value receiver with its own parameters unchanged, and
	// the object bound to the method value holds the target in that field
	if body := litBody(fn); body != fn && body.Signature.Recv() != nil && len(body.Params) >= 1 {
		var call *ssa.Call
		nc := 0
		for _, in := range instrsOf(body) {
			if cl, isC := in.(*ssa.Call); isC && staticCallee(&cl.Call) == nil && !cl.Call.IsInvoke() {
				if _, isB := cl.Call.Value.(*ssa.Builtin); !isB {
					call = cl
					nc++
				}
			}
		}
		if nc != 1 || len(call.Call.Args) != len(body.Params)-1 {
			return false
		}
		for i, a := range call.Call.Args {
			noParamLook++
			same := strip(a) == ssa.Value(body.Params[i+1])
			noParamLook--
			if !same {
				return false
			}
		}
		noParamLook++
		cv := strip(call.Call.Value)
		noParamLook--
		po, fld := paramObjectField(cv)
		if po != body.Params[0] {
			return false
		}
		// the receiver the method value was bound to
		var recv ssa.Value
		if mc := methodLiteral[fn]; mc != nil && len(mc.Bindings) == 1 {
			recv = mc.Bindings[0]
		}
		if recv == nil {
			return false
		}
		fv := structFieldValue(recv, fld, 0)
		return fv != nil && strip(fv) == strip(target)
	}
	n := 0
	ok := false
	for _, in := range instrsOf(fn) {
		cl, isC := in.(*ssa.Call)
		if !isC {
			continue
		}
		if staticCallee(&cl.Call) != nil || cl.Call.IsInvoke() {
			if _, isB := cl.Call.Value.(*ssa.Builtin); !isB {
				// other calls are fine (none expected)
			}
			continue
		}
		n++
		// callee is the captured value
		v := strip(cl.Call.Value)
		fv, isFV := v.(*ssa.FreeVar)
		if !isFV {
			if ld, isLd := v.(*ssa.UnOp); isLd {
				fv, isFV = ld.X.(*ssa.FreeVar)
			}
		}
		if !isFV {
			return false
		}
		// binding of that free variable at creation == target
		idx := -1
		for i, f := range fn.FreeVars {
			if f == fv {
				idx = i
			}
		}
		bound := false
		for _, in2 := range instrsOf(fn.Parent()) {
			if mc, isMC := in2.(*ssa.MakeClosure); isMC && mc.Fn == fn && idx >= 0 {
				b := strip(mc.Bindings[idx])
				if b == strip(target) {
					bound = true
				}
				if a, isA := b.(*ssa.Alloc); isA {
					for _, st := range storesToCell(a) {
						if strip(st.Val) == strip(target) {
							bound = true
						}
					}
				}
			}
		}
		if !bound || len(cl.Call.Args) != len(fn.Params) {
			return false
		}
		ok = true
		for i, a := range cl.Call.Args {
			if strip(a) != strip(fn.Params[i]) {
				ok = false
			}
		}
	}
	return ok && n == 1
}

// ruleConstructorWiring checks both constructors; rule ids are given by the caller.
func ruleConstructorWiring(c *Ctx, t *thrModel, ruleRBC, ruleSync string) {
	m := t.m
	fN := m.Field(PkgRBC, "Receiver", "N")
	fSelf := m.Field(PkgRBC, "Receiver", "SelfID")
	fAck := m.Field(PkgRBC, "Receiver", "BroadcastAck")
	fFwd := m.Field(PkgRBC, "Receiver", "ForwardToBackend")
	fMemb := m.Field(PkgDisc, "Member", "Membership")
	fMID := m.Field(PkgDisc, "Member", "ID")
	fMB := m.Field(PkgDisc, "Member", "Broadcast")
	fMS := m.Field(PkgDisc, "Member", "Send")
	if fN == nil || fSelf == nil || fAck == nil || fFwd == nil || fMemb == nil || fMID == nil || fMB == nil || fMS == nil {
		c.Fatalf("anchor", "rbc.Receiver / disc.Member fields not found")
		return
	}
	for _, name := range []string{"LoudScheme", "SilentScheme"} {
		ctor := c.mustFunc(m, PkgThreshold, "", name)
		if ctor == nil {
			continue
		}
		id := strip(ctor.Params[0])
		nR, nS := 0, 0
		// the constructor's literals, and those made for it by closure factories it calls
		type ctorFn struct {
			fn    *ssa.Function
			fc    *ssa.Call   // the factory call the literal comes from (nil: written in the constructor)
			chain []*ssa.Call // the calls from the constructor down to the construction step holding it
		}
		var fns []ctorFn
		seenStep := map[*ssa.Function]bool{}
		var collect func(step *ssa.Function, chain []*ssa.Call)
		collect = func(step *ssa.Function, chain []*ssa.Call) {
			if seenStep[step] || len(chain) > 2 {
				return
			}
			seenStep[step] = true
			for _, f := range WithAnon(step) {
				fns = append(fns, ctorFn{f, nil, chain})
			}
			for _, in := range instrsOf(step) {
				cl, ok := in.(*ssa.Call)
				if !ok {
					continue
				}
				if mc, fc := closureLiteral(cl); mc != nil && fc != nil && pkgPathOf(fc.Call.StaticCallee()) == PkgThreshold {
					for _, f := range WithAnon(fc.Call.StaticCallee()) {
						fns = append(fns, ctorFn{f, fc, chain})
					}
					continue
				}
				// a construction step (an unexported function building the scheme for the constructors)
				if g := cl.Call.StaticCallee(); g != nil && g.Blocks != nil && pkgPathOf(g) == PkgThreshold && g.Object() != nil && !g.Object().Exported() {
					if ca, via, _ := ctorLiteral(cl); ca != nil && via == cl {
						collect(g, append(append([]*ssa.Call{}, chain...), cl))
					}
				}
			}
		}
		collect(ctor, nil)
		isID := func(v ssa.Value, cf ctorFn) bool {
			if v == nil {
				return false
			}
			if t.sl.rootOf(v) == id {
				return true
			}
			if ov := throughObjects(v, cf.chain); ov != nil && (strip(ov) == id || t.sl.rootOf(ov) == id) {
				return true
			}
			a := v
			if fa := factoryArg(v, cf.fc); fa != nil {
				a = fa
				if strip(a) == id || t.sl.rootOf(a) == id {
					return true
				}
			}
			// up the chain of construction steps: a step's parameter is what its caller passes
			for i := len(cf.chain) - 1; i >= 0; i-- {
				noParamLook++
				sa := strip(a)
				noParamLook--
				p, ok := sa.(*ssa.Parameter)
				if !ok {
					if r, isP := t.sl.rootOf(a).(*ssa.Parameter); isP {
						p, ok = r, true
					}
				}
				g := cf.chain[i].Call.StaticCallee()
				if !ok || p.Parent() != g {
					return false
				}
				idx := paramIndex(p)
				if idx < 0 || idx >= len(cf.chain[i].Call.Args) {
					return false
				}
				a = cf.chain[i].Call.Args[idx]
			}
			return strip(a) == id || t.sl.rootOf(a) == id
		}
		for _, cf := range fns {
			clo := cf.fn
			for _, in := range instrsDeep(clo) {
				a, ok := in.(*ssa.Alloc)
				if !ok {
					continue
				}
				el := a.Type().(*types.Pointer).Elem()
				switch {
				case ruleRBC != "" && isNamed(el, PkgRBC, "Receiver"):
					nR++
					nv, _ := structLitFieldValue(a, fN)
					sv, _ := structLitFieldValue(a, fSelf)
					av, _ := structLitFieldValue(a, fAck)
					fv, _ := structLitFieldValue(a, fFwd)
					okN := nv != nil && len(clo.Params) == 3 && strip(nv) == strip(clo.Params[2])
					okS := isID(sv, cf)
					okA, okF := false, false
					if mc, isMC := strip(av).(*ssa.MakeClosure); av != nil && isMC && len(clo.Params) == 3 {
						okA = forwardsUnchanged(mc.Fn.(*ssa.Function), clo.Params[0])
					}
					if mc, isMC := strip(fv).(*ssa.MakeClosure); fv != nil && isMC && len(clo.Params) == 3 {
						okF = forwardsUnchanged(mc.Fn.(*ssa.Function), clo.Params[1])
					}
					c.Check(okN && okS && okA && okF, ruleRBC, FuncName(clo), "rbc.Receiver built from the factory's arguments", m.Pos(a.Pos()),
						"N ← n, SelfID ← id, BroadcastAck/ForwardToBackend forward their arguments unchanged to bcast/fwd",
						"the RBC instance is not built from the factory's arguments unchanged (instance size, own id, acknowledgement or hand-over callback altered): quorum, self-vouching and attribution are off")
				case ruleSync != "" && isNamed(el, PkgDisc, "Member"):
					nS++
					mv, _ := structLitFieldValue(a, fMemb)
					iv, _ := structLitFieldValue(a, fMID)
					bv, _ := structLitFieldValue(a, fMB)
					sv, _ := structLitFieldValue(a, fMS)
					ok := len(clo.Params) == 3 && mv != nil && strip(mv) == strip(clo.Params[0]) && isID(iv, cf) &&
						bv != nil && strip(bv) == strip(clo.Params[1]) && sv != nil && strip(sv) == strip(clo.Params[2])
					c.Check(ok, ruleSync, FuncName(clo), "disc.Member built from the factory's arguments", m.Pos(a.Pos()),
						"Membership ← members, ID ← id, Broadcast/Send ← the factory's callbacks",
						"the synchroniser is not built over the member list / callbacks it was given")
				}
			}
		}
		if ruleRBC != "" && nR == 0 {
			c.Bad(ruleRBC, FuncName(ctor), "rbc.Receiver construction", m.Pos(ctor.Pos()), "the constructor's RBF does not build an rbc.Receiver")
		}
		if ruleSync != "" && name == "LoudScheme" && nS == 0 {
			c.Bad(ruleSync, FuncName(ctor), "disc.Member construction", m.Pos(ctor.Pos()), "LoudScheme's SyncFactory does not build a disc.Member")
		}
	}
}

// throughObjects resolves a value read inside a construction step or a callback to the value the
// constructor holds for it, through the objects that carry it: a field of a by-value parameter object
// (`p.id` in a method of `schemeParts`), the receiver a method value was bound to (`p.newRBC` taken in
// `newScheme`, whose own receiver is the object the constructor filled), parameters of transparent helpers
// and of the construction steps in chain.  Returns nil when a step cannot be followed.
func throughObjects(v ssa.Value, chain []*ssa.Call) ssa.Value {
	argOf := func(p *ssa.Parameter) ssa.Value {
		idx := paramIndex(p)
		if c := helperCall(p.Parent()); c != nil && idx >= 0 && idx < len(c.Call.Args) {
			return c.Call.Args[idx]
		}
		for _, c := range chain {
			if c.Call.StaticCallee() == p.Parent() && idx >= 0 && idx < len(c.Call.Args) {
				return c.Call.Args[idx]
			}
		}
		return nil
	}
	// the object value a by-value struct "variable" stands for, one step outwards
	outer := func(obj ssa.Value) ssa.Value {
		noParamLook++
		so := strip(obj)
		noParamLook--
		switch x := so.(type) {
		case *ssa.Parameter:
			return argOf(x)
		case *ssa.FreeVar:
			// the bound receiver of a method value: what it was bound to
			fn := x.Parent()
			mc := methodLiteral[fn]
			if mc == nil {
				return nil
			}
			for k, fv := range fn.FreeVars {
				if fv == x && k < len(mc.Bindings) {
					return mc.Bindings[k]
				}
			}
		case *ssa.UnOp:
			// a by-value parameter spilled to a cell and read back whole
			if p := handedOnParam(so); p != nil {
				return argOf(p)
			}
		}
		return nil
	}
	for i := 0; i < 10 && v != nil; i++ {
		noParamLook++
		sv := strip(v)
		noParamLook--
		if po, fld := paramObjectField(sv); po != nil {
			obj := argOf(po)
			for j := 0; j < 6 && obj != nil; j++ {
				if fv := structFieldValue(obj, fld, 0); fv != nil {
					v = fv
					break
				}
				obj = outer(obj)
			}
			if obj == nil {
				return nil
			}
			continue
		}
		if p, ok := sv.(*ssa.Parameter); ok {
			a := argOf(p)
			if a == nil {
				return sv
			}
			v = a
			continue
		}
		return sv
	}
	return v
}
