package main

// C09 — verification paths are side-effect free; proof before share;
// Fiat–Shamir operands bound; verdict returned.

import (
	"fmt"
	"go/token"
	"go/types"
	"sort"
	"strings"

	"golang.org/x/tools/go/ssa"
)

func init() { register("C09", checkC09) }

const PkgMathlib = "github.com/IBM/mathlib"

// isMathlibMutator: pointer-receiver method of a mathlib type without results.
func isMathlibMutator(o *types.Func) bool {
	if o == nil || o.Pkg() == nil || o.Pkg().Path() != PkgMathlib {
		return false
	}
	sig := o.Type().(*types.Signature)
	if sig.Recv() == nil || sig.Results().Len() != 0 {
		return false
	}
	_, isPtr := sig.Recv().Type().(*types.Pointer)
	return isPtr
}

type purity struct {
	m     *Module
	pkg   string
	reach map[*ssa.Function]bool
	memo  map[ssa.Value]int // 1 fresh, 2 not fresh
	sl    *Slicer
	asVal map[*ssa.Function]bool
}

// usedAsValue: g appears as an operand other than the callee of a call (stored, passed, bound).
func (p *purity) usedAsValue(g *ssa.Function) bool {
	if p.asVal == nil {
		p.asVal = map[*ssa.Function]bool{}
		for _, fn := range p.sl.fns {
			for _, in := range instrsOf(fn) {
				var callee ssa.Value
				if ci, ok := in.(ssa.CallInstruction); ok {
					callee = ci.Common().Value
					for _, a := range ci.Common().Args {
						if f, isF := a.(*ssa.Function); isF {
							p.asVal[f] = true
						}
					}
				}
				for _, op := range in.Operands(nil) {
					if op == nil || *op == nil {
						continue
					}
					if f, isF := (*op).(*ssa.Function); isF && ssa.Value(f) != callee {
						p.asVal[f] = true
					}
				}
				if mc, ok := in.(*ssa.MakeClosure); ok {
					if _, mo, isB := boundMethod(mc); isB {
						if f := p.m.Prog.FuncValue(mo); f != nil {
							p.asVal[f] = true
						}
					}
				}
			}
		}
	}
	return p.asVal[g]
}

// reachFrom: own-package functions reachable through static calls and closures.
func reachFrom(m *Module, pkg string, entries []*ssa.Function) map[*ssa.Function]bool {
	seen := map[*ssa.Function]bool{}
	var walk func(fn *ssa.Function)
	walk = func(fn *ssa.Function) {
		if fn == nil || seen[fn] || fn.Blocks == nil || pkgPathOf(fn) != pkg {
			return
		}
		seen[fn] = true
		for _, in := range instrsOf(fn) {
			switch x := in.(type) {
			case *ssa.MakeClosure:
				walk(x.Fn.(*ssa.Function))
			case ssa.CallInstruction:
				walk(staticCallee(x.Common()))
			}
		}
	}
	for _, e := range entries {
		walk(e)
	}
	return seen
}

// fresh: v denotes an object allocated during this call chain (not reachable from inputs/state).
func (p *purity) fresh(v ssa.Value, depth int) (bool, string) {
	v = strip(v)
	if depth > 8 {
		return false, "too deep"
	}
	switch x := v.(type) {
	case *ssa.Call:
		if callee := staticCallee(&x.Call); callee != nil && callee.Blocks != nil && pkgPathOf(callee) == p.pkg {
			// own function: fresh if all its returned values (at this index) are fresh
			for _, in := range instrsOf(callee) {
				if r, ok := in.(*ssa.Return); ok && len(r.Results) >= 1 {
					if ok2, why := p.fresh(retResult(r, 0), depth+1); !ok2 {
						return false, "returned by " + callee.Name() + ": " + why
					}
				}
			}
			return true, ""
		}
		return true, "" // library operator/constructor result (mathlib's constructor/mutator split)
	case *ssa.Extract:
		return p.fresh(x.Tuple, depth+1)
	case *ssa.Alloc:
		return true, ""
	case *ssa.Phi:
		for _, e := range x.Edges {
			if e == ssa.Value(x) {
				continue
			}
			if ok, why := p.fresh(e, depth+1); !ok {
				return false, why
			}
		}
		return true, ""
	case *ssa.UnOp:
		if x.Op == token.MUL {
			// element of a slice made in this function whose stored elements are all fresh
			if ia, ok := x.X.(*ssa.IndexAddr); ok {
				base := strip(ia.X)
				if ms, ok := base.(*ssa.MakeSlice); ok && ms.Parent() == x.Parent() {
					all := true
					n := 0
					if refs := ms.Referrers(); refs != nil {
						for _, r := range *refs {
							if ia2, ok := r.(*ssa.IndexAddr); ok && ia2.Referrers() != nil {
								for _, q := range *ia2.Referrers() {
									if st, ok := q.(*ssa.Store); ok && st.Addr == ssa.Value(ia2) {
										n++
										if ok2, _ := p.fresh(st.Val, depth+1); !ok2 {
											all = false
										}
									}
								}
							}
						}
					}
					if all && n > 0 {
						return true, ""
					}
				}
				return false, "element of " + render(ia.X) + " (shared storage)"
			}
			if fa, ok := x.X.(*ssa.FieldAddr); ok {
				return false, "field " + fieldOfAddr(fa).Name() + " of " + render(fa.X)
			}
			if cell := cellOf(x.X); cell != nil {
				for _, st := range storesToCell(cell) {
					if ok, why := p.fresh(st.Val, depth+1); !ok {
						return false, why
					}
				}
				return true, ""
			}
			if _, ok := x.X.(*ssa.Global); ok {
				return false, "package-level variable"
			}
		}
		return false, "loaded from memory"
	case *ssa.Parameter:
		// an accumulator handed to an unexported helper (`addScaled(acc, points, scalars)`): ownership is
		// the callers' — the object is fresh here when every call passes a fresh one
		if g := x.Parent(); p.sl != nil && g.Object() != nil && !g.Object().Exported() && g.Parent() == nil && !p.usedAsValue(g) {
			cs := p.sl.callers[g]
			idx := paramIndex(x)
			if len(cs) > 0 && idx >= 0 {
				for _, c := range cs {
					args := c.Common().Args
					if _, isCall := c.(*ssa.Call); !isCall || idx >= len(args) {
						return false, "parameter " + x.Name()
					}
					if ok, why := p.fresh(args[idx], depth+1); !ok {
						return false, "parameter " + x.Name() + " (" + FuncName(c.Parent()) + " passes " + why + ")"
					}
				}
				return true, ""
			}
		}
		return false, "parameter " + x.Name()
	case *ssa.FreeVar:
		return false, "captured variable " + x.Name()
	case *ssa.Field:
		return false, "field of " + render(x.X)
	case *ssa.Convert, *ssa.ChangeType:
		return false, "converted input"
	}
	return false, "not a freshly allocated object"
}

func checkC09(c *Ctx) {
	c.explanation = "Static decision on the SSA of mpc/bls and mpc/ps of: (M1) in everything reachable from the verification, signing, unblinding and proving entry points, the receiver of every mathlib mutator (pointer-receiver method without results, read from the dependency's method set: Add, Sub, Mod, InvModP, …) is a freshly allocated object (result of an operator/constructor call, or an element of a slice built in the same function from such results), never a parameter, a field, an element of shared storage or a global; the only stores into parameter-reachable memory are decoders filling a local the caller just allocated; (G1) in SignBlindSignature every use of the share is dominated by the nil arm of the request proof's Verify; (V1) for both Fiat–Shamir oracles — found by their role: functions of several group elements whose result is, or is turned by every caller into, a HashToZr challenge — every group-element operand (a parameter or a field of a parameter object; frozen count and one frozen exclusion) flows into the hashed bytes, the verifiers pass the object's own fields / their own parameters in those positions, and the challenge feeds every checked equation; (V2) every error of an inner check or of point parsing is branched on and returned; (D1) BLS aggregation takes evaluation points from the party→point table built by Init. Soundness of the pairing equations/proofs, fewer-than-t and cross-session substitution are algebra and are not decided."
	c.notDecided = "soundness of the pairing equations and proofs; fewer than t shares; cross-session substitution"
	c.Assume("mathlib: methods with results return newly allocated values; pointer-receiver methods without results modify their receiver only")
	const M1, G1, V1, V2, D1 = "C09.M1", "C09.G1", "C09.V1", "C09.V2", "C09.D1"
	c.Rule(M1, "mutator receivers are fresh; no stores into inputs/state on verification paths", 12)
	c.Rule(G1, "share used only after the request proof verified", 1)
	c.Rule(V1, "Fiat–Shamir operands bound", 10)
	c.Rule(V2, "errors of inner checks and point parsing are branched on and returned", 10)
	c.Rule(D1, "BLS aggregation uses the party→point table", 1)

	type entrySpec struct{ recv, name string }
	specs := map[string][]entrySpec{
		PkgBLS: {{"Verifier", "Verify"}, {"Verifier", "AggregateSignatures"}, {"TBLS", "Sign"}},
		PkgPS:  {{"", "SignBlindSignature"}, {"TPS", "Sign"}, {"Verifier", "Verify"}, {"Prover", "UnBlind"}, {"Prover", "ProveKnowledgeOfSignature"}},
	}
	for _, b := range builtinBackends {
		m := c.Mod(b.mod)
		if m == nil {
			continue
		}
		var entries []*ssa.Function
		for _, e := range specs[b.pkg] {
			if f := c.mustFunc(m, b.pkg, e.recv, e.name); f != nil {
				entries = append(entries, f)
			}
		}
		reach := reachFrom(m, b.pkg, entries)
		p := &purity{m: m, pkg: b.pkg, reach: reach, sl: NewSlicer(m, b.pkg)}
		var fns []*ssa.Function
		for f := range reach {
			fns = append(fns, f)
		}
		sort.Slice(fns, func(i, j int) bool { return fns[i].String() < fns[j].String() })
		sl := NewSlicer(m, b.pkg)
		for _, fn := range fns {
			c.Analysed(FuncName(fn))
			for _, in := range instrsOf(fn) {
				switch x := in.(type) {
				case *ssa.Call:
					o := calleeObj(&x.Call)
					if isMathlibMutator(o) {
						recv := x.Call.Args[0]
						ok, why := p.fresh(recv, 0)
						c.Check(ok, M1, FuncName(fn), "receiver of "+o.Name()+": "+render(recv), m.Pos(x.Pos()), "freshly allocated",
							"a mathlib mutator is applied to "+why+": verifying/signing modifies its input, so doing it again on the same object gives a different verdict")
					}
				case *ssa.Store:
					// stores into memory reachable from parameters
					var base ssa.Value
					switch a := x.Addr.(type) {
					case *ssa.FieldAddr:
						base = a.X
					case *ssa.IndexAddr:
						base = a.X
					default:
						continue
					}
					root := strip(base)
					for i := 0; i < 6; i++ {
						switch r := root.(type) {
						case *ssa.FieldAddr:
							root = strip(r.X)
							continue
						case *ssa.IndexAddr:
							root = strip(r.X)
							continue
						case *ssa.UnOp:
							if r.Op == token.MUL {
								if fa, ok := r.X.(*ssa.FieldAddr); ok {
									root = strip(fa.X)
									continue
								}
							}
						}
						break
					}
					prm, isParam := root.(*ssa.Parameter)
					if !isParam {
						continue
					}
					// decoder filling a local of its caller
					ok := true
					why := ""
					idx := paramIndex(prm)
					callers := staticCallsTo(fns, fn)
					if len(callers) == 0 {
						ok, why = false, "an entry point stores into its receiver/argument"
					}
					for _, cs := range callers {
						arg := strip(cs.Common().Args[idx])
						fresh := false
						switch a := arg.(type) {
						case *ssa.Alloc:
							fresh = a.Parent() == cs.Parent()
						case *ssa.FieldAddr:
							if al, isA := strip(a.X).(*ssa.Alloc); isA && al.Parent() == cs.Parent() {
								fresh = true
							}
							// field of the caller's own receiver that is itself being filled by a decoder chain
							if pp, isP := strip(a.X).(*ssa.Parameter); isP && pp.Parent() == cs.Parent() {
								// accept if the caller is also only called with locals (checked when its own stores are visited)
								fresh = true
							}
						}
						// a slice the caller made just before and stored in the object it is filling itself:
						// `bs.a = make([]*G1, n); fill(bs.a, raw)`
						if ld, isLd := arg.(*ssa.UnOp); isLd && ld.Op == token.MUL && !fresh {
							if fa, isFA := ld.X.(*ssa.FieldAddr); isFA {
								for _, st := range storesToField([]*ssa.Function{cs.Parent()}, fieldOfAddr(fa)) {
									sfa, _ := st.Addr.(*ssa.FieldAddr)
									_, isMake := strip(st.Val).(*ssa.MakeSlice)
									if sfa != nil && isMake && sameObject(sfa.X, fa.X) && instrDominates(st, cs.(ssa.Instruction)) {
										fresh = true
									}
								}
							}
						}
						if !fresh {
							ok = false
							why = "called from " + FuncName(cs.Parent()) + " with " + render(arg)
						}
					}
					c.Check(ok, M1, FuncName(fn), "store into "+render(x.Addr), m.Pos(x.Pos()), "fills an object its caller just allocated",
						"a verification/signing path writes into memory it was given ("+why+")")
				}
			}
		}

		// ---------------------------------------------------------------- V2: errors honoured
		for _, fn := range fns {
			for _, in := range instrsOf(fn) {
				cl, ok := in.(*ssa.Call)
				if !ok {
					continue
				}
				res := cl.Call.Signature().Results()
				errIdx := -1
				for i := 0; i < res.Len(); i++ {
					if types.Identical(res.At(i).Type(), types.Universe.Lookup("error").Type()) {
						errIdx = i
					}
				}
				if errIdx < 0 {
					continue
				}
				o := calleeObj(&cl.Call)
				if o == nil || o.Pkg() == nil {
					continue
				}
				own := o.Pkg().Path() == b.pkg
				parse := o.Pkg().Path() == PkgMathlib && strings.HasSuffix(o.Name(), "FromBytes")
				unmarshal := isCallTo(&cl.Call, "encoding/asn1", "Unmarshal")
				if !own && !parse && !unmarshal {
					continue
				}
				ok2, why := errorResultHonoured(cl, errIdx, res.Len())
				c.Check(ok2, V2, FuncName(fn), "error of "+o.Name()+"(…)", m.Pos(cl.Pos()), "branched on; failing arm returns an error",
					"the error of "+o.Name()+" is dropped ("+why+"): a malformed or rejected input is treated as accepted / used")
			}
		}

		if b.pkg == PkgPS {
			checkC09PS(c, m, sl)
		} else {
			// D1
			agg := m.Func(PkgBLS, "Verifier", "AggregateSignatures")
			fTab := m.Field(PkgBLS, "Verifier", "parties2EvalPoints")
			okD := false
			if agg != nil && fTab != nil {
				for _, in := range instrsOf(agg) {
					cl, ok := in.(*ssa.Call)
					if !ok {
						continue
					}
					cal := staticCallee(&cl.Call)
					if cal == nil || cal.Name() != "localAggregateSignatures" {
						continue
					}
					s := sl.Slice(cl.Call.Args[1])
					fromTab := sliceHas(s, func(v ssa.Value) bool {
						lk, ok := v.(*ssa.Lookup)
						return ok && isLoadOfField(lk.X, fTab)
					})
					direct := sliceHas(s, func(v ssa.Value) bool {
						cv, ok := v.(*ssa.Convert)
						return ok && intWidth(cv.X.Type()) == 16 && intWidth(cv.Type()) == 64
					})
					okD = fromTab && !direct
				}
			}
			c.Check(okD, D1, "(*mpc/bls.Verifier).AggregateSignatures", "evaluation points", "-", "points ← parties2EvalPoints[signer]", "evaluation points are computed from the party id directly instead of the party→point table built by Init (wrong for non-contiguous party ids)")
		}
	}
}

// errorResultHonoured: like errorHonoured but for an error at result index errIdx of a (possibly tuple) call.
func errorResultHonoured(cl *ssa.Call, errIdx, nres int) (bool, string) {
	if nres == 1 {
		return errorHonoured(cl)
	}
	var ev *ssa.Extract
	if cl.Referrers() != nil {
		for _, r := range *cl.Referrers() {
			if e, ok := r.(*ssa.Extract); ok && e.Index == errIdx {
				ev = e
			}
		}
	}
	if ev == nil || ev.Referrers() == nil || len(*ev.Referrers()) == 0 {
		// `return f(...)` forwarding the whole tuple
		if cl.Referrers() != nil {
			for _, r := range *cl.Referrers() {
				if _, ok := r.(*ssa.Return); ok {
					return true, ""
				}
			}
		}
		return false, "the error result is never read"
	}
	fn := cl.Parent()
	// returned directly?
	for _, r := range *ev.Referrers() {
		if _, ok := r.(*ssa.Return); ok {
			return true, ""
		}
		if st, ok := r.(*ssa.Store); ok {
			if _, isA := st.Addr.(*ssa.Alloc); isA {
				for _, in := range st.Block().Instrs {
					if ret, ok := in.(*ssa.Return); ok {
						for i := range ret.Results {
							if retResult(ret, i) == ssa.Value(ev) {
								return true, ""
							}
						}
					}
				}
			}
		}
	}
	var test *ssa.If
	for _, b := range fn.Blocks {
		if iff, ok := b.Instrs[len(b.Instrs)-1].(*ssa.If); ok {
			f := factOf(Guard{iff, true})
			if (f.Op == token.NEQ || f.Op == token.EQL) && strip(f.X) == ssa.Value(ev) && isNilConst(f.Y) {
				test = iff
			}
		}
	}
	if test == nil {
		return false, "the error is never compared with nil"
	}
	f := factOf(Guard{test, true})
	errArm := test.Block().Succs[0]
	if f.Op == token.EQL {
		errArm = test.Block().Succs[1]
	}
	if r, ok := errArm.Instrs[len(errArm.Instrs)-1].(*ssa.Return); ok {
		nonNil := false
		for i := range r.Results {
			rv := retResult(r, i)
			if types.Identical(rv.Type(), ev.Type()) && !isNilConst(rv) {
				nonNil = true
			}
		}
		if !nonNil {
			return false, "the failing arm returns without an error"
		}
	} else if _, isPanic := errArm.Instrs[len(errArm.Instrs)-1].(*ssa.Panic); !isPanic {
		return false, "the failing arm does not leave the function"
	}
	// the test must directly follow the call (same block or dominated, before the value is used)
	if !instrDominates(cl, test) {
		return false, "the test does not follow the call"
	}
	return true, ""
}

type fsOracle struct {
	name   string
	params []string // parameter names that must be hashed
}

var fsOracles = []fsOracle{
	{"randomOracleForBlindingProof", []string{"d", "f", "s", "a", "b", "cm", "g", "g0", "h", "u"}},
	{"randomOracleForPoKofSignature", []string{"Γ", "Φ", "ν", "hε", "g2", "X", "κ", "Y"}},
}

func checkC09PS(c *Ctx, m *Module, sl *Slicer) {
	const G1, V1 = "C09.G1", "C09.V1"
	// ---------------------------------------------------------------- G1
	sbs := m.Func(PkgPS, "", "SignBlindSignature")
	if sbs != nil && len(sbs.Params) == 3 {
		sk := sbs.Params[2]
		var verifyCall *ssa.Call
		for _, in := range instrsOf(sbs) {
			if cl, ok := in.(*ssa.Call); ok {
				// (the checking method of the request's proof object: exported Verify or the unexported
				// method it wraps — a method of the proof type with a single error result)
				if cal := staticCallee(&cl.Call); cal != nil && cal.Signature.Recv() != nil && isNamed(cal.Signature.Recv().Type(), PkgPS, "BlindCorrectFormProof") &&
					cal.Signature.Results().Len() == 1 && types.Identical(cal.Signature.Results().At(0).Type(), types.Universe.Lookup("error").Type()) {
					verifyCall = cl
				}
			}
		}
		if verifyCall == nil {
			c.Bad(G1, FuncName(sbs), "request proof verified", m.Pos(sbs.Pos()), "SignBlindSignature does not verify the request's proof")
		} else {
			// the proof verified is the request's own
			okOwn := false
			if fa, ok := strip(verifyCall.Call.Args[0]).(*ssa.FieldAddr); ok {
				okOwn = sl.Slice(fa.X)[sbs.Params[1]] || strip(fa.X) == strip(sbs.Params[1])
			}
			c.Check(okOwn, G1, FuncName(sbs), "the proof verified is the request's own", m.Pos(verifyCall.Pos()), "σ.ξ.Verify(...)", "the proof checked does not belong to the request being signed")
			n := 0
			for _, in := range instrsOf(sbs) {
				v, ok := in.(ssa.Value)
				if !ok {
					continue
				}
				uses := false
				switch x := in.(type) {
				case *ssa.Field:
					uses = strip(x.X) == strip(sk)
				case *ssa.FieldAddr:
					if a, isA := strip(x.X).(*ssa.Alloc); isA {
						// spilled parameter
						for _, st := range storesToCell(a) {
							if st.Val == strip(sk) {
								uses = true
							}
						}
					}
				}
				if !uses || onlyLenUses(v, 0) {
					continue // reading the length of the key vector does not apply the share
				}
				n++
				ok2 := hasFact(FactsAt(in), func(f Fact) bool {
					return f.Op == token.EQL && strip(f.X) == ssa.Value(verifyCall) && isNilConst(f.Y)
				})
				c.Check(ok2, G1, FuncName(sbs), "use of the share: "+render(v), m.Pos(in.Pos()), "dominated by Verify(...) == nil", "the secret share is applied to a request whose well-formedness proof has not (yet) been accepted")
			}
			if n == 0 {
				c.Bad(G1, FuncName(sbs), "use of the share", m.Pos(sbs.Pos()), "no use of the share found (model went blind)")
			}
		}
	}
	ruleC09ElementWise(c, m, sl)
	// ---------------------------------------------------------------- V1
	// The Fiat–Shamir oracles are found by what they do — a function of package ps that takes several
	// group elements and whose result is (or is turned by its callers into) a HashToZr challenge —
	// whatever they are called and however they assemble the transcript.
	type oracleFn struct {
		fn     *ssa.Function
		hashed []ssa.Value // the bytes hashed into the challenge, in fn's frame
		name   string      // reference name when it is one of the recorded oracles
	}
	isHashToZr := func(cl *ssa.Call) bool {
		if cl.Call.IsInvoke() {
			return cl.Call.Method.Name() == "HashToZr"
		}
		o := calleeObj(&cl.Call)
		return o != nil && o.Name() == "HashToZr"
	}
	psFns := m.PkgFuncs(PkgPS)
	var oracles []oracleFn
	for _, fn := range psFns {
		if fn.Parent() != nil {
			continue
		}
		if len(oracleOperands(fn)) < 3 {
			continue
		}
		// the challenge (a scalar) or the digest it is made from (bytes) is what the function returns
		var hashed []ssa.Value
		res := fn.Signature.Results()
		if res.Len() != 1 {
			continue
		}
		isZr := false
		if n := namedOf(res.At(0).Type()); n != nil && n.Obj().Pkg() != nil && n.Obj().Pkg().Path() == PkgMathlib && n.Obj().Name() == "Zr" {
			isZr = true
		}
		if !isZr && !isByteSlice(res.At(0).Type()) {
			continue
		}
		var rets []ssa.Value
		for _, in := range instrsOf(fn) {
			if r, ok := in.(*ssa.Return); ok {
				rets = append(rets, retResult(r, 0))
			}
		}
		if isZr {
			// the scalar comes out of HashToZr (here or in a helper that finishes the transcript)
			fromHash := false
			for _, rv := range rets {
				if sliceHas(sl.Slice(rv), func(v ssa.Value) bool { cl, ok := v.(*ssa.Call); return ok && isHashToZr(cl) }) {
					fromHash = true
				}
			}
			if !fromHash {
				continue
			}
		} else {
			// the digest is returned and every caller hashes it to a scalar
			calls := staticCallsTo(psFns, fn)
			all := len(calls) > 0
			for _, cs := range calls {
				cv, ok := cs.(*ssa.Call)
				if !ok {
					all = false
					continue
				}
				fed := false
				for _, in := range instrsOf(cs.Parent()) {
					if h, ok := in.(*ssa.Call); ok && isHashToZr(h) && sl.Slice(h.Call.Args[len(h.Call.Args)-1])[cv] {
						fed = true
					}
				}
				if !fed {
					all = false
				}
			}
			if !all {
				continue
			}
		}
		hashed = rets
		if len(hashed) == 0 {
			continue
		}
		name := ""
		for _, o := range fsOracles {
			if f := m.Func(PkgPS, "", o.name); f == fn {
				name = o.name
			}
		}
		oracles = append(oracles, oracleFn{fn, hashed, name})
	}
	if len(oracles) < 2 {
		c.Bad(V1, "ps", "Fiat–Shamir oracles", "-", fmt.Sprintf("found %d functions that hash several group elements into a challenge; the blinding proof and the proof of knowledge of a signature need one each", len(oracles)))
	}
	for _, orc := range oracles {
		fn := orc.fn
		o := fsOracle{name: orc.name}
		for _, x := range fsOracles {
			if x.name == orc.name {
				o = x
			}
		}
		c.Analysed(FuncName(fn))
		// every group-element parameter of the oracle flows into the hashed bytes (frozen exclusion by
		// position: the recorded blinding oracle's last parameter gs, a locally derived public parameter)
		nGroup := 0
		ops := oracleOperands(fn)
		for k, op := range ops {
			{
				// the frozen exclusion: gs, the locally derived bases — the last operand of the recorded
				// blinding oracle, or the operand of that name when the operands travel in a statement object
				leaf := op.name()
				if i := strings.LastIndex(leaf, "."); i >= 0 {
					leaf = leaf[i+1:]
				}
				if _, isSlice := op.typ().Underlying().(*types.Slice); isSlice && ((o.name == "randomOracleForBlindingProof" && k == len(ops)-1) || leaf == "gs") {
					continue
				}
			}
			nGroup++
			ok := false
			for _, h := range orc.hashed {
				if op.in(sl.Slice(h)) {
					ok = true
				}
			}
			c.Check(ok, V1, FuncName(fn), fmt.Sprintf("operand #%d is hashed", k+op.shift), m.Pos(fn.Pos()), "flows into the bytes hashed to the challenge", fmt.Sprintf("the challenge does not depend on operand #%d (%s): the prover can choose it after seeing the challenge", k+op.shift, op.name()))
		}
		if o.name != "" && nGroup != len(o.params) {
			c.Bad(V1, FuncName(fn), "operand count", m.Pos(fn.Pos()), fmt.Sprintf("the oracle has %d group-element operands, the frozen table lists %d", nGroup, len(o.params)))
		}
		// callers: verifiers pass own fields / own parameters
		for _, cs := range staticCallsTo(m.PkgFuncs(PkgPS), fn) {
			caller := cs.Parent()
			if caller.Name() != "Verify" {
				continue // provers
			}
			// every group element the verifier is given, and every group-element field of the verified
			// object, is among the oracle's operands (pairwise distinct) — position-free formulation
			isGroup := isGroupType
			argSet := map[ssa.Value]bool{}
			distinct := true
			addArg := func(sa ssa.Value) {
				if argSet[sa] {
					distinct = false
				}
				argSet[sa] = true
			}
			for _, a := range cs.Common().Args {
				sa := strip(a)
				if isGroup(sa.Type()) {
					addArg(sa)
					continue
				}
				// a parameter object built at the call: its group-element fields are the operands
				var st *types.Struct
				isS := false
				if n := namedOf(sa.Type()); n != nil && !isGroup(sa.Type()) && n.Obj().Pkg() != nil && n.Obj().Pkg().Path() == PkgPS {
					st, isS = n.Underlying().(*types.Struct)
				}
				if isS {
					for i := 0; i < st.NumFields(); i++ {
						if !isGroup(st.Field(i).Type()) {
							continue
						}
						if fv := structFieldValue(sa, st.Field(i), 0); fv != nil {
							addArg(strip(fv))
						}
					}
				}
			}
			c.Check(distinct, V1, FuncName(caller), "oracle operands pairwise distinct", m.Pos(cs.Pos()), "no value passed in two positions", "the same value is hashed in two positions of the oracle: some other value the verifier checks is then not bound by the challenge")
			for i, prm := range caller.Params {
				if i == 0 || !isGroup(prm.Type()) {
					continue
				}
				if excludedOracleOperand(caller, i) {
					continue
				}
				c.Check(argSet[prm], V1, FuncName(caller), fmt.Sprintf("verifier parameter #%d is hashed", i), m.Pos(cs.Pos()), "passed to the oracle", "a group element the verifier checks equations over is not an operand of the challenge")
			}
			if rt := namedOf(caller.Params[0].Type()); rt != nil {
				if st, ok := rt.Underlying().(*types.Struct); ok {
					for i := 0; i < st.NumFields(); i++ {
						if !isGroup(st.Field(i).Type()) {
							continue
						}
						found := false
						for a := range argSet {
							if b, f, isF := fieldLoad(a); isF && f == st.Field(i) && strip(b) == strip(caller.Params[0]) {
								found = true
							}
						}
						c.Check(found, V1, FuncName(caller), "proof field "+st.Field(i).Name()+" is hashed", m.Pos(cs.Pos()), "passed to the oracle", "a commitment of the proof is not an operand of the challenge")
					}
				}
			}
			// challenge feeds every equation
			var e ssa.Value
			for _, in := range instrsOf(caller) {
				if cl, ok := in.(*ssa.Call); ok {
					if o2 := calleeObj(&cl.Call); o2 != nil && o2.Name() == "HashToZr" && sl.Slice(cl.Call.Args[len(cl.Call.Args)-1])[cs.(*ssa.Call)] {
						e = cl
					}
				}
			}
			if e == nil {
				// the oracle returns the challenge scalar itself
				if cv, ok := cs.(*ssa.Call); ok {
					if n := namedOf(cv.Type()); n != nil && n.Obj().Name() == "Zr" {
						e = cv
					}
				}
			}
			nEq := 0
			for _, f := range reachFromList(m, PkgPS, caller) {
				for _, in := range instrsOf(f) {
					cl, ok := in.(*ssa.Call)
					if !ok {
						continue
					}
					o2 := calleeObj(&cl.Call)
					if o2 == nil || o2.Name() != "Equals" || o2.Pkg() == nil || o2.Pkg().Path() != PkgMathlib {
						continue
					}
					nEq++
					s1, s2 := sl.Slice(cl.Call.Args[0]), sl.Slice(cl.Call.Args[1])
					dep := e != nil && (s1[e] || s2[e] || dependsOnParamFedBy(sl, s1, s2, f, caller, e))
					c.Check(dep, V1, FuncName(f), fmt.Sprintf("equation #%d uses the challenge", nEq), m.Pos(cl.Pos()), "one side depends on e = H(oracle(...))", "a checked equation does not involve the Fiat–Shamir challenge")
					// mismatch returns an error
					okRet := false
					for _, b := range f.Blocks {
						iff, isIf := b.Instrs[len(b.Instrs)-1].(*ssa.If)
						if !isIf {
							continue
						}
						fc := factOf(Guard{iff, true})
						if fc.Op != 0 || fc.Bool != ssa.Value(cl) {
							continue
						}
						mis := b.Succs[1]
						if !fc.True {
							mis = b.Succs[0]
						}
						if r, isR := mis.Instrs[len(mis.Instrs)-1].(*ssa.Return); isR && !isNilConst(retResult(r, 0)) {
							okRet = true
						}
					}
					c.Check(okRet, V1, FuncName(f), fmt.Sprintf("equation #%d mismatch rejects", nEq), m.Pos(cl.Pos()), "mismatch arm returns an error", "a failed equation does not make verification fail")
				}
			}
		}
	}
	// SignBlindSignature passes the request's own fields to the proof's Verify
	if sbs != nil {
		for _, in := range instrsOf(sbs) {
			cl, ok := in.(*ssa.Call)
			if !ok {
				continue
			}
			cal := staticCallee(&cl.Call)
			if cal == nil || cal.Name() != "Verify" {
				continue
			}
			req := sbs.Params[1]
			for i, pname := range map[int]string{3: "a", 4: "b", 9: "u"} {
				arg := cl.Call.Args[i]
				s := sl.Slice(arg)
				_, f, isF := fieldLoad(strip(arg))
				ok := isF && f.Name() == pname && (s[req] || true)
				c.Check(ok, V1, FuncName(sbs), "request field "+pname+" passed to the proof check", m.Pos(cl.Pos()), "σ."+pname, "the proof is checked against values other than the request's ciphertext components / ephemeral key")
			}
			// cm and h derive from the request's commitment
			for i, pname := range map[int]string{5: "cm", 8: "h"} {
				s := sl.Slice(cl.Call.Args[i])
				ok := sliceHas(s, func(v ssa.Value) bool {
					_, f, isF := fieldLoad(v)
					return isF && f.Name() == "cm"
				})
				c.Check(ok, V1, FuncName(sbs), pname+" derived from the request's commitment", m.Pos(cl.Pos()), "depends on σ.cm", pname+" does not derive from the request's commitment")
			}
		}
	}
}

func reachFromList(m *Module, pkg string, fn *ssa.Function) []*ssa.Function {
	r := reachFrom(m, pkg, []*ssa.Function{fn})
	var out []*ssa.Function
	for f := range r {
		out = append(out, f)
	}
	sort.Slice(out, func(i, j int) bool { return out[i].String() < out[j].String() })
	return out
}

// dependsOnParamFedBy: equation in helper f (called from caller with e as an argument): the slice reaches f's parameter that receives e.
func dependsOnParamFedBy(sl *Slicer, s1, s2 map[ssa.Value]bool, f, caller *ssa.Function, e ssa.Value) bool {
	if f == caller {
		return false
	}
	for _, cs := range sl.callers[f] {
		if cs.Parent() != caller {
			continue
		}
		for i, a := range cs.Common().Args {
			if strip(a) == strip(e) && i < len(f.Params) {
				if s1[f.Params[i]] || s2[f.Params[i]] {
					return true
				}
			}
		}
	}
	return false
}

// excludedOracleOperand: verifier parameters deliberately not hashed (frozen, by position):
// BlindCorrectFormProof.Verify's last parameter (gs) is a locally derived public parameter.
func excludedOracleOperand(verifier *ssa.Function, idx int) bool {
	if rt := namedOf(verifier.Params[0].Type()); rt != nil && rt.Obj().Name() == "BlindCorrectFormProof" {
		return idx == len(verifier.Params)-1
	}
	return false
}

func isGroupType(t types.Type) bool {
	if sl, ok := t.Underlying().(*types.Slice); ok {
		t = sl.Elem()
	}
	n := namedOf(t)
	return n != nil && n.Obj().Pkg() != nil && n.Obj().Pkg().Path() == PkgMathlib && (n.Obj().Name() == "G1" || n.Obj().Name() == "G2")
}

// onlyLenUses: every (transitive) use of v is a len() — the value itself is never computed with.
func onlyLenUses(v ssa.Value, depth int) bool {
	if depth > 4 {
		return false
	}
	refs := v.Referrers()
	if refs == nil || len(*refs) == 0 {
		return true
	}
	for _, r := range *refs {
		switch x := r.(type) {
		case *ssa.UnOp:
			if x.Op != token.MUL || !onlyLenUses(x, depth+1) {
				return false
			}
		case *ssa.Call:
			b, ok := x.Call.Value.(*ssa.Builtin)
			if !ok || b.Name() != "len" {
				return false
			}
		case *ssa.DebugRef:
		default:
			return false
		}
	}
	return true
}

// oracleOperand: a group-element operand of a Fiat–Shamir oracle — a parameter of group type, or a
// group-typed field of a parameter object (a struct of the package passed by value).
type oracleOperand struct {
	p     *ssa.Parameter
	f     *types.Var // nil: the parameter itself
	shift int        // reported ordinal = position in the operand list + shift (parameter index when no object is used)
}

func (o oracleOperand) typ() types.Type {
	if o.f != nil {
		return o.f.Type()
	}
	return o.p.Type()
}

func (o oracleOperand) name() string {
	if o.f != nil {
		return o.p.Name() + "." + o.f.Name()
	}
	return o.p.Name()
}

// in: the operand is among the values a slice depends on.
func (o oracleOperand) in(s map[ssa.Value]bool) bool {
	if o.f == nil {
		return s[o.p]
	}
	isObj := func(v ssa.Value) bool {
		noParamLook++
		defer func() { noParamLook-- }()
		v = strip(v)
		if v == ssa.Value(o.p) {
			return true
		}
		// the parameter spilled to a local cell
		var cell *ssa.Alloc
		switch x := v.(type) {
		case *ssa.Alloc:
			cell = x
		case *ssa.UnOp:
			if a, ok := x.X.(*ssa.Alloc); ok && x.Op == token.MUL {
				cell = a
			}
		}
		if cell == nil || cell.Referrers() == nil {
			return false
		}
		for _, r := range *cell.Referrers() {
			if st, ok := r.(*ssa.Store); ok && st.Addr == ssa.Value(cell) && st.Val == ssa.Value(o.p) {
				return true
			}
		}
		return false
	}
	for v := range s {
		switch x := v.(type) {
		case *ssa.Field:
			if st, ok := x.X.Type().Underlying().(*types.Struct); ok && x.Field < st.NumFields() && st.Field(x.Field) == o.f && isObj(x.X) {
				return true
			}
		case *ssa.FieldAddr:
			if fieldOfAddr(x) == o.f && isObj(x.X) {
				return true
			}
		}
	}
	return false
}

func oracleOperands(fn *ssa.Function) []oracleOperand {
	var out []oracleOperand
	flat := true
	for _, p := range fn.Params {
		if isGroupType(p.Type()) {
			continue
		}
		if st, ok := ownStructOf(p.Type(), fn); ok {
			for i := 0; i < st.NumFields(); i++ {
				if isGroupType(st.Field(i).Type()) {
					flat = false
				}
			}
		}
	}
	for i, p := range fn.Params {
		if isGroupType(p.Type()) {
			sh := 0
			if flat {
				sh = i - len(out)
			}
			out = append(out, oracleOperand{p: p, shift: sh})
			continue
		}
		st, ok := ownStructOf(p.Type(), fn)
		if !ok {
			continue
		}
		for k := 0; k < st.NumFields(); k++ {
			if isGroupType(st.Field(k).Type()) {
				out = append(out, oracleOperand{p: p, f: st.Field(k)})
			}
		}
	}
	return out
}

// ownStructOf: t is a struct type of fn's package, or a pointer to one (a statement object passed by
// value or by pointer, also as the receiver of the oracle).
func ownStructOf(t types.Type, fn *ssa.Function) (*types.Struct, bool) {
	n := namedOf(t) // looks through one pointer
	if n == nil || fn.Pkg == nil || n.Obj().Pkg() != fn.Pkg.Pkg || isGroupType(t) {
		return nil, false
	}
	st, ok := n.Underlying().(*types.Struct)
	return st, ok
}

// ruleC09ElementWise (C09.E1): the well-formedness proof of a blinded signing request binds every
// ciphertext component on its own.  For each vector-valued field of the request that is handed to the
// proof's verification (the ElGamal components a_i, b_i), some verification equation — an Equals whose
// failing arm returns an error — reads an element of that vector and is evaluated once per index (it
// sits in a loop, or in a step that is only called from inside a loop).  An equation over a sum or
// product of all elements accepts a request in which one component was shifted by Δ and another by −Δ:
// the signer then signs a malformed ciphertext.  Decides the shape (per-index check present), not the
// algebra of the equation.
func ruleC09ElementWise(c *Ctx, m *Module, sl *Slicer) {
	const E1 = "C09.E1"
	c.Rule(E1, "every ciphertext vector of a blinded request is checked element by element by the request proof", 2)
	req := m.LookupType(PkgPS, "BlindSignature")
	sbs := m.Func(PkgPS, "", "SignBlindSignature")
	if req == nil || sbs == nil {
		c.Unk(E1, "mpc/ps", "request type and signing function", "-", "BlindSignature / SignBlindSignature not found")
		return
	}
	st, ok := req.Underlying().(*types.Struct)
	if !ok {
		return
	}
	// the verification entry: the method of the request's proof object whose error result SignBlindSignature tests
	var verify *ssa.Function
	var verifyCall *ssa.Call
	for _, in := range instrsDeep(sbs) {
		cl, ok := in.(*ssa.Call)
		if !ok {
			continue
		}
		cal := staticCallee(&cl.Call)
		if cal == nil || cal.Signature.Recv() == nil || pkgPathOf(cal) != PkgPS || cal.Signature.Results().Len() != 1 {
			continue
		}
		if !types.Identical(cal.Signature.Results().At(0).Type(), types.Universe.Lookup("error").Type()) {
			continue
		}
		// its receiver is a field of the request
		if fa, isFA := strip(cl.Call.Args[0]).(*ssa.FieldAddr); isFA {
			owner := false
			for i := 0; i < st.NumFields(); i++ {
				if st.Field(i) == fieldOfAddr(fa) {
					owner = true
				}
			}
			if owner {
				verify, verifyCall = cal, cl
			}
		}
	}
	if verify == nil {
		c.Unk(E1, FuncName(sbs), "request proof verification", m.Pos(sbs.Pos()), "no call of a checking method of the request's proof object found")
		return
	}
	// vector fields of the request handed to it
	var vecs []*types.Var
	for i := 0; i < st.NumFields(); i++ {
		f := st.Field(i)
		if _, isSl := f.Type().Underlying().(*types.Slice); !isSl {
			continue
		}
		handed := false
		for _, a := range verifyCall.Call.Args[1:] {
			if sliceHasFieldLoad(sl.Slice(a), f) {
				handed = true
			}
		}
		if handed {
			vecs = append(vecs, f)
		}
	}
	if len(vecs) == 0 {
		c.Unk(E1, FuncName(sbs), "request vectors", m.Pos(verifyCall.Pos()), "no vector-valued field of the request is handed to the proof verification")
		return
	}
	// the verification's code
	seen := map[*ssa.Function]bool{}
	var closure []*ssa.Function
	var walk func(f *ssa.Function, d int)
	walk = func(f *ssa.Function, d int) {
		if f == nil || seen[f] || f.Blocks == nil || pkgPathOf(f) != PkgPS || d > 3 {
			return
		}
		seen[f] = true
		closure = append(closure, f)
		c.Analysed(FuncName(f))
		for _, in := range instrsOf(f) {
			if ci, ok := in.(ssa.CallInstruction); ok {
				walk(staticCallee(ci.Common()), d+1)
			}
		}
	}
	walk(verify, 0)
	inCycle := func(in ssa.Instruction) bool {
		b := in.Block()
		for _, s := range b.Succs {
			if reachableBlocks(s)[b] {
				return true
			}
		}
		return false
	}
	perIndex := func(e *ssa.Call) bool {
		if inCycle(e) {
			return true
		}
		// a per-index step: every call of the function that holds the equation is inside a loop
		cs := staticCallsTo(closure, e.Parent())
		if len(cs) == 0 {
			return false
		}
		for _, c := range cs {
			if !inCycle(c.(ssa.Instruction)) {
				return false
			}
		}
		return true
	}
	type eq struct {
		call *ssa.Call
		sl   map[ssa.Value]bool
	}
	// what an equation reads: not what its challenge was hashed from (the challenge depends on every
	// component; that does not make the equation a check of each of them)
	sl.Stop = func(v ssa.Value) bool {
		cl, ok := v.(*ssa.Call)
		if !ok {
			return false
		}
		if cl.Call.IsInvoke() {
			return cl.Call.Method.Name() == "HashToZr"
		}
		o := calleeObj(&cl.Call)
		return o != nil && o.Name() == "HashToZr"
	}
	defer func() { sl.Stop = nil }()
	var eqs []eq
	for _, f := range closure {
		for _, in := range instrsOf(f) {
			cl, ok := in.(*ssa.Call)
			if !ok || len(cl.Call.Args) != 2 {
				continue
			}
			cal := staticCallee(&cl.Call)
			if cal == nil || cal.Name() != "Equals" || pkgPathOf(cal) != PkgMathlib {
				continue
			}
			if ok, _ := rejectsOnFalse(cl); !ok {
				continue
			}
			s := sl.Slice(cl.Call.Args[0])
			for v := range sl.Slice(cl.Call.Args[1]) {
				s[v] = true
			}
			eqs = append(eqs, eq{cl, s})
		}
	}
	if len(eqs) == 0 {
		c.Bad(E1, FuncName(verify), "verification equations", m.Pos(verify.Pos()), "the proof verification contains no equation whose failure is reported")
		return
	}
	for _, f := range vecs {
		okF := false
		where := ""
		for _, e := range eqs {
			if !perIndex(e.call) {
				continue
			}
			for v := range e.sl {
				var base ssa.Value
				switch x := v.(type) {
				case *ssa.IndexAddr:
					base = x.X
				case *ssa.Index:
					base = x.X
				}
				if base == nil {
					continue
				}
				if sliceHasFieldLoad(sl.Slice(base), f) {
					okF = true
					where = m.Pos(e.call.Pos())
				}
			}
		}
		c.Check(okF, E1, FuncName(verify), "request vector "+f.Name()+" checked per element", m.Pos(verify.Pos()),
			"an equation that reads "+f.Name()+"[i] is evaluated for every index and its failure is returned ("+where+")",
			"no verification equation reads the elements of the request's "+f.Name()+" one index at a time: an equation over their sum/product accepts a request in which two components were shifted by Δ and −Δ, so a malformed ciphertext is signed (and the signer's answer leaks Δ^(y_i−y_j))")
	}
}

// rejectsOnFalse: the boolean result of cl is branched on and the arm taken when it is false returns a
// non-nil error (directly in that arm's block).
func rejectsOnFalse(cl *ssa.Call) (bool, string) {
	if cl.Referrers() == nil {
		return false, "result unused"
	}
	for _, r := range *cl.Referrers() {
		var iff *ssa.If
		neg := false
		switch x := r.(type) {
		case *ssa.If:
			iff = x
		case *ssa.UnOp:
			if x.Op == token.NOT && x.Referrers() != nil {
				for _, q := range *x.Referrers() {
					if i2, ok := q.(*ssa.If); ok {
						iff, neg = i2, true
					}
				}
			}
		}
		if iff == nil {
			continue
		}
		b := iff.Block()
		falseArm := b.Succs[1]
		if neg {
			falseArm = b.Succs[0]
		}
		for blk := range reachableBlocks(falseArm) {
			if blk != falseArm && !falseArm.Dominates(blk) {
				continue
			}
			if ret, ok := blk.Instrs[len(blk.Instrs)-1].(*ssa.Return); ok && len(ret.Results) > 0 {
				if !isNilConst(retResult(ret, len(ret.Results)-1)) {
					return true, ""
				}
			}
		}
	}
	return false, "no rejecting arm"
}
