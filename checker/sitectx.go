package main

// Calling contexts of a site inside a private helper: the facts that hold and
// the actual arguments, looked up the (static, in-package) call chain until
// an entry function is reached. Depth-bounded; exceeding the bound or meeting
// a function without visible callers yields "no context" => the caller of
// this helper must report the obligation as undecided.

import (
	"golang.org/x/tools/go/ssa"
)

type SiteCtx struct {
	Calls []ssa.CallInstruction // outermost first
	Site  ssa.Instruction
}

// Facts that hold when the site executes in this context.
func (sc SiteCtx) Facts() []Fact {
	var out []Fact
	for _, c := range sc.Calls {
		out = append(out, FactsAt(c)...)
	}
	out = append(out, FactsAt(sc.Site)...)
	return out
}

// Resolve maps a value of the site's function outwards through parameters to
// the value in the outermost function where possible.
func (sc SiteCtx) Resolve(v ssa.Value) ssa.Value {
	v = strip(v)
	for k := len(sc.Calls) - 1; k >= 0; k-- {
		p, ok := v.(*ssa.Parameter)
		if !ok {
			return v
		}
		callee := staticCallee(sc.Calls[k].Common())
		if callee == nil || p.Parent() != callee {
			continue // v belongs to a function further out in the chain
		}
		idx := paramIndex(p)
		args := sc.Calls[k].Common().Args
		if idx < 0 || idx >= len(args) {
			return v
		}
		v = strip(args[idx])
	}
	return v
}

// Outer returns the outermost function of the context.
func (sc SiteCtx) Outer() *ssa.Function {
	if len(sc.Calls) > 0 {
		return sc.Calls[0].Parent()
	}
	return sc.Site.Parent()
}

// contextsOf enumerates calling contexts of site up to entry functions.
// ok=false when some chain could not be completed (unknown callers / too deep).
func contextsOf(site ssa.Instruction, entries map[*ssa.Function]bool, fns []*ssa.Function, depth int) (out []SiteCtx, ok bool) {
	fn := site.Parent()
	if entries[fn] {
		return []SiteCtx{{Site: site}}, true
	}
	if depth <= 0 {
		return nil, false
	}
	callers := staticCallsTo(fns, fn)
	if len(callers) == 0 {
		return nil, false
	}
	ok = true
	for _, cs := range callers {
		sub, subok := contextsOf(cs, entries, fns, depth-1)
		if !subok {
			ok = false
			continue
		}
		for _, s := range sub {
			// s.Site == cs ; build chain
			chain := append(append([]ssa.CallInstruction(nil), s.Calls...), cs)
			out = append(out, SiteCtx{Calls: chain, Site: site})
		}
	}
	return out, ok
}

// hasFact reports whether some fact satisfies pred.
func hasFact(fs []Fact, pred func(Fact) bool) bool {
	for _, f := range fs {
		if pred(f) {
			return true
		}
	}
	return false
}

// boolFact: fact "value satisfying pred is val".
func boolFact(fs []Fact, val bool, pred func(ssa.Value) bool) bool {
	return hasFact(fs, func(f Fact) bool {
		if f.Op != 0 {
			// comparisons of a boolean against a constant are not produced by the compiler front end here
			return false
		}
		return f.True == val && pred(f.Bool)
	})
}
