package main

// Calling contexts of a site inside a private helper: the facts that hold and
// the actual arguments, looked up the (static, in-package) call chain until
// an entry function is reached. Depth-bounded; exceeding the bound or meeting
// a function without visible callers yields "no context" => the caller of
// this helper must report the obligation as undecided.

import (
	"go/token"
	"go/types"
	"golang.org/x/tools/go/ssa"
)

type SiteCtx struct {
	Calls []ssa.CallInstruction // outermost first
	Site  ssa.Instruction
}

// Facts that hold when the site executes in this context.
func (sc SiteCtx) Facts() []Fact {
	var out []Fact
	for _, c := range sc.Calls {
		out = append(out, FactsAt(c)...)
	}
	out = append(out, FactsAt(sc.Site)...)
	return out
}

// FactsP: as Facts, on the control flow without the edges that prune declares irrelevant.
func (sc SiteCtx) FactsP(prune EdgePrune) []Fact {
	var out []Fact
	for _, c := range sc.Calls {
		out = append(out, FactsAtP(c, prune)...)
	}
	out = append(out, FactsAtP(sc.Site, prune)...)
	return out
}

// Resolve maps a value of the site's function outwards through parameters to
// the value in the outermost function where possible.
func (sc SiteCtx) Resolve(v ssa.Value) ssa.Value {
	v = strip(v)
	for k := len(sc.Calls) - 1; k >= 0; k-- {
		// a field of a parameter object (struct passed by value and built by a literal at the call):
		// the value the call gave to that field
		if p, fld := paramObjectField(v); p != nil {
			callee := staticCallee(sc.Calls[k].Common())
			if callee == nil || p.Parent() != callee {
				continue
			}
			idx := paramIndex(p)
			args := sc.Calls[k].Common().Args
			if idx < 0 || idx >= len(args) {
				return v
			}
			inner := structFieldValue(args[idx], fld, 0)
			if inner == nil {
				// the object is itself a by-value parameter of the caller, handed on unchanged: the
				// caller's own read of that field (if it has one) stands for it, one level further out
				if q := handedOnParam(args[idx]); q != nil {
					if rd := paramFieldRead(q, fld); rd != nil {
						v = rd
						continue
					}
				}
				return v
			}
			v = strip(inner)
			continue
		}
		p, ok := v.(*ssa.Parameter)
		if !ok {
			return v
		}
		callee := staticCallee(sc.Calls[k].Common())
		if callee == nil || p.Parent() != callee {
			continue // v belongs to a function further out in the chain
		}
		idx := paramIndex(p)
		args := sc.Calls[k].Common().Args
		if idx < 0 || idx >= len(args) {
			return v
		}
		v = strip(args[idx])
	}
	return v
}

// Outer returns the outermost function of the context.
func (sc SiteCtx) Outer() *ssa.Function {
	if len(sc.Calls) > 0 {
		return sc.Calls[0].Parent()
	}
	return sc.Site.Parent()
}

// contextsOf enumerates calling contexts of site up to entry functions.
// ok=false when some chain could not be completed (unknown callers / too deep).
func contextsOf(site ssa.Instruction, entries map[*ssa.Function]bool, fns []*ssa.Function, depth int) (out []SiteCtx, ok bool) {
	fn := site.Parent()
	if entries[fn] {
		return []SiteCtx{{Site: site}}, true
	}
	if depth <= 0 {
		return nil, false
	}
	callers := staticCallsTo(fns, fn)
	if len(callers) == 0 {
		return nil, false
	}
	ok = true
	for _, cs := range callers {
		sub, subok := contextsOf(cs, entries, fns, depth-1)
		if !subok {
			ok = false
			continue
		}
		for _, s := range sub {
			// s.Site == cs ; build chain
			chain := append(append([]ssa.CallInstruction(nil), s.Calls...), cs)
			out = append(out, SiteCtx{Calls: chain, Site: site})
		}
	}
	return out, ok
}

// hasFact reports whether some fact satisfies pred.
func hasFact(fs []Fact, pred func(Fact) bool) bool {
	for _, f := range fs {
		if pred(f) {
			return true
		}
	}
	return false
}

// boolFact: fact "value satisfying pred is val".
func boolFact(fs []Fact, val bool, pred func(ssa.Value) bool) bool {
	return hasFact(fs, func(f Fact) bool {
		if f.Op != 0 {
			// comparisons of a boolean against a constant are not produced by the compiler front end here
			return false
		}
		return f.True == val && pred(f.Bool)
	})
}

// paramObjectField: v reads field f of a struct-typed parameter p passed by value (directly, or
// through the local cell the parameter is spilled to, provided nothing else is written to it).
func paramObjectField(v ssa.Value) (*ssa.Parameter, *types.Var) {
	switch x := v.(type) {
	case *ssa.Field:
		noParamLook++
		base := strip(x.X)
		noParamLook--
		p, ok := base.(*ssa.Parameter)
		st, isS := x.X.Type().Underlying().(*types.Struct)
		if ok && isS && x.Field < st.NumFields() {
			return p, st.Field(x.Field)
		}
	case *ssa.UnOp:
		if x.Op != token.MUL {
			return nil, nil
		}
		fa, ok := x.X.(*ssa.FieldAddr)
		if !ok {
			return nil, nil
		}
		// a statement/session object passed by pointer: its field, when nothing but the building literal
		// ever stores to that field
		noParamLook++
		pb := strip(fa.X)
		noParamLook--
		if pp, isP := pb.(*ssa.Parameter); isP {
			if f := fieldOfAddr(fa); !f.Exported() && fieldStoreCount[f] >= 1 && !fieldStoredLater[f] {
				return pp, f
			}
			return nil, nil
		}
		cell, ok := fa.X.(*ssa.Alloc)
		if !ok || cell.Referrers() == nil {
			return nil, nil
		}
		var p *ssa.Parameter
		for _, r := range *cell.Referrers() {
			switch y := r.(type) {
			case *ssa.Store:
				if y.Addr != ssa.Value(cell) {
					return nil, nil // the cell's address is stored somewhere
				}
				q, isP := y.Val.(*ssa.Parameter)
				if !isP || p != nil {
					return nil, nil
				}
				p = q
			case *ssa.FieldAddr:
				// reads only: no store through any field address of the cell
				if y.Referrers() != nil {
					for _, rr := range *y.Referrers() {
						if u, isLoad := rr.(*ssa.UnOp); !isLoad || u.Op != token.MUL {
							return nil, nil
						}
					}
				}
			case *ssa.UnOp:
				if y.Op != token.MUL {
					return nil, nil
				}
			case *ssa.DebugRef:
			case *ssa.MakeClosure:
				// captured by a literal that only reads it
				g, _ := y.Fn.(*ssa.Function)
				if g == nil || !cellOnlyReadBy(g, y, cell, 0) {
					return nil, nil
				}
			default:
				return nil, nil
			}
		}
		if p != nil {
			return p, fieldOfAddr(fa)
		}
	}
	return nil, nil
}

// handedOnParam: v is a by-value struct parameter of the enclosing function passed on as it is — the
// parameter itself, or the load of the cell it was spilled to (never written otherwise).
func handedOnParam(v ssa.Value) *ssa.Parameter {
	noParamLook++
	defer func() { noParamLook-- }()
	sv := strip(v)
	if p, ok := sv.(*ssa.Parameter); ok {
		if _, isS := p.Type().Underlying().(*types.Struct); isS {
			return p
		}
		return nil
	}
	ld, ok := sv.(*ssa.UnOp)
	if !ok || ld.Op != token.MUL {
		return nil
	}
	cell, ok := ld.X.(*ssa.Alloc)
	if !ok || !cellFieldsOnlyRead(cell) {
		return nil
	}
	var p *ssa.Parameter
	n := 0
	for _, r := range *cell.Referrers() {
		if st, isSt := r.(*ssa.Store); isSt && st.Addr == ssa.Value(cell) {
			n++
			p, _ = st.Val.(*ssa.Parameter)
		}
	}
	if n != 1 {
		return nil
	}
	return p
}

// paramFieldRead: the first read, in q's function, of field fld of the by-value parameter object q.
func paramFieldRead(q *ssa.Parameter, fld *types.Var) ssa.Value {
	for _, in := range instrsOf(q.Parent()) {
		v, ok := in.(ssa.Value)
		if !ok {
			continue
		}
		switch in.(type) {
		case *ssa.Field, *ssa.UnOp:
			if p, f := paramObjectField(v); p == q && f == fld {
				return v
			}
		}
	}
	return nil
}
