package main

// C01 — orchestration clauses of key agreement / signing correctness:
// two barriers before the protocol starts, registration before the second
// barrier opens, second barrier on the agreed list, counts, silent wiring.

import (
	"fmt"
	"go/token"
	"go/types"
	"os"

	"golang.org/x/tools/go/ssa"
)

func init() { register("C01", checkC01) }

// chanID identifies the channel a value denotes across functions of one session: the cell of a
// captured channel variable, or the make(chan) a field of a session object was given.
func (t *thrModel) chanID(v ssa.Value) ssa.Value {
	if ld, ok := strip(v).(*ssa.UnOp); ok {
		if cell := cellOf(ld.X); cell != nil {
			return cell
		}
	}
	if mk, ok := t.sl.rootOf(v).(*ssa.MakeChan); ok {
		return mk
	}
	return nil
}

// closesOf: close(ch) calls on the channel identified by id.
func (t *thrModel) closesOf(id ssa.Value) []ssa.CallInstruction {
	var out []ssa.CallInstruction
	for _, fn := range t.fns {
		for _, in := range instrsOf(fn) {
			ci, ok := in.(ssa.CallInstruction)
			if !ok {
				continue
			}
			b, ok := ci.Common().Value.(*ssa.Builtin)
			if !ok || b.Name() != "close" {
				continue
			}
			if t.chanID(ci.Common().Args[0]) == id {
				out = append(out, ci)
			}
		}
	}
	return out
}

// contCall: the Synchronize call whose continuation fn is — fn itself, or the literal (method value) fn
// is inlined into.
func (t *thrModel) contCall(fn *ssa.Function) (ssa.CallInstruction, bool) {
	if ci, ok := t.conts[fn]; ok {
		return ci, true
	}
	if r := rootOfHelper(fn); r != fn {
		ci, ok := t.conts[r]
		return ci, ok
	}
	return nil, false
}

// barrierDepth of an instruction: number of Synchronize barriers that have
// certainly been passed when it executes.
func (t *thrModel) barrierDepth(in ssa.Instruction, seen map[*ssa.Function]bool) int {
	fn := in.Parent()
	d := t.fnDepth(fn, seen)
	// membershipConsensus idiom: dominated by the receive arm on a channel closed only inside a continuation
	for _, f := range FactsAt(in) {
		if f.Op != token.EQL {
			continue
		}
		e, ok := strip(f.X).(*ssa.Extract)
		if !ok || e.Index != 0 {
			continue
		}
		sel, ok := e.Tuple.(*ssa.Select)
		k, okK := constInt(f.Y)
		if !ok || !okK || int(k) >= len(sel.States) {
			continue
		}
		st := sel.States[k]
		if st.Dir != types.RecvOnly {
			continue
		}
		cell := t.chanID(st.Chan)
		if cell == nil {
			continue
		}
		closes := t.closesOf(cell)
		if len(closes) == 0 {
			continue
		}
		all := true
		for _, cl := range closes {
			ci, isCont := t.contCall(cl.Parent())
			if !isCont {
				all = false
				break
			}
			// the Synchronize that runs this continuation was started in fn before the select
			if ci.Parent() != fn || !instrDominates(ci.(ssa.Instruction), sel) {
				all = false
			}
		}
		// nobody sends on it either
		for _, g := range t.fns {
			for _, x := range instrsOf(g) {
				if snd, ok := x.(*ssa.Send); ok {
					if t.chanID(snd.Chan) == cell {
						all = false
					}
				}
			}
		}
		if all {
			d++
		}
	}
	return d
}

func (t *thrModel) fnDepth(fn *ssa.Function, seen map[*ssa.Function]bool) int {
	if seen[fn] {
		return 0
	}
	seen[fn] = true
	defer delete(seen, fn)
	if ci, ok := t.conts[fn]; ok {
		// continuation: one barrier more than the point where its Synchronize was invoked
		return t.barrierDepth(ci.(ssa.Instruction), seen) + 1
	}
	// closure: depth at creation
	if litParent(fn) != nil {
		best := -1
		for _, mc := range t.sl.closures[fn] {
			d := t.barrierDepth(mc, seen)
			if best < 0 || d < best {
				best = d
			}
		}
		if best >= 0 {
			return best
		}
		return 0
	}
	// named function: minimum over static call sites
	best := -1
	for _, cs := range t.sl.callers[fn] {
		d := t.barrierDepth(cs.(ssa.Instruction), seen)
		if best < 0 || d < best {
			best = d
		}
	}
	if best < 0 {
		return 0
	}
	return best
}

// happensBefore: event e is certainly executed before instruction `at`
// (following at's function up through closure creation sites and unique static callers).
func (t *thrModel) happensBefore(e ssa.Instruction, at ssa.Instruction) bool {
	cur := at
	for i := 0; i < 8; i++ {
		g := cur.Parent()
		// lift e into g through static call sites
		if le := t.liftInto(e, g, 0); le != nil && le != cur && instrDominates(le, cur) {
			return true
		}
		if litParent(g) != nil {
			mcs := t.sl.closures[g]
			if len(mcs) != 1 {
				return false
			}
			cur = mcs[0]
			continue
		}
		cs := t.sl.callers[g]
		if len(cs) != 1 {
			return false
		}
		cur = cs[0].(ssa.Instruction)
	}
	return false
}

// liftInto: the instruction of g whose static callee chain contains e (or e itself).
func (t *thrModel) liftInto(e ssa.Instruction, g *ssa.Function, depth int) ssa.Instruction {
	if e.Parent() == g {
		return e
	}
	if depth > 4 {
		return nil
	}
	for _, cs := range t.sl.callers[e.Parent()] {
		if _, isGo := cs.(*ssa.Go); isGo {
			continue
		}
		if l := t.liftInto(cs.(ssa.Instruction), g, depth+1); l != nil {
			return l
		}
	}
	return nil
}

func checkC01(c *Ctx) {
	c.explanation = "Static decision on threshold's SSA of the orchestration clauses that are necessary for every participant of an orchestrated session to obtain a result under every delivery order: (O1) every start of the backend protocol (KeyGenerator.KeyGen / Signer.Sign) has barrier depth ≥ 2 — it lies inside the continuation of a second Synchronize (or behind the receive on a channel closed only by such a continuation) that is itself inside the continuation of the first; (O2) the RBC handler, the classifier and the backend's Init are in place before the second-level Synchronize is started (so \"everyone passed barrier 2\" implies \"everyone can receive\"); (O3) SetShareData on the signing session's instance is dominated by Init on that same instance (a backend whose Init resets its state would otherwise sign without a share); (V1) the second-level synchroniser is built over the agreed member list, its topic depends on that list or on the session topic, its expected count is the list's size or the very value used for the first level; (N1) Sign's first-level expected count is Threshold+1 and the RBC instance size is the number of admitted participants; (W1) SilentScheme returns a party whose HandleMessage is the Box's, whose Box hands to the scheme and forwards sends to the original send, and the scheme sends through the Box. Shamir/Lagrange/pairing algebra, byte-identity of public material, subsets and digests are numerical and not decided."
	c.notDecided = "threshold algebra (Shamir/Lagrange/pairings), byte-identical public material, signer subsets, digests"
	c.Assume("Synchronizer.Synchronize returns nil iff it ran its continuation (C07.O1); it runs the continuation only after expected members agreed (C07.G2)")
	t := buildThresholdModel(c)
	if t == nil {
		return
	}
	m := t.m
	ruleC01LoopIndex(c)
	const O1, O2, V1, N1, W1 = "C01.O1", "C01.O2", "C01.V1", "C01.N1", "C01.W1"
	c.Rule(O1, "protocol start has barrier depth ≥ 2", 1)
	c.Rule(O2, "RBC handler, classifier and Init in place before the second barrier opens", 3)
	c.Rule(V1, "second barrier over the agreed list: members, topic, count", 3)
	c.Rule(N1, "first-level count Threshold+1 in Sign; RBC size = admitted participants", 1)
	c.Rule(W1, "silent mode wiring", 2)
	c.Rule("C01.O3", "the signing instance's share data is loaded after Init", 1)
	ruleShareAfterInit(c, t)
	// ------------------------------------------------------------------ O1
	nStart := 0
	for _, name := range []string{"KeyGen", "Sign"} {
		for _, ci := range invokesOf(t.fns, name) {
			recvT := ci.Common().Value.Type()
			if !isNamed(recvT, PkgTypes, "KeyGenerator") && !isNamed(recvT, PkgTypes, "Signer") {
				continue
			}
			nStart++
			d := t.barrierDepth(ci.(ssa.Instruction), map[*ssa.Function]bool{})
			c.Check(d >= 2, O1, FuncName(ci.Parent()), "start of "+name, m.Pos(ci.Pos()), fmt.Sprintf("barrier depth %d", d),
				fmt.Sprintf("the protocol is started at barrier depth %d: a party can send its first protocol message before every other participant has registered its handlers (the message is dropped and the session stalls)", d))
		}
	}
	if nStart < 2 {
		c.Bad(O1, "threshold", "protocol starts", "-", fmt.Sprintf("found %d starts of a backend protocol, expected KeyGen and Sign", nStart))
	}

	// ------------------------------------------------------------------ O2 / V1
	var firstLevel = map[*ssa.Function]ssa.CallInstruction{} // root -> first-level invoke
	for f, ci := range t.conts {
		if _, nested := t.conts[ci.Parent()]; !nested && !isInsideCont(t, ci.Parent()) {
			firstLevel[outermost(f)] = ci
		}
	}
	nSecond := 0
	for f, ci := range t.conts {
		if !isInsideCont(t, ci.Parent()) {
			continue // first level
		}
		_ = f
		nSecond++
		i2 := ci.(ssa.Instruction)
		fname := FuncName(ci.Parent())
		// events
		kinds := map[string][]ssa.Instruction{}
		for _, ts := range tableStoresOfField(t.fns, t.fRBCTab) {
			kinds["RBC handler registered"] = append(kinds["RBC handler registered"], ts.at)
		}
		for _, ts := range tableStoresOfField(t.fns, t.fClsTab) {
			kinds["classifier registered"] = append(kinds["classifier registered"], ts.at)
		}
		for _, ini := range invokesOf(t.fns, "Init") {
			kinds["backend Init"] = append(kinds["backend Init"], ini.(ssa.Instruction))
		}
		for _, k := range []string{"RBC handler registered", "classifier registered", "backend Init"} {
			ok := false
			for _, e := range kinds[k] {
				if t.happensBefore(e, i2) {
					ok = true
				}
			}
			c.Check(ok, O2, fname, k+" before second-level Synchronize", m.Pos(i2.Pos()), "dominates the start of the second barrier (directly, through static calls or in an enclosing scope)",
				"the second barrier can open before this party's "+k+": a peer that passed the barrier sends a protocol message that this party drops or mishandles")
		}
		// V1
		args := ci.Common().Args
		cont1 := enclosingCont(t, ci.Parent())
		var agreed ssa.Value
		if cont1 != nil && len(cont1.Params) > 0 {
			agreed = cont1.Params[0]
		}
		okMembers, okTopic, okCount := false, false, false
		if agreed != nil {
			// synchroniser built from the agreed list
			rs := t.sl.Slice(ci.Common().Value)
			for v := range rs {
				if cl, ok := v.(*ssa.Call); ok && callsFuncField(&cl.Call, t.fSyncFactory) {
					if t.sl.Slice(cl.Call.Args[0])[agreed] {
						okMembers = true
					}
				}
			}
			ts := t.sl.Slice(args[2])
			if ts[agreed] {
				okTopic = true
				if os.Getenv("TSS_DEBUG") != "" {
					fmt.Println("DBG topic depends on agreed list via:", TraceTo(agreed))
				}
			}
			if fl := firstLevel[outermost(ci.Parent())]; fl != nil {
				// or derived (hashed) from the first-level topic
				r1 := t.sl.rootOf(fl.Common().Args[2])
				for v := range ts {
					if v == r1 {
						okTopic = true
					}
				}
				if t.sameSessionValue(fl.Common().Args[3], args[3]) {
					okCount = true
				}
			}
			if x, isLen := lenOperand(args[3]); isLen && t.sl.Slice(x)[agreed] {
				okCount = true
			}
		}
		c.Check(okMembers, V1, fname, "second-level synchroniser over the agreed list", m.Pos(i2.Pos()), "SyncFactory(agreed list, …)", "the second barrier is not run among exactly the agreed participants")
		c.Check(okTopic, V1, fname, "second-level topic", m.Pos(i2.Pos()), "depends on the agreed list or on the session topic", "the second barrier's topic is unrelated to the session/its participants: sessions with different participant sets can satisfy each other's barrier")
		c.Check(okCount, V1, fname, "second-level expected count", m.Pos(i2.Pos()), "len(agreed list) or the first level's count", "the second barrier waits for a number of parties other than the agreed participants")
	}
	if nSecond < 2 {
		c.Bad(O2, "threshold", "second-level Synchronize", "-", fmt.Sprintf("found %d second-level barriers, expected one for DKG and one for signing", nSecond))
	}

	// ------------------------------------------------------------------ N1
	sign := c.mustFunc(m, PkgThreshold, "Scheme", "Sign")
	if sign != nil {
		if fl := firstLevel[sign]; fl != nil {
			l := linOf(fl.Common().Args[3])
			ok := l.K == 1 && len(l.Terms) == 1 && l.Terms["field "+fieldKey(t.fThreshold)] == 1
			c.Check(ok, N1, FuncName(fl.Parent()), "first-level expected count of Sign", m.Pos(fl.Pos()), "Threshold + 1", "Sign waits for a number of signers other than Threshold+1 ("+l.String()+")")
		} else {
			c.Bad(N1, FuncName(sign), "first-level expected count of Sign", "-", "no first-level Synchronize under Sign")
		}
	}
	why := t.instanceSizeMatchesFilter()
	c.Check(why == "", N1, "threshold", "RBC instance size = admitted participants", "-", "size argument of RBF tied to the filter's allowed list", why)

	// ------------------------------------------------------------------ W1
	silent := c.mustFunc(m, PkgThreshold, "", "SilentScheme")
	ebsHM := c.mustFunc(m, PkgThreshold, "embeddedBoxWithScheme", "HandleMessage")
	if silent != nil && ebsHM != nil {
		var box, emb *ssa.Alloc
		var sch ssa.Value
		for _, in := range instrsDeep(silent) {
			// the scheme may come from a constructor step shared with LoudScheme
			if cl, isC := in.(*ssa.Call); isC {
				if ca, via, _ := ctorLiteral(cl); ca != nil && via == cl && isNamed(ca.Type().(*types.Pointer).Elem(), PkgThreshold, "Scheme") {
					sch = cl
				}
				continue
			}
			a, ok := in.(*ssa.Alloc)
			if !ok {
				continue
			}
			el := a.Type().(*types.Pointer).Elem()
			switch {
			case isNamed(el, PkgMsg, "Box"):
				box = a
			case isNamed(el, PkgThreshold, "Scheme"):
				sch = a
			case m.isNamedA(el, PkgThreshold, "embeddedBoxWithScheme"):
				emb = a
			}
		}
		okAll := box != nil && sch != nil && emb != nil
		if okAll {
			fBoxH := m.Field(PkgMsg, "Box", "MessageHandler")
			fBoxFwd := m.Field(PkgMsg, "Box", "ForwardSend")
			fEmbBox := m.Field(PkgThreshold, "embeddedBoxWithScheme", "Box")
			fEmbSch := m.Field(PkgThreshold, "embeddedBoxWithScheme", "Scheme")
			h, _ := structLitFieldValue(box, fBoxH)
			c.Check(h != nil && strip(h) == sch, W1, FuncName(silent), "Box.MessageHandler is the scheme", m.Pos(box.Pos()), "MessageHandler: s", "buffered/forwarded messages are not handed to the scheme")
			// ForwardSend = s.Send loaded before it is overwritten
			fwd, _ := structLitFieldValue(box, fBoxFwd)
			okFwd := false
			var sendOverwrite *ssa.Store
			for _, st := range storesToField(deepFuncs(silent), t.fSend) {
				if _, isLit := strip(st.Val).(*ssa.MakeClosure); isLit {
					if rcv, meth, ok := boundMethod(st.Val); ok && meth.Name() == "Send" {
						_ = rcv
						sendOverwrite = st
					}
				}
			}
			if fwd != nil {
				v := t.sl.rootOf(fwd)
				if ld, ok := strip(fwd).(*ssa.UnOp); ok && isLoadOfField(ld, t.fSend) {
					okFwd = sendOverwrite != nil && instrDominates(ld, sendOverwrite)
				} else if ld, ok := v.(*ssa.UnOp); ok && isLoadOfField(ld, t.fSend) {
					okFwd = sendOverwrite != nil && instrDominates(ld, sendOverwrite)
				} else if mc, ok := v.(*ssa.MakeClosure); ok {
					// the literal assigned in the constructor
					okFwd = sendOverwrite != nil && mc.Parent() == silent
				}
			}
			c.Check(okFwd, W1, FuncName(silent), "Box.ForwardSend is the original send", m.Pos(box.Pos()), "ForwardSend ← s.Send as it was before being replaced", "the Box forwards sends to itself (or nowhere)")
			okSend := false
			if sendOverwrite != nil {
				rcv, _, _ := boundMethod(sendOverwrite.Val)
				okSend = t.sl.Slice(rcv)[ssa.Value(box)]
			}
			c.Check(okSend, W1, FuncName(silent), "scheme sends through the Box", m.Pos(silent.Pos()), "s.Send = box.Send", "the scheme's sends bypass the Box: the first send never releases the buffered messages")
			eb, _ := structLitFieldValue(emb, fEmbBox)
			es, _ := structLitFieldValue(emb, fEmbSch)
			okEmb := eb != nil && es != nil && (strip(eb) == ssa.Value(box) || resultOf(eb) == ssa.Value(box)) && strip(es) == sch
			retOK := false
			for _, in := range instrsOf(silent) {
				if r, ok := in.(*ssa.Return); ok && (strip(retResult(r, 0)) == ssa.Value(emb) || resultOf(retResult(r, 0)) == ssa.Value(emb)) {
					retOK = true
				}
			}
			c.Check(okEmb && retOK, W1, FuncName(silent), "returned party embeds this Box and scheme", m.Pos(emb.Pos()), "&embeddedBoxWithScheme{Scheme: s, Box: box}", "the returned party is not the Box/scheme pair that was wired")
			// HandleMessage goes to the Box
			okHM := false
			for _, in := range instrsOf(ebsHM) {
				if cl, ok := in.(*ssa.Call); ok {
					if cal := staticCallee(&cl.Call); cal != nil && cal.Name() == "HandleMessage" && isNamed(cal.Signature.Recv().Type(), PkgMsg, "Box") && isLoadOfField(cl.Call.Args[0], fEmbBox) && strip(cl.Call.Args[1]) == strip(ebsHM.Params[1]) {
						okHM = true
					}
				}
			}
			c.Check(okHM, W1, FuncName(ebsHM), "incoming messages enter the Box", m.Pos(ebsHM.Pos()), "ebs.Box.HandleMessage(msg)", "in silent mode incoming messages bypass the buffer: traffic that arrives before the local first send is lost")
		} else {
			c.Bad(W1, FuncName(silent), "silent wiring", m.Pos(silent.Pos()), "SilentScheme does not build a Box, a Scheme and the embedding party")
		}
	}
}

// isInsideCont: fn is a continuation or lexically nested in one.
func isInsideCont(t *thrModel, fn *ssa.Function) bool { return enclosingCont(t, fn) != nil }

func enclosingCont(t *thrModel, fn *ssa.Function) *ssa.Function {
	for f, i := fn, 0; f != nil && i < 24; f, i = enclosingFn(f), i+1 {
		if _, ok := t.conts[f]; ok {
			return f
		}
	}
	return nil
}

// ruleShareAfterInit (C01.O3): a backend's Init (re)starts the instance — the built-in backends reset
// their key material and learn the party list there — so a signing instance must have its share data
// loaded AFTER Init (and before it starts signing): for every Init invoked on a Signer there is a
// SetShareData on the same instance that Init dominates.  Loading only before Init leaves BLS without a
// key (Sign panics) and PS without its public-key table.
func ruleShareAfterInit(c *Ctx, t *thrModel) {
	const O3 = "C01.O3"
	inits := invokesOf(t.fns, "Init")
	sds := invokesOf(t.fns, "SetShareData")
	n := 0
	for _, in := range inits {
		recvT := in.Common().Value.Type()
		// only instances that have share data to load (Signer), not key generators
		it, ok := recvT.Underlying().(*types.Interface)
		if !ok {
			continue
		}
		hasSD := false
		for i := 0; i < it.NumMethods(); i++ {
			if it.Method(i).Name() == "SetShareData" {
				hasSD = true
			}
		}
		if !hasSD {
			continue
		}
		n++
		inst := resultOf(in.Common().Value)
		ok2 := false
		for _, sd := range sds {
			if resultOf(sd.Common().Value) != inst && !sameValue(resultOf(sd.Common().Value), inst) {
				continue
			}
			if instrDominates(in.(ssa.Instruction), sd.(ssa.Instruction)) {
				ok2 = true
			}
		}
		c.Check(ok2, O3, FuncName(in.Parent()), "SetShareData after Init", t.m.Pos(in.Pos()), "Init dominates a SetShareData on the same instance",
			"the signing instance is initialised after its share data was loaded and nothing loads it again: Init resets the built-in backends' key material (BLS: sk = nil, Sign panics; PS: the public-key table is built from the parties Init sets), so every orchestrated signing session fails")
	}
	if n == 0 {
		c.Bad(O3, "threshold", "Init of a signing instance", "-", "no Init call on a Signer found")
	}
}

// ruleC01LoopIndex (C01.A1): a loop over a re-sliced slice does not index the original slice with its
// loop index.  `for i := range xs[1:] { … xs[i] … }` visits xs[0..len−2] — the first element twice when
// the accumulator started from xs[0], the last never — where `for i := 1; i < len(xs); i++` visited
// xs[1..len−1].  In the secret-sharing arithmetic (Lagrange coefficients, share and key aggregation) this
// is invisible for two points and wrong from three on: authorised sets larger than the threshold produce
// signatures that do not verify, and the t-subset cross-check of key generation fails for t ≥ 3.  The
// algebra itself is not decided; this is the shape of its loops.
func ruleC01LoopIndex(c *Ctx) {
	const A1 = "C01.A1"
	c.Rule(A1, "aggregation loops index the slice they range over", 0)
	n := 0
	for _, mp := range []struct{ mod, pkg string }{{ModBLS, PkgBLS}, {ModPS, PkgPS}, {ModRoot, PkgThreshold}} {
		mm := c.Mod(mp.mod)
		if mm == nil {
			continue
		}
		for _, fn := range mm.PkgFuncs(mp.pkg) {
			for _, in := range instrsOf(fn) {
				cmp, ok := in.(*ssa.BinOp)
				if !ok || cmp.Op != token.LSS {
					continue
				}
				lx, isLen := lenOperand(cmp.Y)
				if !isLen {
					continue
				}
				sl, ok := lx.(*ssa.Slice)
				if !ok || sl.Low == nil || sl.High != nil {
					continue
				}
				lo, isK := constInt(sl.Low)
				if !isK || lo < 1 {
					continue
				}
				// the loop index compared with len(xs[lo:]) …
				idx := cmp.X
				// … used to index xs itself
				for _, in2 := range instrsOf(fn) {
					var base, at ssa.Value
					switch y := in2.(type) {
					case *ssa.IndexAddr:
						base, at = y.X, y.Index
					case *ssa.Index:
						base, at = y.X, y.Index
					}
					if base == nil || at != idx {
						continue
					}
					if base == sl.X || strip(base) == strip(sl.X) {
						n++
						c.Bad(A1, FuncName(fn), "index of "+render(base)+" inside a loop over "+render(sl), mm.Pos(in2.Pos()),
							fmt.Sprintf("the loop ranges over %s but indexes %s with its index: it visits elements 0..len−%d instead of %d..len−1 — an element is used twice and one never; coefficients / aggregates are wrong from three points on (authorised sets above the threshold do not verify, the t-subset cross-check fails for t ≥ 3)", render(sl), render(base), lo+1, lo))
					}
				}
			}
		}
	}
	if n == 0 {
		c.OK(A1, "mpc/bls, mpc/ps, threshold", "loops over re-sliced slices", "-", "no loop over xs[k:] indexes xs with its loop index")
	}
}
