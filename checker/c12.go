package main

// C12 — sessions leave no residue and do not interfere.

import (
	"fmt"
	"go/constant"
	"go/token"
	"go/types"
	"sort"

	"golang.org/x/tools/go/ssa"
)

func init() { register("C12", checkC12) }

type registration struct {
	table *types.Var
	key   ssa.Value // nil for dkgRunning
	instr ssa.Instruction
	// a registration performed by a helper that takes the key as a parameter and is called from several
	// places counts once per call: instr is then the call, key its argument (pairing with the release is
	// the caller's business); inHelper marks the insertion inside such a helper (atomicity and refusal
	// are the helper's business)
	lifted   bool
	inHelper bool
}

// execEdges: functions that fn may start (static calls, go/defer targets,
// closures it creates or passes on).
func (t *thrModel) execEdges(fn *ssa.Function) []*ssa.Function {
	seen := map[*ssa.Function]bool{}
	var out []*ssa.Function
	add := func(f *ssa.Function) {
		if f != nil && !seen[f] && f.Blocks != nil && pkgPathOf(f) == PkgThreshold {
			seen[f] = true
			out = append(out, f)
		}
	}
	for _, in := range instrsOf(fn) {
		switch x := in.(type) {
		case *ssa.MakeClosure:
			add(x.Fn.(*ssa.Function))
			if _, meth, ok := boundMethod(x); ok {
				add(t.m.Prog.FuncValue(meth))
			}
		case ssa.CallInstruction:
			add(t.sl.calleeOfInstr(x))
			for _, a := range x.Common().Args {
				add(t.sl.localClosureCallee(a))
			}
		}
	}
	return out
}

func (t *thrModel) reaches(from, to *ssa.Function) bool {
	seen := map[*ssa.Function]bool{}
	var walk func(f *ssa.Function) bool
	walk = func(f *ssa.Function) bool {
		if f == to {
			return true
		}
		if seen[f] {
			return false
		}
		seen[f] = true
		for _, g := range t.execEdges(f) {
			if walk(g) {
				return true
			}
		}
		return false
	}
	return walk(from)
}

// returnedClosure: fn returns (on every return) one closure literal.
func returnedClosure(fn *ssa.Function) *ssa.Function {
	var res *ssa.Function
	for _, in := range instrsOf(fn) {
		r, ok := in.(*ssa.Return)
		if !ok {
			continue
		}
		for i := range r.Results {
			if mc, ok := strip(retResult(r, i)).(*ssa.MakeClosure); ok {
				f := mc.Fn.(*ssa.Function)
				if res != nil && res != f {
					return nil
				}
				res = f
			}
		}
	}
	return res
}

// resolveCallee: static / local closure / closure returned by a static call.
func (t *thrModel) resolveCallee(ci ssa.CallInstruction) *ssa.Function {
	if f := t.sl.calleeOfInstr(ci); f != nil {
		return f
	}
	v := strip(ci.Common().Value)
	if u, ok := v.(*ssa.UnOp); ok && u.Op == token.MUL {
		if cell := cellOf(u.X); cell != nil {
			if sts := storesToCell(cell); len(sts) == 1 {
				v = strip(sts[0].Val)
			}
		}
	}
	if cl, ok := v.(*ssa.Call); ok {
		if g := staticCallee(&cl.Call); g != nil {
			return returnedClosure(g)
		}
	}
	return nil
}

// factoryResult: v is (a variable assigned once with) the result of a call of a closure factory — also
// when a transparent helper hands that result on: the literal the factory returns and the binding of the
// factory's parameters at that call.
func (t *thrModel) factoryResult(v ssa.Value) (*ssa.Function, paramBinding) {
	v = strip(v)
	if u, ok := v.(*ssa.UnOp); ok && u.Op == token.MUL {
		if cell := cellOf(u.X); cell != nil {
			if sts := storesToCell(cell); len(sts) == 1 {
				v = strip(sts[0].Val)
			}
		}
	}
	for i := 0; i < 3; i++ {
		cl, ok := v.(*ssa.Call)
		if !ok {
			return nil, nil
		}
		g := staticCallee(&cl.Call)
		if g == nil {
			return nil, nil
		}
		if lit := returnedClosure(g); lit != nil {
			return lit, bindingOf(cl, g)
		}
		// a transparent helper that returns what a factory gave it
		rv := resultOf(v)
		if rv == v {
			return nil, nil
		}
		v = rv
	}
	return nil, nil
}

// paramBinding: what a call passes for each parameter of its (static) callee.
type paramBinding map[*ssa.Parameter]ssa.Value

func bindingOf(ci ssa.CallInstruction, g *ssa.Function) paramBinding {
	args := ci.Common().Args
	if g == nil || len(args) != len(g.Params) {
		return nil
	}
	b := paramBinding{}
	for i, p := range g.Params {
		b[p] = args[i]
	}
	return b
}

// rootUnder: the root of v; a parameter of a function with several callers is resolved through the
// binding of the call under consideration (a release helper shared by several sessions gets its key
// as an argument).
func (t *thrModel) rootUnder(v ssa.Value, bind paramBinding) ssa.Value {
	r := t.sl.rootOf(v)
	for i := 0; i < 3 && bind != nil; i++ {
		noParamLook++
		sr := strip(r)
		noParamLook--
		// a field of a handle object passed by value (`h.topic` of `handle.unregister()`): what the
		// object bound at this call holds in that field
		if po, fld := paramObjectField(sr); po != nil {
			if a, has := bind[po]; has {
				if fv := structFieldValue(a, fld, 0); fv != nil {
					r = t.sl.rootOf(fv)
					continue
				}
			}
			break
		}
		p, ok := sr.(*ssa.Parameter)
		if !ok {
			break
		}
		a, ok := bind[p]
		if !ok {
			break
		}
		r = t.sl.rootOf(a)
	}
	return r
}

// releasesIn: does fn (or a function it calls unconditionally at depth ≤ 2) delete table[key≡root] / reset dkgRunning?
func (t *thrModel) releasesIn(fn *ssa.Function, r registration, depth int, bind paramBinding) bool {
	if fn == nil || depth > 2 {
		return false
	}
	for _, in := range instrsOf(fn) {
		if t.isDirectReleaseB(in, r, bind) {
			return true
		}
		if ci, ok := in.(ssa.CallInstruction); ok {
			if g := t.resolveCallee(ci); g != nil && g != fn && pkgPathOf(g) == PkgThreshold {
				// arguments of the inner call, themselves resolved under the current binding
				inner := bindingOf(ci, g)
				for p, a := range inner {
					inner[p] = t.rootUnder(a, bind)
				}
				// (the outer binding stays in force: a root traced through a single-caller helper ends in
				// the outer function's parameters again)
				if inner == nil && bind != nil {
					inner = paramBinding{}
				}
				for p, a := range bind {
					if _, has := inner[p]; !has {
						inner[p] = a
					}
				}
				if t.releasesIn(g, r, depth+1, inner) {
					return true
				}
			}
		}
	}
	return false
}

func (t *thrModel) isDirectRelease(in ssa.Instruction, r registration) bool {
	return t.isDirectReleaseB(in, r, nil)
}

func (t *thrModel) isDirectReleaseB(in ssa.Instruction, r registration, bind paramBinding) bool {
	if r.key == nil {
		st, ok := in.(*ssa.Store)
		if !ok {
			return false
		}
		fa, ok := st.Addr.(*ssa.FieldAddr)
		if !ok || fieldOfAddr(fa) != r.table {
			return false
		}
		k, ok := st.Val.(*ssa.Const)
		return ok && k.Value != nil && k.Value.String() == "false"
	}
	ci, ok := in.(ssa.CallInstruction)
	if !ok {
		return false
	}
	b, ok := ci.Common().Value.(*ssa.Builtin)
	if !ok || b.Name() != "delete" {
		return false
	}
	args := ci.Common().Args
	if !isLoadOfField(args[0], r.table) {
		return false
	}
	if t.sl.sameRoot(args[1], r.key) {
		return true
	}
	return bind != nil && t.rootUnder(args[1], bind) == t.sl.rootOf(r.key)
}

// isReleaseInstr: a direct release, or a call/defer of a releasing function.
func (t *thrModel) isReleaseInstr(in ssa.Instruction, r registration) bool {
	if t.isDirectRelease(in, r) {
		return true
	}
	if ci, ok := in.(ssa.CallInstruction); ok {
		if _, isGo := in.(*ssa.Go); isGo {
			return false
		}
		if g := t.resolveCallee(ci); g != nil && pkgPathOf(g) == PkgThreshold && t.releasesIn(g, r, 0, bindingOf(ci, g)) {
			return true
		}
		// the function a release factory returned (`release := s.topicReleaser(topic)` … `defer release()`):
		// the literal, with the factory's parameters bound to the arguments of that call
		if lit, fb := t.factoryResult(ci.Common().Value); lit != nil && pkgPathOf(lit) == PkgThreshold && t.releasesIn(lit, r, 0, fb) {
			return true
		}
	}
	return false
}

func (t *thrModel) registrations() []registration {
	var out []registration
	for _, f := range []*types.Var{t.fSyncTab, t.fRBCTab, t.fClsTab} {
		for _, mu := range mapUpdatesOfField(t.fns, f) {
			fn := mu.Parent()
			noParamLook++
			root := strip(t.sl.rootOf(mu.Key))
			noParamLook--
			if p, ok := root.(*ssa.Parameter); ok && p.Parent() == fn && helperCall(fn) == nil {
				if cs := staticCallsTo(t.fns, fn); len(cs) >= 2 {
					idx := paramIndex(p)
					for _, c := range cs {
						if idx >= 0 && idx < len(c.Common().Args) {
							out = append(out, registration{table: f, key: c.Common().Args[idx], instr: c.(ssa.Instruction), lifted: true})
						}
					}
					out = append(out, registration{table: f, key: mu.Key, instr: mu, inHelper: true})
					continue
				}
			}
			// … or a field of a parameter object of such a helper (installRBC(rbcSession{topicHash: …}, …))
			if po, pf := paramObjectField(root); po != nil && po.Parent() == fn && helperCall(fn) == nil {
				if cs := staticCallsTo(t.fns, fn); len(cs) >= 2 {
					idx := paramIndex(po)
					all := true
					var lifted []registration
					for _, c := range cs {
						var kv ssa.Value
						if idx >= 0 && idx < len(c.Common().Args) {
							kv = structFieldValue(c.Common().Args[idx], pf, 0)
						}
						if kv == nil {
							all = false
							break
						}
						lifted = append(lifted, registration{table: f, key: kv, instr: c.(ssa.Instruction), lifted: true})
					}
					if all {
						out = append(out, lifted...)
						out = append(out, registration{table: f, key: mu.Key, instr: mu, inHelper: true})
						continue
					}
				}
			}
			out = append(out, registration{table: f, key: mu.Key, instr: mu})
		}
	}
	// a lifted registration whose key is again a parameter of a function with several callers
	// (`s.addSyncHandler(topic, h)` around the table helper): lifted once more, to those callers
	for round := 0; round < 2; round++ {
		var next []registration
		for _, r := range out {
			if !r.lifted || r.key == nil {
				next = append(next, r)
				continue
			}
			fn := r.instr.Parent()
			noParamLook++
			root := strip(t.sl.rootOf(r.key))
			noParamLook--
			p, ok := root.(*ssa.Parameter)
			cs := staticCallsTo(t.fns, fn)
			if !ok || p.Parent() != fn || helperCall(fn) != nil || len(cs) < 2 || usedAsFuncValue[fn] {
				next = append(next, r)
				continue
			}
			idx := paramIndex(p)
			for _, c := range cs {
				if idx >= 0 && idx < len(c.Common().Args) {
					next = append(next, registration{table: r.table, key: c.Common().Args[idx], instr: c.(ssa.Instruction), lifted: true})
				}
			}
			r.inHelper, r.lifted = true, false
			next = append(next, r)
		}
		out = next
	}
	for _, st := range storesToField(t.fns, t.fDKGRunning) {
		if k, ok := st.Val.(*ssa.Const); ok && k.Value != nil && k.Value.String() == "true" {
			out = append(out, registration{table: t.fDKGRunning, instr: st})
		}
	}
	return out
}

// registersOnlyOnSuccess: in fn, no return with a non-nil error is reachable after the registration instruction.
func registersOnlyOnSuccess(reg ssa.Instruction) bool {
	fn := reg.Parent()
	res := fn.Signature.Results()
	errIdx := -1
	for i := 0; i < res.Len(); i++ {
		if types.Identical(res.At(i).Type(), types.Universe.Lookup("error").Type()) {
			errIdx = i
		}
	}
	if errIdx < 0 {
		return true
	}
	for b := range reachableBlocks(reg.Block()) {
		r, ok := b.Instrs[len(b.Instrs)-1].(*ssa.Return)
		if !ok {
			continue
		}
		if b == reg.Block() && false {
			continue
		}
		if !isNilConst(retResult(r, errIdx)) {
			// a later error return after having registered
			if b != reg.Block() || instrIndex(r) > instrIndex(reg) {
				if setWasNoOpAt(reg, r) {
					continue // the flag was set already: this caller did not register anything
				}
				return false
			}
		}
	}
	return true
}

// setWasNoOpAt: reg is `x.flag = true` and every path to the return r has passed the true arm of a
// test of the value the same flag had right before the store (`was := x.flag; x.flag = true; …
// if was { return err }`): on that path the store changed nothing, the flag belongs to another caller.
func setWasNoOpAt(reg ssa.Instruction, r *ssa.Return) bool {
	st, ok := reg.(*ssa.Store)
	if !ok {
		return false
	}
	k, isK := st.Val.(*ssa.Const)
	if !isK || k.Value == nil || k.Value.Kind() != constant.Bool || !constant.BoolVal(k.Value) {
		return false
	}
	fa, ok := st.Addr.(*ssa.FieldAddr)
	if !ok {
		return false
	}
	fld := fieldOfAddr(fa)
	// the load of the flag before the store, in the same block, nothing written in between
	var before *ssa.UnOp
	for _, in := range st.Block().Instrs {
		if in == ssa.Instruction(st) {
			break
		}
		switch x := in.(type) {
		case *ssa.UnOp:
			if fa2, isFA := x.X.(*ssa.FieldAddr); isFA && x.Op == token.MUL && fieldOfAddr(fa2) == fld && sameObject(fa2.X, fa.X) {
				before = x
			}
		case *ssa.Store:
			if fa2, isFA := x.Addr.(*ssa.FieldAddr); isFA && fieldOfAddr(fa2) == fld {
				before = nil
			}
		case *ssa.Call:
			before = nil // a call may write the flag, and releasing the lock lets another caller do so
		}
	}
	if before == nil {
		return false
	}
	return hasFact(FactsAt(r), func(f Fact) bool {
		return f.Op == 0 && f.True && strip(f.Bool) == ssa.Value(before)
	})
}

func checkC12(c *Ctx) {
	c.explanation = "Static decision on threshold's SSA of: (O1) every registration into the topic-keyed handler tables / dkgRunning is paired with a release of the same table and the same key value that runs on all exits — of the registering function (deferred, explicit on every arm, or by the Synchronize continuation axiom), or of the API entry by a deferred release that is armed before the registration can happen (or immediately after it, with only the registration's own failure arm in between); (L1) the existence test that refuses a duplicate topic / a second key generation and the insertion lie in one exclusive critical section of Scheme.lock, and (L2) the refused arm of that test stores nothing (a set of a flag that was already set is not a store); (G1) the dispatcher invokes a handler only on the found arm of the topic-keyed lookup; (W1) Scheme fields are written only by the frozen writer set (no per-session object is stored in the Scheme). Not decided: a continuation still running after the API call returned can register after the deferred cleanup (no session token) — documented limitation; independence of concurrent sessions beyond table keys."
	c.notDecided = "registrations performed by a continuation that outlives the API call; independence of concurrent sessions beyond the table keys"
	c.Assume("Synchronizer.Synchronize returns nil iff it ran its continuation to completion (decided for both implementations by C07.O1)")
	t := buildThresholdModel(c)
	if t == nil {
		return
	}
	const O1, L1, G1, W1 = "C12.O1", "C12.L1", "C12.G1", "C12.W1"
	c.Rule(O1, "register/release pairing on all exits (same table, same key value)", 4)
	c.Rule(L1, "refuse-and-insert in one exclusive critical section", 1)
	c.Rule(G1, "dispatch invokes a handler only on the found arm of its lookup", 1)
	c.Rule(W1, "who may write Scheme fields", 4)
	m := t.m

	regs := t.registrations()
	apiRoots := t.apiRootsReaching(func(in ssa.Instruction) bool {
		for _, r := range regs {
			if r.instr == in {
				return true
			}
		}
		return false
	})
	for _, r := range regs {
		if r.inHelper {
			continue // paired per call site (the lifted registrations)
		}
		fn := r.instr.Parent()
		fname := FuncName(fn)
		construct := "registration into " + r.table.Name()
		if r.key != nil {
			construct += "[" + render(t.sl.rootOf(r.key)) + "]"
		}
		pos := m.Pos(r.instr.Pos())
		// --- local discharge
		done := func(in ssa.Instruction) bool { return t.isReleaseInstr(in, r) }
		contOK := func(cont *ssa.Function) bool {
			// the continuation releases on all of its exits: a release is deferred in its entry block before anything can return
			cont = litBody(cont) // a method value standing for the literal: the method's body
			for _, in := range cont.Blocks[0].Instrs {
				if d, ok := in.(*ssa.Defer); ok && t.isReleaseInstr(d, r) {
					return true
				}
				if _, ok := in.(*ssa.Return); ok {
					return false
				}
			}
			return false
		}
		local := pathToReturnAvoiding(r.instr, done, syncNilEdgeSkipper(t.sl, fn, contOK))
		if local == nil && (fn.Signature.Results().Len() == 0 || rootOfHelper(fn).Signature.Results().Len() == 0) && !fnIsAPIRoot(fn, apiRoots) && !fnIsAPIRoot(rootOfHelper(fn), apiRoots) {
			// released before the registering function (a continuation / helper without results) returns
			c.OK(O1, fname, construct, pos, "released on every exit of the registering function (deferred release, explicit release on every arm, or Synchronize's continuation ran)")
			continue
		}
		if local == nil && fnIsAPIRoot(fn, apiRoots) {
			c.OK(O1, fname, construct, pos, "released on every exit of the API entry itself")
			continue
		}
		// --- API-level discharge
		okAll := len(apiRoots) > 0
		why := ""
		nRoots := 0
		for _, root := range apiRoots {
			if !t.reaches(root, fn) {
				continue
			}
			nRoots++
			// deferred releases in the root
			var defers []*ssa.Defer
			for _, in := range instrsOf(root) {
				if d, ok := in.(*ssa.Defer); ok && t.isReleaseInstr(d, r) {
					defers = append(defers, d)
				}
			}
			if len(defers) == 0 {
				okAll = false
				why = fmt.Sprintf("%s has no deferred release of %s for this key: on every exit other than the success path of the continuation (context expiry, failed synchronisation, failed preparation) the entry stays and a later call on the same topic is refused or late traffic is still dispatched", FuncName(root), r.table.Name())
				continue
			}
			// every starter of the registration in root is covered by some defer
			for _, in := range instrsOf(root) {
				ci, ok := in.(ssa.CallInstruction)
				if !ok {
					continue
				}
				if _, isDefer := in.(*ssa.Defer); isDefer {
					continue
				}
				starts := false
				if g := t.resolveCallee(ci); g != nil && pkgPathOf(g) == PkgThreshold && t.reaches(g, fn) {
					starts = true
				}
				for _, a := range ci.Common().Args {
					if g := t.sl.localClosureCallee(a); g != nil && t.reaches(g, fn) {
						starts = true
					}
				}
				if !starts {
					continue
				}
				covered := false
				for _, d := range defers {
					if instrDominates(d, in) {
						covered = true
						break
					}
					if instrDominates(in, d) {
						// only the registration's own failure arm may return in between
						cl, isCall := in.(*ssa.Call)
						skip := func(b *ssa.BasicBlock, succ int) bool {
							if !isCall {
								return false
							}
							iff, ok := b.Instrs[len(b.Instrs)-1].(*ssa.If)
							if !ok {
								return false
							}
							f := factOf(Guard{iff, succ == 0})
							if f.Op != token.NEQ || !isNilConst(f.Y) {
								return false
							}
							x := strip(f.X)
							if e, ok := x.(*ssa.Extract); ok {
								x = e.Tuple
							}
							return x == ssa.Value(cl) && registersOnlyOnSuccess(r.instr)
						}
						if p := pathToReturnAvoiding(in, func(i ssa.Instruction) bool { return i == ssa.Instruction(d) }, skip); p == nil {
							covered = true
							break
						} else {
							why = "an exit of " + FuncName(root) + " lies between the registration and the deferred release: " + describePath(m, p)
						}
					}
				}
				if !covered {
					okAll = false
					if why == "" {
						why = fmt.Sprintf("%s can start the registration at %s before a release is deferred", FuncName(root), m.Pos(in.Pos()))
					}
				}
			}
		}
		if nRoots == 0 {
			okAll = false
			why = "no API entry reaches this registration"
		}
		if !okAll && local != nil && why == "" {
			why = "a path from the registration to a return without release: " + describePath(m, local)
		}
		c.Check(okAll, O1, fname, construct, pos, "a release of the same table/key is deferred in the API entry before the registration can start (or right after it, only the registration's failure arm in between)", why)
	}

	// ------------------------------------------------------------------ L1
	for _, r := range regs {
		if r.lifted {
			continue
		}
		// refusing guard: registration dominated by the not-present arm of a lookup of the same table whose present arm returns an error
		var test ssa.Instruction
		for _, f := range FactsAt(r.instr) {
			if f.Op != 0 || f.True {
				continue
			}
			if r.key != nil {
				if tup, ok := commaOK(f.Bool); ok {
					if lk, ok := tup.(*ssa.Lookup); ok && isLoadOfField(lk.X, r.table) {
						test = lk
					}
				}
			} else if isLoadOfField(f.Bool, r.table) {
				test = strip(f.Bool).(ssa.Instruction)
			}
		}
		if test == nil {
			continue
		}
		s1 := t.la.sectionOf(test, t.fLock)
		s2 := t.la.sectionOf(r.instr, t.fLock)
		ok := s1 != nil && s1 == s2 && t.la.Holds(r.instr, t.fLock, LockW) && t.la.Holds(test, t.fLock, LockW)
		c.Check(ok, L1, FuncName(r.instr.Parent()), "existence test and insertion into "+r.table.Name(), m.Pos(r.instr.Pos()),
			"both inside one exclusive section of Scheme.lock", "the test that refuses a duplicate and the insertion are not in one exclusive critical section: two concurrent calls can both pass the test")
	}

	// ------------------------------------------------------------------ L2: a refused call leaves the table as it was
	const L2 = "C12.L2"
	c.Rule(L2, "an existence test that can refuse the call guards the insertion (a refused call modifies nothing)", 1)
	errT := types.Universe.Lookup("error").Type()
	returnsErrorUnder := func(fn *ssa.Function, holds func(f Fact) bool) bool {
		for _, in := range instrsOf(fn) {
			ret, ok := in.(*ssa.Return)
			if !ok {
				continue
			}
			nonNilErr := false
			for i := range ret.Results {
				rv := retResult(ret, i)
				if types.Identical(rv.Type(), errT) && !isNilConst(rv) {
					nonNilErr = true
				}
			}
			if nonNilErr && hasFact(FactsAt(ret), holds) {
				return true
			}
		}
		return false
	}
	nL2 := 0
	for _, r := range regs {
		if r.key == nil {
			continue
		}
		// (a registration through a table helper counts where the helper is called: the refusing test
		// stands next to that call)
		fn := r.instr.Parent()
		for _, in := range instrsOf(fn) {
			lk, ok := in.(*ssa.Lookup)
			if !ok || !lk.CommaOk || !isLoadOfField(lk.X, r.table) || !(sameValue(lk.Index, r.key) || t.sl.sameRoot(lk.Index, r.key)) {
				continue
			}
			var flag ssa.Value
			if refs := lk.Referrers(); refs != nil {
				for _, q := range *refs {
					if e, ok := q.(*ssa.Extract); ok && e.Index == 1 {
						flag = e
					}
				}
			}
			if flag == nil {
				continue
			}
			isFlagTrue := func(v ssa.Value) func(f Fact) bool {
				return func(f Fact) bool { return f.Op == 0 && f.True && stripNoParam(f.Bool) == v }
			}
			// does a found entry make the call fail?  in this function …
			refuses := returnsErrorUnder(fn, isFlagTrue(flag))
			// … or in a caller that is handed the flag
			if !refuses {
				for _, in2 := range instrsOf(fn) {
					ret, ok := in2.(*ssa.Return)
					if !ok {
						continue
					}
					for i := range ret.Results {
						if stripNoParam(retResult(ret, i)) != flag {
							continue
						}
						for _, cs := range staticCallsTo(t.fns, fn) {
							cv, ok := cs.(*ssa.Call)
							if !ok {
								continue
							}
							var res ssa.Value = cv
							if len(ret.Results) > 1 {
								res = nil
								if refs := cv.Referrers(); refs != nil {
									for _, q := range *refs {
										if e, ok := q.(*ssa.Extract); ok && e.Index == i {
											res = e
										}
									}
								}
							}
							if res != nil && returnsErrorUnder(cs.Parent(), isFlagTrue(res)) {
								refuses = true
							}
						}
					}
				}
			}
			if !refuses {
				continue
			}
			nL2++
			guarded := hasFact(FactsAt(r.instr), func(f Fact) bool { return f.Op == 0 && !f.True && stripNoParam(f.Bool) == flag })
			c.Check(guarded, L2, FuncName(fn), "insertion into "+r.table.Name()+" only when the refusing test found nothing", m.Pos(r.instr.Pos()),
				"dominated by the not-found arm of the lookup whose found arm makes the call fail",
				"the table is written before (or regardless of) the outcome of the test that refuses a duplicate: the refused call has already replaced the running session's handler with its own, which never runs — the running session stops receiving its messages")
		}
	}
	if nL2 == 0 {
		c.Bad(L2, "threshold", "refusing existence test", "-", "no registration is preceded by an existence test that can refuse the call (a duplicate topic must be refused)")
	}

	// ------------------------------------------------------------------ O2: only the admitted call releases
	const O2 = "C12.O2"
	c.Rule(O2, "a release in the API entry is armed only after its own admission succeeded", 1)
	for _, r := range regs {
		if r.lifted {
			continue
		}
		// refusing registrations (test-and-insert that returns an error when present)
		refusing := false
		for _, f := range FactsAt(r.instr) {
			if f.Op != 0 || f.True {
				continue
			}
			if r.key != nil {
				if tup, ok := commaOK(f.Bool); ok {
					if lk, ok := tup.(*ssa.Lookup); ok && isLoadOfField(lk.X, r.table) {
						refusing = true
					}
				}
			} else if isLoadOfField(f.Bool, r.table) {
				refusing = true
			}
		}
		if !refusing {
			continue
		}
		for _, root := range apiRoots {
			if !t.reaches(root, r.instr.Parent()) {
				continue
			}
			// the admission call in the root
			var adm *ssa.Call
			for _, in := range instrsOf(root) {
				if cl, ok := in.(*ssa.Call); ok {
					if g := t.resolveCallee(cl); g != nil && (g == r.instr.Parent() || t.reaches(g, r.instr.Parent())) && cl.Call.Signature().Results().Len() > 0 {
						adm = cl
					}
				}
			}
			if adm == nil {
				continue
			}
			for _, in := range instrsOf(root) {
				if in == ssa.Instruction(adm) || !t.isReleaseInstr(in, r) {
					continue
				}
				ok := instrDominates(adm, in) && hasFact(FactsAt(in), func(f Fact) bool {
					if f.Op != token.EQL || !isNilConst(f.Y) {
						return false
					}
					x := strip(f.X)
					if e, isE := x.(*ssa.Extract); isE {
						x = e.Tuple
					}
					return x == ssa.Value(adm)
				})
				c.Check(ok, O2, FuncName(root), "release of "+r.table.Name()+" armed after successful admission", m.Pos(in.Pos()),
					"dominated by the admission call returning no error",
					"the release is armed before (or regardless of) the admission check: a call that is refused because a session on the same topic / a key generation is already running removes the state of that running session when it returns — the running session loses its handlers and a third concurrent call is admitted")
			}
		}
	}

	// ------------------------------------------------------------------ K1
	// Sessions of Sign are told apart by their topic only: every key under which code reached from Sign
	// registers a handler, and every topic it puts on the wire, is a function of Sign's topic parameter.
	// A key that depends on something else alone (the signer set, a constant) is shared by concurrent
	// sessions on different topics: the later registration replaces the earlier one and the first
	// session to finish removes the handler the other still uses.
	const K1 = "C12.K1"
	c.Rule(K1, "table keys and wire topics of a signing session derive from Sign's topic parameter", 3)
	if sign := c.mustFunc(m, PkgThreshold, "Scheme", "Sign"); sign != nil {
		var topicParam *ssa.Parameter
		for _, p := range sign.Params {
			if b, ok := p.Type().Underlying().(*types.Basic); ok && b.Kind() == types.String {
				if topicParam != nil {
					topicParam = nil
					break
				}
				topicParam = p
			}
		}
		if topicParam == nil {
			c.Unk(K1, FuncName(sign), "topic parameter", m.Pos(sign.Pos()), "Sign no longer has exactly one string parameter (the topic): cannot tell what identifies a session")
		} else {
			keygen := m.Func(PkgThreshold, "Scheme", "KeyGen")
			onlySign := func(fn *ssa.Function) bool {
				return t.reaches(sign, fn) && (keygen == nil || !t.reaches(keygen, fn))
			}
			for _, r := range regs {
				if r.inHelper || r.key == nil {
					continue
				}
				fn := r.instr.Parent()
				if !onlySign(fn) {
					continue
				}
				sl := t.sl.Slice(r.key)
				c.Check(sl[topicParam], K1, FuncName(fn), "key of the registration into "+r.table.Name(), m.Pos(r.instr.Pos()),
					"the key derives from Sign's topic parameter",
					"the key under which this signing session registers its handler does not depend on the session's topic: concurrent Sign calls on different topics (with the same signers) share one table slot — one session's handler replaces the other's, traffic of both reaches one instance, and the first to finish removes the handler the other still needs")
			}
			for _, fn := range t.fns {
				if !onlySign(fn) {
					continue
				}
				for _, call := range callsOfFuncField([]*ssa.Function{fn}, t.fSend) {
					args := call.Common().Args
					if len(args) < 2 {
						continue
					}
					sl := t.sl.Slice(args[1])
					c.Check(sl[topicParam], K1, FuncName(fn), "wire topic of a send", m.Pos(call.Pos()),
						"the topic sent derives from Sign's topic parameter",
						"a message of this signing session is sent under a topic that does not depend on the session's topic: peers dispatch it to whichever session holds that topic")
				}
			}
		}
	}

	// ------------------------------------------------------------------ G1
	nDisp := 0
	for _, f := range []*types.Var{t.fSyncTab, t.fRBCTab, t.fClsTab} {
		for _, lk := range lookupsOfField(t.fns, f) {
			if !lk.CommaOk {
				continue
			}
			// uses of the handler value
			var hv *ssa.Extract
			for _, ref := range *lk.Referrers() {
				if e, ok := ref.(*ssa.Extract); ok && e.Index == 0 {
					hv = e
				}
			}
			if hv == nil || hv.Referrers() == nil {
				continue
			}
			// (a conversion between a named func type and its underlying type is not a use)
			var uses []ssa.Instruction
			var collect func(v ssa.Value, d int)
			collect = func(v ssa.Value, d int) {
				if v.Referrers() == nil || d > 3 {
					return
				}
				for _, ref := range *v.Referrers() {
					if ct, isCT := ref.(*ssa.ChangeType); isCT {
						collect(ct, d+1)
						continue
					}
					uses = append(uses, ref)
				}
			}
			collect(hv, 0)
			for _, use := range uses {
				ci, ok := use.(ssa.CallInstruction)
				if !ok {
					continue
				}
				nDisp++
				okF := boolFact(FactsAt(use), true, func(v ssa.Value) bool {
					tup, isOK := commaOK(v)
					return isOK && tup == ssa.Value(lk)
				})
				c.Check(okF, G1, FuncName(lk.Parent()), "use of "+f.Name()+" entry", m.Pos(ci.Pos()), "on the found arm of the lookup",
					"a handler taken from the table is used although the topic has no live session (nil call or late traffic reaching a finished session)")
			}
		}
	}
	// … and, backwards, calls through a func value that resolves — through a snapshot struct and the
	// parameters of the dispatching steps — to the entry a comma-ok lookup of one of the tables found
	counted := map[ssa.Instruction]bool{}
	for _, f := range []*types.Var{t.fSyncTab, t.fRBCTab, t.fClsTab} {
		for _, lk := range lookupsOfField(t.fns, f) {
			if !lk.CommaOk || lk.Referrers() == nil {
				continue
			}
			for _, ref := range *lk.Referrers() {
				if e, ok := ref.(*ssa.Extract); ok && e.Index == 0 && e.Referrers() != nil {
					for _, u := range *e.Referrers() {
						if ci, ok := u.(ssa.CallInstruction); ok {
							counted[ci] = true // seen by the forward pass above
						}
					}
				}
			}
		}
	}
	for _, fn := range t.fns {
		for _, in := range instrsOf(fn) {
			ci, ok := in.(ssa.CallInstruction)
			if !ok || counted[in] || ci.Common().IsInvoke() || ci.Common().StaticCallee() != nil {
				continue
			}
			if _, isB := ci.Common().Value.(*ssa.Builtin); isB {
				continue
			}
			e, ok := strip(ci.Common().Value).(*ssa.Extract)
			if !ok || e.Index != 0 || e == ci.Common().Value {
				continue
			}
			lk, ok := e.Tuple.(*ssa.Lookup)
			if !ok || !lk.CommaOk {
				continue
			}
			var tab *types.Var
			for _, f := range []*types.Var{t.fSyncTab, t.fRBCTab, t.fClsTab} {
				if isLoadOfField(lk.X, f) {
					tab = f
				}
			}
			if tab == nil {
				continue
			}
			nDisp++
			okF := boolFact(FactsAt(in), true, func(v ssa.Value) bool {
				tup, isOK := commaOK(strip(v))
				return isOK && tup == ssa.Value(lk)
			})
			c.Check(okF, G1, FuncName(fn), "use of "+tab.Name()+" entry", m.Pos(in.Pos()), "on the found arm of the lookup (entry and flag carried from the lookup to the call)",
				"a handler taken from the table is used although the topic has no live session (nil call or late traffic reaching a finished session)")
		}
	}
	if nDisp < 3 {
		c.Bad(G1, "threshold", "dispatch sites", "-", fmt.Sprintf("only %d uses of table entries found", nDisp))
	}

	// ------------------------------------------------------------------ W1
	// session-keyed state (the three tables, dkgRunning) may be written anywhere: pairing is O1's business and
	// locking is C20's. W1 is about everything else: configuration must not be rewritten per session.
	allowedWriters := map[string]map[string]bool{
		"RBF":         {"(*threshold.Scheme).setup": true},
		"SyncFactory": {"(*threshold.Scheme).setup": true},
		"StoredData":  {"(*threshold.Scheme).SetStoredData": true},
		"Send":        {"threshold.SilentScheme": true},
	}
	var constructionFn func(fn *ssa.Function, d int) bool
	constructionFn = func(fn *ssa.Function, d int) bool {
		if fn == nil || d > 3 {
			return false
		}
		if fn.Parent() == nil && (fn.Name() == "LoudScheme" || fn.Name() == "SilentScheme") {
			return true
		}
		if fn.Object() == nil || fn.Object().Exported() || funcUsedAsValue(t.fns, fn) {
			return false
		}
		cs := staticCallsTo(t.fns, fn)
		if len(cs) == 0 {
			return false
		}
		for _, c := range cs {
			if !constructionFn(c.Parent(), d+1) {
				return false
			}
		}
		return true
	}
	st := t.scheme.Underlying().(*types.Struct)
	var names []string
	for i := 0; i < st.NumFields(); i++ {
		names = append(names, st.Field(i).Name())
	}
	sort.Strings(names)
	for _, n := range names {
		f := t.m.Field(PkgThreshold, "Scheme", n)
		for _, s := range storesToField(t.fns, f) {
			fn := s.Parent()
			// constructor literals (fresh, unpublished object) are fine — in a constructor, or in a step
			// that only constructors call, on the object that step (or a further such step) allocates
			if constructionFn(fn, 0) {
				base := s.Addr.(*ssa.FieldAddr).X
				a, fresh := strip(base).(*ssa.Alloc)
				fresh = fresh && a.Parent() == fn
				if !fresh {
					if ca, _, _ := ctorLiteral(base); ca != nil && constructionFn(ca.Parent(), 0) {
						fresh = true
					}
				}
				if fresh && !(n == "Send" && fn.Name() == "SilentScheme") {
					continue
				}
			}
			// (a step split off a permitted writer, called only from it, is part of that writer)
			ok := allowedWriters[nameBack(n)][nameBack(FuncName(fn))] || allowedWriters[nameBack(n)][nameBack(FuncName(rootOfHelper(fn)))]
			switch f {
			case t.fDKGRunning, t.fSyncTab, t.fRBCTab, t.fClsTab:
				ok = true
				if f != t.fDKGRunning && !inlinedInto(fn, t.setup) {
					ok = false // the tables themselves are only ever replaced by setup
				}
			}
			c.Check(ok, W1, FuncName(fn), "store to Scheme."+n, m.Pos(s.Pos()), "writer in the frozen set", "a Scheme field is written by a function outside the frozen writer set: per-session state stored in the shared object survives the session / races with dispatch")
		}
	}
}

func fnIsAPIRoot(fn *ssa.Function, roots []*ssa.Function) bool {
	for _, r := range roots {
		if r == fn {
			return true
		}
	}
	return false
}
