package main

// C17 — framing and isolation of the bundled transport.

import (
	"fmt"
	"go/constant"
	"go/token"
	"go/types"
	"sort"
	"strconv"
	"strings"

	"golang.org/x/tools/go/ssa"
)

func init() { register("C17", checkC17) }

// readCall is one "fill this buffer completely from the connection" step of the reader: a call of
// io.ReadFull, or of a thin own wrapper around it; buf is the buffer being filled.
type readCall struct {
	*ssa.Call
	buf  ssa.Value // the buffer filled, as the reading function sees it
	size ssa.Value // its length when the step allocates it (make in place: the make's length; an allocating read helper: the argument); nil: see buf
}

// allocatingReader: g(conn, n, …) ([]byte, error) allocates make([]byte, n) for its parameter n, fills it
// completely with io.ReadFull and returns that very buffer exactly when ReadFull succeeded.  Returns the
// index of n.
func allocatingReader(g *ssa.Function) (int, bool) {
	if g == nil || g.Blocks == nil || g.Signature.Results().Len() != 2 {
		return 0, false
	}
	var rf *ssa.Call
	n := 0
	for _, in := range instrsOf(g) {
		if c, ok := in.(*ssa.Call); ok && isCallTo(&c.Call, "io", "ReadFull") {
			rf = c
			n++
		}
	}
	if n != 1 {
		return 0, false
	}
	noParamLook++
	defer func() { noParamLook-- }()
	ms, ok := strip(rf.Call.Args[1]).(*ssa.MakeSlice)
	if !ok {
		return 0, false
	}
	lv := strip(ms.Len)
	if cv, isC := lv.(*ssa.Convert); isC {
		lv = strip(cv.X)
	}
	p, ok := lv.(*ssa.Parameter)
	if !ok || p.Parent() != g {
		return 0, false
	}
	var errv ssa.Value
	if rf.Referrers() != nil {
		for _, r := range *rf.Referrers() {
			if e, isE := r.(*ssa.Extract); isE && e.Index == 1 {
				errv = e
			}
		}
	}
	if errv == nil {
		return 0, false
	}
	succ := 0
	for _, in := range instrsOf(g) {
		r, isR := in.(*ssa.Return)
		if !isR {
			continue
		}
		if !isNilConst(retResult(r, 1)) {
			continue // a failure return
		}
		succ++
		if strip(retResult(r, 0)) != ssa.Value(ms) || !instrDominates(rf, r) {
			return 0, false
		}
		if !hasFact(FactsAt(r), func(f Fact) bool { return f.Op == token.EQL && isNilConst(f.Y) && errValueOf(f.X) == errv }) {
			return 0, false
		}
	}
	return paramIndex(p), succ > 0
}

// readFullCalls returns the complete-read steps of fn and of its transparent helpers.
func readFullCalls(fn *ssa.Function) []*readCall {
	var out []*readCall
	for _, in := range instrsDeep(fn) {
		c, ok := in.(*ssa.Call)
		if !ok {
			continue
		}
		if isCallTo(&c.Call, "io", "ReadFull") {
			rc := &readCall{Call: c, buf: c.Call.Args[1]}
			if ms, ok := strip(c.Call.Args[1]).(*ssa.MakeSlice); ok {
				rc.size = ms.Len
			}
			out = append(out, rc)
			continue
		}
		if g := c.Call.StaticCallee(); g != nil && g.Blocks != nil && isHelperCall(in) == nil && ownPkgPath(pkgPathOf(g)) {
			if idx, ok := forwardsTo(g, "io", "ReadFull"); ok && len(idx) == 2 && idx[1] >= 0 && idx[1] < len(c.Call.Args) {
				rc := &readCall{Call: c, buf: c.Call.Args[idx[1]]}
				if ms, ok := strip(c.Call.Args[idx[1]]).(*ssa.MakeSlice); ok {
					rc.size = ms.Len
				}
				out = append(out, rc)
				continue
			}
			// a "read exactly n bytes" helper that allocates the buffer itself: the step fills its result
			if ni, ok := allocatingReader(g); ok && ni < len(c.Call.Args) {
				var res ssa.Value = c
				if c.Referrers() != nil {
					for _, r := range *c.Referrers() {
						if e, isE := r.(*ssa.Extract); isE && e.Index == 0 {
							res = e
						}
					}
				}
				out = append(out, &readCall{Call: c, buf: res, size: c.Call.Args[ni]})
			}
		}
	}
	return out
}

// bufLen: constant length of a byte buffer value (make with constant size), or -1.
func bufConstLen(v ssa.Value) int64 {
	v = strip(v)
	if s, ok := v.(*ssa.Slice); ok {
		if a, ok := s.X.(*ssa.Alloc); ok {
			if arr, ok := a.Type().(*types.Pointer).Elem().Underlying().(*types.Array); ok {
				if s.High != nil {
					if h, ok := constInt(s.High); ok {
						return h
					}
				}
				return arr.Len()
			}
		}
	}
	if ms, ok := v.(*ssa.MakeSlice); ok {
		if k, ok := constInt(ms.Len); ok {
			return k
		}
	}
	return -1
}

func lanesDesc(ls []lane) string { return describeLanes(ls) }

func checkC17(c *Ctx) {
	c.explanation = "Static decision on /repo's SSA of: (B1) the frame layout written by remoteParty.send equals the layout read by readMsg (type at [0]; length at [1:5] with the same width and byte order; fixed 5-byte prefix; 32-byte topic right after the prefix; payload last and sized by the transmitted length; header written before payload) and likewise for the handshake length prefix; (G1) the allocation sized by the wire is dominated by the size limit; (W1) the connection is written only by remoteParty.send/Handshake.Write, these run only on the per-destination goroutine started once; (P1) no panic is reachable from Send/sendMessages on account of a peer (only caller-contract panics, listed); (O1) a failed write closes and clears the connection on that arm before the invocation is over, the outcome of a write that is followed by another one is tested and nothing is written after a failure; (O2) from the receive that takes a message off the destination's queue every path to the next receive passes the call that writes it. A function of the package that puts its parameter on the connection and reports success only after the write returned nil counts as a write of its argument; the framing function is found by name, else by its role under the writer loop. Exactly-once/in-order delivery as behaviour and fairness are not decided."
	c.notDecided = "exactly-once / in-order delivery as behaviour, fairness between peers"
	c.Assume("io.ReadFull fills the buffer completely or fails; tls.Conn.Write writes all bytes or fails; sync.Once")
	m := c.Mod(ModRoot)
	if m == nil {
		return
	}
	readMsg := c.mustFunc(m, PkgNet, "", "readMsg")
	hsRead := c.mustFunc(m, PkgNet, "Handshake", "Read")
	hsWrite := c.mustFunc(m, PkgNet, "Handshake", "Write")
	sendMessages := c.mustFunc(m, PkgNet, "remoteParty", "sendMessages")
	maybeConnect := m.Func(PkgNet, "remoteParty", "maybeConnect")
	if maybeConnect == nil {
		maybeConnect = c.mustFunc(m, PkgNet, "remoteParty", "sendMessages") // the dialling code written out in the writer loop
	}
	startOnce := c.mustFunc(m, PkgNet, "remoteParty", "startOnce")
	Send := c.mustFunc(m, PkgNet, "SocketRemoteParties", "Send")
	fConn := c.mustField(m, PkgNet, "remoteParty", "conn")
	if len(c.fatal) > 0 {
		return
	}
	// functions that put one of their parameters on the connection for their callers
	wrappers := connWriteWrappers(m.PkgFuncs(PkgNet), fConn)
	// connWrite: cl puts bytes on the connection — rp.conn.Write(b), or a call of such a function
	connWrite := func(cl *ssa.Call) (ssa.Value, bool) {
		if isConnWriteCall(cl, fConn) {
			return cl.Call.Args[1], true
		}
		if w := wrappers[staticCallee(&cl.Call)]; w != nil && w.param < len(cl.Call.Args) {
			return cl.Call.Args[w.param], true
		}
		return nil, false
	}
	writesConn := func(g *ssa.Function) bool {
		for _, f := range deepFuncs(g) {
			for _, in := range instrsOf(f) {
				if cl, ok := in.(*ssa.Call); ok {
					if _, isW := connWrite(cl); isW {
						return true
					}
				}
			}
		}
		return false
	}
	// the framing function: by its recorded name, or by its role — the function the writer loop calls
	// that puts bytes on the connection (not the dialling code)
	send := m.Func(PkgNet, "remoteParty", "send")
	if send == nil || send.Name() != "send" {
		byPrint := send
		var cands []*ssa.Function
		for _, in := range instrsDeep(sendMessages) {
			if cl, ok := in.(*ssa.Call); ok {
				if g := staticCallee(&cl.Call); g != nil && g != maybeConnect && pkgPathOf(g) == PkgNet && g.Blocks != nil && wrappers[g] == nil && writesConn(g) {
					dup := false
					for _, e := range cands {
						dup = dup || e == g
					}
					if !dup {
						cands = append(cands, g)
					}
				}
			}
		}
		if len(cands) == 1 {
			send = cands[0]
			c.Note("anchor: remoteParty.send found by role (the function the writer loop calls that writes the connection): %s", FuncName(send))
		} else if byPrint != nil {
			send = byPrint
		} else {
			c.Fatalf("anchor", "cannot resolve function %s.remoteParty.send in the current tree (by name, fingerprint or role: %d candidates)", PkgNet, len(cands))
			return
		}
	}
	inSend := map[*ssa.Function]bool{}
	for _, f := range deepFuncs(send) {
		inSend[f] = true
	}
	fData := c.mustField(m, PkgNet, "outMsg", "data")
	fTopic := c.mustField(m, PkgNet, "outMsg", "topic")
	fType := c.mustField(m, PkgNet, "outMsg", "msgType")
	if len(c.fatal) > 0 {
		return
	}
	netFns := m.PkgFuncs(PkgNet)
	const B1, G1, W1, P1, O1 = "C17.B1", "C17.G1", "C17.W1", "C17.P1", "C17.O1"
	c.Rule(B1, "frame layout agreement send ↔ readMsg and Handshake.Write ↔ Read", 4)
	c.Rule(G1, "wire-sized allocation dominated by the size limit", 1)
	c.Rule(W1, "single writer per connection", 2)
	c.Rule(P1, "no peer-induced panic on the sending side", 1)
	c.Rule(O1, "failed write/handshake closes and clears the connection on that arm", 1)
	// ------------------------------------------------------------------ B1 reader side
	rf := readFullCalls(readMsg)
	if len(rf) != 3 {
		c.Bad(B1, FuncName(readMsg), "three reads (prefix, topic, payload)", m.Pos(readMsg.Pos()), fmt.Sprintf("readMsg performs %d ReadFull calls; expected prefix, optional topic, payload", len(rf)))
		return
	}
	// order by dominance: prefix dominates both others
	var prefix, topicRd, payloadRd *readCall
	sizeOf := func(r *readCall) int64 {
		if r.size != nil {
			if k, ok := constInt(r.size); ok {
				return k
			}
			return -1
		}
		return bufConstLen(r.buf)
	}
	for _, r := range rf {
		n := sizeOf(r)
		switch {
		case n == 32:
			topicRd = r
		case n > 0:
			prefix = r
		default:
			payloadRd = r
		}
	}
	if prefix == nil || topicRd == nil || payloadRd == nil {
		c.Unk(B1, FuncName(readMsg), "three reads (prefix, topic, payload)", m.Pos(readMsg.Pos()), "cannot tell prefix/topic/payload reads apart by their buffer sizes")
		return
	}
	prefixLen := sizeOf(prefix)
	okOrder := instrDominates(prefix, topicRd) && instrDominates(prefix, payloadRd) && !blockReaches(payloadRd.Block(), topicRd.Block(), nil)
	c.Check(okOrder, B1, FuncName(readMsg), "read order prefix → topic → payload", m.Pos(prefix.Pos()), "dominance order", "the reader does not consume prefix, topic, payload in this order")
	prefixBuf := bufferRoot(prefix.buf)
	// type
	var typeLanes, lenLanes []lane
	var lenVal ssa.Value
	// what readMsg returns on success: (type, topic, payload, nil), or one frame struct holding them and nil
	var readType ssa.Value // the message type value the reader hands out
	for _, in := range instrsOf(readMsg) {
		if r, ok := in.(*ssa.Return); ok {
			res := retResults(r)
			if len(res) < 2 {
				continue
			}
			if k, isK := res[len(res)-1].(*ssa.Const); !isK || k.Value != nil {
				continue
			}
			var tv, pv ssa.Value
			if len(res) == 4 {
				tv, pv = res[0], res[2]
			} else if st, isS := res[0].Type().Underlying().(*types.Struct); isS {
				for i := 0; i < st.NumFields(); i++ {
					f := st.Field(i)
					fv := structFieldValue(res[0], f, 0)
					if fv == nil {
						continue
					}
					if widthLanes(f.Type()) == 1 && namedOf(f.Type()) != nil {
						tv = fv
					}
					if isByteSlice(f.Type()) && (strip(fv) == strip(payloadRd.buf) || resultOf(fv) == strip(payloadRd.buf)) {
						pv = fv
					}
				}
			}
			if tv != nil {
				readType = tv
				typeLanes = lanesOf(tv, 0)
			}
			// payload returned is the buffer of the payload read
			c.Check(pv != nil && (strip(pv) == strip(payloadRd.buf) || resultOf(pv) == strip(payloadRd.buf)), B1, FuncName(readMsg), "returned payload is the payload read", m.Pos(r.Pos()), "same buffer", "the data returned is not the payload buffer that was filled")
		}
	}
	if payloadRd.size != nil {
		lenVal = payloadRd.size
		lenLanes = lanesOf(payloadRd.size, 0)
	}
	okType := len(typeLanes) == 1 && typeLanes[0].Kind == laneByte && typeLanes[0].Buf == prefixBuf && typeLanes[0].Pos.String() == "0"
	// writer side
	writes := encoderWrites(send)
	wByPos := map[string]byteWrite{}
	for _, w := range writes {
		wByPos[w.Pos.String()] = w
	}
	w0, has0 := wByPos["0"]
	okTypeW := has0 && w0.Lane.Kind == laneSrc && isLoadOfField(w0.Lane.Src, fType) || has0 && w0.Lane.Kind == laneSrc && laneFromField(w0.Lane.Src, fType)
	c.Check(okType && okTypeW, B1, FuncName(readMsg), "type byte", m.Pos(readMsg.Pos()), "reader: prefix[0]; writer: header[0] ← msgType",
		fmt.Sprintf("message type position disagrees (reader lanes %s, writer header[0] = %v)", lanesDesc(typeLanes), w0.Lane))
	// length
	okLen := len(lenLanes) >= 4
	var lenSrc ssa.Value
	why := ""
	for k := 0; k < 4 && okLen; k++ {
		l := lenLanes[k]
		if l.Kind != laneByte || l.Buf != prefixBuf {
			okLen = false
			why = fmt.Sprintf("byte %d of the length is %s", k, l)
			break
		}
		w, has := wByPos[l.Pos.String()]
		if !has || w.Lane.Kind != laneSrc || w.Lane.K != k {
			okLen = false
			why = fmt.Sprintf("byte %d of the length is read from position %s where the writer put %v", k, l.Pos, w.Lane)
			break
		}
		if lenSrc == nil {
			lenSrc = w.Lane.Src
		} else if lenSrc != w.Lane.Src {
			okLen = false
			why = "the length bytes come from different values"
		}
	}
	for k := 4; k < len(lenLanes) && okLen; k++ {
		if lenLanes[k].Kind != laneZero {
			okLen = false
			why = "upper bytes of the length are not zero-extended"
		}
	}
	if okLen {
		// the transmitted value is len(msg.data)
		x, isLen := lenOperand(lenSrc)
		if cv, ok := strip(lenSrc).(*ssa.Convert); ok && !isLen {
			x, isLen = lenOperand(cv.X)
		}
		if !isLen || !isLoadOfField(x, fData) {
			okLen = false
			why = "the transmitted length is not len(msg.data)"
		}
	}
	c.Check(okLen, B1, FuncName(readMsg), "length field", m.Pos(payloadRd.Pos()), "reader: 4 bytes at prefix[1:5], same byte order as the writer's len(msg.data)", "length field disagrees: "+why)
	// prefix size = 1 + 4 on both sides; writer's header = prefix + len(topic)
	// the header put on the connection is prefixLen + len(topic) bytes long, however it is built
	// (make with that length and index stores, or appends to an empty buffer)
	okPrefix := false
	if prefixLen == 5 && has0 {
		le0 := &lenEnv{fn: send, pkgFns: netFns, resolved: true}
		for _, in := range instrsDeep(send) {
			cl, ok := in.(*ssa.Call)
			if !ok {
				continue
			}
			wb, isW := connWrite(cl)
			if !isW {
				continue
			}
			if bufferRoot(resultOf(wb)) != w0.Buf {
				continue
			}
			l := le0.lenOf(wb)
			// prefixLen + len(topic), possibly followed by the payload in the same write
			okPrefix = l.K == prefixLen
			nTopic := 0
			for t, k := range l.T {
				switch {
				case k == 1 && strings.HasPrefix(t, "len(") && strings.Contains(t, "."+fTopic.Name()):
					nTopic++
				case k == 1 && strings.HasPrefix(t, "len(") && strings.Contains(t, "."+fData.Name()):
				default:
					okPrefix = false
				}
			}
			okPrefix = okPrefix && nTopic == 1
		}
	}
	c.Check(okPrefix, B1, FuncName(send), "fixed prefix size", m.Pos(send.Pos()), fmt.Sprintf("reader reads %d bytes; writer's header is %d + len(topic)", prefixLen, prefixLen), "the fixed prefix the reader consumes differs from what the writer emits before the topic")
	// topic region: writer copies topic at header[prefixLen:]
	okTopic := false
	for _, r := range encoderRegions(send) {
		if r.start.OK && r.start.Base == "" && r.start.Off == prefixLen {
			okTopic = true
		}
	}
	// writer insists on 0 or 32
	ok32 := false
	for _, in := range instrsDeep(send) {
		if iff, ok := in.(*ssa.If); ok {
			f := factOf(Guard{iff, true})
			if f.Op == token.NEQ || f.Op == token.EQL {
				if k, ok := constInt(f.Y); ok && k == 32 {
					if x, isLen := lenOperand(f.X); isLen && isLoadOfField(x, fTopic) {
						ok32 = true
					}
				}
			}
		}
	}
	c.Check(okTopic && ok32, B1, FuncName(send), "topic placement and size", m.Pos(send.Pos()), "writer: copy(header[5:], topic) with len(topic) ∈ {0,32}; reader: 32 bytes right after the prefix", "topic region disagrees between writer and reader")
	// writer side, as a byte stream: on every path of send on which all writes succeed, what goes to the
	// connection is the whole header followed by the whole of msg.data, whatever the number of Write calls
	// or intermediate buffers
	if has0 {
		le := &lenEnv{fn: send, pkgFns: netFns}
		se := &streamEnv{le: le, header: w0.Buf, isData: func(v ssa.Value) bool { return isLoadOfField(v, fData) }}
		paths := se.streamPaths(connWrite)
		bad := ""
		for _, p := range paths {
			if !(len(p) == 2 && p[0].Src == "header" && p[0].Complete && p[1].Src == "data" && p[1].Complete) {
				bad = segsString(p)
				break
			}
		}
		if len(paths) == 0 {
			bad = "no path on which all writes succeed reaches the return"
		}
		c.Check(bad == "", B1, FuncName(send), "bytes put on the connection", m.Pos(send.Pos()), fmt.Sprintf("%d success path(s): header ++ msg.data, each complete", len(paths)),
			"on some path send puts on the connection: "+bad+" — not the whole header followed by the whole payload, so the receiver (which reads exactly the announced length) is desynchronised or gets a modified message")
		// every copy in the framing code is complete
		for _, cp := range builtinCalls(send, "copy") {
			ok, why := le.copyComplete(cp)
			c.Check(ok, B1, FuncName(send), "copy complete: "+render(cp.Call.Args[1]), m.Pos(cp.Pos()), why, "a copy in the framing code may silently truncate: "+why)
		}
	} else {
		c.Bad(B1, FuncName(send), "bytes put on the connection", m.Pos(send.Pos()), "header buffer not identified")
	}

	// handshake length prefix
	hw := encoderWrites(hsWrite)
	var hl []lane
	for _, in := range instrsDeep(hsRead) {
		if ms, ok := in.(*ssa.MakeSlice); ok {
			if _, isK := constInt(ms.Len); isK {
				continue // the fixed-size buffer of the prefix itself
			}
			hl = lanesOf(ms.Len, 0)
		}
	}
	okH := len(hl) >= 2 && len(hw) >= 2
	for k := 0; k < 2 && okH; k++ {
		if hl[k].Kind != laneByte {
			okH = false
			break
		}
		found := false
		for _, w := range hw {
			if w.Pos.String() == hl[k].Pos.String() && w.Lane.Kind == laneSrc && w.Lane.K == k {
				found = true
			}
		}
		okH = found
	}
	c.Check(okH, B1, FuncName(hsRead), "handshake length prefix", m.Pos(hsRead.Pos()), "2-byte length, same byte order on both sides", "handshake length prefix disagrees between Write and Read")

	// ------------------------------------------------------------------ T1: topic table vs. what the orchestrator sends
	const T1 = "C17.T1"
	c.Rule(T1, "every message type the orchestrator sends with a topic is framed with a topic by the reader", 1)
	if np := m.Pkg(PkgNet); np != nil {
		table := map[int64]bool{}
		okTab := false
		// the table: the package-level map from message type to bool that the reader consults (by its
		// recorded name, else by that role), as package initialisation leaves it (a literal, or filled by init)
		tabName := "shouldHaveTopic"
		sp := m.SSAPkg(PkgNet)
		if sp != nil {
			if _, has := sp.Members[tabName].(*ssa.Global); !has {
				var cands []string
				for _, in := range instrsDeep(readMsg) {
					lk, ok := in.(*ssa.Lookup)
					if !ok {
						continue
					}
					u, ok := lk.X.(*ssa.UnOp)
					if !ok || u.Op != token.MUL {
						continue
					}
					g, ok := u.X.(*ssa.Global)
					if !ok || g.Pkg != sp {
						continue
					}
					mt, ok := g.Type().(*types.Pointer).Elem().Underlying().(*types.Map)
					if !ok {
						continue
					}
					if b, isB := mt.Elem().Underlying().(*types.Basic); !isB || b.Kind() != types.Bool {
						continue
					}
					if intWidth(mt.Key()) == 0 {
						continue
					}
					dup := false
					for _, e := range cands {
						dup = dup || e == g.Name()
					}
					if !dup {
						cands = append(cands, g.Name())
					}
				}
				if len(cands) == 1 {
					tabName = cands[0]
					c.Note("anchor: the topic table of package net found by role (the map from message type to bool that readMsg consults): %s", tabName)
				}
			}
			if ev, err := evalPackageInit(sp); err == nil {
				if im, ok := ev.mapOf(sp, tabName); ok {
					okTab = true
					for _, ks := range im.keys {
						kv, isK := im.m[ks].(constant.Value)
						k, err2 := strconv.ParseInt(ks, 10, 64)
						if !isK || kv.Kind() != constant.Bool || err2 != nil {
							okTab = false
							continue
						}
						table[k] = constant.BoolVal(kv)
					}
				}
			}
		}
		if !okTab && readType != nil {
			// no table: the reader decides by code (a switch in a `hasTopic()` method, a comparison): read the
			// decision by evaluating the guards of the topic read for each 8-bit type value
			tabName = "the reader's own test"
			okTab = true
			guards := GuardsLocal(topicRd.Call)
			nDep := 0
			for k := int64(0); k < 256 && okTab; k++ {
				bind := map[ssa.Value]constant.Value{readType: constant.MakeInt64(k), strip(readType): constant.MakeInt64(k)}
				reads := true
				dep := 0
				for _, g := range guards {
					cv, ok := evalUnder(g.If.Cond, bind, 0)
					if !ok || cv.Kind() != constant.Bool {
						continue // a test that does not depend on the type (an error check)
					}
					dep++
					if constant.BoolVal(cv) != g.Arm {
						reads = false
					}
				}
				if dep == 0 {
					okTab = false
				}
				nDep += dep
				table[k] = reads
			}
		}
		if !okTab {
			c.Unk(T1, "net", "shouldHaveTopic", "-", "the table is not a package-level map with constant entries after package initialisation, and the reader's test for a topic cannot be evaluated per message type")
		} else if t := buildThresholdModel(c); t != nil {
			sent := map[int64]bool{}
			for _, ci := range callsOfFuncField(t.fns, t.fSend) {
				if k, ok := constInt(ci.Common().Args[0]); ok {
					sent[k] = true
				}
			}
			var ks []int64
			for k := range sent {
				ks = append(ks, k)
			}
			sort.Slice(ks, func(i, j int) bool { return ks[i] < ks[j] })
			if len(ks) == 0 {
				c.Bad(T1, "threshold", "message types sent", "-", "no constant message type found at the orchestrator's send sites")
			}
			for _, k := range ks {
				c.Check(table[k], T1, "net", fmt.Sprintf("type %d carries a topic", k), "-", "shouldHaveTopic[type] is true",
					fmt.Sprintf("the orchestrator sends type %d with a 32-byte topic but the reader does not read a topic for it: every such frame is mis-parsed (topic bytes taken as payload) and the stream loses synchronisation", k))
			}
		}
	}

	// ------------------------------------------------------------------ G1
	if lenVal != nil {
		// the allocation happens at the make in place, or inside the allocating read helper: at the call
		var ms ssa.Instruction = payloadRd.Call
		if mk, isMk := strip(payloadRd.buf).(*ssa.MakeSlice); isMk {
			ms = mk
		}
		ok := hasFact(FactsAt(ms), func(f Fact) bool {
			if f.Op != token.LEQ && f.Op != token.LSS {
				return false
			}
			k, isK := constInt(f.Y)
			if !isK || k <= 0 || k > 1<<31 {
				return false
			}
			// compared value is the same wire length
			a, b := lanesOf(f.X, 0), lenLanes
			if len(a) < 4 || len(b) < 4 {
				return false
			}
			for i := 0; i < 4; i++ {
				if a[i].Kind != laneByte || a[i].Pos.String() != b[i].Pos.String() || a[i].Buf != b[i].Buf {
					return false
				}
			}
			return true
		})
		c.Check(ok, G1, FuncName(readMsg), "make([]byte, wireLength)", m.Pos(ms.Pos()), "dominated by wireLength ≤ maxBuffLen", "a frame announcing an arbitrary length makes the node allocate it (no size limit on the permitting arm)")
	} else {
		c.Unk(G1, FuncName(readMsg), "make([]byte, wireLength)", m.Pos(readMsg.Pos()), "payload buffer is not allocated by make with the wire length")
	}

	// ------------------------------------------------------------------ W1
	for _, fn := range netFns {
		c.Analysed(FuncName(fn))
		for _, in := range instrsOf(fn) {
			cl, ok := in.(ssa.CallInstruction)
			if !ok {
				continue
			}
			cc := cl.Common()
			o := calleeObj(cc)
			if o == nil {
				continue
			}
			// writes on the connection field
			if o.Name() == "Write" && len(cc.Args) >= 1 && (isLoadOfField(cc.Args[0], fConn) || (cc.IsInvoke() && isLoadOfField(cc.Value, fConn))) {
				c.Check(inSend[fn] || wrappers[fn] != nil, W1, FuncName(fn), "conn.Write", m.Pos(in.Pos()), "in remoteParty.send", "the connection is written outside remoteParty.send: frames of concurrent senders can interleave")
			}
			if cal := staticCallee(cc); cal != nil {
				switch {
				case wrappers[cal] != nil:
					c.Check(inSend[fn], W1, FuncName(fn), "call "+cal.Name(), m.Pos(in.Pos()), "from remoteParty.send", "the function that writes the connection is called outside remoteParty.send: frames of concurrent senders can interleave")
				case (cal == send || cal == maybeConnect) && cal != sendMessages:
					c.Check(inlinedInto(fn, sendMessages), W1, FuncName(fn), "call "+cal.Name(), m.Pos(in.Pos()), "from the per-destination goroutine sendMessages", cal.Name()+" is called outside the single writer goroutine")
				case cal == hsWrite:
					c.Check(inlinedInto(fn, maybeConnect), W1, FuncName(fn), "call Handshake.Write", m.Pos(in.Pos()), "from the dialling code of the writer goroutine", "a handshake is written outside the writer goroutine's dialling code")
				case cal == sendMessages:
					_, isGo := in.(*ssa.Go)
					inOnce := false
					if fn.Parent() == startOnce {
						// the closure is the argument of onStart.Do
						for _, in2 := range instrsOf(startOnce) {
							if c2, ok := in2.(*ssa.Call); ok && isCallTo(&c2.Call, "sync", "Once.Do") {
								if mc, ok := strip(c2.Call.Args[1]).(*ssa.MakeClosure); ok && mc.Fn == fn {
									inOnce = true
								}
							}
						}
					}
					if mc := methodLiteral[rootOfHelper(fn)]; !inOnce && mc != nil && mc.Referrers() != nil {
						// a method value standing for the literal: p.once.Do(p.spawn) — its only use is as the
						// argument of Do on a Once of the very object the method is bound to
						uses, all := 0, true
						for _, r := range *mc.Referrers() {
							c2, isC := r.(*ssa.Call)
							if !isC || !isCallTo(&c2.Call, "sync", "Once.Do") || len(mc.Bindings) != 1 {
								all = false
								continue
							}
							fa, isFA := c2.Call.Args[0].(*ssa.FieldAddr)
							if !isFA || !(strip(fa.X) == strip(mc.Bindings[0]) || sameValue(fa.X, mc.Bindings[0])) {
								all = false
								continue
							}
							uses++
						}
						inOnce = all && uses > 0
					}
					c.Check(isGo && inOnce, W1, FuncName(fn), "spawn of sendMessages", m.Pos(in.Pos()), "go rp.sendMessages() inside onStart.Do", "the writer loop can be started more than once per destination (or not as a goroutine)")
				}
			}
		}
	}

	// ------------------------------------------------------------------ O2
	// a message taken off the destination's queue is written: from the receive, every path to the next
	// receive (or out of the loop) passes the call that puts it on the connection.  Taking the message first
	// and giving up on it when the peer cannot be reached loses an accepted message per failed attempt.
	{
		const O2 = "C17.O2"
		c.Rule(O2, "a dequeued message is put on the connection before the next one is taken", 1)
		writes := writesConn
		nRecv := 0
		for _, in := range instrsDeep(sendMessages) {
			rv, ok := in.(*ssa.UnOp)
			if !ok || rv.Op != token.ARROW {
				continue
			}
			if _, isChan := rv.X.Type().Underlying().(*types.Chan); !isChan {
				continue
			}
			// the queue of outgoing messages (element type: pointer to the message struct that send takes)
			elemOK := false
			if ch, ok := rv.X.Type().Underlying().(*types.Chan); ok && len(send.Params) > 0 {
				elemOK = types.Identical(ch.Elem(), send.Params[len(send.Params)-1].Type())
			}
			if !elemOK {
				continue
			}
			nRecv++
			var msgVal ssa.Value = rv
			if rv.CommaOk {
				for _, r := range *rv.Referrers() {
					if e, ok := r.(*ssa.Extract); ok && e.Index == 0 {
						msgVal = e
					}
				}
			}
			isSend := func(x ssa.Instruction) bool {
				cl, ok := x.(*ssa.Call)
				if !ok {
					return false
				}
				g := staticCallee(&cl.Call)
				if g == nil || !writes(g) {
					return false
				}
				for _, a := range cl.Call.Args {
					if strip(a) == strip(msgVal) || sl17(m).Slice(a)[msgVal] {
						return true
					}
				}
				return false
			}
			// search: from the receive to the receive again, or to a return, avoiding the send
			fn := rv.Parent()
			type st struct {
				b   *ssa.BasicBlock
				idx int
			}
			seen := map[st]bool{}
			stack := []st{{rv.Block(), instrIndex(rv) + 1}}
			lost := false
			for len(stack) > 0 && !lost {
				cur := stack[len(stack)-1]
				stack = stack[:len(stack)-1]
				if seen[cur] {
					continue
				}
				seen[cur] = true
				met := false
				for i := cur.idx; i < len(cur.b.Instrs); i++ {
					x := cur.b.Instrs[i]
					if isSend(x) {
						met = true
						break
					}
					if x == ssa.Instruction(rv) {
						lost = true // the next message is taken without this one having been written
						break
					}
					if _, isRet := x.(*ssa.Return); isRet {
						lost = true
						break
					}
				}
				if met || lost {
					continue
				}
				for _, s2 := range cur.b.Succs {
					stack = append(stack, st{s2, 0})
				}
			}
			_ = fn
			c.Check(!lost, O2, FuncName(rv.Parent()), "dequeued message is written", m.Pos(rv.Pos()), "every path from <-queue to the next receive passes send(msg)",
				"a message is taken off the destination's queue and, on some path (e.g. when connecting fails), the loop goes on to the next message without writing it: an accepted message is lost whenever the peer is unreachable at that moment")
		}
		if nRecv == 0 {
			c.Bad(O2, FuncName(sendMessages), "receive from the destination's queue", "-", "the writer loop does not take messages off a queue of outgoing messages")
		}
	}

	// ------------------------------------------------------------------ P1
	// panics reachable from Send / sendMessages (static calls and closures created there)
	allowed := map[string]string{
		"SocketRemoteParties.Send:unknown-destination": "caller contract: destination must be a configured party",
		"send:topic-size":     "caller contract: legal type/topic combination (property's premise)",
		"send:data-too-large": "caller contract: payload above 4 GiB cannot be framed",
		"extractTLSBinding":   "TLS 1.3 exporter cannot fail on an established tls.Conn (library contract)",
		"Handshake.Bytes":     "marshal of a locally produced handshake",
	}
	_ = allowed
	seen := map[*ssa.Function]bool{}
	var walk func(fn *ssa.Function)
	var panics []*ssa.Panic
	walk = func(fn *ssa.Function) {
		if fn == nil || seen[fn] || fn.Blocks == nil || pkgPathOf(fn) != PkgNet {
			return
		}
		seen[fn] = true
		for _, in := range instrsOf(fn) {
			switch x := in.(type) {
			case *ssa.Panic:
				if !x.Pos().IsValid() {
					continue // compiler-synthesised (e.g. the unreachable default of a blocking select)
				}
				panics = append(panics, x)
			case *ssa.MakeClosure:
				walk(x.Fn.(*ssa.Function))
			case ssa.CallInstruction:
				walk(staticCallee(x.Common()))
			}
		}
	}
	walk(Send)
	walk(sendMessages)
	for _, p := range panics {
		fn := p.Parent()
		reason := ""
		switch {
		case fn == Send || rootOfHelper(fn) == Send:
			// only the unknown-destination panic: guarded by !exists of the parties lookup
			if boolFact(FactsAt(p), false, func(v ssa.Value) bool { _, ok := commaOK(v); return ok }) {
				reason = "caller contract: destination must be a configured party"
			}
		case inDeep(p, send):
			reason = "caller contract: illegal topic length / payload above 4 GiB"
		case fn.Name() == "extractTLSBinding" || strings.HasPrefix(panicText(p), "\"failed extracting TLS"):
			// in its helper or written out where the connection is dialled / authenticated
			reason = "TLS exporter on an established TLS 1.3 connection (library contract)"
		case fn.Name() == "Bytes":
			reason = "marshal of the locally produced handshake"
		}
		c.Check(reason != "", P1, FuncName(fn), "panic "+panicText(p), m.Pos(p.Pos()), reason,
			"a panic on the sending side is triggered by the state of a peer (slow/unreachable destination), not by a caller error: one bad peer kills the process")
	}

	// ------------------------------------------------------------------ O1
	// O1 (second half): once a write has failed nothing more is written in this invocation — the
	// outcome of every write that is followed by another one is tested, and no write is reachable from
	// its failure arm (the connection is gone there: a further write is a nil dereference or puts the
	// rest of a frame on a connection whose peer has lost the framing)
	for _, f := range deepFuncs(send) {
		for _, in := range instrsOf(f) {
			cw, ok := in.(*ssa.Call)
			if !ok {
				continue
			}
			if _, isW := connWrite(cw); !isW {
				continue
			}
			// writes that can follow cw in f
			follows := func(from *ssa.BasicBlock, idx int) *ssa.Call {
				seen := map[*ssa.BasicBlock]bool{}
				var found *ssa.Call
				var dfs func(b *ssa.BasicBlock, i int)
				dfs = func(b *ssa.BasicBlock, i int) {
					if found != nil {
						return
					}
					for ; i < len(b.Instrs); i++ {
						if c2, ok := b.Instrs[i].(*ssa.Call); ok && c2 != cw {
							if _, isW := connWrite(c2); isW {
								found = c2
								return
							}
						}
					}
					for _, sb := range b.Succs {
						if !seen[sb] {
							seen[sb] = true
							dfs(sb, 0)
						}
					}
				}
				dfs(from, idx)
				return found
			}
			if follows(cw.Block(), instrIndex(cw)+1) == nil {
				continue // the last write of the invocation
			}
			tested := false
			var after *ssa.Call
			for _, b := range f.Blocks {
				if len(b.Instrs) == 0 {
					continue
				}
				iff, ok := b.Instrs[len(b.Instrs)-1].(*ssa.If)
				if !ok {
					continue
				}
				fc := factOf(Guard{iff, true})
				fail := -1
				switch {
				case fc.Op == 0 && strip(fc.Bool) == ssa.Value(cw):
					fail = 1
					if !fc.True {
						fail = 0
					}
				case (fc.Op == token.NEQ || fc.Op == token.EQL) && (isNilConst(fc.Y) || isNilConst(fc.X)):
					x := fc.X
					if isNilConst(x) {
						x = fc.Y
					}
					ev := errValueOf(x)
					if ex, isEx := ev.(*ssa.Extract); isEx {
						ev = ex.Tuple
					}
					if ev == ssa.Value(cw) {
						fail = 0
						if fc.Op == token.EQL {
							fail = 1
						}
					}
				}
				if fail < 0 {
					continue
				}
				tested = true
				if w2 := follows(b.Succs[fail], 0); w2 != nil {
					after = w2
				}
			}
			c.Check(tested && after == nil, O1, FuncName(f), "nothing is written after the failure of "+render(cw), m.Pos(cw.Pos()), "the outcome is tested and no write is reachable from the failure arm",
				"the outcome of a write is ignored (or its failure arm goes on writing): after a failed write the connection is closed and cleared, so the next write of the same invocation dereferences a nil connection or continues a frame the peer can no longer delimit")
		}
	}
	o1Fns := []*ssa.Function{send, maybeConnect}
	for g := range wrappers {
		o1Fns = append(o1Fns, g)
	}
	sort.Slice(o1Fns[2:], func(i, j int) bool { return FuncName(o1Fns[2+i]) < FuncName(o1Fns[2+j]) })
	for _, fn := range o1Fns {
		for _, in := range instrsDeep(fn) {
			cl, ok := in.(*ssa.Call)
			if !ok {
				continue
			}
			o := calleeObj(&cl.Call)
			isConnWrite := o != nil && o.Name() == "Write" && len(cl.Call.Args) >= 1 && isLoadOfField(cl.Call.Args[0], fConn)
			isHS := staticCallee(&cl.Call) == hsWrite
			if !isConnWrite && !isHS {
				continue
			}
			// the error value
			var errv ssa.Value = cl
			if !isHS {
				for _, r := range *cl.Referrers() {
					if e, ok := r.(*ssa.Extract); ok && e.Index == 1 {
						errv = e
					}
				}
			}
			// find the failing arm
			okArm, arms := false, 0
			var blocks []*ssa.BasicBlock
			for _, df := range deepFuncs(fn) {
				blocks = append(blocks, df.Blocks...)
			}
			for _, b := range blocks {
				if len(b.Instrs) == 0 {
					continue
				}
				iff, ok := b.Instrs[len(b.Instrs)-1].(*ssa.If)
				if !ok {
					continue
				}
				f := factOf(Guard{iff, true})
				if isNilConst(f.X) {
					f.X, f.Y = f.Y, f.X
				}
				if (f.Op != token.NEQ && f.Op != token.EQL) || !isNilConst(f.Y) || (strip(f.X) != errv && resultOf(f.X) != errv) {
					continue
				}
				fail := 0 // successor taken when the write failed
				if f.Op == token.EQL {
					fail = 1
				}
				// on the failing arm every path to the return closes the connection and clears the field
				// (directly or through a helper that always does)
				closed := passesOnEdgeInv(b, fail, func(x ssa.Instruction) bool {
					c2, ok := x.(*ssa.Call)
					if !ok {
						return false
					}
					o2 := calleeObj(&c2.Call)
					return o2 != nil && o2.Name() == "Close" && len(c2.Call.Args) > 0 && isLoadOfField(c2.Call.Args[0], fConn)
				})
				cleared := passesOnEdgeInv(b, fail, func(x ssa.Instruction) bool {
					st, ok := x.(*ssa.Store)
					if !ok {
						return false
					}
					fa, ok := st.Addr.(*ssa.FieldAddr)
					return ok && fieldOfAddr(fa) == fConn && isNilConst(st.Val)
				})
				arms++
				okArm = (arms == 1 || okArm) && closed && cleared
			}
			c.Check(okArm, O1, FuncName(fn), "failure arm of "+render(cl), m.Pos(cl.Pos()), "conn.Close() and conn = nil on the error arm", "after a failed write the broken connection is kept: the reconnect loop never re-dials and the peer stays cut off")
		}
	}
}

func laneFromField(v ssa.Value, f *types.Var) bool {
	return isLoadOfField(strip(v), f)
}

func panicText(p *ssa.Panic) string {
	v := strip(p.X)
	if k, ok := v.(*ssa.Const); ok && k.Value != nil {
		s := k.Value.ExactString()
		if len(s) > 40 {
			s = s[:40] + "…"
		}
		return s
	}
	if cl, ok := v.(*ssa.Call); ok {
		for _, a := range cl.Call.Args {
			if k, ok := a.(*ssa.Const); ok && k.Value != nil {
				s := k.Value.ExactString()
				if len(s) > 40 {
					s = s[:40] + "…"
				}
				return s
			}
		}
		return "(" + render(cl) + ")"
	}
	return "(" + types.TypeString(v.Type(), shortQual) + ")"
}

var sl17cache = map[*Module]*Slicer{}

func sl17(m *Module) *Slicer {
	if s, ok := sl17cache[m]; ok {
		return s
	}
	s := NewSlicer(m, PkgNet)
	sl17cache[m] = s
	return s
}

// connWriter is an own function of package net that puts one of its parameters on the destination's
// connection and tells its caller whether that worked — `func (rp *remoteParty) write(b []byte) bool`
// (or `error`): exactly one Write on remoteParty.conn, of that parameter, and every return that
// reports success is reached only after that Write returned a nil error.
type connWriter struct {
	fn    *ssa.Function
	param int    // index of the bytes parameter
	kind  string // "bool" | "error": how success is reported
	write *ssa.Call
}

func isConnWriteCall(cl *ssa.Call, fConn *types.Var) bool {
	o := calleeObj(&cl.Call)
	return o != nil && o.Name() == "Write" && len(cl.Call.Args) == 2 && isLoadOfField(cl.Call.Args[0], fConn)
}

func connWriteWrappers(fns []*ssa.Function, fConn *types.Var) map[*ssa.Function]*connWriter {
	out := map[*ssa.Function]*connWriter{}
	errT := types.Universe.Lookup("error").Type()
	for _, fn := range fns {
		if fn.Blocks == nil || fn.Parent() != nil || helperCall(fn) != nil {
			continue // literals and transparent helpers are analysed in place
		}
		var w *ssa.Call
		n := 0
		for _, in := range instrsOf(fn) {
			if cl, ok := in.(*ssa.Call); ok && isConnWriteCall(cl, fConn) {
				w = cl
				n++
			}
		}
		if n != 1 {
			continue
		}
		noParamLook++
		bp, isP := strip(w.Call.Args[1]).(*ssa.Parameter)
		noParamLook--
		if !isP || bp.Parent() != fn {
			continue
		}
		res := fn.Signature.Results()
		if res.Len() != 1 {
			continue
		}
		kind := ""
		if b, ok := res.At(0).Type().Underlying().(*types.Basic); ok && b.Kind() == types.Bool {
			kind = "bool"
		} else if types.Identical(res.At(0).Type(), errT) {
			kind = "error"
		}
		if kind == "" {
			continue
		}
		var errv ssa.Value
		if w.Referrers() != nil {
			for _, r := range *w.Referrers() {
				if e, ok := r.(*ssa.Extract); ok && e.Index == 1 {
					errv = e
				}
			}
		}
		if errv == nil {
			continue
		}
		wrote := func(r *ssa.Return) bool {
			return instrDominates(w, r) && hasFact(FactsAt(r), func(f Fact) bool {
				return f.Op == token.EQL && isNilConst(f.Y) && errValueOf(f.X) == errv
			})
		}
		ok := true
		nSucc := 0
		for _, in := range instrsOf(fn) {
			r, isR := in.(*ssa.Return)
			if !isR {
				continue
			}
			rv := retResult(r, 0)
			switch kind {
			case "bool":
				k, isK := rv.(*ssa.Const)
				if !isK || k.Value == nil || k.Value.Kind() != constant.Bool {
					ok = false
				} else if constant.BoolVal(k.Value) {
					nSucc++
					ok = ok && wrote(r)
				}
			case "error":
				if isNilConst(rv) {
					nSucc++
					ok = ok && wrote(r)
				} else if errValueOf(rv) == errv && instrDominates(w, r) {
					nSucc++ // `return err` of the write itself: nil exactly when it worked
				}
			}
		}
		if ok && nSucc > 0 {
			out[fn] = &connWriter{fn: fn, param: paramIndex(bp), kind: kind, write: w}
		}
	}
	return out
}
