package main

// Frozen reason table of C10 (one line of justification per site; keys are
// function-name suffix (of the site's function or of the function a transparent
// helper is inlined into), kind and a prefix of the operand in the canonical
// rendering — local names replaced by their types ‹T› — never a line number). An entry that matches nothing is
// reported as stale in the evidence, it does not fail the check.

func init() {
	const (
		local    = "locally produced data, sized in the same function (not network input)"
		sha      = "the digest is a SHA-256 value: acknowledgement digests are validated to 32 bytes by the dispatcher before they reach the instance (site handleAck/digest[:8], discharged by a guard), payload digests are computed by hash() (C02.V1)"
		shares   = "secretShare/localGen(len(parties), t) returns len(parties) shares and 1 ≤ id ≤ len(parties) is assigned by Init from the position in parties"
		misuse   = "client-side API precondition (caller passes the arguments), not fed by received bytes"
		points   = "evaluation points are enumerated by chooseKoutOfN(len(parties), t) in 1..n over the n keys flattened from n parties (C05.N1: all n reveals are held)"
		psLen    = "vector lengths of contributions are validated against the configured length when they are stored (C05.P1) and of the local key by SetShareData/shareDistribution"
		ctrConst = "constructed with a constant count ≥ 1 in the same package (psuedoRandomG1s(c, 1, …) allocates count elements)"
	)
	c10Reasons = []siteReason{
		// --- disc
		{"(*disc.Member).HandleMessage", "panic", "\"programming error: msgType", "unreachable: decodeTagAndMembershipList accepts exactly the three types the switch handles; on a decoding error the tag is empty, which is never a key of the tag table (keys are 32-byte HMACs), so the function returned before the switch — all four premises are decided on every run by C10.R2"},
		{"disc.encodeTagAndMembershipList", "panic", "", "locally produced arguments: the tag is an HMAC-SHA256 output (32 bytes) and the type is one of the three constants"},
		{"disc.encodeTagAndMembershipList", "bounds", "make(slice)[", "buffer allocated with 33+2·len(peers) bytes in the same function and filled from offset 33 with stride 2, one step per peer"},
		{"(*disc.Member).handleResponse", "block", "", "the channel has len(Membership)−1 slots (decided on every run by C10.R2) and at most one send per authenticated member happens (LoadOrStore guard C07.G3, tag ownership C07.G1)"},
		// --- msg
		{"msg.", "divide", "(‹*msg.Box›.GCExpire / ‹*msg.Box›.GCSweep)", "GCSweep is local configuration; a zero value is a configuration error surfaced by startClock at first use, not network input"},
		{"(*msg.Box).startClock", "panic", "\"GC GCExpire", "configuration check at first use (caller contract), independent of received data"},
		// --- rbc
		{"(*rbc.Receiver).Receive", "panic", "\"received ack from myself", "the transport-authenticated source is never this node's own id (C16: a node does not connect to itself; attribution only to registered peers)"},
		{"(*rbc.Receiver).Receive", "bounds", "‹rbc.Message›.Ack()#0[:8]", sha},
		{"(*rbc.Receiver).Receive", "bounds", "&‹rbc.msgReception›.digest[:8]", sha},
		{"(*rbc.Receiver).Receive", "bounds", "‹rbc.Message›.Digest()[:8]", sha},
		{"(*rbc.Receiver).registerMsg", "bounds", "&‹rbc.msgReception›.digest[:8]", sha},
		// --- threshold
		{"(*threshold.Scheme).prepareSigning$2", "assert", "‹interface{}›.(*threshold.rbcMsg)", "only *rbcMsg values are handed to the RBC instance (both construction sites build &rbcMsg, C02.V1) and the instance hands back what it was given, never nil (C03.G2)"},
		{"(*threshold.Scheme).runDKG$1$2", "assert", "‹interface{}›.(*threshold.rbcMsg)", "only *rbcMsg values are handed to the RBC instance (C02.V1) and the instance hands back what it was given, never nil (C03.G2)"},
		{"(*threshold.Scheme).runDKG$1$1", "bounds", "[]byte(‹string›)[:8]", sha},
		{"(threshold.rbcEncoding).Payload", "bounds", "‹threshold.rbcEncoding›[1:]", "called only after rbcEncoding.Ack() on the same bytes returned no error, and Ack's first guard rejects empty data (site Ack/r[0], discharged by that guard)"},
		// --- net
		{"net.extractTLSBinding", "assert", "‹net.Conn›.(*tls.Conn)", "connections come from a listener created by tls.Listen (net.Listen, API contract) or from tls.Dial: every conn is a *tls.Conn"},
		{"net.extractTLSBinding", "panic", "\"failed extracting TLS topic", "ExportKeyingMaterial cannot fail on an established TLS 1.3 connection with renegotiation disabled (library contract)"},
		{"net.handleConn", "block", "‹chan net.InMsg›", "unbuffered hand-off to the application's reader on the per-connection goroutine: it can only delay this peer's own traffic (consumer contract)"},
		// --- bls
		{"(*mpc/bls.SSS).Gen", "bounds", "make(slice)[", local},
		{"(*mpc/bls.TBLS).ThresholdPK", "panic", "", misuse},
		{"(*mpc/bls.TBLS).shareDistribution", "bounds", "localGen(", shares},
		{"(*mpc/bls.Verifier).AggregateSignatures", "panic", "", misuse},
		{"mpc/bls.localAggregatePublicKeys", "bounds", "φ‹[]*math.G2›[", points},
		{"mpc/bls.localAggregatePublicKeys", "bounds", "‹[]*math.G2›[", points}, // the same site when the key list is not a loop-carried value
		{"mpc/bls.localAggregateSignatures", "bounds", "make(slice)[", "len(signatures) == len(signers) is enforced by the caller's guard and one signature is consumed per evaluation point"},
		// --- ps
		{"(*mpc/ps.SSS).Gen", "bounds", "make(slice)[", local},
		{"(*mpc/ps.TPS).combineShares", "bounds", "&‹ps.SK›.ys[", psLen},
		{"(*mpc/ps.TPS).shareDistribution", "bounds", "", shares},
		{"(mpc/ps.PKs).YPoints", "bounds", "&‹ps.PKs›[", psLen},
		{"mpc/ps.Setup", "bounds", "psuedoRandomG1s(", ctrConst},
		{"mpc/ps.", "bounds", "‹*ps.PP›.gs[(len(‹*ps.PP›.gs) - 1)]", "Setup allocates MessageLength+1 ≥ 1 generators (MessageLength is non-negative local configuration)"},
		{"mpc/ps.localAggregateECPoints", "bounds", "‹[]*math.G2›[", points},
		{"mpc/ps.marshalShare", "bounds", "", local},
		// --- adapters
		{"party).OnMsg", "block", "‹*ecdsa.party›.in", "buffered (1000) and drained by the session loop; once the session has ended its handlers are removed (C12.O1), so no further traffic is dispatched to it"},
	}
}
