package main

// Thorough tier: the rules are tested "both ways". Each mutant is a
// single-site semantic edit of a scratch copy of the repository (outside
// /repo and /verif) that still type-checks; the property's quick analysis is
// re-run on the copy in a fresh process and must report a violation of the
// expected rule. Mutant results are evidence about the *checker*; they never
// change the exit code, which speaks only about /repo.

import (
	"encoding/json"
	"fmt"
	"os"
	"os/exec"
	"path/filepath"
	"sort"
	"strings"
	"sync"
)

type Mutant struct {
	ID       string   `json:"id"`
	Property string   `json:"property"`
	File     string   `json:"file"`
	Old      string   `json:"old"`
	New      string   `json:"new"`
	Expect   []string `json:"expect"` // rule ids, any of which must be violated
	Note     string   `json:"note"`
	Benign   bool     `json:"benign,omitempty"` // behaviour-preserving edit: the check must stay silent
	More     []Edit   `json:"more,omitempty"`   // further edits belonging to the same variant (e.g. an import)
	Patch    string   `json:"patch,omitempty"`  // a unified diff (seeded change) applied with patch -p1 instead of Old/New
}

type Edit struct {
	File string `json:"file"`
	Old  string `json:"old"`
	New  string `json:"new"`
}

type MutantResult struct {
	ID      string   `json:"id"`
	Note    string   `json:"note"`
	Status  string   `json:"status"` // flagged | missed | stale | not-compiling | silent-ok | false-alarm
	Rules   []string `json:"rules_violated,omitempty"`
	Expect  []string `json:"expected_rules,omitempty"`
	Benign  bool     `json:"benign,omitempty"`
	Details string   `json:"details,omitempty"`
}

func loadMutants(verif, prop string) ([]Mutant, error) {
	b, err := os.ReadFile(filepath.Join(verif, "mutants", prop+".json"))
	if err != nil {
		if os.IsNotExist(err) {
			return nil, nil
		}
		return nil, err
	}
	var ms []Mutant
	if err := json.Unmarshal(b, &ms); err != nil {
		return nil, fmt.Errorf("mutants/%s.json: %v", prop, err)
	}
	for i := range ms {
		ms[i].Property = prop
	}
	// independently seeded changes kept under seeded/<id>/ (patch.diff + meta.json)
	dirs, _ := filepath.Glob(filepath.Join(verif, "seeded", "*", "meta.json"))
	sort.Strings(dirs)
	for _, mp := range dirs {
		b, err := os.ReadFile(mp)
		if err != nil {
			continue
		}
		var meta struct {
			Seed     string `json:"seed"`
			Property string `json:"property"`
			Needs    string `json:"needs"`
		}
		if json.Unmarshal(b, &meta) != nil || meta.Property != prop {
			continue
		}
		ms = append(ms, Mutant{ID: meta.Seed, Property: prop, Patch: filepath.Join(filepath.Dir(mp), "patch.diff"), Note: "independently seeded change: " + meta.Needs})
	}
	// behaviour-preserving patches kept under benign/<id>/ (patch.diff + meta.json): must stay silent
	bdirs, _ := filepath.Glob(filepath.Join(verif, "benign", "*", "meta.json"))
	sort.Strings(bdirs)
	for _, mp := range bdirs {
		b, err := os.ReadFile(mp)
		if err != nil {
			continue
		}
		var meta struct {
			ID         string   `json:"id"`
			Property   string   `json:"property"`
			Properties []string `json:"properties"`
			Note       string   `json:"note"`
		}
		if json.Unmarshal(b, &meta) != nil {
			continue
		}
		match := meta.Property == prop
		for _, p := range meta.Properties {
			if p == prop {
				match = true
			}
		}
		if !match {
			continue
		}
		ms = append(ms, Mutant{ID: meta.ID, Property: prop, Benign: true, Patch: filepath.Join(filepath.Dir(mp), "patch.diff"), Note: "behaviour-preserving patch: " + meta.Note})
	}
	return ms, nil
}

func copyTree(src, dst string) error {
	cmd := exec.Command("rsync", "-a", "--exclude", ".git", src+"/", dst+"/")
	out, err := cmd.CombinedOutput()
	if err != nil {
		return fmt.Errorf("rsync: %v: %s", err, out)
	}
	return nil
}

func runMutant(self, repo, verif string, mu Mutant, scratchRoot string, baseline map[string]bool) MutantResult {
	res := MutantResult{ID: mu.ID, Note: mu.Note, Expect: mu.Expect, Benign: mu.Benign}
	dir := filepath.Join(scratchRoot, mu.ID)
	repoCopy := filepath.Join(dir, "repo")
	verifCopy := filepath.Join(dir, "verif")
	defer os.RemoveAll(dir)
	if err := os.MkdirAll(verifCopy, 0o755); err != nil {
		res.Status, res.Details = "stale", err.Error()
		return res
	}
	if err := copyTree(repo, repoCopy); err != nil {
		res.Status, res.Details = "stale", err.Error()
		return res
	}
	if kf, err := os.ReadFile(filepath.Join(verif, "known_findings.json")); err == nil {
		os.WriteFile(filepath.Join(verifCopy, "known_findings.json"), kf, 0o644)
	}
	os.WriteFile(filepath.Join(verifCopy, "properties.jsonl"), []byte{}, 0o644)
	if mu.Patch != "" {
		cmd := exec.Command("patch", "-p1", "-s", "-i", mu.Patch)
		cmd.Dir = repoCopy
		if out, err := cmd.CombinedOutput(); err != nil {
			res.Status, res.Details = "stale", "seeded patch no longer applies: "+tailLines(string(out), 2)
			return res
		}
		return finishMutant(self, mu, res, repoCopy, verifCopy, baseline)
	}
	target := filepath.Join(repoCopy, mu.File)
	src, err := os.ReadFile(target)
	if err != nil {
		res.Status, res.Details = "stale", err.Error()
		return res
	}
	if n := strings.Count(string(src), mu.Old); n != 1 {
		res.Status, res.Details = "stale", fmt.Sprintf("anchor text occurs %d times in %s (the code was refactored; regenerate this mutant)", n, mu.File)
		return res
	}
	if err := os.WriteFile(target, []byte(strings.Replace(string(src), mu.Old, mu.New, 1)), 0o644); err != nil {
		res.Status, res.Details = "stale", err.Error()
		return res
	}
	for _, e := range mu.More {
		t2 := filepath.Join(repoCopy, e.File)
		s2, err := os.ReadFile(t2)
		if err != nil || strings.Count(string(s2), e.Old) != 1 {
			res.Status, res.Details = "stale", "secondary edit anchor not found exactly once in "+e.File
			return res
		}
		os.WriteFile(t2, []byte(strings.Replace(string(s2), e.Old, e.New, 1)), 0o644)
	}
	return finishMutant(self, mu, res, repoCopy, verifCopy, baseline)
}

func finishMutant(self string, mu Mutant, res MutantResult, repoCopy, verifCopy string, baseline map[string]bool) MutantResult {
	cmd := exec.Command(self, "-property", mu.Property, "-tier", "quick", "-repo", repoCopy, "-verif", verifCopy)
	cmd.Env = append(os.Environ(), "VERIF_TIER=quick")
	out, _ := cmd.CombinedOutput()
	code := cmd.ProcessState.ExitCode()
	rb, _ := os.ReadFile(filepath.Join(verifCopy, "out", "replay", mu.Property+".json"))
	var rep struct {
		Violations []*Obligation `json:"violations"`
		Failures   []string      `json:"analysis_failures"`
	}
	json.Unmarshal(rb, &rep)
	ruleSet := map[string]bool{}
	newViol := 0
	for _, o := range rep.Violations {
		if baseline[o.Key()] {
			continue // already reported on the unmodified tree
		}
		newViol++
		ruleSet[o.Rule] = true
	}
	if code != 0 && newViol == 0 && len(rep.Failures) == 0 {
		code = 0 // nothing new relative to the unmodified tree
	}
	for r := range ruleSet {
		res.Rules = append(res.Rules, r)
	}
	sort.Strings(res.Rules)
	for _, f := range rep.Failures {
		if strings.HasPrefix(f, "load:") {
			res.Status, res.Details = "not-compiling", f
			return res
		}
	}
	if mu.Benign {
		if code == 0 {
			res.Status = "silent-ok"
		} else {
			res.Status = "false-alarm"
			res.Details = tailLines(string(out), 6)
		}
		return res
	}
	if code == 0 {
		res.Status = "missed"
		return res
	}
	hit := len(mu.Expect) == 0
	for _, e := range mu.Expect {
		if ruleSet[e] {
			hit = true
		}
	}
	if len(rep.Failures) > 0 && !hit {
		res.Details = strings.Join(rep.Failures, "; ")
		hit = true // analysis failure (anchor/floor) is a loud report as well
		res.Rules = append(res.Rules, "analysis-failure")
	}
	if hit {
		res.Status = "flagged"
	} else {
		res.Status = "missed"
		res.Details = "violations were reported, but not by the expected rule(s)"
	}
	return res
}

func tailLines(s string, n int) string {
	ls := strings.Split(strings.TrimSpace(s), "\n")
	if len(ls) > n {
		ls = ls[len(ls)-n:]
	}
	return strings.Join(ls, "\n")
}

func runMutants(prop, repo, verif string, only string) ([]MutantResult, error) {
	ms, err := loadMutants(verif, prop)
	if err != nil {
		return nil, err
	}
	self, err := os.Executable()
	if err != nil {
		return nil, err
	}
	scratchRoot, err := os.MkdirTemp("", "tsscheck-mut-")
	if err != nil {
		return nil, err
	}
	defer os.RemoveAll(scratchRoot)
	// baseline: violations already reported on the unmodified tree (none once all findings are fixed or listed)
	baseline := map[string]bool{}
	{
		bdir := filepath.Join(scratchRoot, "baseline-verif")
		os.MkdirAll(bdir, 0o755)
		if kf, err := os.ReadFile(filepath.Join(verif, "known_findings.json")); err == nil {
			os.WriteFile(filepath.Join(bdir, "known_findings.json"), kf, 0o644)
		}
		cmd := exec.Command(self, "-property", prop, "-tier", "quick", "-repo", repo, "-verif", bdir)
		cmd.CombinedOutput()
		rb, _ := os.ReadFile(filepath.Join(bdir, "out", "replay", prop+".json"))
		var rep struct {
			Violations []*Obligation `json:"violations"`
		}
		json.Unmarshal(rb, &rep)
		for _, o := range rep.Violations {
			baseline[o.Key()] = true
		}
	}
	results := make([]MutantResult, len(ms))
	var wg sync.WaitGroup
	sem := make(chan struct{}, 6)
	for i, mu := range ms {
		if only != "" && mu.ID != only {
			results[i] = MutantResult{ID: mu.ID, Status: "skipped"}
			continue
		}
		wg.Add(1)
		go func(i int, mu Mutant) {
			defer wg.Done()
			sem <- struct{}{}
			defer func() { <-sem }()
			results[i] = runMutant(self, repo, verif, mu, scratchRoot, baseline)
		}(i, mu)
	}
	wg.Wait()
	return results, nil
}

func init() {
	thoroughHook = func(c *Ctx) {
		res, err := runMutants(c.Prop, c.Repo, c.VerifDir, "")
		if err != nil {
			c.Note("mutant run failed: %v", err)
			return
		}
		counts := map[string]int{}
		for _, r := range res {
			counts[r.Status]++
		}
		c.extra["mutants"] = res
		c.extra["mutants_applied"] = len(res) - counts["stale"] - counts["not-compiling"]
		c.extra["mutants_flagged"] = counts["flagged"]
		c.extra["mutants_missed"] = counts["missed"]
		c.extra["benign_variants_silent"] = counts["silent-ok"]
		c.extra["benign_variants_false_alarm"] = counts["false-alarm"]
		c.Note("thorough: %d mutant(s): %d flagged, %d missed, %d stale, %d not compiling; benign variants: %d silent, %d false alarm",
			len(res), counts["flagged"], counts["missed"], counts["stale"], counts["not-compiling"], counts["silent-ok"], counts["false-alarm"])
		for _, r := range res {
			if r.Status == "missed" || r.Status == "false-alarm" || r.Status == "stale" || r.Status == "not-compiling" {
				c.Note("mutant %s: %s %s", r.ID, r.Status, r.Details)
			}
		}
	}
}

// mutantsCLI: `tsscheck -mutants C02 [-only id]` for development.
func mutantsCLI(prop, repo, verif, only string) int {
	res, err := runMutants(prop, repo, verif, only)
	if err != nil {
		fmt.Fprintln(os.Stderr, err)
		return 2
	}
	bad := 0
	for _, r := range res {
		if r.Status == "skipped" {
			continue
		}
		fmt.Printf("%-28s %-14s rules=%v expect=%v %s\n", r.ID, r.Status, r.Rules, r.Expect, r.Details)
		if r.Status != "flagged" && r.Status != "silent-ok" {
			bad++
		}
	}
	if bad > 0 {
		return 1
	}
	return 0
}
