package main

// C15 — the silent-mode buffer stays bounded and gives resources back.

import (
	"fmt"
	"go/token"
	"go/types"
	"os"
	"sort"
	"strings"

	"golang.org/x/tools/go/ssa"
)

type clockDomain string

const (
	domEpoch clockDomain = "epochs"
	domNanos clockDomain = "duration(ns)"
	domWall  clockDomain = "wall-clock"
)

// domainsOf: clock domains of the values a slice is computed from.
func (b *boxModel) domainsOf(sl map[ssa.Value]bool) map[clockDomain]bool {
	out := map[clockDomain]bool{}
	quotientOperands := map[ssa.Value]bool{}
	for v := range sl {
		if bo, ok := v.(*ssa.BinOp); ok && bo.Op == token.QUO {
			if isLoadOfField(bo.X, b.fExpire) && isLoadOfField(bo.Y, b.fSweep) {
				quotientOperands[strip(bo.X)] = true
				quotientOperands[strip(bo.Y)] = true
				out[domEpoch] = true
			}
		}
	}
	for v := range sl {
		switch x := v.(type) {
		case *ssa.Call:
			o := calleeObj(&x.Call)
			if o == nil || o.Pkg() == nil {
				continue
			}
			switch {
			case o.Pkg().Path() == "sync/atomic" && len(x.Call.Args) > 0:
				if fa, ok := x.Call.Args[0].(*ssa.FieldAddr); ok && (fieldOfAddr(fa) == b.fEpoch || fieldOfAddr(fa) == b.fLastGC) {
					out[domEpoch] = true
				}
			case o.Pkg().Path() == "time":
				switch o.Name() {
				case "Now", "Unix", "UnixNano", "Since", "After", "Before", "Sub", "UnixMilli":
					out[domWall] = true
				case "Seconds", "Minutes", "Milliseconds":
					out[domWall] = true // a duration expressed in wall-clock units
				}
			}
		case *ssa.UnOp:
			if x.Op == token.MUL {
				if fa, ok := x.X.(*ssa.FieldAddr); ok {
					f := fieldOfAddr(fa)
					if f == b.fLastUsed {
						if isTimeType(f.Type()) {
							out[domWall] = true
						} else {
							out[domEpoch] = true
						}
					}
					if (f == b.fExpire || f == b.fSweep) && !quotientOperands[v] {
						out[domNanos] = true
					}
				}
			}
		case *ssa.Lookup:
			if isLoadOfField(x.X, b.fStarted) {
				out[domEpoch] = true
			}
		case *ssa.Next:
			if rg, ok := x.Iter.(*ssa.Range); ok && isLoadOfField(rg.X, b.fStarted) {
				out[domEpoch] = true
			}
		}
	}
	return out
}

func isTimeType(t types.Type) bool {
	n := namedOf(t)
	return n != nil && n.Obj().Pkg() != nil && n.Obj().Pkg().Path() == "time" && n.Obj().Name() == "Time"
}

func domList(d map[clockDomain]bool) string {
	var s []string
	for k := range d {
		s = append(s, string(k))
	}
	sort.Strings(s)
	return strings.Join(s, " vs ")
}

func checkC15(c *Ctx) {
	c.explanation = "Static decision on msg's SSA and must-locksets of: (G1/N1) the append to a topic's buffer is dominated by the per-sender count test whose over-limit arm returns without appending, the counter is incremented in the same exclusive section, and the creation of topic bookkeeping for a sender is dominated by the per-sender topic-count test; (P1) every storedMessages is constructed with the Box's logger (the over-limit arm logs through it: shedding must not fail); (O1) every deletion from pendingMessages is in an exclusive section that also removes the topic from totalInFlightTopicsBySender for the senders of that entry; (E1) the last-used stamp of a buffer is written only under the same per-sender limit test as the append, so that shed traffic does not keep a topic alive; (O2/O3) a bookkeeping entry is made only together with a buffered message and every buffered message has its (sender, topic) entered on the way; (D1) no comparison mixes clock domains (epoch counter, durations in ns, wall-clock units): GCExpire/GCSweep is an epoch count, atomic loads of the counters and the stored started/last-used marks are epochs; (A1) maybeGC proceeds only when at least GCExpire/GCSweep epochs have passed since the last collection (so an idle period cannot disable it) and lastGC is only ever set to the epoch just read. Quantitative bounds under concurrency (\"give or take one\") and long histories as behaviour are not decided; the two-section check-then-act on the per-sender topic count is deliberately not armed (with one connection per sender it is the property's tolerance)."
	c.notDecided = "quantitative bounds under concurrent dispatchers of one sender; long histories as behaviour"
	c.Assume("sync.RWMutex and sync/atomic semantics; the injected ticker drives the epoch counter")
	b := buildBoxModel(c)
	if b == nil {
		return
	}
	m := b.m
	const G1, P1, O1, O2, O3, D1, A1, E1 = "C15.G1", "C15.P1", "C15.O1", "C15.O2", "C15.O3", "C15.D1", "C15.A1", "C15.E1"
	c.Rule(G1, "limits dominate appends and bookkeeping creation", 1)
	c.Rule(P1, "shedding cannot fail: buffers are built with a logger", 1)
	c.Rule(O1, "bookkeeping released with the topic", 1)
	c.Rule(O2, "bookkeeping entered only together with a buffered message", 1)
	c.Rule(O3, "every buffered message is counted for its sender", 1)
	c.Rule(D1, "no comparison mixes clock domains", 1)
	c.Rule(A1, "GC guard cannot disable collection; lastGC set to the epoch read", 1)
	fSource := m.Field(PkgTypes, "IncMessage", "Source")

	// ------------------------------------------------------------------ G1
	for _, st := range b.appendStores() {
		fn := st.Parent()
		var countLk *ssa.Lookup
		okLim := hasFact(FactsAt(st), func(f Fact) bool {
			if f.Op != token.LEQ && f.Op != token.LSS {
				return false
			}
			lk, isL := strip(f.X).(*ssa.Lookup)
			k, isK := constInt(f.Y)
			if isL && isK && k > 0 && isLoadOfField(lk.X, b.fCount) && isLoadOfField(lk.Index, fSource) {
				countLk = lk
				return true
			}
			return false
		})
		c.Check(okLim, G1, FuncName(fn), "append under the per-sender limit", m.Pos(st.Pos()), "dominated by count[msg.Source] ≤ limit; the over-limit arm does not append",
			"messages are appended without (or regardless of) the per-sender limit: one sender can make the buffer of a topic grow without bound")
		// counter incremented in the same section
		okInc := false
		for _, mu := range mapUpdatesOfField(deepFuncs(fn), b.fCount) {
			if !isLoadOfField(mu.Key, fSource) {
				continue
			}
			if bo, ok := strip(mu.Value).(*ssa.BinOp); ok && bo.Op == token.ADD {
				if k, isK := constInt(bo.Y); isK && k == 1 {
					s1, s2 := b.la.sectionOf(mu, b.smLock), b.la.sectionOf(st, b.smLock)
					if s1 != nil && s1 == s2 && b.la.Holds(mu, b.smLock, LockW) && (countLk == nil || b.la.sectionOf(countLk, b.smLock) == s1) {
						// executed on the same paths as the append
						if instrDominates(mu, st) || instrDominates(st, mu) {
							okInc = true
						}
					}
				}
			}
		}
		c.Check(okInc, G1, FuncName(fn), "counter incremented with the append", m.Pos(st.Pos()), "count[msg.Source]++ in the same exclusive section of storedMessages.lock as the test and the append",
			"the per-sender counter is not incremented together with the append (or outside the lock): the limit is never reached or is raced")
	}
	// ------------------------------------------------------------------ E1
	// only a message that is buffered keeps its topic alive: the last-used stamp of a buffer is written
	// under the same "within the per-sender limit" test as the append.  Otherwise traffic that is shed
	// still refreshes the stamp and a sender over its quota keeps a topic that never starts (and its
	// bookkeeping) from ever expiring.
	c.Rule(E1, "only buffered messages refresh the topic's last-used stamp", 1)
	withinLimit := func(at ssa.Instruction) bool {
		return hasFact(FactsAt(at), func(f Fact) bool {
			if f.Op != token.LEQ && f.Op != token.LSS {
				return false
			}
			lk, isL := strip(f.X).(*ssa.Lookup)
			k, isK := constInt(f.Y)
			return isL && isK && k > 0 && isLoadOfField(lk.X, b.fCount) && isLoadOfField(lk.Index, fSource)
		})
	}
	nStamp := 0
	if b.fLastUsed != nil {
		for _, st := range storesToField(b.fns, b.fLastUsed) {
			if _, isK := st.Val.(*ssa.Const); isK {
				continue // initialisation
			}
			nStamp++
			// the store itself, or the call that leads to it from the function holding the append
			ok := withinLimit(st)
			if !ok {
				for _, ap := range b.appendStores() {
					ctxs, _ := contextsOf(st, map[*ssa.Function]bool{ap.Parent(): true}, b.fns, 2)
					for _, sc := range ctxs {
						if len(sc.Calls) > 0 && withinLimit(sc.Calls[0].(ssa.Instruction)) {
							ok = true
						}
					}
				}
			}
			c.Check(ok, E1, FuncName(st.Parent()), "last-used stamp written only for a buffered message", m.Pos(st.Pos()),
				"the store to lastUsed is dominated by count[msg.Source] ≤ limit (the over-limit arm returns before it)",
				"the last-used stamp of the topic's buffer is refreshed regardless of the per-sender limit: traffic that is shed still keeps the topic alive, so a sender over its quota can keep the buffered data and the bookkeeping of a topic that never starts from ever expiring")
		}
	}
	if nStamp == 0 {
		c.Bad(E1, "msg", "stores to storedMessages.lastUsed", "-", "no store to the last-used stamp found: buffers would never be seen as used (or the field is gone)")
	}

	// topic bookkeeping creation
	entries := map[*ssa.Function]bool{}
	for _, fn := range b.fns {
		if fn.Object() != nil && fn.Object().Exported() {
			entries[fn] = true
		}
	}
	nTop := 0
	for _, fn := range b.fns {
		for _, in := range instrsOf(fn) {
			mu, ok := in.(*ssa.MapUpdate)
			if !ok {
				continue
			}
			// inner map of totals: totals[src][topic] = {}
			if !b.isInnerTotals(mu.Map, 0) {
				continue
			}
			nTop++
			ctxs, okc := contextsOf(mu, entries, b.fns, 4)
			if !okc || len(ctxs) == 0 {
				c.Unk(G1, FuncName(fn), "topic bookkeeping under the per-sender topic limit", m.Pos(mu.Pos()), "cannot enumerate calling contexts")
				continue
			}
			// a sender without an entry in the bookkeeping has no topic in flight: the limit holds trivially
			// on the "no entry" arm of the comma-ok lookup, so that arm is left out when asking which
			// tests every path to the insertion has passed (`if exists && len(..) > max { return }`)
			noEntry := func(blk *ssa.BasicBlock, succ int) bool {
				iff, ok := blk.Instrs[len(blk.Instrs)-1].(*ssa.If)
				if !ok {
					return false
				}
				f := factOf(Guard{iff, succ == 0})
				if f.Op != 0 || f.True {
					return false
				}
				tup, isOK := commaOK(strip(f.Bool))
				if !isOK {
					return false
				}
				lk, isL := tup.(*ssa.Lookup)
				return isL && isLoadOfField(lk.X, b.fTotals)
			}
			for _, sc := range ctxs {
				ok := hasFact(append(sc.Facts(), sc.FactsP(noEntry)...), func(f Fact) bool {
					var v ssa.Value
					switch {
					case f.Op == 0 && !f.True:
						v = f.Bool
					case f.Op == token.LEQ || f.Op == token.LSS:
						v = f.X
					default:
						return false
					}
					s := b.sl.Slice(v)
					if f.Op != 0 {
						for k := range b.sl.Slice(f.Y) {
							s[k] = true
						}
					}
					hasLen := sliceHas(s, func(x ssa.Value) bool {
						o, isLen := lenOperand(x)
						if !isLen {
							return false
						}
						ss := b.sl.Slice(o)
						return sliceHas(ss, func(y ssa.Value) bool { lk, ok := y.(*ssa.Lookup); return ok && isLoadOfField(lk.X, b.fTotals) })
					})
					return hasLen && sliceHasFieldLoad(s, b.fMax)
				})
				c.Check(ok, G1, FuncName(fn), "topic bookkeeping under the per-sender topic limit via "+ctxName(sc), m.Pos(mu.Pos()),
					"dominated by ¬(len(topics of sender) > MaxInFlightTopicsBySender)", "a sender can open bookkeeping (and buffers) for an unbounded number of topics")
			}
		}
	}
	if nTop == 0 {
		c.Bad(G1, "msg", "topic bookkeeping", "-", "no per-sender topic bookkeeping found")
	}
	// O3: the converse — every message that is buffered has its (sender, topic) entered into the bookkeeping
	// on the way (otherwise the per-sender topic limit does not count it)
	nAdd := 0
	for _, fn := range b.fns {
		for _, in := range instrsOf(fn) {
			cl, ok := in.(*ssa.Call)
			if !ok || staticCallee(&cl.Call) != b.add {
				continue
			}
			nAdd++
			tracked := false
			for _, g := range b.fns {
				for _, in2 := range instrsOf(g) {
					mu, ok := in2.(*ssa.MapUpdate)
					if !ok || !b.isInnerTotals(mu.Map, 0) {
						continue
					}
					if instrDominates(mu, cl) {
						tracked = true
					}
				}
			}
			c.Check(tracked, O3, FuncName(fn), "buffered message is counted for its sender", m.Pos(cl.Pos()),
				"totals[src][topic] = {} on every path to pendingMessages[topic].add(msg)",
				"a message is buffered without its sender being entered into the topic's bookkeeping on every path (e.g. only the sender that opens the buffer is counted): the per-sender topic limit does not apply to such a sender, which can keep messages buffered for an unbounded number of topics")
		}
	}
	if nAdd == 0 {
		c.Bad(O3, "msg", "buffering call", "-", "no call of storedMessages.add found")
	}
	// O2: a topic entered into a sender's bookkeeping is paired with a buffered message of that sender
	// (Send and sweep release bookkeeping only through the senders of the pendingMessages entry)
	for _, fn := range b.fns {
		for _, in := range instrsOf(fn) {
			mu, ok := in.(*ssa.MapUpdate)
			if !ok || !b.isInnerTotals(mu.Map, 0) {
				continue
			}
			sec := b.la.sectionOf(mu, b.boxLock)
			buffered := func(x ssa.Instruction) bool {
				cl, ok := x.(*ssa.Call)
				if !ok || staticCallee(&cl.Call) != b.add {
					return false
				}
				if sec == nil || b.la.sectionOf(cl, b.boxLock) != sec {
					return false
				}
				// receiver: the pendingMessages entry of the same topic (looked up or just created)
				rs := b.sl.Slice(cl.Call.Args[0])
				return sliceHas(rs, func(y ssa.Value) bool {
					lk, ok := y.(*ssa.Lookup)
					return ok && isLoadOfField(lk.X, b.fPending) && (sameValue(lk.Index, mu.Key) || b.sl.sameRoot(lk.Index, mu.Key))
				})
			}
			path := pathToReturnAvoiding(mu, buffered, nil)
			c.Check(path == nil, O2, FuncName(fn), "bookkeeping entry paired with a buffered message", m.Pos(mu.Pos()),
				"every path from totals[src][topic] = {} to the return passes pendingMessages[topic].add(msg) in the same exclusive section",
				"a topic is entered into the sender's bookkeeping on a path that buffers nothing for it ("+describePath(m, path)+"): Send and sweep release bookkeeping only for the senders of a pendingMessages entry, so this entry is never released and the sender's topic allowance shrinks for ever")
		}
	}

	// ------------------------------------------------------------------ P1
	nAlloc := 0
	for _, fn := range b.fns {
		for _, in := range instrsOf(fn) {
			a, ok := in.(*ssa.Alloc)
			if !ok {
				continue
			}
			if p, ok := a.Type().(*types.Pointer); !ok || !m.isNamedA(p.Elem(), PkgMsg, "storedMessages") {
				continue
			}
			nAlloc++
			v, ok := structLitFieldValue(a, b.fSMLogger)
			okL := ok && !isNilConst(v)
			if okL {
				_, f, isF := fieldLoad(strip(v))
				okL = isF && f.Name() == "Logger"
			}
			c.Check(okL, P1, FuncName(fn), "storedMessages constructed with a logger", m.Pos(a.Pos()), "logger: b.Logger",
				"the buffer's logger is never set, and the over-limit arm of add logs through it: the first message over the per-sender limit makes the node panic (nil interface) instead of being dropped")
		}
	}
	if nAlloc == 0 {
		c.Bad(P1, "msg", "storedMessages construction", "-", "no construction site found")
	}

	// ------------------------------------------------------------------ O1
	dels := mapDeletesOfField(b.fns, b.fPending)
	if len(dels) < 1 {
		c.Bad(O1, "msg", "deletions from pendingMessages", "-", "no deletion from pendingMessages found (Send and sweep must drop the buffers they are done with)")
	}
	for _, d := range dels {
		fn := d.Parent()
		key := d.Common().Args[1]
		ok := false
		// the inner deletion may sit in fn itself or in a helper fn calls (shared by Send and sweep):
		// every candidate is looked at in each calling context that starts in fn
		for _, g := range b.fns {
			for _, d2 := range mapDeletesInner(g, b.fTotals) {
				ctxs, _ := contextsOf(d2.(ssa.Instruction), map[*ssa.Function]bool{fn: true}, b.fns, 2)
				for _, sc := range ctxs {
					k2 := sc.Resolve(d2.Common().Args[1])
					// same topic key; sender ranges over senders() of pendingMessages[key]
					if !(sameValue(k2, key) || b.sl.sameRoot(k2, key)) {
						continue
					}
					s := b.sl.Slice(d2.Common().Args[0])
					viaSenders := sliceHas(s, func(v ssa.Value) bool {
						cl, ok := v.(*ssa.Call)
						if !ok {
							return false
						}
						cal := staticCallee(&cl.Call)
						if cal == nil || cal.Name() != "senders" {
							return false
						}
						// receiver is the entry of pendingMessages under the same key
						rs := b.sl.Slice(cl.Call.Args[0])
						return sliceHas(rs, func(y ssa.Value) bool {
							lk, ok := y.(*ssa.Lookup)
							if os.Getenv("TSSDEBUG") != "" && ok {
								fmt.Fprintf(os.Stderr, "C15.O1 %s: lookup %s in %s same=%v\n", FuncName(fn), m.Pos(lk.Pos()), FuncName(lk.Parent()), b.sl.sameRoot(lk.Index, key))
							}
							if !ok || !isLoadOfField(lk.X, b.fPending) || !(sameValue(lk.Index, key) || b.sl.sameRoot(lk.Index, key)) {
								return false
							}
							return lk.Parent() == fn || calledInOneSection(b, lk.Parent(), fn)
						})
					})
					// the instruction of fn that performs the inner deletion: d2 itself or the call leading to it
					at := d2.(ssa.Instruction)
					if len(sc.Calls) > 0 {
						at = sc.Calls[0].(ssa.Instruction)
					}
					sameSec := b.la.sectionOf(at, b.boxLock) != nil && b.la.sectionOf(at, b.boxLock) == b.la.sectionOf(d.(ssa.Instruction), b.boxLock)
					if !sameSec {
						// both under the lock held on entry (callee of a locked caller)
						sameSec = b.la.Holds(at, b.boxLock, LockW) && b.la.Holds(d.(ssa.Instruction), b.boxLock, LockW) && len(b.la.callers[fn]) > 0
					}
					if viaSenders && sameSec {
						ok = true
					}
				}
			}
		}
		c.Check(ok, O1, FuncName(fn), "delete(pendingMessages, topic) releases the senders' bookkeeping", m.Pos(d.Pos()),
			"for every sender of the entry: delete(totalInFlightTopicsBySender[sender], topic) in the same exclusive section",
			"the topic's buffer is deleted but the topic stays in totalInFlightTopicsBySender of its senders: finished topics accumulate and after MaxInFlightTopicsBySender of them the sender is throttled for ever although nothing of it is pending")
	}

	// ------------------------------------------------------------------ D1
	nCmp := 0
	for _, fn := range b.fns {
		for _, in := range instrsOf(fn) {
			bo, ok := in.(*ssa.BinOp)
			if !ok {
				continue
			}
			switch bo.Op {
			case token.LSS, token.LEQ, token.GTR, token.GEQ, token.EQL, token.NEQ:
			default:
				continue
			}
			dx, dy := b.domainsOf(b.sl.Slice(bo.X)), b.domainsOf(b.sl.Slice(bo.Y))
			if len(dx) == 0 || len(dy) == 0 {
				continue
			}
			nCmp++
			all := map[clockDomain]bool{}
			for k := range dx {
				all[k] = true
			}
			for k := range dy {
				all[k] = true
			}
			c.Check(len(all) == 1, D1, FuncName(fn), "clock comparison "+bo.Op.String(), m.Pos(bo.Pos()), "both sides in "+domList(all),
				"a comparison mixes clock domains ("+domList(all)+"): the condition is practically never (or always) true, so expiry does not happen (or happens at once)")
		}
	}
	if nCmp == 0 {
		c.Bad(D1, "msg", "clock comparisons", "-", "no comparison between clock values found")
	}

	ruleStartStamp(c, b, "C15.A2")
	ruleClockTicks(c, b, "C15.T1")

	// ------------------------------------------------------------------ A1
	marks, _ := b.gcEvents()
	var callMark []ssa.Instruction
	for _, e := range marks {
		if at := b.liftToGC(e); at != nil {
			callMark = append(callMark, at)
		}
	}
	okGuard := false
	whyG := "no guard on the epochs elapsed since the last collection"
	for _, cm := range callMark {
		for _, f := range FactsAt(cm) {
			if f.Op == 0 {
				continue
			}
			sx, sy := b.sl.Slice(f.X), b.sl.Slice(f.Y)
			isDiff := func(s map[ssa.Value]bool) bool {
				e, l := false, false
				for v := range s {
					if cl, ok := v.(*ssa.Call); ok && len(cl.Call.Args) > 0 {
						if fa, ok := cl.Call.Args[0].(*ssa.FieldAddr); ok {
							if fieldOfAddr(fa) == b.fEpoch {
								e = true
							}
							if fieldOfAddr(fa) == b.fLastGC {
								l = true
							}
						}
					}
				}
				return e && l
			}
			isQuot := func(s map[ssa.Value]bool) bool {
				return sliceHas(s, func(v ssa.Value) bool { bo, ok := v.(*ssa.BinOp); return ok && bo.Op == token.QUO })
			}
			op := f.Op
			if isDiff(sy) && isQuot(sx) {
				op = flipOp(op)
			} else if !(isDiff(sx) && isQuot(sy)) {
				continue
			}
			if op == token.GEQ || op == token.GTR {
				okGuard = true
			} else {
				whyG = "the collection proceeds only while FEWER than GCExpire/GCSweep epochs have passed since the last one, and lastGC only advances when it proceeds: after one idle period longer than that, it returns early for ever and nothing is collected again"
			}
		}
	}
	c.Check(okGuard, A1, FuncName(b.maybeGC), "collection proceeds when enough epochs have passed", m.Pos(b.maybeGC.Pos()), "now − lastGC ≥ GCExpire/GCSweep on the proceeding arm", whyG)
	// lastGC only set to the epoch read
	okSet := true
	nSet := 0
	for _, fn := range b.fns {
		for _, in := range instrsOf(fn) {
			ci, ok := in.(ssa.CallInstruction)
			if !ok {
				continue
			}
			o := calleeObj(ci.Common())
			if o == nil || o.Pkg() == nil || o.Pkg().Path() != "sync/atomic" {
				continue
			}
			args := ci.Common().Args
			fa, ok := args[0].(*ssa.FieldAddr)
			if !ok || fieldOfAddr(fa) != b.fLastGC {
				continue
			}
			var nv ssa.Value
			switch o.Name() {
			case "StoreUint64":
				nv = args[1]
			case "CompareAndSwapUint64":
				nv = args[2]
			default:
				continue
			}
			nSet++
			if !b.isEpochRead(nv, 0) {
				okSet = false
			}
		}
	}
	c.Check(okSet && nSet > 0, A1, FuncName(b.maybeGC), "lastGC set to the epoch just read", m.Pos(b.maybeGC.Pos()), fmt.Sprintf("%d atomic updates, all with the loaded epoch", nSet), "lastGC is set to something other than the current epoch")
}

// mapDeletesInner: delete(X[...], k) where X is field f (deletion from an inner map of a map of maps).
func mapDeletesInner(fn *ssa.Function, f *types.Var) []ssa.CallInstruction {
	var out []ssa.CallInstruction
	for _, in := range instrsOf(fn) {
		ci, ok := in.(ssa.CallInstruction)
		if !ok {
			continue
		}
		bi, ok := ci.Common().Value.(*ssa.Builtin)
		if !ok || bi.Name() != "delete" {
			continue
		}
		if lk, ok := strip(ci.Common().Args[0]).(*ssa.Lookup); ok && isLoadOfField(lk.X, f) {
			out = append(out, ci)
		}
	}
	return out
}

// isInnerTotals: v is a per-sender topic set, i.e. an element of totalInFlightTopicsBySender — looked up
// from the field, or a fresh map that this function stores into it (any mix of the two through a φ).
func (b *boxModel) isInnerTotals(v ssa.Value, depth int) bool {
	if depth > 4 {
		return false
	}
	v = strip(v)
	switch x := v.(type) {
	case *ssa.Lookup:
		return isLoadOfField(x.X, b.fTotals)
	case *ssa.Extract:
		lk, ok := x.Tuple.(*ssa.Lookup)
		return ok && x.Index == 0 && isLoadOfField(lk.X, b.fTotals)
	case *ssa.Phi:
		for _, e := range x.Edges {
			if !b.isInnerTotals(e, depth+1) {
				return false
			}
		}
		return len(x.Edges) > 0
	case *ssa.MakeMap:
		for _, in := range instrsOf(x.Parent()) {
			if mu, ok := in.(*ssa.MapUpdate); ok && isLoadOfField(mu.Map, b.fTotals) && strip(mu.Value) == ssa.Value(x) {
				return true
			}
		}
	}
	return false
}

// isEpochRead: v is the result of an atomic load of the epoch counter — directly, through a helper
// that returns such a load, or kept in a field of a local (by-value) struct built in the same function.
func (b *boxModel) isEpochRead(v ssa.Value, depth int) bool {
	if depth > 4 {
		return false
	}
	v = strip(v)
	switch x := v.(type) {
	case *ssa.Call:
		if o := calleeObj(&x.Call); o != nil && o.Pkg() != nil && o.Pkg().Path() == "sync/atomic" && o.Name() == "LoadUint64" {
			fa, ok := x.Call.Args[0].(*ssa.FieldAddr)
			return ok && fieldOfAddr(fa) == b.fEpoch
		}
		g := x.Call.StaticCallee()
		if g == nil || len(g.Blocks) == 0 || g.Signature.Results().Len() != 1 {
			return false
		}
		n := 0
		for _, in := range instrsOf(g) {
			if r, ok := in.(*ssa.Return); ok {
				n++
				if !b.isEpochRead(r.Results[0], depth+1) {
					return false
				}
			}
		}
		return n > 0
	case *ssa.UnOp:
		if x.Op != token.MUL {
			return false
		}
		fa, ok := x.X.(*ssa.FieldAddr)
		if !ok {
			return false
		}
		if fv := structFieldValue(fa.X, fieldOfAddr(fa), 0); fv != nil {
			return b.isEpochRead(fv, depth+1)
		}
	case *ssa.Field:
		if fv := structFieldValue(x.X, x.X.Type().Underlying().(*types.Struct).Field(x.Field), 0); fv != nil {
			return b.isEpochRead(fv, depth+1)
		}
	}
	return false
}

// ruleStartStamp: every mark in startedSending is stamped with the epoch counter as just read.  The
// stamp is what the collector compares with the current epoch: a mark stamped with anything older (the
// epoch of the last collection, a constant, zero) is swept by the collection at the end of the very Send
// that set it once the process has been idle for longer than the expiry — the topic then counts as not
// started, and every message that arrives after the first send is buffered and never handed over.
func ruleStartStamp(c *Ctx, b *boxModel, rule string) {
	c.Rule(rule, "the started mark is stamped with the current epoch (read atomically where it is set)", 1)
	n := 0
	for _, fn := range b.fns {
		for _, in := range instrsOf(fn) {
			mu, ok := in.(*ssa.MapUpdate)
			if !ok || !isLoadOfField(mu.Map, b.fStarted) {
				continue
			}
			n++
			c.Check(b.isEpochRead(mu.Value, 0), rule, FuncName(fn), "stamp of the started mark", b.m.Pos(mu.Pos()),
				"startedSending[topic] ← atomic load of the epoch counter",
				"the started mark is not stamped with the current epoch: after an idle period longer than the expiry the collection that runs at the end of the same Send removes the fresh mark, and messages arriving after the first send are buffered for ever instead of being handed over")
		}
	}
	if n == 0 {
		c.Bad(rule, "msg", "stamp of the started mark", "-", "no store into startedSending found")
	}
}

// ruleClockTicks (C15.T1): the ticker that drives the epoch counter stays live while the clock runs.
// The function that obtains the ticker from Box.NewTicker and starts the clock goroutine must not stop
// it itself — neither directly nor by a `defer ticker.Stop()`, which runs when that function returns,
// right after the goroutine was started: the ticker then never ticks, the epoch stays 0, `now − lastGC`
// is always 0 and nothing buffered is ever collected (senders stay throttled by topics that should have
// expired).  Stopping belongs to the stop function handed out (Box.stopClock) or to the clock goroutine.
func ruleClockTicks(c *Ctx, b *boxModel, rule string) {
	c.Rule(rule, "the epoch ticker is not stopped by the function that starts the clock", 1)
	fNew := b.m.Field(PkgMsg, "Box", "NewTicker")
	if fNew == nil {
		c.Unk(rule, "msg", "ticker construction", "-", "Box.NewTicker not found")
		return
	}
	sl := NewSlicer(b.m, PkgMsg)
	n := 0
	for _, mk := range callsOfFuncField(b.fns, fNew) {
		mkv, ok := mk.(*ssa.Call)
		if !ok {
			continue
		}
		n++
		starter := mk.Parent()
		bad := ""
		for _, fn := range b.fns {
			// code that runs as part of the starter's own invocation: the starter and its transparent steps
			if fn != starter && !inlinedInto(fn, starter) {
				continue
			}
			for _, in := range instrsOf(fn) {
				ci, ok := in.(ssa.CallInstruction)
				if !ok {
					continue
				}
				if _, isGo := in.(*ssa.Go); isGo {
					continue
				}
				cal := staticCallee(ci.Common())
				if cal == nil || cal.Name() != "Stop" || cal.Signature.Recv() == nil || !isNamed(cal.Signature.Recv().Type(), "time", "Ticker") {
					continue
				}
				if len(ci.Common().Args) == 0 {
					continue
				}
				recv := ci.Common().Args[0]
				if strip(recv) == ssa.Value(mkv) || sl.sameRoot(recv, mkv) || sl.Slice(recv)[mkv] {
					bad = b.m.Pos(in.Pos())
				}
			}
		}
		c.Check(bad == "", rule, FuncName(starter), "ticker stays live after the clock is started", b.m.Pos(mk.Pos()),
			"no Stop of the ticker in the starting function (it is stopped by the stop function / the clock goroutine)",
			"the function that starts the clock stops the ticker itself (at "+bad+"; a deferred Stop runs when it returns, right after the goroutine was spawned): the epoch never advances, garbage collection never runs, and buffered data and per-sender bookkeeping of topics that never start are kept for ever")
	}
	if n == 0 {
		c.Bad(rule, "msg", "ticker construction", "-", "no call of Box.NewTicker found: nothing drives the epoch")
	}
}

// calledInOneSection: some function of the package calls both f and g (plain calls) inside one exclusive
// section of Box.lock — a step of f and a step of g then belong to the same critical section (the look-up
// of the buffer in one helper of Send, its release in the next).
func calledInOneSection(b *boxModel, f, g *ssa.Function) bool {
	for _, h := range b.fns {
		var cf, cg []ssa.Instruction
		for _, in := range instrsOf(h) {
			cl, ok := in.(*ssa.Call)
			if !ok {
				continue
			}
			switch staticCallee(&cl.Call) {
			case f:
				cf = append(cf, in)
			case g:
				cg = append(cg, in)
			}
		}
		for _, x := range cf {
			for _, y := range cg {
				sx, sy := b.la.sectionOf(x, b.boxLock), b.la.sectionOf(y, b.boxLock)
				if sx != nil && sx == sy && b.la.Holds(x, b.boxLock, LockW) && b.la.Holds(y, b.boxLock, LockW) {
					return true
				}
			}
		}
	}
	return false
}
