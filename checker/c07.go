package main

// C07 — membership synchronisation: structural conditions.

import (
	"fmt"
	"go/token"
	"go/types"
	"sort"

	"golang.org/x/tools/go/ssa"
)

func init() { register("C07", checkC07) }

// loadOK: v is result #1 (ok/loaded) of a call to (*sync.Map).<method> on field f.
func syncMapOK(v ssa.Value, method string, f *types.Var) (*ssa.Call, bool) {
	e, ok := strip(v).(*ssa.Extract)
	if !ok || e.Index != 1 {
		return nil, false
	}
	cl, ok := e.Tuple.(*ssa.Call)
	if !ok || !isCallTo(&cl.Call, "sync", "Map."+method) {
		return nil, false
	}
	if f != nil {
		recv := cl.Call.Args[0]
		if fa, ok := recv.(*ssa.FieldAddr); ok {
			if fieldOfAddr(fa) != f {
				return nil, false
			}
		} else if !isLoadOfField(recv, f) {
			return nil, false
		}
	}
	return cl, true
}

func checkC07(c *Ctx) {
	c.explanation = "Static decision on disc's SSA of: (O1) for both Synchronizer implementations every path returning nil contains exactly one call of the continuation immediately before the return and no path returning an error calls it; (G1) every handler call in Member.HandleMessage is dominated by: tag found, tag owner == authenticated sender, topic view found; (G2/N1) the continuation call is dominated by len(members) ≥ expected, ¬(len(members) > expected) and confirmations-left ≤ 0, the confirmation counter starts at expected−1 and is decremented only on the arm where the rendered peer list equals the rendered own list, intersectedView returns a non-nil list only on the single-view arm and records every announced view and the own view; (G3) one confirmation per peer (LoadOrStore not-loaded arm dominates the channel send); (O2) the continuation's argument went through the sort after its last assignment; (V1) tags are stored for every configured member except the own id, keyed by PRF(topic)(id) with the same id in the value. Agreement under lying members / arbitrary interleavings and completion before the deadline are not decided."
	c.notDecided = "agreement under lying members and arbitrary interleavings; completion before the deadline"
	c.Assume("sync.Map LoadOrStore/Load/Store semantics; HMAC-SHA256 as a PRF")
	m := c.Mod(ModRoot)
	if m == nil {
		return
	}
	const O1, G1, G2, G3, O2, V1 = "C07.O1", "C07.G1", "C07.G2", "C07.G3", "C07.O2", "C07.V1"
	c.Rule(O1, "continuation iff success (both synchroniser implementations)", 2)
	c.Rule(G1, "handler calls dominated by tag found ∧ owner == sender ∧ view found", 1)
	c.Rule(G2, "view/ack counting guards", 2)
	c.Rule(G3, "one confirmation per peer", 1)
	c.Rule(O2, "continuation argument sorted after its last assignment", 1)
	c.Rule(V1, "tags stored for every configured member except self, keyed by PRF(topic)(id)", 1)
	for _, f := range m.PkgFuncs(PkgDisc) {
		c.Analysed(FuncName(f))
	}
	sl := NewSlicer(m, PkgDisc)

	// ------------------------------------------------------------------ O1
	for _, impl := range []string{"Member", "SilentSynchronizer"} {
		fn := c.mustFunc(m, PkgDisc, impl, "Synchronize")
		if fn == nil {
			continue
		}
		cont := strip(fn.Params[2])
		var contCalls []*ssa.Call
		for _, in := range instrsOf(fn) {
			if cl, ok := in.(*ssa.Call); ok && strip(cl.Call.Value) == cont {
				contCalls = append(contCalls, cl)
			}
			// the continuation must not escape into closures / goroutines
			if mc, ok := in.(*ssa.MakeClosure); ok {
				for _, b := range mc.Bindings {
					if strip(b) == cont {
						c.Bad(O1, FuncName(fn), "continuation escapes into a closure", m.Pos(mc.Pos()), "the continuation is captured by a closure: whether and when it runs is no longer tied to Synchronize's return value")
					}
				}
			}
			if g, ok := in.(*ssa.Go); ok && strip(g.Call.Value) == cont {
				c.Bad(O1, FuncName(fn), "continuation started as goroutine", m.Pos(g.Pos()), "the continuation runs asynchronously: Synchronize can return before it completed")
			}
		}
		nNil := 0
		for _, in := range instrsOf(fn) {
			r, ok := in.(*ssa.Return)
			if !ok {
				continue
			}
			rv := retResult(r, 0)
			pos := m.Pos(r.Pos())
			if isNilConst(rv) {
				nNil++
				// exactly one continuation call dominates, in the same block, with nothing but bookkeeping after it
				var dom []*ssa.Call
				for _, cc := range contCalls {
					if instrDominates(cc, r) {
						dom = append(dom, cc)
					}
				}
				ok := len(dom) == 1 && dom[0].Block() == r.Block()
				if ok {
					for k := instrIndex(dom[0]) + 1; k < instrIndex(r); k++ {
						switch x := r.Block().Instrs[k].(type) {
						case *ssa.Store, *ssa.RunDefers, *ssa.UnOp:
							_ = x
						default:
							ok = false
						}
					}
				}
				// no second call reachable between
				for _, cc := range contCalls {
					if ok && cc != dom[0] && blockReaches(cc.Block(), r.Block(), nil) {
						ok = false
					}
				}
				c.Check(ok, O1, FuncName(fn), fmt.Sprintf("nil return #%d runs the continuation exactly once, last", nNil), pos, "f(...) immediately precedes the return",
					"Synchronize can return nil without having run its continuation to completion exactly once (the orchestrator's ordering and cleanup rely on: nil ⇔ continuation ran)")
			} else {
				ok := true
				for _, cc := range contCalls {
					if cc.Block() == r.Block() && instrIndex(cc) < instrIndex(r) || cc.Block() != r.Block() && blockReaches(cc.Block(), r.Block(), nil) {
						ok = false
					}
				}
				c.Check(ok, O1, FuncName(fn), "error return does not run the continuation", pos, "no continuation call on any path to this return", "Synchronize returns an error although its continuation ran")
			}
		}
		if nNil == 0 {
			c.Bad(O1, FuncName(fn), "nil return", "-", "Synchronize never returns nil")
		}
	}

	// ------------------------------------------------------------------ G1
	hm := c.mustFunc(m, PkgDisc, "Member", "HandleMessage")
	fTags := c.mustField(m, PkgDisc, "Member", "tagsToIDsAndTopics")
	fViews := c.mustField(m, PkgDisc, "Member", "topicsToMemberViews")
	fID := c.mustField(m, PkgDisc, "topicAndID", "id")
	fSelf := c.mustField(m, PkgDisc, "Member", "ID")
	fMembership := c.mustField(m, PkgDisc, "Member", "Membership")
	if hm == nil || len(c.fatal) > 0 {
		return
	}
	decoderFn := m.Func(PkgDisc, "", "decodeTagAndMembershipList")
	from := strip(hm.Params[1])
	fSendM := m.Field(PkgDisc, "Member", "Send")
	// The effects a synchroniser message may have — recording the sender's view, counting its response,
	// answering its query — are found by what they do, wherever they sit (in HandleMessage itself or in
	// handler functions it calls, however these are named), and each is looked at in every calling
	// context from HandleMessage.
	region := map[*ssa.Function]bool{}
	var grow func(f *ssa.Function, d int)
	grow = func(f *ssa.Function, d int) {
		if f == nil || region[f] || f.Blocks == nil || pkgPathOf(f) != PkgDisc || d > 3 {
			return
		}
		region[f] = true
		for _, in := range instrsOf(f) {
			if ci, ok := in.(ssa.CallInstruction); ok {
				grow(staticCallee(ci.Common()), d+1)
			}
		}
	}
	grow(hm, 0)
	var regionFns []*ssa.Function
	for f := range region {
		regionFns = append(regionFns, f)
	}
	sort.Slice(regionFns, func(i, j int) bool { return regionFns[i].String() < regionFns[j].String() })
	kinds := map[string]bool{}
	nH := 0
	for _, fn := range regionFns {
		for _, in := range instrsOf(fn) {
			cl, ok := in.(*ssa.Call)
			if !ok {
				continue
			}
			kind := ""
			var passed []ssa.Value
			switch {
			case isCallTo(&cl.Call, "sync", "Map.Store") && len(cl.Call.Args) == 3:
				if fa, isFA := cl.Call.Args[0].(*ssa.FieldAddr); isFA && (fieldOfAddr(fa) == fTags || fieldOfAddr(fa) == fViews) {
					continue // the member's own tables (filled by Synchronize's preparation, not by messages)
				}
				kind, passed = "view recorded", []ssa.Value{cl.Call.Args[1]}
			case isCallTo(&cl.Call, "sync", "Map.LoadOrStore") && len(cl.Call.Args) == 3:
				kind, passed = "response counted", []ssa.Value{cl.Call.Args[1]}
			case fSendM != nil && callsFuncField(&cl.Call, fSendM):
				kind, passed = "query answered", cl.Call.Args
			default:
				continue
			}
			ctxs, okc := contextsOf(cl, map[*ssa.Function]bool{hm: true}, regionFns, 4)
			if !okc || len(ctxs) == 0 {
				continue // not on a path from HandleMessage
			}
			kinds[kind] = true
			for _, sc := range ctxs {
				nH++
				facts := sc.Facts()
				var tagLoad *ssa.Call
				okTag := boolFact(facts, true, func(v ssa.Value) bool {
					l, ok := syncMapOK(v, "Load", fTags)
					if ok {
						tagLoad = l
					}
					return ok
				})
				okOwner := hasFact(facts, func(f Fact) bool {
					if f.Op != token.EQL {
						return false
					}
					for _, pr := range [][2]ssa.Value{{f.X, f.Y}, {f.Y, f.X}} {
						if strip(sc.Resolve(pr[1])) != from {
							continue
						}
						_, fld, isF := fieldLoad(strip(pr[0]))
						if isF && fld == fID {
							// the value comes from the tag table entry
							s := sl.Slice(pr[0])
							if tagLoad != nil && s[tagLoad] {
								return true
							}
						}
					}
					return false
				})
				okView := boolFact(facts, true, func(v ssa.Value) bool { _, ok := syncMapOK(v, "Load", fViews); return ok })
				// tag key is what the decoder produced from this message
				okKey := false
				if tagLoad != nil {
					s := sl.Slice(tagLoad.Call.Args[1])
					okKey = sliceHas(s, func(v ssa.Value) bool {
						c2, ok := v.(*ssa.Call)
						return ok && staticCallee(&c2.Call) != nil && decoderFn != nil && staticCallee(&c2.Call) == decoderFn && strip(c2.Call.Args[0]) == strip(hm.Params[2])
					})
				}
				// the sender the effect is attributed to is the authenticated one
				okFrom := false
				for _, a0 := range passed {
					a := sc.Resolve(a0)
					if strip(a) == from {
						okFrom = true
					}
					// or a value proven equal to the authenticated sender on this path
					if intWidth(a.Type()) == 16 && hasFact(facts, func(f Fact) bool {
						return f.Op == token.EQL && ((sameValue(f.X, a) && strip(f.Y) == from) || (sameValue(f.Y, a) && strip(f.X) == from))
					}) {
						okFrom = true
					}
				}
				c.Check(okTag && okOwner && okView && okKey && okFrom, G1, FuncName(hm), kind+" via "+ctxName(sc), m.Pos(cl.Pos()),
					"tag(msg) found ∧ entry.id == from ∧ topic view found; attributed to the authenticated from",
					fmt.Sprintf("a synchroniser message is processed without establishing that its tag belongs to the authenticated sender (tag-found=%v owner==from=%v view-found=%v tag-from-msg=%v passes-from=%v): a member can answer for others", okTag, okOwner, okView, okKey, okFrom))
			}
		}
	}
	if len(kinds) < 3 {
		c.Bad(G1, FuncName(hm), "message effects", "-", fmt.Sprintf("only %d of the three effects of a synchroniser message (view recorded, response counted, query answered) are reachable from Member.HandleMessage", len(kinds)))
	}

	// ------------------------------------------------------------------ G2 / N1 / O2
	syn := m.Func(PkgDisc, "Member", "Synchronize")
	iv := c.mustFunc(m, PkgDisc, "Member", "intersectedView")
	if syn != nil && iv != nil {
		expected := strip(syn.Params[4])
		cont := strip(syn.Params[2])
		for _, in := range instrsOf(syn) {
			cl, ok := in.(*ssa.Call)
			if !ok || strip(cl.Call.Value) != cont {
				continue
			}
			arg := resultOf(cl.Call.Args[0]) // also the list a collecting helper returns on success
			facts := FactsAt(cl)
			isLenArg := func(v ssa.Value) bool {
				x, isLen := lenOperand(strip(v))
				return isLen && (strip(x) == arg || resultOf(strip(x)) == arg)
			}
			okGE := hasFact(facts, func(f Fact) bool {
				return (f.Op == token.GEQ && isLenArg(f.X) && strip(f.Y) == expected) || (f.Op == token.LEQ && isLenArg(f.Y) && strip(f.X) == expected) ||
					(f.Op == token.EQL && ((isLenArg(f.X) && strip(f.Y) == expected) || (isLenArg(f.Y) && strip(f.X) == expected)))
			})
			okLE := hasFact(facts, func(f Fact) bool {
				return (f.Op == token.LEQ && isLenArg(f.X) && strip(f.Y) == expected) || (f.Op == token.GEQ && isLenArg(f.Y) && strip(f.X) == expected) ||
					(f.Op == token.EQL && ((isLenArg(f.X) && strip(f.Y) == expected) || (isLenArg(f.Y) && strip(f.X) == expected)))
			})
			c.Check(okGE && okLE, G2, FuncName(syn), "continuation under exact size", m.Pos(cl.Pos()), "len(members) ≥ expected ∧ ¬(len(members) > expected)",
				fmt.Sprintf("the continuation can run with a member list whose size is not exactly the expected count (≥: %v, ≤: %v)", okGE, okLE))
			// members come from intersectedView
			// (assigned before the loop and at its end: a φ whose every incoming value is such a call)
			var fromIV func(v ssa.Value, d int) bool
			fromIV = func(v ssa.Value, d int) bool {
				v = strip(v)
				if c2, ok := v.(*ssa.Call); ok && staticCallee(&c2.Call) == iv {
					return true
				}
				if p, ok := v.(*ssa.Phi); ok && d < 3 {
					n := 0
					for _, e := range p.Edges {
						if e == ssa.Value(p) {
							continue
						}
						if !fromIV(e, d+1) {
							return false
						}
						n++
					}
					return n > 0
				}
				return false
			}
			argFromIV := fromIV(arg, 0)
			c.Check(argFromIV, G2, FuncName(syn), "continuation argument is the intersected view", m.Pos(cl.Pos()), "members ← intersectedView(...)", "the list handed to the continuation is not the agreed (intersected) view")
			// confirmations
			// the confirmation counter: counting down from expected−1 to ≤ 0, or up from 0 to ≥ expected−1
			var ackPhi *ssa.Phi
			up := false
			isExpMinus1 := func(v ssa.Value) bool {
				l := linOf(v)
				if l.K != -1 || len(l.Terms) != 1 {
					return false
				}
				for tname, coef := range l.Terms {
					if coef == 1 && tname == termKey(expected) {
						return true
					}
				}
				return false
			}
			okAck := hasFact(facts, func(f Fact) bool {
				if p, isPhi := strip(f.X).(*ssa.Phi); isPhi {
					if f.Op == token.LEQ && isZero(f.Y) {
						ackPhi, up = p, false
						return true
					}
					if f.Op == token.GEQ && isExpMinus1(f.Y) {
						ackPhi, up = p, true
						return true
					}
				}
				if p, isPhi := strip(f.Y).(*ssa.Phi); isPhi {
					if f.Op == token.GEQ && isZero(f.X) {
						ackPhi, up = p, false
						return true
					}
					if f.Op == token.LEQ && isExpMinus1(f.X) {
						ackPhi, up = p, true
						return true
					}
				}
				return false
			})
			okInit, okDec := false, false
			if ackPhi != nil {
				okDec = true
				nDec := 0
				stepOp := token.SUB
				if up {
					stepOp = token.ADD
				}
				for _, e := range ackPhi.Edges {
					if e == ssa.Value(ackPhi) {
						continue
					}
					if b, isB := e.(*ssa.BinOp); isB && b.Op == stepOp && b.X == ssa.Value(ackPhi) {
						nDec++
						k, _ := constInt(b.Y)
						// the step is guarded by equality of the rendered lists, one of which renders the continuation's argument
						g := hasFact(FactsAt(b), func(f Fact) bool {
							if f.Op != token.EQL || !isString(f.X.Type()) {
								return false
							}
							sx, sy := sl.Slice(f.X), sl.Slice(f.Y)
							mine := sx[arg] || sy[arg]
							recv := sliceHas(sx, isSelect) || sliceHas(sy, isSelect)
							return mine && recv
						})
						if !g {
							// the comparison as a predicate made by a closure factory
							// (`agreesWithUs := sameViewAs(members)` … `if agreesWithUs(peers)`): the literal returns
							// the equality of two rendered lists, one from what it captured (the own list), the
							// other from its argument (the received one)
							g = hasFact(FactsAt(b), func(f Fact) bool {
								if f.Op != 0 || !f.True {
									return false
								}
								pc, isC := f.Bool.(*ssa.Call)
								if !isC || pc.Call.IsInvoke() || pc.Call.StaticCallee() != nil {
									return false
								}
								mc, _ := closureLiteral(pc.Call.Value)
								if mc == nil {
									return false
								}
								lit := mc.Fn.(*ssa.Function)
								var eq *ssa.BinOp
								nRet := 0
								for _, li := range instrsOf(lit) {
									if r, isR := li.(*ssa.Return); isR && len(r.Results) == 1 {
										nRet++
										eq, _ = r.Results[0].(*ssa.BinOp)
									}
								}
								if nRet != 1 || eq == nil || eq.Op != token.EQL || !isString(eq.X.Type()) {
									return false
								}
								sx, sy := sl.Slice(eq.X), sl.Slice(eq.Y)
								mine := sx[arg] || sy[arg]
								usesParam := false
								for _, lp := range lit.Params {
									if sx[lp] || sy[lp] {
										usesParam = true
									}
								}
								recv := false
								for _, a := range pc.Call.Args {
									if sliceHas(sl.Slice(a), isSelect) {
										recv = true
									}
								}
								return mine && usesParam && recv
							})
						}
						if k != 1 || !g {
							okDec = false
						}
						continue
					}
					// init edge: expected − 1 (counting down) or 0 (counting up)
					if (!up && isExpMinus1(e)) || (up && isZero(e)) {
						okInit = true
					}
				}
				okDec = okDec && nDec >= 1
			}
			c.Check(okAck && okInit && okDec, G2, FuncName(syn), "confirmation counting", m.Pos(cl.Pos()), "starts at expected−1, decremented by 1 only when the peer's rendered list equals the own one, continuation only at ≤ 0",
				fmt.Sprintf("the continuation can run without expected−1 confirmations of the identical list (loop-exit=%v init=%v decrement-guard=%v)", okAck, okInit, okDec))
			// O2: sorted after last assignment
			okSort := false
			for _, in2 := range instrsDeep(syn) {
				c2, ok := in2.(*ssa.Call)
				if !ok {
					continue
				}
				cal := staticCallee(&c2.Call)
				if cal == nil {
					continue
				}
				// (the sort may sit in the collecting helper, before its successful return)
				if (cal.Name() == "sortIntSlice" || isSortHelper(cal) || isCallTo(&c2.Call, "sort", "Sort")) && len(c2.Call.Args) == 1 && (strip(c2.Call.Args[0]) == arg || resultOf(c2.Call.Args[0]) == arg) && instrDominatesDeep(c2, cl) {
					okSort = true
				}
			}
			c.Check(okSort, O2, FuncName(syn), "continuation argument sorted", m.Pos(cl.Pos()), "sortIntSlice(members) dominates f(members) on the same slice value", "the list handed to the continuation is not sorted after its last assignment (parties would initialise their backends with differently ordered lists)")
		}
		// intersectedView
		nonNilRet := 0
		for _, in := range instrsOf(iv) {
			r, ok := in.(*ssa.Return)
			if !ok || isNilConst(retResult(r, 0)) {
				continue
			}
			nonNilRet++
			ok1 := hasFact(FactsAt(r), func(f Fact) bool {
				x, isLen := lenOperand(strip(f.X))
				k, isK := constInt(f.Y)
				return f.Op == token.EQL && isLen && isK && k == 1 && isNamed(x.Type(), PkgDisc, "views")
			})
			c.Check(ok1, G2, FuncName(iv), "non-nil view only when all views coincide", m.Pos(r.Pos()), "len(views) == 1 on the permitting arm", "a member list is returned although peers announced differing views")
		}
		if nonNilRet == 0 {
			c.Bad(G2, FuncName(iv), "non-nil return", "-", "intersectedView never returns a list")
		}
		// every announced view and the own view are recorded unconditionally
		viewsT := m.LookupType(PkgDisc, "views")
		// the functions run for every announced view: what intersectedView passes to sync.Map.Range — a
		// literal or a method value
		ivFns := WithAnon(iv)
		isCallback := map[*ssa.Function]bool{}
		for _, in := range instrsDeep(iv) {
			cl, ok := in.(*ssa.Call)
			if !ok || !isCallTo(&cl.Call, "sync", "Map.Range") || len(cl.Call.Args) != 2 {
				continue
			}
			if mc, ok := resultOf(cl.Call.Args[1]).(*ssa.MakeClosure); ok {
				if f, ok := mc.Fn.(*ssa.Function); ok {
					if _, mo, isB := boundMethod(mc); isB {
						if g := m.Prog.FuncValue(mo); g != nil && g.Blocks != nil && pkgPathOf(g) == PkgDisc {
							isCallback[g] = true
							ivFns = append(ivFns, WithAnon(g)...)
						}
					} else {
						isCallback[f] = true
					}
				}
			}
		}
		var ups []*ssa.MapUpdate
		if viewsT != nil {
			ups = mapUpdatesOfType(ivFns, viewsT)
		}
		inRange, own := false, false
		for _, mu := range ups {
			if len(GuardsLocal(mu)) != 0 {
				continue
			}
			if isCallback[mu.Parent()] {
				inRange = true
			} else if mu.Parent() == iv || rootOfHelper(mu.Parent()) == iv {
				own = true
			}
		}
		// a recording step shared by the callback and the function itself (`collector.add(view)`):
		// reached by unconditional static calls
		var reaches func(from *ssa.Function, d int) bool
		reaches = func(from *ssa.Function, d int) bool {
			if d > 3 || from == nil {
				return false
			}
			for _, in := range instrsOf(from) {
				switch x := in.(type) {
				case *ssa.MapUpdate:
					if viewsT != nil && len(GuardsLocal(x)) == 0 {
						for _, mu := range mapUpdatesOfType([]*ssa.Function{from}, viewsT) {
							if mu == x {
								return true
							}
						}
					}
				case *ssa.Call:
					if g := x.Call.StaticCallee(); g != nil && g.Blocks != nil && pkgPathOf(g) == PkgDisc && g != from && len(GuardsLocal(x)) == 0 {
						if reaches(g, d+1) {
							return true
						}
					}
				}
			}
			return false
		}
		if !inRange {
			for g := range isCallback {
				if reaches(g, 0) {
					inRange = true
				}
			}
		}
		if !own {
			own = reaches(iv, 0)
		}
		c.Check(inRange && own, G2, FuncName(iv), "every announced view and the own view recorded", m.Pos(iv.Pos()), "unconditional inserts in the Range callback and for the own view", "some view does not take part in the comparison")
	}

	// ------------------------------------------------------------------ G3
	// every blocking channel send reachable from HandleMessage (the confirmation handed to Synchronize),
	// wherever it sits and whatever its function is called
	{
		n := 0
		for _, fn := range regionFns {
			for _, in := range instrsOf(fn) {
				snd, ok := in.(*ssa.Send)
				if !ok {
					continue
				}
				ctxs, okc := contextsOf(snd, map[*ssa.Function]bool{hm: true}, regionFns, 4)
				if !okc {
					continue
				}
				for _, sc := range ctxs {
					n++
					okG := boolFact(sc.Facts(), false, func(v ssa.Value) bool {
						cl, ok := syncMapOK(v, "LoadOrStore", nil)
						return ok && strip(sc.Resolve(cl.Call.Args[1])) == from
					})
					c.Check(okG, G3, FuncName(fn), "confirmation forwarded once per peer", m.Pos(snd.Pos()), "not-loaded arm of responsesReceived.LoadOrStore(from)", "a peer's repeated responses are counted more than once (one member can supply all confirmations) or block the dispatcher on the bounded channel")
				}
			}
		}
		if n == 0 {
			c.Bad(G3, FuncName(hm), "confirmation forwarded", "-", "responses are never forwarded")
		}
	}

	// ------------------------------------------------------------------ V1
	pre := c.mustFunc(m, PkgDisc, "Member", "precomputeTagsForTopic")
	if pre != nil {
		n := 0
		for _, in := range instrsOf(pre) {
			cl, ok := in.(*ssa.Call)
			if !ok || !isCallTo(&cl.Call, "sync", "Map.Store") {
				continue
			}
			n++
			// loop variable: element of m.Membership
			keyS := sl.Slice(cl.Call.Args[1])
			var ids []ssa.Value
			for v := range keyS {
				if ld, ok := v.(*ssa.UnOp); ok && ld.Op == token.MUL {
					if ia, ok := ld.X.(*ssa.IndexAddr); ok && isLoadOfField(ia.X, fMembership) {
						ids = append(ids, v)
					}
				}
			}
			viaPRF := sliceHas(keyS, func(v ssa.Value) bool { return isPRFValue(m, v) })
			valID := structFieldValue(cl.Call.Args[2], fID, 0)
			okSame := len(ids) == 1 && valID != nil && strip(valID) == ids[0]
			// only skip: id == m.ID
			okSkip := true
			for _, g := range GuardsLocal(cl) {
				f := factOf(g)
				if f.Op == token.NEQ && ((len(ids) == 1 && strip(f.X) == ids[0] && isLoadOfField(f.Y, fSelf)) || (len(ids) == 1 && strip(f.Y) == ids[0] && isLoadOfField(f.X, fSelf))) {
					continue
				}
				if f.Op == token.LSS || f.Op == token.GEQ || f.Op == token.GTR || f.Op == token.LEQ {
					_, lx := lenOperand(strip(f.X))
					_, ly := lenOperand(strip(f.Y))
					if lx || ly {
						continue // loop bound
					}
				}
				okSkip = false
			}
			c.Check(viaPRF && okSame && okSkip, V1, FuncName(pre), "tag table entry", m.Pos(cl.Pos()), "Store(PRF(topic)(id), {topic, id}) for every configured id ≠ own id",
				"the tag table does not map PRF(topic)(id) to that very id for every configured member: messages are attributed to the wrong member or dropped")
		}
		if n == 0 {
			c.Bad(V1, FuncName(pre), "tag table entry", "-", "no tag is stored")
		}
	}
	checkC07Wiring(c)
	my := c.mustFunc(m, PkgDisc, "Member", "computeMyTag")
	if my != nil {
		ok := false
		for _, in := range instrsOf(my) {
			// PRF(topic)(m.ID) as a closure call, or as a method of a PRF object: prf.tagOf(m.ID)
			if cl, isC := in.(*ssa.Call); isC && !cl.Call.IsInvoke() && len(cl.Call.Args) >= 1 && isLoadOfField(cl.Call.Args[len(cl.Call.Args)-1], fSelf) {
				s := sl.Slice(cl.Call.Value)
				if staticCallee(&cl.Call) != nil {
					s = sl.Slice(cl)
				}
				if sliceHas(s, func(v ssa.Value) bool { return isPRFValue(m, v) }) {
					ok = true
				}
			}
		}
		c.Check(ok, V1, FuncName(my), "own tag", m.Pos(my.Pos()), "PRF(topic)(m.ID)", "the own tag is not the PRF of the own id: peers cannot attribute this member's messages")
	}
}

func checkC07Wiring(c *Ctx) {
	t := buildThresholdModel(c)
	if t == nil {
		return
	}
	c.Rule("C07.W1", "LoudScheme builds the synchroniser over the member list and callbacks it is given", 1)
	ruleConstructorWiring(c, t, "", "C07.W1")
}

func isSelect(v ssa.Value) bool { _, ok := v.(*ssa.Select); return ok }

// discPRFEvals: the functions of package disc that evaluate the tag PRF, found by what they do — they take
// a 16-bit identifier, write bytes made from it into a hash (an interface `Write` with a byte-slice
// literal) and return that hash's `Sum`: the literal inside makePRF, or a method of a PRF object.
var discPRFCache = map[*Module]map[*ssa.Function]bool{}

func discPRFEvals(m *Module) map[*ssa.Function]bool {
	if r, ok := discPRFCache[m]; ok {
		return r
	}
	out := map[*ssa.Function]bool{}
	for _, fn := range m.PkgFuncs(PkgDisc) {
		has16 := false
		for _, p := range fn.Params {
			if intWidth(p.Type()) == 16 {
				has16 = true
			}
		}
		if !has16 {
			continue
		}
		writes, sums := false, false
		for _, in := range instrsOf(fn) {
			cl, ok := in.(*ssa.Call)
			if !ok || !cl.Call.IsInvoke() {
				continue
			}
			switch cl.Call.Method.Name() {
			case "Write":
				if sl, ok := strip(cl.Call.Args[0]).(*ssa.Slice); ok {
					if _, isArr := sl.X.(*ssa.Alloc); isArr {
						writes = true
					}
				}
			case "Sum":
				sums = true
			}
		}
		if writes && sums {
			out[fn] = true
		}
	}
	discPRFCache[m] = out
	return out
}

// isPRFValue: v is produced by the tag PRF: a call of makePRF (the reference form), a call of a PRF
// evaluation function, or the Sum computed inside one.
func isPRFValue(m *Module, v ssa.Value) bool {
	cl, ok := v.(*ssa.Call)
	if !ok {
		return false
	}
	if g := staticCallee(&cl.Call); g != nil && (g.Name() == "makePRF" || discPRFEvals(m)[g]) {
		return true
	}
	return cl.Call.IsInvoke() && cl.Call.Method.Name() == "Sum" && discPRFEvals(m)[cl.Parent()]
}
