package main

// C16 — transport attribution: the seven guards and the provenance of key,
// digest, signature, lookup key and returned identity.

import (
	"go/token"
	"go/types"
	"sort"

	"golang.org/x/tools/go/ssa"
)

func init() { register("C16", checkC16) }

// variadicElems: elements of a variadic argument built in place (slice of a local array).
func variadicElems(v ssa.Value) []ssa.Value {
	sl, ok := strip(v).(*ssa.Slice)
	if !ok {
		return nil
	}
	a, ok := sl.X.(*ssa.Alloc)
	if !ok || a.Referrers() == nil {
		return nil
	}
	type kv struct {
		i int64
		v ssa.Value
	}
	var out []kv
	for _, r := range *a.Referrers() {
		ia, ok := r.(*ssa.IndexAddr)
		if !ok {
			continue
		}
		idx, ok := constInt(ia.Index)
		if !ok || ia.Referrers() == nil {
			return nil
		}
		for _, q := range *ia.Referrers() {
			if st, ok := q.(*ssa.Store); ok && st.Addr == ia {
				out = append(out, kv{idx, st.Val})
			}
		}
	}
	sort.Slice(out, func(i, j int) bool { return out[i].i < out[j].i })
	var vs []ssa.Value
	for _, e := range out {
		vs = append(vs, e.v)
	}
	return vs
}

func callsInFn(fn *ssa.Function, pkg, name string) []*ssa.Call {
	var out []*ssa.Call
	for _, in := range instrsOf(fn) {
		if c, ok := in.(*ssa.Call); ok && isCallTo(&c.Call, pkg, name) {
			out = append(out, c)
		}
	}
	return out
}

// isSHA256Variadic: fn(b ...[]byte) hashes every element of b with SHA-256.
func isSHA256Variadic(fn *ssa.Function) bool {
	if fn == nil || len(fn.Params) != 1 {
		return false
	}
	if len(callsInFn(fn, "crypto/sha256", "New")) != 1 {
		return false
	}
	wrote, sum := false, false
	for _, in := range instrsOf(fn) {
		c, ok := in.(*ssa.Call)
		if !ok || !c.Call.IsInvoke() {
			continue
		}
		if c.Call.Method.Name() == "Write" && len(c.Call.Args) == 1 {
			// argument is an element of the parameter slice inside a loop over it
			if ld, ok := strip(c.Call.Args[0]).(*ssa.UnOp); ok && ld.Op == token.MUL {
				if ia, ok := ld.X.(*ssa.IndexAddr); ok && strip(ia.X) == strip(fn.Params[0]) {
					wrote = true
				}
			}
		}
		if c.Call.Method.Name() == "Sum" {
			sum = true
		}
	}
	return wrote && sum
}

func checkC16(c *Ctx) {
	c.explanation = "Static decision on /repo's SSA that in net.authenticateConnection every success return is dominated by the permitting arm of all seven checks (handshake read, TLS exporter == signed binding, PEM decoded, certificate parsed, checked key-type assertion, ecdsa.VerifyASN1, registered-table lookup), that VerifyASN1's key, digest and signature have the required provenance (key ← certificate parsed from the presented identity; digest ← SHA-256 of the whole handshake marshalled after the signature field was blanked; signature ← the field as received), that the lookup key depends on both domain and identity, that the returned id/domain are the lookup result and the handshake's domain, and that the only send on the message channel is in handleConn, dominated by the success flag and carrying the authenticated id/domain. Freshness (timestamp) is outside the statement; TLS exporter uniqueness, ECDSA, SHA-256 and encoding/asn1 are trusted."
	c.notDecided = "cryptographic strength of TLS exporters, ECDSA and SHA-256; freshness"
	c.Assume("crypto/tls ExportKeyingMaterial is unique per connection; ecdsa.VerifyASN1, sha256, encoding/asn1, encoding/pem and x509.ParseCertificate behave as documented")
	m := c.Mod(ModRoot)
	if m == nil {
		return
	}
	auth := c.mustFunc(m, PkgNet, "", "authenticateConnection")
	handle := c.mustFunc(m, PkgNet, "", "handleConn")
	hsType := c.mustType(m, PkgNet, "Handshake")
	fDomain := c.mustField(m, PkgNet, "Handshake", "Domain")
	fBinding := c.mustField(m, PkgNet, "Handshake", "TLSBinding")
	fIdentity := c.mustField(m, PkgNet, "Handshake", "Identity")
	fSig := c.mustField(m, PkgNet, "Handshake", "Signature")
	bytesFn := c.mustFunc(m, PkgNet, "Handshake", "Bytes")
	readFn := c.mustFunc(m, PkgNet, "Handshake", "Read")
	binder := m.Func(PkgNet, "", "extractTLSBinding") // may be written out in its callers
	if len(c.fatal) > 0 {
		return
	}
	_ = hsType
	netFns := m.PkgFuncs(PkgNet)
	sl := NewSlicer(m, PkgNet)
	pos := func(p token.Pos) string { return m.Pos(p) }
	fname := FuncName(auth)

	const G1 = "C16.G1"
	const V1 = "C16.V1"
	const V2 = "C16.V2"
	const G2 = "C16.G2"
	c.Rule(G1, "success return of authenticateConnection dominated by the permitting arm of the seven checks", 3)
	c.Rule(V1, "VerifyASN1: key ← parsed certificate of the presented identity; digest ← sha256(whole handshake, signature blanked); sig ← field as received", 2)
	c.Rule(V2, "lookup key depends on domain and identity; returned id ← lookup; returned domain ← handshake; exporter on the same conn", 2)
	c.Rule(G2, "sends on the message channel: only in handleConn, dominated by success, carrying the authenticated id/domain", 1)
	nres := auth.Signature.Results().Len()
	// one result: a pointer to the authenticated identity, nil on failure
	ptrResult := false
	if nres == 1 {
		if pt, ok := auth.Signature.Results().At(0).Type().Underlying().(*types.Pointer); ok {
			_, ptrResult = pt.Elem().Underlying().(*types.Struct)
		}
	}
	if len(auth.Params) != 3 || nres > 3 || (nres < 2 && !ptrResult) {
		c.Fatalf("anchor", "authenticateConnection signature changed")
		return
	}
	L := nres - 1 // the success flag; the identity is (domain, id) before it, or one struct holding both
	// retPart: the domain (string) or the id (16-bit) a return hands out
	retPart := func(ret *ssa.Return, wantID bool) ssa.Value {
		if nres == 3 {
			if wantID {
				return retResult(ret, 1)
			}
			return retResult(ret, 0)
		}
		v := retResult(ret, 0)
		vt := v.Type().Underlying()
		if pt, isP := vt.(*types.Pointer); isP && ptrResult {
			vt = pt.Elem().Underlying()
		}
		st, ok := vt.(*types.Struct)
		if !ok {
			return nil
		}
		var hit ssa.Value
		for i := 0; i < st.NumFields(); i++ {
			f := st.Field(i)
			isID := intWidth(f.Type()) == 16
			b, isB := f.Type().Underlying().(*types.Basic)
			isDom := isB && b.Info()&types.IsString != 0
			if (wantID && isID) || (!wantID && isDom) {
				if hit != nil {
					return nil
				}
				hit = structFieldValue(v, f, 0)
			}
		}
		return hit
	}
	p2id, conn := auth.Params[0], auth.Params[1]

	// the handshake object: the Alloc passed as receiver to Read
	var h *ssa.Alloc
	var readCall *ssa.Call
	for _, in := range instrsOf(auth) {
		if cl, ok := in.(*ssa.Call); ok && staticCallee(&cl.Call) == readFn {
			if a, ok := strip(cl.Call.Args[0]).(*ssa.Alloc); ok {
				h, readCall = a, cl
			}
		}
	}
	if h == nil {
		c.Bad(G1, fname, "handshake read", "-", "authenticateConnection does not read a Handshake from the connection")
		return
	}
	// the handshake object: h itself, or a copy of it — the local cell of a by-value parameter of a
	// transparent helper that the call gives `*h` (taken after the read): reading a field of the copy reads
	// what h held then, writing one leaves h alone
	hCopy := func(v ssa.Value) bool {
		cell, ok := v.(*ssa.Alloc)
		if !ok || cell == h || cell.Referrers() == nil {
			return false
		}
		n := 0
		isCopy := false
		for _, r := range *cell.Referrers() {
			st, isSt := r.(*ssa.Store)
			if !isSt || st.Addr != ssa.Value(cell) {
				continue
			}
			n++
			if ld, isLd := strip(st.Val).(*ssa.UnOp); isLd && ld.Op == token.MUL && ld.X == ssa.Value(h) && instrDominates(readCall, ld) {
				isCopy = true
			}
		}
		return n == 1 && isCopy
	}
	hObj := func(v ssa.Value) ssa.Value {
		noParamLook++
		b := strip(v)
		noParamLook--
		if b == ssa.Value(h) || hCopy(b) {
			return b
		}
		if b2 := strip(v); b2 == ssa.Value(h) || hCopy(b2) {
			return b2
		}
		return nil
	}
	isHField := func(v ssa.Value, f *types.Var) bool {
		b, g, ok := fieldLoad(strip(v))
		return ok && g == f && hObj(b) != nil
	}
	// success returns
	var succ []*ssa.Return
	constFalse := func(v ssa.Value) bool {
		k, ok := v.(*ssa.Const)
		return ok && k.Value != nil && k.Value.String() == "false"
	}
	// a failure return: `return "", 0, false`, or `return reject(…)` of a local helper/literal all of whose
	// returns report false
	isFailure := func(r *ssa.Return) bool {
		third := retResult(r, L)
		if ptrResult {
			return isNilConst(third)
		}
		if constFalse(third) {
			return true
		}
		e, ok := third.(*ssa.Extract)
		if !ok || e.Index != L {
			return false
		}
		cl, ok := e.Tuple.(*ssa.Call)
		if !ok {
			return false
		}
		g := staticCallee(&cl.Call)
		if g == nil {
			g = sl.localClosureCallee(cl.Call.Value)
		}
		if g == nil || g.Blocks == nil || pkgPathOf(g) != PkgNet {
			return false
		}
		n := 0
		for _, gi := range instrsOf(g) {
			if gr, isR := gi.(*ssa.Return); isR {
				n++
				if len(gr.Results) != nres || !constFalse(retResult(gr, L)) {
					return false
				}
			}
		}
		return n > 0
	}
	for _, in := range instrsOf(auth) {
		if r, ok := in.(*ssa.Return); ok && len(r.Results) == nres {
			if isFailure(r) {
				continue
			}
			succ = append(succ, r)
		}
	}
	if len(succ) == 0 {
		c.Bad(G1, fname, "success return", "-", "no success return found")
		return
	}
	var verifyCalls []*ssa.Call
	for _, in := range instrsDeep(auth) {
		if cl, ok := in.(*ssa.Call); ok && isCallTo(&cl.Call, "crypto/ecdsa", "VerifyASN1") {
			verifyCalls = append(verifyCalls, cl)
		}
	}
	for _, ret := range succ {
		facts := FactsAt(ret)
		rp := pos(ret.Pos())
		// 1 handshake read ok
		ok1 := hasFact(facts, func(f Fact) bool {
			return f.Op == token.EQL && strip(f.X) == ssa.Value(readCall) && isNilConst(f.Y) && strip(readCall.Call.Args[1]) == strip(conn)
		})
		c.Check(ok1, G1, fname, "guard 1: handshake read from this connection succeeded", rp, "h.Read(conn) == nil", "a handshake that failed to parse (or was read from elsewhere) can authenticate")
		// 2 binding
		var bindCall *ssa.Call
		ok2 := boolFact(facts, true, func(v ssa.Value) bool {
			cl, ok := v.(*ssa.Call)
			if !ok || !isCallTo(&cl.Call, "bytes", "Equal") {
				return false
			}
			a, b := strip(cl.Call.Args[0]), strip(cl.Call.Args[1])
			for _, pr := range [][2]ssa.Value{{a, b}, {b, a}} {
				if bc, ok := pr[0].(*ssa.Call); ok && binder != nil && staticCallee(&bc.Call) == binder && strip(bc.Call.Args[0]) == strip(conn) && isHField(pr[1], fBinding) {
					bindCall = bc
					return true
				}
				// the exporter written out in place: ExportKeyingMaterial on this connection's state
				if exporterOn(pr[0], strip(conn), sl) && isHField(pr[1], fBinding) {
					return true
				}
			}
			return false
		})
		c.Check(ok2, G1, fname, "guard 2: exporter(conn) equals signed binding", rp, "bytes.Equal(extractTLSBinding(conn), h.TLSBinding) is true", "a handshake recorded on another connection authenticates (binding not compared on the permitting arm)")
		_ = bindCall
		// 3 PEM decoded
		var pemBlock ssa.Value
		ok3 := hasFact(facts, func(f Fact) bool {
			if f.Op != token.NEQ || !isNilConst(f.Y) {
				return false
			}
			e, ok := strip(f.X).(*ssa.Extract)
			if !ok || e.Index != 0 {
				return false
			}
			cl, ok := e.Tuple.(*ssa.Call)
			if ok && isCallTo(&cl.Call, "encoding/pem", "Decode") && isHField(cl.Call.Args[0], fIdentity) {
				pemBlock = e
				return true
			}
			return false
		})
		c.Check(ok3, G1, fname, "guard 3: identity is PEM", rp, "pem.Decode(h.Identity) != nil", "nil PEM block dereferenced / identity not taken from the handshake")
		// 4 certificate parsed
		var certVal ssa.Value
		ok4 := hasFact(facts, func(f Fact) bool {
			if f.Op != token.EQL || !isNilConst(f.Y) {
				return false
			}
			e, ok := strip(f.X).(*ssa.Extract)
			if !ok || e.Index != 1 {
				return false
			}
			cl, ok := e.Tuple.(*ssa.Call)
			if !ok || !isCallTo(&cl.Call, "crypto/x509", "ParseCertificate") {
				return false
			}
			b, fld, isF := fieldLoad(strip(cl.Call.Args[0]))
			if !isF || fld.Name() != "Bytes" || pemBlock == nil || strip(b) != pemBlock {
				return false
			}
			certVal = cl
			return true
		})
		_ = certVal
		c.Check(ok4, G1, fname, "guard 4: certificate parsed from the PEM block", rp, "x509.ParseCertificate(block.Bytes) err == nil", "an unparsable certificate is used")
		// 6 signature (before 5 because 5 needs the key value)
		var vcall *ssa.Call
		ok6 := boolFact(facts, true, func(v ssa.Value) bool {
			cl, ok := v.(*ssa.Call)
			if ok && isCallTo(&cl.Call, "crypto/ecdsa", "VerifyASN1") {
				vcall = cl
				return true
			}
			return false
		})
		c.Check(ok6, G1, fname, "guard 6: signature verifies", rp, "ecdsa.VerifyASN1(...) is true", "success is returned without a valid signature (verification result ignored or inverted)")
		// 5 key type assertion checked
		ok5 := false
		why5 := "no VerifyASN1 call to take the key from"
		if vcall != nil {
			key := resultOf(vcall.Call.Args[0])
			var ta *ssa.TypeAssert
			if e, ok := key.(*ssa.Extract); ok && e.Index == 0 {
				ta, _ = e.Tuple.(*ssa.TypeAssert)
			} else if t, ok := key.(*ssa.TypeAssert); ok {
				ta = t
			}
			if ta == nil {
				why5 = "the verification key is not obtained by a type assertion on the certificate's public key"
			} else if !ta.CommaOk {
				why5 = "unchecked type assertion cert.PublicKey.(*ecdsa.PublicKey): a certificate with an RSA or Ed25519 key panics the connection handler instead of being refused"
			} else {
				ok5 = boolFact(facts, true, func(v ssa.Value) bool {
					tup, isOK := commaOK(v)
					return isOK && tup == ssa.Value(ta)
				})
				why5 = "the ok flag of the key-type assertion is not tested on the path to success"
			}
		}
		c.Check(ok5, G1, fname, "guard 5: key type assertion is checked", rp, "comma-ok assertion, ok arm", why5)
		// 7 lookup
		var lk *ssa.Lookup
		ok7 := boolFact(facts, true, func(v ssa.Value) bool {
			tup, isOK := commaOK(v)
			if !isOK {
				return false
			}
			l, isL := tup.(*ssa.Lookup)
			if isL && strip(l.X) == strip(p2id) {
				lk = l
				return true
			}
			return false
		})
		c.Check(ok7, G1, fname, "guard 7: registered identity found", rp, "p2id[key] found arm", "an identity that is not registered is attributed (zero id)")

		// V2: returned values
		if lk != nil {
			kslice := sl.Slice(lk.Index)
			hasDom := sliceHas(kslice, func(v ssa.Value) bool { return isHField(v, fDomain) })
			hasId := sliceHas(kslice, func(v ssa.Value) bool { return isHField(v, fIdentity) })
			hashed := sliceHas(kslice, func(v ssa.Value) bool {
				cl, ok := v.(*ssa.Call)
				return ok && staticCallee(&cl.Call) != nil && isSHA256Variadic(staticCallee(&cl.Call))
			})
			c.Check(hasDom && hasId && hashed, V2, fname, "lookup key", pos(lk.Pos()), "hex(sha256(h.Domain, h.Identity))", "the registered-table key does not bind both the claimed domain and the presented identity")
			var e *ssa.Extract
			isE := false
			if idv := retPart(ret, true); idv != nil {
				e, isE = resultOf(idv).(*ssa.Extract)
			}
			c.Check(isE && e.Index == 0 && e.Tuple == ssa.Value(lk), V2, fname, "returned id", rp, "id ← lookup result", "the id returned is not the registered table's entry for the presented identity")
		} else {
			c.Bad(V2, fname, "lookup key", rp, "no registered-table lookup on the path to success")
		}
		domv := retPart(ret, false)
		c.Check(domv != nil && isHField(domv, fDomain), V2, fname, "returned domain", rp, "domain ← h.Domain (signed)", "the domain returned is not the one covered by the signature")
	}

	// V1 provenance of VerifyASN1 operands
	if len(verifyCalls) == 0 {
		c.Bad(V1, fname, "VerifyASN1 call", "-", "no signature verification at all")
	}
	for _, vc := range verifyCalls {
		vp := pos(vc.Pos())
		// key ← certificate parsed from h.Identity
		ks := sl.Slice(vc.Call.Args[0])
		okK := sliceHas(ks, func(v ssa.Value) bool {
			cl, ok := v.(*ssa.Call)
			return ok && isCallTo(&cl.Call, "crypto/x509", "ParseCertificate")
		}) && sliceHas(ks, func(v ssa.Value) bool { return isHField(v, fIdentity) }) && sliceHas(ks, func(v ssa.Value) bool {
			_, f, ok := fieldLoad(v)
			return ok && f.Name() == "PublicKey"
		})
		c.Check(okK, V1, fname, "verification key", vp, "key ← x509.ParseCertificate(pem(h.Identity)).PublicKey", "the signature is not verified under the key of the presented identity")
		// digest ← sha256Digest(h.Bytes()) with h complete
		okD, whyD := false, "digest is not SHA-256 of the marshalled handshake"
		var bytesCall *ssa.Call
		var digestObj ssa.Value
		if dc, ok := resultOf(vc.Call.Args[1]).(*ssa.Call); ok && staticCallee(&dc.Call) != nil && isSHA256Variadic(staticCallee(&dc.Call)) {
			el := variadicElems(dc.Call.Args[0])
			if len(el) == 1 {
				if bc, ok := strip(el[0]).(*ssa.Call); ok && staticCallee(&bc.Call) == bytesFn {
					// receiver is the whole handshake h
					rv := bc.Call.Args[0]
					noParamLook++
					rs := strip(rv)
					noParamLook--
					if ld, ok := rs.(*ssa.UnOp); ok && ld.Op == token.MUL {
						rs = ld.X
					}
					if o := hObj(rs); o != nil {
						okD = true
						bytesCall = bc
						digestObj = o
					} else {
						whyD = "Bytes() is not called on the handshake that was read (or a copy of it)"
					}
				}
			} else {
				whyD = "the digest covers something other than exactly the marshalled handshake"
			}
		}
		c.Check(okD, V1, fname, "signed digest", vp, "digest ← sha256(h.Bytes()) of the very handshake whose binding is compared", whyD)
		// signature ← h.Signature loaded before the blanking store; blanking precedes Bytes()
		// (the blanking happens on the object that is marshalled: h itself, or the copy a helper works on)
		var blank *ssa.Store
		nSigStores := 0
		for _, st := range storesToField(deepFuncs(auth), fSig) {
			fa := st.Addr.(*ssa.FieldAddr)
			if o := hObj(fa.X); o != nil && (digestObj == nil || o == digestObj) {
				nSigStores++
				if isNilConst(st.Val) {
					blank = st
				}
			}
		}
		sigArg := strip(vc.Call.Args[2])
		okS := false
		whyS := "signature operand is not the handshake's Signature field"
		if isHField(sigArg, fSig) {
			ld := sigArg.(ssa.Instruction)
			sb, _, _ := fieldLoad(sigArg)
			sigObj := hObj(sb)
			if blank == nil || nSigStores != 1 {
				whyS = "the Signature field is not blanked exactly once before hashing (the signed bytes must exclude the signature)"
			} else if sigObj == digestObj && !instrDominates(ld, blank) {
				whyS = "the signature is read after the field was blanked"
			} else if bytesCall == nil || !instrDominates(blank, bytesCall) {
				whyS = "the handshake is marshalled before the Signature field is blanked"
			} else {
				okS = true
			}
		}
		c.Check(okS, V1, fname, "signature operand and blanking order", vp, "sig ← h.Signature; then h.Signature = nil; then h.Bytes()", whyS)
	}
	// Bytes marshals the whole struct
	okB := false
	for _, cl := range callsInFn(bytesFn, "encoding/asn1", "Marshal") {
		if strip(cl.Call.Args[0]) == strip(bytesFn.Params[0]) {
			okB = true
		} else if ld, ok := strip(cl.Call.Args[0]).(*ssa.UnOp); ok && ld.Op == token.MUL && strip(ld.X) == strip(bytesFn.Params[0]) {
			okB = true
		}
	}
	c.Check(okB, V1, FuncName(bytesFn), "Handshake.Bytes marshals the whole struct", pos(bytesFn.Pos()), "asn1.Marshal(h)", "the signed encoding does not cover every handshake field (e.g. the channel binding)")
	// Read unmarshals into the receiver from the reader it was given
	okR := false
	for _, cl := range callsInFn(readFn, "encoding/asn1", "Unmarshal") {
		if strip(cl.Call.Args[1]) == strip(readFn.Params[0]) {
			okR = true
		}
	}
	c.Check(okR, V1, FuncName(readFn), "Handshake.Read fills the receiver", pos(readFn.Pos()), "asn1.Unmarshal(buff, h)", "the handshake compared and verified is not the one read from the connection")
	// exporter on the same connection
	if binder != nil {
		okX := false
		for _, cl := range instrsOf(binder) {
			call, ok := cl.(*ssa.Call)
			if !ok {
				continue
			}
			if o := calleeObj(&call.Call); o != nil && o.Name() == "ExportKeyingMaterial" {
				s2 := sl.Slice(call.Call.Args[0])
				if s2[binder.Params[0]] {
					okX = true
				}
			}
		}
		c.Check(okX, V2, FuncName(binder), "exporter of the given connection", pos(binder.Pos()), "ExportKeyingMaterial on conn's ConnectionState", "the channel binding is not derived from the connection being authenticated")
	} else {
		// written out in authenticateConnection: guard 2 above required the exporter of this very connection
		c.OK(V2, FuncName(auth), "exporter of the given connection", pos(auth.Pos()), "ExportKeyingMaterial on conn's ConnectionState, in place (decided with guard 2)")
	}

	// G2/W1: sends on channels of InMsg
	nSend := 0
	for _, fn := range netFns {
		for _, in := range instrsOf(fn) {
			snd, ok := in.(*ssa.Send)
			if !ok {
				continue
			}
			ch, ok := snd.Chan.Type().Underlying().(*types.Chan)
			if !ok || !isNamed(ch.Elem(), PkgNet, "InMsg") {
				continue
			}
			nSend++
			sp := pos(snd.Pos())
			if fn != handle && !inlinedInto(fn, handle) {
				c.Bad(G2, FuncName(fn), "send on the message channel", sp, "a function other than handleConn emits attributed messages")
				continue
			}
			var ac *ssa.Call
			for _, cl := range instrsOf(handle) {
				if call, ok := cl.(*ssa.Call); ok && staticCallee(&call.Call) == auth {
					ac = call
				}
			}
			if ac == nil {
				c.Bad(G2, FuncName(fn), "send on the message channel", sp, "handleConn does not call authenticateConnection")
				continue
			}
			okF := boolFact(FactsAt(snd), true, func(v ssa.Value) bool {
				e, ok := v.(*ssa.Extract)
				return ok && e.Tuple == ssa.Value(ac) && e.Index == L
			})
			if ptrResult {
				okF = hasFact(FactsAt(snd), func(f Fact) bool {
					return f.Op == token.NEQ && ((strip(f.X) == ssa.Value(ac) && isNilConst(f.Y)) || (strip(f.Y) == ssa.Value(ac) && isNilConst(f.X)))
				})
			}
			c.Check(okF, G2, FuncName(fn), "send dominated by authentication success", sp, "authenticationSucceeded is true", "messages of an unauthenticated connection are emitted")
			from := structFieldValue(snd.X, fieldByName(snd.X.Type(), "From"), 0)
			dom := structFieldValue(snd.X, fieldByName(snd.X.Type(), "Domain"), 0)
			isExt := func(v ssa.Value, i int) bool {
				if v == nil {
					return false
				}
				if nres == 3 {
					e, ok := strip(v).(*ssa.Extract)
					return ok && e.Tuple == ssa.Value(ac) && e.Index == i
				}
				// one struct holding both: the field of the right kind of the authenticated peer (result 0)
				// (read as written in this function: not looked through to what the helper put there)
				b, f, ok := fieldLoad(stripNoParam(v))
				if !ok {
					b, f, ok = fieldLoad(strip(v))
				}
				if !ok {
					return false
				}
				wantID := i == 1
				bt, isB := f.Type().Underlying().(*types.Basic)
				if wantID && intWidth(f.Type()) != 16 {
					return false
				}
				if !wantID && !(isB && bt.Info()&types.IsString != 0) {
					return false
				}
				base := strip(b)
				if ptrResult {
					return base == ssa.Value(ac) // a field of the identity the call returned
				}
				if ld, isLd := base.(*ssa.UnOp); isLd && ld.Op == token.MUL {
					base = strip(ld.X)
				}
				if al, isA := base.(*ssa.Alloc); isA {
					if sts := storesToCell(al); len(sts) == 1 {
						base = strip(sts[0].Val)
					}
				}
				e, isE := base.(*ssa.Extract)
				return isE && e.Tuple == ssa.Value(ac) && e.Index == 0
			}
			c.Check(isExt(from, 1) && isExt(dom, 0), G2, FuncName(fn), "attributed id and domain", sp, "From/Domain ← results of authenticateConnection", "the emitted message is not attributed to the authenticated identity")
			// the same conn is authenticated and read
			// handleConn's connection: its parameter of type net.Conn
			var hconn ssa.Value
			for _, hp := range handle.Params {
				if isNamed(hp.Type(), "net", "Conn") {
					hconn = strip(hp)
				}
			}
			okC := hconn != nil && strip(ac.Call.Args[1]) == hconn
			for _, cl := range instrsOf(handle) {
				if call, ok := cl.(*ssa.Call); ok {
					if cal := staticCallee(&call.Call); cal != nil && cal.Name() == "readMsg" && strip(call.Call.Args[0]) != hconn {
						okC = false
					}
				}
			}
			c.Check(okC, G2, FuncName(fn), "same connection authenticated and read", sp, "authenticateConnection(conn) and readMsg(conn) on handleConn's conn", "messages are read from a connection other than the authenticated one")
		}
	}
	if nSend == 0 {
		c.Bad(G2, "net", "send on the message channel", "-", "no send of InMsg found (model went blind)")
	}
}

// exporterOn: v is the keying material exported from the TLS state of connection conn
// (result #0 of ExportKeyingMaterial on a ConnectionState obtained from conn).
func exporterOn(v ssa.Value, conn ssa.Value, sl *Slicer) bool {
	e, ok := strip(v).(*ssa.Extract)
	if !ok || e.Index != 0 {
		return false
	}
	cl, ok := e.Tuple.(*ssa.Call)
	if !ok {
		return false
	}
	o := calleeObj(&cl.Call)
	if o == nil || o.Name() != "ExportKeyingMaterial" || len(cl.Call.Args) == 0 {
		return false
	}
	return sl.Slice(cl.Call.Args[0])[conn]
}
