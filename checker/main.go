package main

// tsscheck: static decision procedures for the IBM/TSS properties C01..C20.
// Every run re-loads /repo's working tree; nothing of IBM/TSS is executed.

import (
	"flag"
	"fmt"
	"os"
	"path/filepath"
	"runtime/debug"
	"sort"
	"strconv"
)

type propFn func(c *Ctx)

var props = map[string]propFn{}

func register(id string, f propFn) { props[id] = f }

func main() {
	prop := flag.String("property", "", "property id (C01..C20) or 'all'")
	tier := flag.String("tier", "", "quick|thorough (default: $VERIF_TIER or quick)")
	repo := flag.String("repo", "/repo", "repository root to analyse")
	verif := flag.String("verif", "", "verification directory (default: directory above the binary's dir, else /verif)")
	replay := flag.String("replay", "", "replay file: re-evaluate the property it names and print its violations")
	list := flag.Bool("list", false, "list properties")
	mutants := flag.String("mutants", "", "development: run the mutants of this property and print the results")
	only := flag.String("only", "", "with -mutants: run only this mutant id")
	dump := flag.String("dump", "", "development: dump an inventory (panics)")
	learn := flag.Bool("learn-anchors", false, "maintenance: run every property on the reference tree and record the fingerprints of all name-resolved anchors in <verif>/anchors.json")
	flag.Parse()

	if *list {
		var ids []string
		for id := range props {
			ids = append(ids, id)
		}
		sort.Strings(ids)
		for _, id := range ids {
			fmt.Println(id)
		}
		return
	}
	if *tier == "" {
		*tier = os.Getenv("VERIF_TIER")
	}
	if *tier != "thorough" {
		*tier = "quick"
	}
	if *verif == "" {
		*verif = "/verif"
		if exe, err := os.Executable(); err == nil {
			d := filepath.Dir(filepath.Dir(exe))
			if _, err := os.Stat(filepath.Join(d, "properties.jsonl")); err == nil {
				*verif = d
			}
		}
	}
	var seed int64
	if s := os.Getenv("VERIF_SEED"); s != "" {
		seed, _ = strconv.ParseInt(s, 10, 64)
	}
	if *dump == "panics" {
		dumpPanics(*repo)
		return
	}
	if *learn {
		anchorLearn = true
		var ids []string
		for id := range props {
			ids = append(ids, id)
		}
		sort.Strings(ids)
		tmp, _ := os.MkdirTemp("", "tsscheck-learn-")
		defer os.RemoveAll(tmp)
		if kf, err := os.ReadFile(filepath.Join(*verif, "known_findings.json")); err == nil {
			os.WriteFile(filepath.Join(tmp, "known_findings.json"), kf, 0o644)
		}
		bad := 0
		for _, id := range ids {
			if rc := runProp(id, props[id], "quick", *repo, tmp, seed); rc != 0 {
				fmt.Fprintf(os.Stderr, "learn-anchors: property %s does not pass on this tree; its anchors are recorded all the same\n", id)
				bad++
			}
		}
		if err := saveLearnedAnchors(*verif); err != nil {
			fmt.Fprintln(os.Stderr, err)
			os.Exit(2)
		}
		fmt.Printf("learn-anchors: %d anchors recorded in %s/anchors.json (%d properties not passing)\n", len(anchorLearned), *verif, bad)
		return
	}
	if *mutants != "" {
		os.Exit(mutantsCLI(*mutants, *repo, *verif, *only))
	}
	if *replay != "" {
		os.Exit(doReplay(*replay, *repo, *verif, seed))
	}
	f, ok := props[*prop]
	if !ok {
		fmt.Fprintf(os.Stderr, "unknown property %q\n", *prop)
		os.Exit(2)
	}
	os.Exit(runProp(*prop, f, *tier, *repo, *verif, seed))
}

func runProp(id string, f propFn, tier, repo, verif string, seed int64) (code int) {
	c := NewCtx(id, tier, repo, verif, seed)
	loadAnchorTable(verif)
	anchorNotes = nil
	func() {
		defer func() {
			if r := recover(); r != nil {
				c.Fatalf("analyser-panic", "%v\n%s", r, debug.Stack())
			}
		}()
		f(c)
		for _, n := range anchorNotes {
			c.Note("anchor: %s", n)
		}
		if tier == "thorough" {
			runThorough(c)
		}
	}()
	return c.Finish()
}
