package main

// SSA helpers shared by the engines: value look-through, calls, guards
// (mandatory branch outcomes on every path to an instruction), conditions as
// facts, linear normal forms.

import (
	"fmt"
	"go/constant"
	"go/token"
	"go/types"
	"sort"
	"strings"

	"golang.org/x/tools/go/ssa"
)

// ---------------------------------------------------------------------------
// instructions

func instrsOf(fn *ssa.Function) []ssa.Instruction {
	var out []ssa.Instruction
	for _, b := range fn.Blocks {
		if b == fn.Recover {
			continue // reached only after a recovered panic; loads the current results and returns
		}
		out = append(out, b.Instrs...)
	}
	return out
}

func instrIndex(i ssa.Instruction) int {
	for k, x := range i.Block().Instrs {
		if x == i {
			return k
		}
	}
	return -1
}

// instrDominates: a is executed before b on every path reaching b.
func instrDominates(a, b ssa.Instruction) bool {
	if a.Parent() != b.Parent() {
		return instrDominatesDeep(a, b) // across transparent helpers (inline.go)
	}
	if a.Block() == b.Block() {
		return instrIndex(a) < instrIndex(b)
	}
	return a.Block().Dominates(b.Block())
}

// ---------------------------------------------------------------------------
// value look-through

var fieldLook int

// strip removes representation-only wrappers.
func strip(v ssa.Value) ssa.Value {
	for i := 0; i < 12; i++ {
		switch x := v.(type) {
		case *ssa.ChangeType:
			v = x.X
		case *ssa.MakeInterface:
			v = x.X
		case *ssa.ChangeInterface:
			v = x.X
		case *ssa.Convert:
			// look through conversions that do not lose information about identity:
			// integer<->integer of the same or wider size, string<->[]byte, named<->underlying
			if convPreserves(x.X.Type(), x.Type()) {
				v = x.X
			} else {
				return v
			}
		case *ssa.Phi:
			// φ with a single distinct non-self operand
			var only ssa.Value
			n := 0
			for _, e := range x.Edges {
				if e == x {
					continue
				}
				if only == nil || e != only {
					if only != nil && e != only {
						n = 2
						break
					}
					only = e
					n = 1
				}
			}
			if n == 1 {
				v = only
			} else {
				return v
			}
		case *ssa.UnOp:
			// load of a spilled parameter (address-taken struct parameter that is never written)
			if p := spilledParam(x); p != nil {
				v = p
			} else if po, pf := paramObjectField(x); po != nil && noParamLook == 0 && fieldLook <= 2 {
				// field of a parameter object (spilled to a local cell) of a transparent helper
				c := helperCall(po.Parent())
				idx := paramIndex(po)
				if c == nil || idx < 0 || idx >= len(c.Call.Args) {
					return v
				}
				fieldLook++
				fv := structFieldValue(c.Call.Args[idx], pf, 0)
				fieldLook--
				if fv == nil {
					// the object is a local variable of the caller holding an opaque value (a decoder's
					// result): the caller's own (first) read of that field, if it has one
					if al, isL := c.Call.Args[idx].(*ssa.UnOp); isL && al.Op == token.MUL {
						if a, isA := al.X.(*ssa.Alloc); isA && wholeStoreOf(a, al) != nil {
							if cl := canonicalFieldLoad(a, pf); cl != nil {
								return cl
							}
						}
					}
					return v
				}
				v = fv
			} else if fv := sessionFieldLoad(x); fv != nil && noParamLook == 0 {
				v = fv
			} else if fv := localStructFieldLoad(x); fv != nil && noParamLook == 0 && fieldLook <= 2 {
				v = fv
			} else if fv := nestedFieldLoad(x); fv != nil && noParamLook == 0 && fieldLook <= 2 {
				v = fv
			} else if a, isA := x.X.(*ssa.Alloc); isA && x.Op == token.MUL && noParamLook == 0 {
				// a local variable that is assigned once, before this read, and only read otherwise
				// (`ack := v.subject` kept in memory because a method is called on it): what it was assigned
				sv := wholeStoreOf(a, x)
				if sv == nil {
					return v
				}
				v = sv
			} else {
				return v
			}
		case *ssa.Field:
			// field of a struct value that is a parameter object of a transparent helper, built by a
			// composite literal at the call site: the value given to that field
			if noParamLook > 0 || fieldLook > 2 {
				return v
			}
			st, ok := x.X.Type().Underlying().(*types.Struct)
			if !ok || x.Field >= st.NumFields() {
				return v
			}
			fieldLook++
			base := strip(x.X)
			var fv ssa.Value
			_, isCall := base.(*ssa.Call)
			if base != x.X || isCall {
				// (also a field of the struct a transparent helper assembles and returns by value)
				fv = structFieldValue(base, st.Field(x.Field), 0)
			}
			fieldLook--
			if fv == nil {
				return v
			}
			v = fv
		case *ssa.Parameter:
			// parameter of a transparent helper: the argument at its only call site (inline.go)
			if noParamLook > 0 {
				return v
			}
			c := helperCall(x.Parent())
			if c == nil {
				// the body of a goroutine (or a deferred step) written as a named function that is
				// started at one place only: its parameters are the values given there
				// (only for callbacks — func-typed parameters: data parameters keep their identity inside
				// the goroutine, where the rules about its own code reason)
				_, isFunc := x.Type().Underlying().(*types.Signature)
				if sp := spawnSite[x.Parent()]; sp != nil && isFunc {
					idx := paramIndex(x)
					if args := sp.Common().Args; idx >= 0 && idx < len(args) && len(args) == len(x.Parent().Params) {
						v = args[idx]
						continue
					}
				}
				return v
			}
			idx := paramIndex(x)
			if idx < 0 || idx >= len(c.Call.Args) {
				return v
			}
			v = c.Call.Args[idx]
		default:
			return v
		}
	}
	return v
}

// spilledParam: ld loads a local cell whose only write is `*cell = param` (no
// field or element stores, address not escaping) => the load equals the parameter.
func spilledParam(ld *ssa.UnOp) *ssa.Parameter {
	if ld.Op != token.MUL {
		return nil
	}
	a, ok := ld.X.(*ssa.Alloc)
	if !ok {
		return nil
	}
	refs := a.Referrers()
	if refs == nil {
		return nil
	}
	var param *ssa.Parameter
	for _, r := range *refs {
		switch x := r.(type) {
		case *ssa.Store:
			if x.Addr != a {
				return nil
			}
			p, ok := x.Val.(*ssa.Parameter)
			if !ok || param != nil {
				return nil
			}
			param = p
		case *ssa.UnOp:
		case *ssa.FieldAddr:
			if rr := x.Referrers(); rr != nil {
				for _, q := range *rr {
					if _, ok := q.(*ssa.UnOp); !ok {
						return nil
					}
				}
			}
		case *ssa.DebugRef:
		case *ssa.MakeClosure:
			// captured by a literal that only reads it (a receiver or parameter used inside a func literal
			// lives in a cell although nobody ever assigns it again)
			fn, _ := x.Fn.(*ssa.Function)
			if fn == nil || !cellOnlyReadBy(fn, x, a, 0) {
				return nil
			}
		default:
			return nil
		}
	}
	return param
}

// cellOnlyReadBy: the literal fn, created by mc with cell among its bindings, only loads from the
// corresponding free variable (or hands it on to nested literals that only load from it).
func cellOnlyReadBy(fn *ssa.Function, mc *ssa.MakeClosure, cell ssa.Value, depth int) bool {
	if depth > 3 {
		return false
	}
	for i, b := range mc.Bindings {
		if b != cell {
			continue
		}
		if i >= len(fn.FreeVars) {
			return false
		}
		fv := fn.FreeVars[i]
		if fv.Referrers() == nil {
			continue
		}
		for _, q := range *fv.Referrers() {
			switch y := q.(type) {
			case *ssa.UnOp:
				if y.Op != token.MUL {
					return false
				}
			case *ssa.DebugRef:
			case *ssa.FieldAddr:
				// a field of the captured struct: read only
				if y.Referrers() != nil {
					for _, rr := range *y.Referrers() {
						if u, isLoad := rr.(*ssa.UnOp); !isLoad || u.Op != token.MUL {
							return false
						}
					}
				}
			case *ssa.MakeClosure:
				g, _ := y.Fn.(*ssa.Function)
				if g == nil || !cellOnlyReadBy(g, y, fv, depth+1) {
					return false
				}
			default:
				return false
			}
		}
	}
	return true
}

func intWidth(t types.Type) int {
	b, ok := t.Underlying().(*types.Basic)
	if !ok {
		return 0
	}
	switch b.Kind() {
	case types.Int8, types.Uint8:
		return 8
	case types.Int16, types.Uint16:
		return 16
	case types.Int32, types.Uint32:
		return 32
	case types.Int64, types.Uint64, types.Int, types.Uint, types.Uintptr:
		return 64
	}
	return 0
}

func convPreserves(from, to types.Type) bool {
	fw, tw := intWidth(from), intWidth(to)
	if fw > 0 && tw > 0 {
		return tw >= fw
	}
	fu, tu := from.Underlying(), to.Underlying()
	if isString(fu) && isByteSlice(tu) || isByteSlice(fu) && isString(tu) {
		return true
	}
	if isString(fu) && isString(tu) {
		return true
	}
	return types.Identical(fu, tu)
}

func isString(t types.Type) bool {
	b, ok := t.Underlying().(*types.Basic)
	return ok && b.Info()&types.IsString != 0
}

func isByteSlice(t types.Type) bool {
	s, ok := t.Underlying().(*types.Slice)
	if !ok {
		return false
	}
	b, ok := s.Elem().Underlying().(*types.Basic)
	return ok && (b.Kind() == types.Uint8)
}

func constInt(v ssa.Value) (int64, bool) {
	c, ok := strip(v).(*ssa.Const)
	if !ok || c.Value == nil {
		return 0, false
	}
	if c.Value.Kind() != constant.Int {
		return 0, false
	}
	i, ok := constant.Int64Val(c.Value)
	return i, ok
}

func isNilConst(v ssa.Value) bool {
	c, ok := v.(*ssa.Const)
	return ok && c.Value == nil
}

// fieldLoad: v is a load of field f of some base (pointer or struct value).
func fieldLoad(v ssa.Value) (base ssa.Value, f *types.Var, ok bool) {
	switch x := v.(type) {
	case *ssa.UnOp:
		if x.Op == token.MUL {
			if fa, ok := x.X.(*ssa.FieldAddr); ok {
				return fa.X, fieldOfAddr(fa), true
			}
		}
	case *ssa.Field:
		st := x.X.Type().Underlying().(*types.Struct)
		return x.X, st.Field(x.Field), true
	}
	return nil, nil, false
}

func fieldOfAddr(fa *ssa.FieldAddr) *types.Var {
	pt := fa.X.Type().Underlying().(*types.Pointer)
	st := pt.Elem().Underlying().(*types.Struct)
	return st.Field(fa.Field)
}

// isLoadOfField reports whether v (after strip) loads exactly field f.
func isLoadOfField(v ssa.Value, f *types.Var) bool {
	// as written (a field of a local struct value is not looked through to what was stored there) …
	if _, g, ok := fieldLoad(stripNoParam(v)); ok && g == f {
		return true
	}
	// … or after looking through helpers' parameters and local struct values
	if _, g, ok := fieldLoad(strip(v)); ok && g == f {
		return true
	}
	// … or the map parameter of a table helper that is only ever given this field
	return mapParamOfField(v, f, 0)
}

func lenOperand(v ssa.Value) (ssa.Value, bool) {
	if sy, isSy := v.(*synthLen); isSy {
		return sy.arg, true
	}
	c, ok := strip(v).(*ssa.Call)
	if !ok {
		return nil, false
	}
	b, ok := c.Call.Value.(*ssa.Builtin)
	if !ok || b.Name() != "len" {
		return nil, false
	}
	return c.Call.Args[0], true
}

// ---------------------------------------------------------------------------
// calls

// staticCallee returns the statically known callee (function, method or
// closure literal) of a call, or nil.
func staticCallee(c *ssa.CallCommon) *ssa.Function {
	if c.IsInvoke() {
		return nil
	}
	switch f := c.Value.(type) {
	case *ssa.Function:
		return f
	case *ssa.MakeClosure:
		return f.Fn.(*ssa.Function)
	}
	return nil
}

// calleeObj returns the types.Func called (static function/method or interface method).
func calleeObj(c *ssa.CallCommon) *types.Func {
	if c.IsInvoke() {
		return c.Method
	}
	if f := staticCallee(c); f != nil {
		if o, ok := f.Object().(*types.Func); ok {
			return o
		}
	}
	return nil
}

func isCallTo(c *ssa.CallCommon, pkg, name string) bool {
	o := calleeObj(c)
	if o == nil || o.Pkg() == nil {
		return false
	}
	if o.Pkg().Path() != pkg {
		return false
	}
	if strings.Contains(name, ".") { // Type.Method
		parts := strings.SplitN(name, ".", 2)
		sig := o.Type().(*types.Signature)
		if sig.Recv() == nil {
			return false
		}
		rt := sig.Recv().Type()
		if p, ok := rt.(*types.Pointer); ok {
			rt = p.Elem()
		}
		n, ok := rt.(*types.Named)
		return ok && n.Obj().Name() == parts[0] && o.Name() == parts[1]
	}
	return o.Name() == name && o.Type().(*types.Signature).Recv() == nil
}

// callsFuncField: the call invokes a func-typed field f (x.f(...)).
func callsFuncField(c *ssa.CallCommon, f *types.Var) bool {
	if c.IsInvoke() {
		return false
	}
	return isLoadOfField(c.Value, f)
}

// invokesMethod: interface invoke of method named name declared in interface
// type pkg.iface (or any interface when iface == "").
func invokesMethod(c *ssa.CallCommon, name string) bool {
	return c.IsInvoke() && c.Method.Name() == name
}

func callCommon(i ssa.Instruction) *ssa.CallCommon {
	switch x := i.(type) {
	case *ssa.Call:
		return &x.Call
	case *ssa.Go:
		return &x.Call
	case *ssa.Defer:
		return &x.Call
	}
	return nil
}

// ---------------------------------------------------------------------------
// guards

// A Guard says: every path from the function entry to the protected
// instruction takes successor Arm (true=then) of the If terminating block B.
type Guard struct {
	If  *ssa.If
	Arm bool
}

// EdgePrune reports edges (block, successor index) that are infeasible under a calling context.
type EdgePrune func(b *ssa.BasicBlock, succ int) bool

func reachableWithoutEdge(fn *ssa.Function, target *ssa.BasicBlock, cutFrom *ssa.BasicBlock, cutSucc int) bool {
	return reachableWithoutEdgeP(fn, target, cutFrom, cutSucc, nil)
}

func reachableWithoutEdgeP(fn *ssa.Function, target *ssa.BasicBlock, cutFrom *ssa.BasicBlock, cutSucc int, prune EdgePrune) bool {
	seen := make([]bool, len(fn.Blocks))
	stack := []*ssa.BasicBlock{fn.Blocks[0]}
	seen[0] = true
	for len(stack) > 0 {
		b := stack[len(stack)-1]
		stack = stack[:len(stack)-1]
		if b == target {
			return true
		}
		for k, s := range b.Succs {
			if b == cutFrom && k == cutSucc {
				continue
			}
			if prune != nil && prune(b, k) {
				continue
			}
			if !seen[s.Index] {
				seen[s.Index] = true
				stack = append(stack, s)
			}
		}
	}
	return false
}

// GuardsOf returns all mandatory branch outcomes for reaching instr.
func GuardsOf(instr ssa.Instruction) []Guard { return GuardsOfP(instr, nil) }

// GuardsOfP: as GuardsOf, on the CFG without the edges that prune declares infeasible.
func GuardsOfP(instr ssa.Instruction, prune EdgePrune) []Guard {
	fn := instr.Parent()
	tb := instr.Block()
	var out []Guard
	for _, b := range fn.Blocks {
		if len(b.Instrs) == 0 {
			continue
		}
		iff, ok := b.Instrs[len(b.Instrs)-1].(*ssa.If)
		if !ok || len(b.Succs) != 2 || b.Succs[0] == b.Succs[1] {
			continue
		}
		if b == tb || (prune == nil && !b.Dominates(tb)) {
			continue
		}
		// if removing the else-edge makes tb unreachable => the else arm is mandatory; etc.
		thenNeeded := !reachableWithoutEdgeP(fn, tb, b, 0, prune)
		elseNeeded := !reachableWithoutEdgeP(fn, tb, b, 1, prune)
		if thenNeeded && !elseNeeded {
			out = append(out, Guard{iff, true})
		} else if elseNeeded && !thenNeeded {
			out = append(out, Guard{iff, false})
		}
	}
	// inside a transparent helper: whatever guards its only call site guards this instruction too
	if c := helperCall(fn); c != nil && guardDepth < 6 {
		guardDepth++
		out = append(out, GuardsOfP(c, prune)...)
		guardDepth--
	}
	return out
}

var guardDepth int

// A Fact is a guard's condition oriented to the arm taken:
// either a comparison X Op Y that holds, or a boolean value that is True/False.
type Fact struct {
	Op   token.Token // 0 for plain boolean
	X, Y ssa.Value
	Bool ssa.Value
	True bool
	If   *ssa.If
}

func negateOp(op token.Token) token.Token {
	switch op {
	case token.EQL:
		return token.NEQ
	case token.NEQ:
		return token.EQL
	case token.LSS:
		return token.GEQ
	case token.GEQ:
		return token.LSS
	case token.GTR:
		return token.LEQ
	case token.LEQ:
		return token.GTR
	}
	return op
}

func factOf(g Guard) Fact {
	v := g.If.Cond
	arm := g.Arm
	for {
		if u, ok := v.(*ssa.UnOp); ok && u.Op == token.NOT {
			v = u.X
			arm = !arm
			continue
		}
		break
	}
	if b, ok := v.(*ssa.BinOp); ok {
		switch b.Op {
		case token.EQL, token.NEQ, token.LSS, token.LEQ, token.GTR, token.GEQ:
			op := b.Op
			if !arm {
				op = negateOp(op)
			}
			// comparison of a boolean with a constant: reduce to a boolean fact
			if op == token.EQL || op == token.NEQ {
				for _, pr := range [][2]ssa.Value{{b.X, b.Y}, {b.Y, b.X}} {
					if k, ok := pr[1].(*ssa.Const); ok && k.Value != nil && k.Value.Kind() == constant.Bool {
						val := constant.BoolVal(k.Value)
						if op == token.NEQ {
							val = !val
						}
						return factOf2(pr[0], val, g.If)
					}
				}
			}
			return Fact{Op: op, X: b.X, Y: b.Y, If: g.If}
		}
	}
	return Fact{Bool: v, True: arm, If: g.If}
}

// factOf2: boolean value v is known to equal val.
func factOf2(v ssa.Value, val bool, iff *ssa.If) Fact {
	g := Guard{If: &ssa.If{Cond: v}, Arm: val}
	f := factOf(g)
	f.If = iff
	return f
}

// FactsAtP: facts under an edge pruning.
func FactsAtP(instr ssa.Instruction, prune EdgePrune) []Fact {
	var out []Fact
	for _, g := range GuardsOfP(instr, prune) {
		f := factOf(g)
		out = append(out, f)
		out = append(out, helperOutcomeFacts(f, 0)...)
	}
	return withMirrored(out)
}

// nilnessPrune builds an EdgePrune from a decision procedure for "value is nil?" (known, isNil).
func nilnessPrune(isNil func(v ssa.Value) (known bool, nilv bool)) EdgePrune {
	return func(b *ssa.BasicBlock, succ int) bool {
		if len(b.Instrs) == 0 {
			return false
		}
		iff, ok := b.Instrs[len(b.Instrs)-1].(*ssa.If)
		if !ok {
			return false
		}
		f := factOf(Guard{iff, succ == 0})
		if f.Op != token.EQL && f.Op != token.NEQ {
			return false
		}
		x, y := f.X, f.Y
		if isNilConst(x) {
			x, y = y, x
		}
		if !isNilConst(y) {
			return false
		}
		known, nv := isNil(x)
		if !known {
			return false
		}
		// the fact claims x == nil (EQL) or x != nil (NEQ) on this edge; the edge is dead if that contradicts
		if f.Op == token.EQL {
			return !nv
		}
		return nv
	}
}

// FactsAt returns the facts that hold whenever instr executes.
func FactsAt(instr ssa.Instruction) []Fact { return factsAtDepth(instr, 0) }

func factsAtDepth(instr ssa.Instruction, depth int) []Fact {
	var out []Fact
	var base []Fact
	for _, g := range GuardsOf(instr) {
		f := factOf(g)
		out = append(out, f)
		base = append(base, f)
		// a branch on the outcome of a transparent predicate helper: what its returns establish
		out = append(out, helperOutcomeFacts(f, depth)...)
	}
	out = append(out, jointEnumFacts(base, depth)...)
	return withMirrored(out)
}

// withMirrored adds, for every comparison fact X op Y, the same fact written Y op' X: a rule that looks
// for `count ≤ limit` also finds `limit ≥ count`.
func withMirrored(fs []Fact) []Fact {
	n := len(fs)
	for i := 0; i < n; i++ {
		f := fs[i]
		if f.Op == 0 || f.X == nil || f.Y == nil {
			continue
		}
		m := f
		m.X, m.Y, m.Op = f.Y, f.X, flipOp(f.Op)
		fs = append(fs, m)
	}
	return fs
}

// commaOK: v is the boolean (index 1) extracted from a comma-ok producing
// instruction (map lookup, type assertion, receive); returns that instruction.
func commaOK(v ssa.Value) (ssa.Value, bool) {
	e, ok := v.(*ssa.Extract)
	if !ok || e.Index != 1 {
		return nil, false
	}
	switch t := e.Tuple.(type) {
	case *ssa.Lookup:
		if t.CommaOk {
			return t, true
		}
	case *ssa.TypeAssert:
		if t.CommaOk {
			return t, true
		}
	case *ssa.UnOp:
		if t.CommaOk {
			return t, true
		}
	}
	return nil, false
}

// ---------------------------------------------------------------------------
// value rendering (for obligation keys / reports; not used for decisions)

func render(v ssa.Value) string { return renderDepth(v, 0) }

func renderDepth(v ssa.Value, d int) string {
	if v == nil {
		return "nil"
	}
	if d > 6 {
		return "…"
	}
	if sub, ok := renderSubst[v]; ok && sub != nil && sub != v {
		return renderDepth(sub, d+1)
	}
	if renderCanon > 0 && renderLocalParams == 0 {
		// a field of a parameter object of a transparent helper: what the only caller put there
		if p, _ := paramObjectField(v); p != nil && helperCall(p.Parent()) != nil {
			if sv := strip(v); sv != v {
				return renderDepth(sv, d+1)
			}
		}
	}
	switch x := v.(type) {
	case *ssa.Const:
		if x.Value == nil {
			return "nil"
		}
		return x.Value.ExactString()
	case *ssa.Parameter:
		if renderCanon > 0 {
			// parameter of a transparent helper: what the only caller passes
			if c := helperCall(x.Parent()); c != nil && renderLocalParams == 0 {
				if idx := paramIndex(x); idx >= 0 && idx < len(c.Call.Args) {
					return renderDepth(c.Call.Args[idx], d+1)
				}
			}
			return canonType(x.Type())
		}
		return x.Name()
	case *ssa.FreeVar:
		if renderCanon > 0 {
			return canonType(x.Type())
		}
		return x.Name()
	case *ssa.Global:
		return x.Name()
	case *ssa.Function:
		return x.Name()
	case *ssa.Alloc:
		if renderCanon > 0 {
			return "&" + canonType(x.Type().Underlying().(*types.Pointer).Elem())
		}
		if x.Comment != "" {
			return "&" + x.Comment
		}
		return "&alloc"
	case *ssa.UnOp:
		if x.Op == token.MUL {
			if fa, ok := x.X.(*ssa.FieldAddr); ok {
				return renderDepth(fa.X, d+1) + "." + fieldOfAddr(fa).Name()
			}
			if a, ok := x.X.(*ssa.Alloc); ok && renderCanon > 0 {
				if p := spilledParam(x); p != nil {
					return renderDepth(p, d+1)
				}
				return canonType(a.Type().Underlying().(*types.Pointer).Elem())
			}
			if fv, ok := x.X.(*ssa.FreeVar); ok && renderCanon > 0 {
				// a variable captured by reference: the variable, by its type (as for a local cell)
				return canonType(fv.Type().Underlying().(*types.Pointer).Elem())
			}
			if a, ok := x.X.(*ssa.Alloc); ok && a.Comment != "" {
				return a.Comment
			}
			if ia, ok := x.X.(*ssa.IndexAddr); ok {
				return renderDepth(ia.X, d+1) + "[" + renderDepth(ia.Index, d+1) + "]"
			}
			return "*" + renderDepth(x.X, d+1)
		}
		return x.Op.String() + renderDepth(x.X, d+1)
	case *ssa.FieldAddr:
		return "&" + renderDepth(x.X, d+1) + "." + fieldOfAddr(x).Name()
	case *ssa.Field:
		st := x.X.Type().Underlying().(*types.Struct)
		return renderDepth(x.X, d+1) + "." + st.Field(x.Field).Name()
	case *ssa.BinOp:
		return "(" + renderDepth(x.X, d+1) + " " + x.Op.String() + " " + renderDepth(x.Y, d+1) + ")"
	case *ssa.Call:
		var args []string
		for _, a := range x.Call.Args {
			args = append(args, renderDepth(a, d+1))
		}
		name := "call"
		if x.Call.IsInvoke() {
			name = renderDepth(x.Call.Value, d+1) + "." + x.Call.Method.Name()
		} else if b, ok := x.Call.Value.(*ssa.Builtin); ok {
			name = b.Name()
		} else if f := staticCallee(&x.Call); f != nil {
			name = f.Name()
		} else {
			name = renderDepth(x.Call.Value, d+1)
		}
		return name + "(" + strings.Join(args, ", ") + ")"
	case *ssa.Extract:
		return fmt.Sprintf("%s#%d", renderDepth(x.Tuple, d+1), x.Index)
	case *ssa.Lookup:
		return renderDepth(x.X, d+1) + "[" + renderDepth(x.Index, d+1) + "]"
	case *ssa.Index:
		return renderDepth(x.X, d+1) + "[" + renderDepth(x.Index, d+1) + "]"
	case *ssa.IndexAddr:
		return "&" + renderDepth(x.X, d+1) + "[" + renderDepth(x.Index, d+1) + "]"
	case *ssa.Slice:
		lo, hi := "", ""
		if x.Low != nil {
			lo = renderDepth(x.Low, d+1)
		}
		if x.High != nil {
			hi = renderDepth(x.High, d+1)
		}
		return renderDepth(x.X, d+1) + "[" + lo + ":" + hi + "]"
	case *ssa.Convert:
		return types.TypeString(x.Type(), shortQual) + "(" + renderDepth(x.X, d+1) + ")"
	case *ssa.ChangeType:
		return renderDepth(x.X, d+1)
	case *ssa.MakeInterface:
		return renderDepth(x.X, d+1)
	case *ssa.TypeAssert:
		return renderDepth(x.X, d+1) + ".(" + types.TypeString(x.AssertedType, shortQual) + ")"
	case *ssa.Phi:
		if renderCanon > 0 {
			return "φ" + canonType(x.Type())
		}
		if x.Comment != "" {
			return x.Comment
		}
		return "φ"
	case *ssa.MakeClosure:
		return "closure:" + x.Fn.Name()
	case *ssa.MakeMap:
		return "make(map)"
	case *ssa.MakeSlice:
		return "make(slice)"
	case *ssa.MakeChan:
		return "make(chan)"
	}
	return v.Name()
}

func shortQual(p *types.Package) string { return p.Name() }

// renderSubst: values rendered as other values (a helper's parameter as the argument of the calling
// context under consideration).
var renderSubst = map[ssa.Value]ssa.Value{}

// renderLocalParams: canonical rendering without looking through the parameters of transparent helpers.
var renderLocalParams int

// renderCanon > 0: render local names (parameters, locals, captured variables) as their types, so that
// a rendering can key a frozen reason without depending on how a variable is called.
var renderCanon int

func canonType(t types.Type) string { return "‹" + types.TypeString(t, shortQual) + "›" }

// ---------------------------------------------------------------------------
// linear normal form  Σ c_i·term_i + k   (terms keyed by a type/role based string)

type Lin struct {
	Terms map[string]int64
	K     int64
	OK    bool
}

func (l Lin) String() string {
	var ks []string
	for k := range l.Terms {
		if l.Terms[k] != 0 {
			ks = append(ks, k)
		}
	}
	sort.Strings(ks)
	var sb strings.Builder
	for _, k := range ks {
		fmt.Fprintf(&sb, "%+d·%s ", l.Terms[k], k)
	}
	fmt.Fprintf(&sb, "%+d", l.K)
	return sb.String()
}

func linAdd(a, b Lin, sign int64) Lin {
	out := Lin{Terms: map[string]int64{}, K: a.K + sign*b.K, OK: a.OK && b.OK}
	for k, v := range a.Terms {
		out.Terms[k] += v
	}
	for k, v := range b.Terms {
		out.Terms[k] += sign * v
	}
	return out
}

// termKey names an atomic integer term by role, independent of local names.
func termKey(v ssa.Value) string {
	v = strip(v)
	if x, ok := lenOperand(v); ok {
		x = strip(x)
		if _, f, ok := fieldLoad(x); ok {
			return "len(field " + fieldKey(f) + ")"
		}
		return "len(" + types.TypeString(x.Type(), shortQual) + ")"
	}
	if _, f, ok := fieldLoad(v); ok {
		return "field " + fieldKey(f)
	}
	if p, ok := v.(*ssa.Parameter); ok {
		for i, q := range p.Parent().Params {
			if q == p {
				return fmt.Sprintf("param%d:%s", i, types.TypeString(p.Type(), shortQual))
			}
		}
	}
	if fv, ok := v.(*ssa.FreeVar); ok {
		return "freevar:" + fv.Name() + ":" + types.TypeString(fv.Type(), shortQual)
	}
	return "opaque:" + v.Name() + ":" + render(v)
}

func fieldKey(f *types.Var) string {
	// owner struct name is not directly available from the Var; use pkg + name
	if f.Pkg() != nil {
		return f.Pkg().Name() + "." + f.Name()
	}
	return f.Name()
}

func linOf(v ssa.Value) Lin {
	v = strip(v)
	if c, ok := constInt(v); ok {
		return Lin{Terms: map[string]int64{}, K: c, OK: true}
	}
	// a getter shared by several callers (`func (e *entry) vouchers() int { return len(e.idSet) }`):
	// the expression it returns (terms are keyed by field, not by object, so no substitution is needed)
	if cl, ok := v.(*ssa.Call); ok {
		if g := cl.Call.StaticCallee(); g != nil && pureGetter(g) {
			for _, in := range g.Blocks[0].Instrs {
				if r, ok := in.(*ssa.Return); ok && len(r.Results) == 1 {
					return linOf(r.Results[0])
				}
			}
		}
	}
	if b, ok := v.(*ssa.BinOp); ok {
		switch b.Op {
		case token.ADD:
			return linAdd(linOf(b.X), linOf(b.Y), 1)
		case token.SUB:
			return linAdd(linOf(b.X), linOf(b.Y), -1)
		case token.MUL:
			if k, ok := constInt(b.Y); ok {
				return linScale(linOf(b.X), k)
			}
			if k, ok := constInt(b.X); ok {
				return linScale(linOf(b.Y), k)
			}
		}
	}
	if cv, ok := v.(*ssa.Convert); ok && intWidth(cv.X.Type()) > 0 && intWidth(cv.Type()) > 0 {
		// narrowing conversion: keep as the converted term (opaque)
		return Lin{Terms: map[string]int64{termKey(cv.X): 1}, OK: true}
	}
	return Lin{Terms: map[string]int64{termKey(v): 1}, OK: true}
}

// linFact normalises fact "X op Y" to (X - Y) op 0.
func linFact(f Fact) (Lin, token.Token, bool) {
	if f.Op == 0 {
		return Lin{}, 0, false
	}
	if intWidth(f.X.Type()) == 0 && !isUntypedInt(f.X.Type()) {
		return Lin{}, 0, false
	}
	return linAdd(linOf(f.X), linOf(f.Y), -1), f.Op, true
}

func isUntypedInt(t types.Type) bool {
	b, ok := t.(*types.Basic)
	return ok && b.Kind() == types.UntypedInt
}

// linEq compares a normal form with an expected one (terms must match exactly).
func linEq(l Lin, terms map[string]int64, k int64) bool {
	if l.K != k {
		return false
	}
	for t, c := range terms {
		if l.Terms[t] != c {
			return false
		}
	}
	for t, c := range l.Terms {
		if c != 0 {
			if _, ok := terms[t]; !ok {
				return false
			}
		}
	}
	return true
}

// linNeg returns -l.
func linNeg(l Lin) Lin {
	return linAdd(Lin{Terms: map[string]int64{}, OK: true}, l, -1)
}

func flipOp(op token.Token) token.Token {
	switch op {
	case token.LSS:
		return token.GTR
	case token.GTR:
		return token.LSS
	case token.LEQ:
		return token.GEQ
	case token.GEQ:
		return token.LEQ
	}
	return op
}

// matchLin: does fact f say  Σterms + k  op  0  for op in ops (trying both orientations)?
func matchLin(f Fact, terms map[string]int64, k int64, ops ...token.Token) bool {
	l, op, ok := linFact(f)
	if !ok {
		return false
	}
	in := func(o token.Token) bool {
		for _, x := range ops {
			if x == o {
				return true
			}
		}
		return false
	}
	if linEq(l, terms, k) && in(op) {
		return true
	}
	if linEq(linNeg(l), terms, k) && in(flipOp(op)) {
		return true
	}
	return false
}

// ---------------------------------------------------------------------------
// misc

func namedOf(t types.Type) *types.Named {
	t = types.Unalias(t)
	if p, ok := t.(*types.Pointer); ok {
		t = types.Unalias(p.Elem())
	}
	n, _ := t.(*types.Named)
	return n
}

func isNamed(t types.Type, pkg, name string) bool {
	n := namedOf(t)
	return n != nil && n.Obj().Pkg() != nil && n.Obj().Pkg().Path() == pkg && n.Obj().Name() == name
}

// exitsOf returns the blocks that end the function (Return or Panic).
func exitsOf(fn *ssa.Function) []*ssa.BasicBlock {
	var out []*ssa.BasicBlock
	for _, b := range fn.Blocks {
		if len(b.Instrs) == 0 {
			continue
		}
		switch b.Instrs[len(b.Instrs)-1].(type) {
		case *ssa.Return, *ssa.Panic:
			out = append(out, b)
		}
	}
	return out
}

// blockReaches: is `to` reachable from `from` (following successors), not passing through blocks in `stop`?
func blockReaches(from, to *ssa.BasicBlock, stop map[*ssa.BasicBlock]bool) bool {
	seen := map[*ssa.BasicBlock]bool{}
	stack := []*ssa.BasicBlock{from}
	for len(stack) > 0 {
		b := stack[len(stack)-1]
		stack = stack[:len(stack)-1]
		if seen[b] {
			continue
		}
		seen[b] = true
		if b == to {
			return true
		}
		if stop[b] && b != from {
			continue
		}
		stack = append(stack, b.Succs...)
	}
	return false
}

// sameValue: a and b are the same SSA value, or two loads of one local cell
// all of whose writes happen before both loads (so they read the same value).
func sameValue(a, b ssa.Value) bool {
	a, b = strip(a), strip(b)
	if a == b {
		return true
	}
	if fa, ok := a.(*ssa.FieldAddr); ok {
		// two computations of the same field address
		if fb, ok := b.(*ssa.FieldAddr); ok && fieldOfAddr(fa) == fieldOfAddr(fb) {
			return sameValue(fa.X, fb.X)
		}
		return false
	}
	la, oka := a.(*ssa.UnOp)
	lb, okb := b.(*ssa.UnOp)
	if !oka || !okb || la.Op != token.MUL || lb.Op != token.MUL {
		// loads of the same field of the same (unmodified) object
		return false
	}
	if fa, ok := la.X.(*ssa.FieldAddr); ok {
		if fb, ok := lb.X.(*ssa.FieldAddr); ok && fieldOfAddr(fa) == fieldOfAddr(fb) && sameValue(fa.X, fb.X) {
			return noFieldStoreBetween(la, lb, fieldOfAddr(fa))
		}
		return false
	}
	// two reads of the same element xs[i] (same slice value, same index value) in a function that never
	// stores into an element of that slice
	if ia, ok := la.X.(*ssa.IndexAddr); ok {
		ib, ok := lb.X.(*ssa.IndexAddr)
		if !ok || !(strip(ia.X) == strip(ib.X) || sameValue(ia.X, ib.X)) {
			return false
		}
		ka, oka := constInt(ia.Index)
		kb, okb := constInt(ib.Index)
		if !((oka && okb && ka == kb) || strip(ia.Index) == strip(ib.Index)) {
			return false
		}
		for _, in := range instrsOf(la.Parent()) {
			if st, ok := in.(*ssa.Store); ok {
				if sa, ok := st.Addr.(*ssa.IndexAddr); ok && (strip(sa.X) == strip(ia.X)) {
					return false
				}
			}
		}
		return la.Parent() == lb.Parent()
	}
	aa, ok1 := la.X.(*ssa.Alloc)
	ab, ok2 := lb.X.(*ssa.Alloc)
	if !ok1 || !ok2 || aa != ab {
		return false
	}
	refs := aa.Referrers()
	if refs == nil {
		return true
	}
	for _, r := range *refs {
		var writes []ssa.Instruction
		switch x := r.(type) {
		case *ssa.Store:
			if x.Addr == aa {
				writes = append(writes, x)
			}
		case *ssa.FieldAddr:
			if rr := x.Referrers(); rr != nil {
				for _, q := range *rr {
					if st, ok := q.(*ssa.Store); ok && st.Addr == x {
						writes = append(writes, st)
					} else if _, ok := q.(*ssa.UnOp); !ok {
						return false // address escapes
					}
				}
			}
		case *ssa.UnOp:
		default:
			return false // escapes (call argument, closure binding, ...)
		}
		for _, w := range writes {
			if !instrDominates(w, la) || !instrDominates(w, lb) {
				return false
			}
		}
	}
	return true
}

// noFieldStoreBetween: conservative — no store to field f anywhere in the
// function that is not dominating both loads.
func noFieldStoreBetween(la, lb *ssa.UnOp, f *types.Var) bool {
	for _, in := range instrsOf(la.Parent()) {
		st, ok := in.(*ssa.Store)
		if !ok {
			continue
		}
		fa, ok := st.Addr.(*ssa.FieldAddr)
		if !ok || fieldOfAddr(fa) != f {
			continue
		}
		if !(instrDominates(st, la) && instrDominates(st, lb)) {
			return false
		}
	}
	return true
}

// retResult returns the i-th result of a return, looking through the result
// spill that go/ssa introduces in functions with defers
// (`*r = v; rundefers; t = *r; return t`).
func retResult(r *ssa.Return, i int) ssa.Value {
	v := r.Results[i]
	ld, ok := v.(*ssa.UnOp)
	if !ok || ld.Op != token.MUL {
		return v
	}
	a, ok := ld.X.(*ssa.Alloc)
	if !ok {
		return v
	}
	instrs := r.Block().Instrs
	for k := len(instrs) - 1; k >= 0; k-- {
		if st, ok := instrs[k].(*ssa.Store); ok && st.Addr == ssa.Value(a) {
			return st.Val
		}
	}
	// stored in a dominating block: unique store reaching here
	var only ssa.Value
	n := 0
	if refs := a.Referrers(); refs != nil {
		for _, q := range *refs {
			if st, ok := q.(*ssa.Store); ok && st.Addr == ssa.Value(a) && instrDominates(st, r) {
				only = st.Val
				n++
			}
		}
	}
	if n == 1 {
		return only
	}
	return v
}

func retResults(r *ssa.Return) []ssa.Value {
	out := make([]ssa.Value, len(r.Results))
	for i := range r.Results {
		out[i] = retResult(r, i)
	}
	return out
}

// chainTo follows a chain of single-input transformations (conversions, calls
// with one non-constant input, extracts) from v towards a value satisfying
// pred. A φ or a multi-input operation breaks the chain: the value is then not
// a function of that source alone.
func chainTo(v ssa.Value, pred func(ssa.Value) bool) bool {
	for i := 0; i < 12; i++ {
		if pred(v) {
			return true
		}
		switch x := v.(type) {
		case *ssa.Convert:
			v = x.X
		case *ssa.ChangeType:
			v = x.X
		case *ssa.MakeInterface:
			v = x.X
		case *ssa.Extract:
			v = x.Tuple
		case *ssa.UnOp:
			if x.Op != token.MUL {
				v = x.X
				continue
			}
			if al, isAl := x.X.(*ssa.Alloc); isAl {
				// a local captured by a closure lives in a cell: follow it when it is assigned once
				if sts := storesToCell(al); len(sts) == 1 {
					v = sts[0].Val
					continue
				}
				return false
			}
			fa, ok := x.X.(*ssa.FieldAddr)
			if !ok {
				return false
			}
			v = fa.X
		case *ssa.Field:
			v = x.X
		case *ssa.Call:
			var in ssa.Value
			n := 0
			ops := x.Call.Args
			if x.Call.IsInvoke() {
				ops = append([]ssa.Value{x.Call.Value}, ops...)
			}
			for _, a := range ops {
				if _, isK := a.(*ssa.Const); isK {
					continue
				}
				in = a
				n++
			}
			if n != 1 {
				return false
			}
			v = in
		default:
			return false
		}
	}
	return false
}

func linScale(l Lin, k int64) Lin {
	out := Lin{Terms: map[string]int64{}, K: l.K * k, OK: l.OK}
	for t, c := range l.Terms {
		out.Terms[t] = c * k
	}
	return out
}

// GuardsLocal: the guards of instr inside its own function only (no call-site guards of a
// transparent helper) — for rules that mean "unconditional within this function".
func GuardsLocal(instr ssa.Instruction) []Guard {
	guardDepth += 100
	defer func() { guardDepth -= 100 }()
	return GuardsOfP(instr, nil)
}

// localStructFieldLoad: ld reads field f of a local struct variable that never escapes and whose field
// f is written exactly once before the load — by the single assignment of the whole variable
// (`handlers := s.handlersOf(topic)`: the field of the assigned value) or by the single assignment of
// that field (`h.deliver = x`).  Returns the value written, or nil.
func localStructFieldLoad(ld *ssa.UnOp) ssa.Value {
	if ld.Op != token.MUL {
		return nil
	}
	fa, ok := ld.X.(*ssa.FieldAddr)
	if !ok {
		return nil
	}
	a, ok := fa.X.(*ssa.Alloc)
	if !ok || a.Referrers() == nil {
		return nil
	}
	f := fieldOfAddr(fa)
	var whole, fieldSt *ssa.Store
	nWhole, nField := 0, 0
	for _, r := range *a.Referrers() {
		switch y := r.(type) {
		case *ssa.Store:
			if y.Addr != ssa.Value(a) {
				return nil // the variable's address is stored somewhere
			}
			whole = y
			nWhole++
		case *ssa.UnOp:
			if y.Op != token.MUL {
				return nil
			}
		case *ssa.DebugRef:
		case *ssa.FieldAddr:
			if y.Referrers() == nil {
				continue
			}
			for _, q := range *y.Referrers() {
				switch z := q.(type) {
				case *ssa.UnOp:
					if z.Op != token.MUL {
						return nil
					}
				case *ssa.Store:
					if z.Addr != ssa.Value(y) {
						return nil
					}
					if fieldOfAddr(y) == f {
						fieldSt = z
						nField++
					}
				case *ssa.DebugRef:
				default:
					return nil // the field's address is used otherwise (passed on, sliced, …)
				}
			}
		default:
			return nil
		}
	}
	switch {
	case nWhole == 1 && nField == 0:
		if !instrDominates(whole, ld) {
			return nil
		}
		fieldLook++
		v := structFieldValue(whole.Val, f, 0)
		fieldLook--
		if v == nil {
			// an opaque value (the result of a decoder): every read of this field of the variable is the
			// same value — represented by the first read
			if cl := canonicalFieldLoad(a, f); cl != nil && cl != ld {
				return cl
			}
		}
		return v
	case nWhole == 0 && nField == 1:
		if !instrDominates(fieldSt, ld) {
			return nil
		}
		return fieldSt.Val
	}
	return nil
}

// canonicalFieldLoad: the first read (in block/instruction order) of field f of the local struct
// variable a, which is assigned once as a whole and never written otherwise (wholeStoreOf).
func canonicalFieldLoad(a *ssa.Alloc, f *types.Var) *ssa.UnOp {
	if a.Referrers() == nil {
		return nil
	}
	var best *ssa.UnOp
	for _, r := range *a.Referrers() {
		fa, ok := r.(*ssa.FieldAddr)
		if !ok || fieldOfAddr(fa) != f || fa.Referrers() == nil {
			continue
		}
		for _, q := range *fa.Referrers() {
			ld, ok := q.(*ssa.UnOp)
			if !ok || ld.Op != token.MUL || wholeStoreOf(a, ld) == nil {
				continue
			}
			if best == nil || ld.Block().Index < best.Block().Index || (ld.Block() == best.Block() && instrIndex(ld) < instrIndex(best)) {
				best = ld
			}
		}
	}
	return best
}

// nestedFieldLoad: ld reads x.outer.inner where outer is a struct-typed field (an embedded or nested
// struct value, not a pointer) of a local struct variable or of a by-value parameter object of a
// transparent helper: the value the nested struct was given (`in.route = s.routeOf(topic)`), then its
// field.  Returns nil when either step is not a single assignment.
func nestedFieldLoad(ld *ssa.UnOp) ssa.Value {
	if ld.Op != token.MUL {
		return nil
	}
	fin, ok := ld.X.(*ssa.FieldAddr)
	if !ok {
		return nil
	}
	fout, ok := fin.X.(*ssa.FieldAddr)
	if !ok {
		return nil
	}
	fOut := fieldOfAddr(fout)
	if _, isS := fOut.Type().Underlying().(*types.Struct); !isS {
		return nil
	}
	cell, ok := fout.X.(*ssa.Alloc)
	if !ok || cell.Referrers() == nil {
		return nil
	}
	var outer ssa.Value
	// a by-value parameter spilled to this cell: the field of the argument
	var param *ssa.Parameter
	nWhole := 0
	for _, r := range *cell.Referrers() {
		if st, isSt := r.(*ssa.Store); isSt && st.Addr == ssa.Value(cell) {
			nWhole++
			param, _ = st.Val.(*ssa.Parameter)
		}
	}
	fieldLook++
	defer func() { fieldLook-- }()
	switch {
	case nWhole == 1 && param != nil:
		if !cellFieldsOnlyRead(cell) {
			return nil
		}
		c := helperCall(param.Parent())
		idx := paramIndex(param)
		if c == nil || idx < 0 || idx >= len(c.Call.Args) {
			return nil
		}
		outer = structFieldValue(c.Call.Args[idx], fOut, 0)
	case nWhole == 0:
		// a local variable: the single assignment of the nested struct, before this read
		var st *ssa.Store
		n := 0
		for _, r := range *cell.Referrers() {
			fa, isFA := r.(*ssa.FieldAddr)
			if !isFA || fieldOfAddr(fa) != fOut || fa.Referrers() == nil {
				continue
			}
			for _, q := range *fa.Referrers() {
				switch z := q.(type) {
				case *ssa.Store:
					if z.Addr == ssa.Value(fa) {
						st = z
						n++
					}
				case *ssa.FieldAddr:
					// a field of the nested struct written on its own: not a single assignment
					if z.Referrers() != nil {
						for _, w := range *z.Referrers() {
							if sw, isSw := w.(*ssa.Store); isSw && sw.Addr == ssa.Value(z) {
								return nil
							}
						}
					}
				}
			}
		}
		if n != 1 || !instrDominates(st, ld) {
			return nil
		}
		outer = st.Val
	default:
		return nil
	}
	if outer == nil {
		return nil
	}
	return structFieldValue(outer, fieldOfAddr(fin), 0)
}

// cellFieldsOnlyRead: nothing is stored through the cell or any (nested) field address of it, and its
// address does not escape (loads, field addresses and debug references only).
func cellFieldsOnlyRead(cell *ssa.Alloc) bool {
	var ok func(v ssa.Value, d int) bool
	ok = func(v ssa.Value, d int) bool {
		refs := v.Referrers()
		if refs == nil || d > 3 {
			return d <= 3
		}
		for _, r := range *refs {
			switch y := r.(type) {
			case *ssa.UnOp:
				if y.Op != token.MUL {
					return false
				}
			case *ssa.DebugRef:
			case *ssa.FieldAddr:
				if !ok(y, d+1) {
					return false
				}
			case *ssa.Store:
				if v == ssa.Value(cell) && y.Addr == v && d == 0 {
					continue // the spill of the parameter itself
				}
				return false
			default:
				return false
			}
		}
		return true
	}
	return ok(cell, 0)
}

// pureGetter: an own function of one block and one result that only reads fields of its parameters
// (loads, field selections, len/cap) — no stores, no calls, no captured state.
func pureGetter(g *ssa.Function) bool {
	if g == nil || len(g.Blocks) != 1 || len(g.FreeVars) > 0 || g.Signature.Results().Len() != 1 || !ownPkgPath(pkgPathOf(g)) {
		return false
	}
	for _, in := range g.Blocks[0].Instrs {
		switch x := in.(type) {
		case *ssa.UnOp, *ssa.Return, *ssa.Field, *ssa.FieldAddr, *ssa.Convert, *ssa.ChangeType, *ssa.DebugRef, *ssa.BinOp:
		case *ssa.Call:
			bi, ok := x.Call.Value.(*ssa.Builtin)
			if !ok || (bi.Name() != "len" && bi.Name() != "cap") {
				return false
			}
		default:
			return false
		}
	}
	return true
}
