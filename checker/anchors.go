package main

// Anchor resolution helpers shared by several properties.

import (
	"go/token"
	"go/types"

	"golang.org/x/tools/go/ssa"
)

// mustFunc resolves a function anchor or records an analysis failure.
func (c *Ctx) mustFunc(m *Module, pkg, recv, name string) *ssa.Function {
	if m == nil {
		return nil
	}
	f := m.Func(pkg, recv, name)
	if f == nil || f.Blocks == nil {
		who := name
		if recv != "" {
			who = recv + "." + name
		}
		c.Fatalf("anchor", "cannot resolve function %s.%s in the current tree", pkg, who)
		return nil
	}
	c.Analysed(FuncName(f))
	return f
}

func (c *Ctx) mustField(m *Module, pkg, typ, field string) *types.Var {
	if m == nil {
		return nil
	}
	f := m.Field(pkg, typ, field)
	if f == nil {
		c.Fatalf("anchor", "cannot resolve field %s.%s.%s in the current tree", pkg, typ, field)
	}
	return f
}

func (c *Ctx) mustType(m *Module, pkg, name string) *types.Named {
	if m == nil {
		return nil
	}
	t := m.LookupType(pkg, name)
	if t == nil {
		c.Fatalf("anchor", "cannot resolve type %s.%s in the current tree", pkg, name)
	}
	return t
}

// mapUpdatesOfType: all MapUpdate instructions in fns whose map has the given named type.
func mapUpdatesOfType(fns []*ssa.Function, t *types.Named) []*ssa.MapUpdate {
	var out []*ssa.MapUpdate
	for _, fn := range fns {
		for _, in := range instrsOf(fn) {
			if mu, ok := in.(*ssa.MapUpdate); ok {
				if n := namedOf(mu.Map.Type()); n != nil && n.Obj() == t.Obj() {
					out = append(out, mu)
				}
			}
		}
	}
	return out
}

// mapUpdatesOfField: MapUpdate instructions whose map operand is a load of field f.
func mapUpdatesOfField(fns []*ssa.Function, f *types.Var) []*ssa.MapUpdate {
	var out []*ssa.MapUpdate
	for _, fn := range fns {
		for _, in := range instrsOf(fn) {
			if mu, ok := in.(*ssa.MapUpdate); ok && isLoadOfField(mu.Map, f) {
				out = append(out, mu)
			}
		}
	}
	return out
}

// tableStore is one place where an entry is put into the map held in field f: the MapUpdate itself or,
// when it sits in a table helper that is given the map (mapParamOfField), each call of that helper —
// with the key and the value as seen at that place.
type tableStore struct {
	mu       *ssa.MapUpdate
	at       ssa.Instruction // mu, or the call of the helper
	key, val ssa.Value
}

func tableStoresOfField(fns []*ssa.Function, f *types.Var) []tableStore {
	var out []tableStore
	for _, mu := range mapUpdatesOfField(fns, f) {
		g := mu.Parent()
		if _, g2, ok := fieldLoad(stripNoParam(mu.Map)); (ok && g2 == f) || !mapParamOfField(mu.Map, f, 0) {
			out = append(out, tableStore{mu: mu, at: mu, key: mu.Key, val: mu.Value})
			continue
		}
		arg := func(c ssa.CallInstruction, v ssa.Value) ssa.Value {
			// through conversions to the helper's parameter (`table[string(topic)] = h`)
			sv := stripNoParam(v)
			if p, ok := sv.(*ssa.Parameter); ok && p.Parent() == g {
				if i := paramIndex(p); i >= 0 && i < len(c.Common().Args) {
					return c.Common().Args[i]
				}
			}
			return v
		}
		for _, c := range staticCallersOf[g] {
			out = append(out, tableStore{mu: mu, at: c.(ssa.Instruction), key: arg(c, mu.Key), val: arg(c, mu.Value)})
		}
	}
	return out
}

// fmStore is a store into the map held in a struct field: `x.f[k] = v` itself, or a call of a helper
// that stores into a map parameter for which this call passes x.f (`recordOnce(x.f, …, v, k)`).
type fmStore struct {
	mu   *ssa.MapUpdate
	call *ssa.Call // nil: the store is written in place
}

// at: the instruction whose guards decide whether the store happens in the analysed function.
func (s fmStore) at() ssa.Instruction {
	if s.call != nil {
		return s.call
	}
	return s.mu
}

// resolve: a value of the storing helper, seen from the call (a parameter becomes the argument).
func (s fmStore) resolve(v ssa.Value) ssa.Value {
	if s.call == nil {
		return strip(v)
	}
	noParamLook++
	sv := strip(v)
	noParamLook--
	if p, ok := sv.(*ssa.Parameter); ok && p.Parent() == s.mu.Parent() {
		if i := paramIndex(p); i >= 0 && i < len(s.call.Call.Args) {
			return strip(s.call.Call.Args[i])
		}
	}
	return sv
}

// sameMap: m (a value in the frame of the store) is the map stored into.
func (s fmStore) sameMap(m ssa.Value, f *types.Var) bool {
	if s.call == nil {
		return isLoadOfField(m, f)
	}
	noParamLook++
	defer func() { noParamLook-- }()
	return strip(m) == strip(s.mu.Map)
}

func fieldMapStores(fns []*ssa.Function, f *types.Var) []fmStore {
	var out []fmStore
	for _, mu := range mapUpdatesOfField(fns, f) {
		out = append(out, fmStore{mu: mu})
	}
	inFns := map[*ssa.Function]bool{}
	for _, fn := range fns {
		inFns[fn] = true
	}
	for _, fn := range fns {
		for _, in := range instrsOf(fn) {
			cl, ok := in.(*ssa.Call)
			if !ok {
				continue
			}
			g := cl.Call.StaticCallee()
			if g == nil || g.Blocks == nil || inFns[g] || !ownPkgPath(pkgPathOf(g)) || len(g.Params) != len(cl.Call.Args) {
				continue
			}
			for _, gi := range instrsOf(g) {
				mu, ok := gi.(*ssa.MapUpdate)
				if !ok {
					continue
				}
				noParamLook++
				mp, isP := strip(mu.Map).(*ssa.Parameter)
				noParamLook--
				if !isP || mp.Parent() != g {
					continue
				}
				if i := paramIndex(mp); i >= 0 && isLoadOfField(cl.Call.Args[i], f) {
					out = append(out, fmStore{mu: mu, call: cl})
				}
			}
		}
	}
	return out
}

// mapDeletesOfField: delete(x.f, k) calls.
func mapDeletesOfField(fns []*ssa.Function, f *types.Var) []ssa.CallInstruction {
	var out []ssa.CallInstruction
	for _, fn := range fns {
		for _, in := range instrsOf(fn) {
			ci, ok := in.(ssa.CallInstruction)
			if !ok {
				continue
			}
			b, ok := ci.Common().Value.(*ssa.Builtin)
			if !ok || b.Name() != "delete" {
				continue
			}
			if isLoadOfField(ci.Common().Args[0], f) {
				out = append(out, ci)
			}
		}
	}
	return out
}

// lookupsOfField: map lookups x.f[k].
func lookupsOfField(fns []*ssa.Function, f *types.Var) []*ssa.Lookup {
	var out []*ssa.Lookup
	for _, fn := range fns {
		for _, in := range instrsOf(fn) {
			if lk, ok := in.(*ssa.Lookup); ok && isLoadOfField(lk.X, f) {
				out = append(out, lk)
			}
		}
	}
	return out
}

// callsOfFuncField: calls x.f(...) of the func-typed field f.
func callsOfFuncField(fns []*ssa.Function, f *types.Var) []ssa.CallInstruction {
	var out []ssa.CallInstruction
	for _, fn := range fns {
		for _, in := range instrsOf(fn) {
			if ci, ok := in.(ssa.CallInstruction); ok && callsFuncField(ci.Common(), f) {
				out = append(out, ci)
			}
		}
	}
	return out
}

// storesToField: Store instructions through FieldAddr of f (any base).
func storesToField(fns []*ssa.Function, f *types.Var) []*ssa.Store {
	var out []*ssa.Store
	for _, fn := range fns {
		for _, in := range instrsOf(fn) {
			if st, ok := in.(*ssa.Store); ok {
				if fa, ok := st.Addr.(*ssa.FieldAddr); ok && fieldOfAddr(fa) == f {
					out = append(out, st)
				}
			}
		}
	}
	return out
}

// invokesOf: interface method invocations by method name (call, go and defer).
func invokesOf(fns []*ssa.Function, method string) []ssa.CallInstruction {
	var out []ssa.CallInstruction
	for _, fn := range fns {
		for _, in := range instrsOf(fn) {
			if ci, ok := in.(ssa.CallInstruction); ok && invokesMethod(ci.Common(), method) {
				out = append(out, ci)
			}
		}
	}
	return out
}

// staticCallsTo: call sites in fns whose static callee is target.
func staticCallsTo(fns []*ssa.Function, target *ssa.Function) []ssa.CallInstruction {
	var out []ssa.CallInstruction
	for _, fn := range fns {
		for _, in := range instrsOf(fn) {
			if ci, ok := in.(ssa.CallInstruction); ok && staticCallee(ci.Common()) == target {
				out = append(out, ci)
			}
		}
	}
	return out
}

// boundMethod: v is a method value x.M (MakeClosure of a $bound wrapper);
// returns the receiver value and the method object.
func boundMethod(v ssa.Value) (recv ssa.Value, method *types.Func, ok bool) {
	mc, isMC := resultOf(v).(*ssa.MakeClosure)
	if !isMC {
		return nil, nil, false
	}
	fn := mc.Fn.(*ssa.Function)
	if fn.Synthetic == "" || len(mc.Bindings) != 1 {
		return nil, nil, false
	}
	o, isF := fn.Object().(*types.Func)
	if !isF {
		return nil, nil, false
	}
	return mc.Bindings[0], o, true
}

// paramIndex returns the index of p among its function's parameters.
func paramIndex(p *ssa.Parameter) int {
	for i, q := range p.Parent().Params {
		if q == p {
			return i
		}
	}
	return -1
}

// structLitFieldValue: for a struct built in place (Alloc + field stores, the
// SSA form of composite literals and of `var x T; x.f = v`), the value stored
// into field f in the function; ok=false when zero or several stores exist.
func structLitFieldValue(alloc ssa.Value, f *types.Var) (ssa.Value, bool) {
	refs := alloc.Referrers()
	if refs == nil {
		return nil, false
	}
	var val ssa.Value
	n := 0
	for _, r := range *refs {
		fa, ok := r.(*ssa.FieldAddr)
		if !ok || fieldOfAddr(fa) != f {
			continue
		}
		if rr := fa.Referrers(); rr != nil {
			for _, q := range *rr {
				if st, ok := q.(*ssa.Store); ok && st.Addr == fa {
					val = st.Val
					n++
				}
			}
		}
	}
	return val, n == 1
}

// allocOfStructValue: v is `*alloc` (a struct value loaded from a local
// literal) or a pointer to it; returns the Alloc.
func allocOfStructValue(v ssa.Value) *ssa.Alloc {
	v = strip(v)
	if a, ok := v.(*ssa.Alloc); ok {
		return a
	}
	if u, ok := v.(*ssa.UnOp); ok && u.Op == token.MUL {
		if a, ok := u.X.(*ssa.Alloc); ok {
			return a
		}
	}
	return nil
}

// continuationFns returns the functions passed as continuation (argument #1)
// to an invoke of Synchronize in fns, with the invoking instruction.
func continuationFns(sl *Slicer, fns []*ssa.Function) map[*ssa.Function]ssa.CallInstruction {
	out := map[*ssa.Function]ssa.CallInstruction{}
	for _, ci := range invokesOf(fns, "Synchronize") {
		args := ci.Common().Args
		if len(args) < 2 {
			continue
		}
		if f := sl.localClosureCallee(args[1]); f != nil {
			out[f] = ci
		}
	}
	return out
}

// enclosingChain returns fn and its lexically enclosing functions.
func enclosingChain(fn *ssa.Function) []*ssa.Function {
	var out []*ssa.Function
	for f, i := fn, 0; f != nil && i < 24; f, i = enclosingFn(f), i+1 {
		out = append(out, f)
	}
	return out
}

// structFieldValue resolves the value of field f of struct value v when v is
// built in place: a load of an Alloc that received field stores, or a
// whole-struct copy of such a value. Returns nil when it cannot be resolved
// uniquely.
func structFieldValue(v ssa.Value, f *types.Var, depth int) ssa.Value {
	if depth > 4 {
		return nil
	}
	v = strip(v)
	var alloc *ssa.Alloc
	switch x := v.(type) {
	case *ssa.Alloc:
		alloc = x
	case *ssa.UnOp:
		if x.Op == token.MUL {
			if a, ok := x.X.(*ssa.Alloc); ok {
				alloc = a
			}
		}
	case *ssa.Parameter:
		return nil
	case *ssa.Extract:
		// `hdr, err := decodeHeader(…)`: the struct a transparent helper returns together with a nil
		// error (or true) — its single successful return
		cl, ok := x.Tuple.(*ssa.Call)
		if !ok {
			return nil
		}
		g := cl.Call.StaticCallee()
		if g == nil || helperSite[g] != cl {
			return nil
		}
		res := g.Signature.Results()
		last := res.Len() - 1
		if x.Index >= last {
			return nil
		}
		isErr := types.Identical(res.At(last).Type(), types.Universe.Lookup("error").Type())
		var succ *ssa.Return
		for _, in := range instrsOf(g) {
			r, isR := in.(*ssa.Return)
			if !isR {
				continue
			}
			lv := retResult(r, last)
			if isErr && !isNilConst(lv) {
				continue
			}
			if !isErr {
				if k, isK := lv.(*ssa.Const); isK && k.Value != nil && k.Value.String() == "false" {
					continue
				}
			}
			if succ != nil {
				return nil
			}
			succ = r
		}
		if succ == nil {
			return nil
		}
		return structFieldValue(retResult(succ, x.Index), f, depth+1)
	case *ssa.Call:
		// a constructor helper: an own function with a single return of a struct built from its
		// parameters — the field's value is the corresponding argument of this call
		g := x.Call.StaticCallee()
		if g == nil || g.Blocks == nil || !ownPkgPath(pkgPathOf(g)) {
			return nil
		}
		var ret *ssa.Return
		for _, in := range instrsOf(g) {
			if r, ok := in.(*ssa.Return); ok {
				if ret != nil {
					return nil
				}
				ret = r
			}
		}
		if ret == nil || len(ret.Results) != 1 {
			return nil
		}
		noParamLook++
		inner := structFieldValue(retResult(ret, 0), f, depth+1)
		noParamLook--
		if inner == nil {
			return nil
		}
		noParamLook++
		si := strip(inner)
		noParamLook--
		if p, ok := si.(*ssa.Parameter); ok && p.Parent() == g {
			if idx := paramIndex(p); idx >= 0 && idx < len(x.Call.Args) {
				return x.Call.Args[idx]
			}
			return nil
		}
		if _, ok := si.(*ssa.Const); ok {
			return inner
		}
		if helperSite[g] == x {
			return inner // a transparent helper: its body is read as part of the caller
		}
		return nil
	}
	if alloc == nil {
		return nil
	}
	if val, ok := structLitFieldValue(alloc, f); ok {
		return val
	}
	// whole-struct stores
	var src ssa.Value
	n := 0
	if refs := alloc.Referrers(); refs != nil {
		for _, r := range *refs {
			if st, ok := r.(*ssa.Store); ok && st.Addr == alloc {
				src = st.Val
				n++
			}
		}
	}
	if n == 1 {
		return structFieldValue(src, f, depth+1)
	}
	return nil
}
