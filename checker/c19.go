package main

// C19 — tss-lib adapters: tables vs. the dependency's routing, sender and digest binding.
// Also provides the table extraction used by C04.

import (
	"fmt"
	"go/ast"
	"go/constant"
	"go/token"
	"go/types"
	"sort"
	"strconv"
	"strings"

	"golang.org/x/tools/go/packages"
	"golang.org/x/tools/go/ssa"
)

func init() { register("C19", checkC19) }

type adapterInfo struct {
	mod, pkg, curve string // module dir, package path, "ecdsa"/"eddsa"
}

var adapters = []adapterInfo{
	{ModECDSA, PkgECDSA, "ecdsa"},
	{ModEDDSA, PkgEDDSA, "eddsa"},
}

// mapLiteral extracts a package-level `name = map[string]T{...}` literal: key -> value expression.
func mapLiteral(p *packages.Package, name string) (map[string]ast.Expr, token.Pos, bool) {
	for _, f := range p.Syntax {
		for _, d := range f.Decls {
			gd, ok := d.(*ast.GenDecl)
			if !ok || gd.Tok != token.VAR {
				continue
			}
			for _, sp := range gd.Specs {
				vs := sp.(*ast.ValueSpec)
				for i, n := range vs.Names {
					if n.Name != name || i >= len(vs.Values) {
						continue
					}
					cl, ok := vs.Values[i].(*ast.CompositeLit)
					if !ok {
						return nil, n.Pos(), false
					}
					out := map[string]ast.Expr{}
					for _, e := range cl.Elts {
						kv, ok := e.(*ast.KeyValueExpr)
						if !ok {
							return nil, n.Pos(), false
						}
						tv, ok := p.TypesInfo.Types[kv.Key]
						if !ok || tv.Value == nil || tv.Value.Kind() != constant.String {
							return nil, n.Pos(), false
						}
						k := constant.StringVal(tv.Value)
						if _, dup := out[k]; dup {
							return nil, n.Pos(), false
						}
						out[k] = kv.Value
					}
					return out, n.Pos(), true
				}
			}
		}
	}
	return nil, token.NoPos, false
}

// protoFileInfo parses the raw file descriptor embedded in a generated .pb.go
// (FileDescriptorProto: field 2 = package, field 4 = message_type{field 1 = name}).
func protoFileInfo(p *packages.Package) (pkgName string, msgs []string, ok bool) {
	for _, f := range p.Syntax {
		for _, d := range f.Decls {
			gd, isG := d.(*ast.GenDecl)
			if !isG || gd.Tok != token.VAR {
				continue
			}
			for _, sp := range gd.Specs {
				vs := sp.(*ast.ValueSpec)
				for i, n := range vs.Names {
					if !strings.HasSuffix(n.Name, "_rawDesc") || i >= len(vs.Values) {
						continue
					}
					cl, isC := vs.Values[i].(*ast.CompositeLit)
					if !isC {
						continue
					}
					var raw []byte
					for _, e := range cl.Elts {
						tv, has := p.TypesInfo.Types[e]
						if !has || tv.Value == nil {
							return "", nil, false
						}
						v, _ := constant.Int64Val(tv.Value)
						raw = append(raw, byte(v))
					}
					fields := parseProtoFields(raw)
					for _, fl := range fields {
						if fl.num == 2 && fl.wire == 2 {
							pkgName = string(fl.data)
						}
						if fl.num == 4 && fl.wire == 2 {
							for _, mf := range parseProtoFields(fl.data) {
								if mf.num == 1 && mf.wire == 2 {
									msgs = append(msgs, string(mf.data))
									break
								}
							}
						}
					}
					return pkgName, msgs, pkgName != "" && len(msgs) > 0
				}
			}
		}
	}
	return "", nil, false
}

type protoField struct {
	num  int
	wire int
	data []byte
}

func parseProtoFields(b []byte) []protoField {
	var out []protoField
	i := 0
	varint := func() (uint64, bool) {
		var v uint64
		for s := uint(0); i < len(b); s += 7 {
			c := b[i]
			i++
			v |= uint64(c&0x7f) << s
			if c < 0x80 {
				return v, true
			}
		}
		return 0, false
	}
	for i < len(b) {
		tag, ok := varint()
		if !ok {
			return out
		}
		num, wire := int(tag>>3), int(tag&7)
		switch wire {
		case 0:
			if _, ok := varint(); !ok {
				return out
			}
			out = append(out, protoField{num, wire, nil})
		case 2:
			l, ok := varint()
			if !ok || i+int(l) > len(b) {
				return out
			}
			out = append(out, protoField{num, wire, b[i : i+int(l)]})
			i += int(l)
		case 1:
			i += 8
		case 5:
			i += 4
		default:
			return out
		}
	}
	return out
}

// tssRouting reads, from the dependency's source, for every message content
// type of the package: whether its constructor routes it as broadcast.
func tssRouting(p *packages.Package) (map[string]bool, []string, error) {
	routing := map[string]bool{}
	var registry []string
	for _, f := range p.Syntax {
		for _, d := range f.Decls {
			switch x := d.(type) {
			case *ast.GenDecl:
				// _ = []tss.MessageContent{ (*T)(nil), ... }
				for _, sp := range x.Specs {
					vs, ok := sp.(*ast.ValueSpec)
					if !ok {
						continue
					}
					for _, v := range vs.Values {
						cl, ok := v.(*ast.CompositeLit)
						if !ok {
							continue
						}
						tv, ok := p.TypesInfo.Types[cl]
						if !ok {
							continue
						}
						sl, ok := tv.Type.(*types.Slice)
						if !ok || !strings.HasSuffix(sl.Elem().String(), "tss.MessageContent") {
							continue
						}
						for _, e := range cl.Elts {
							if t, ok := p.TypesInfo.Types[e]; ok {
								if n := namedOf(t.Type); n != nil {
									registry = append(registry, n.Obj().Name())
								}
							}
						}
					}
				}
			case *ast.FuncDecl:
				if x.Recv != nil || x.Body == nil || !strings.HasPrefix(x.Name.Name, "New") {
					continue
				}
				var bcast *bool
				var content string
				ast.Inspect(x.Body, func(n ast.Node) bool {
					cl, ok := n.(*ast.CompositeLit)
					if !ok {
						return true
					}
					tv, ok := p.TypesInfo.Types[cl]
					if !ok {
						return true
					}
					nt := namedOf(tv.Type)
					if nt == nil {
						return true
					}
					if nt.Obj().Name() == "MessageRouting" && strings.HasSuffix(nt.Obj().Pkg().Path(), "/tss") {
						for _, e := range cl.Elts {
							kv, ok := e.(*ast.KeyValueExpr)
							if !ok {
								continue
							}
							if id, ok := kv.Key.(*ast.Ident); ok && id.Name == "IsBroadcast" {
								if v, ok := p.TypesInfo.Types[kv.Value]; ok && v.Value != nil {
									b := constant.BoolVal(v.Value)
									bcast = &b
								}
							}
						}
					} else if nt.Obj().Pkg() == p.Types {
						// content literal: a message type of this package that implements ValidateBasic
						if ms := types.NewMethodSet(types.NewPointer(nt)); ms.Lookup(p.Types, "ValidateBasic") != nil {
							content = nt.Obj().Name()
						}
					}
					return true
				})
				if content != "" {
					if bcast == nil {
						return nil, nil, fmt.Errorf("constructor %s of %s: IsBroadcast is not a constant", x.Name.Name, p.PkgPath)
					}
					if old, dup := routing[content]; dup && old != *bcast {
						return nil, nil, fmt.Errorf("%s.%s is built with both routing classes", p.PkgPath, content)
					}
					routing[content] = *bcast
				}
			}
		}
	}
	sort.Strings(registry)
	return routing, registry, nil
}

// adapterTableNames finds the two classification tables by role, not by name: the package-level maps
// keyed by string that ClassifyMsg (with its helpers) looks up — the one with an integer value is the
// round table, the other one the broadcast set.  Falls back to the names of the reference tree.
type tableNames struct {
	rounds, bcast string
	// merged form: ONE map from type URL to a description struct (or a pointer to one) whose integer
	// field ClassifyMsg returns as the round and whose bool field it returns as the class
	merged         bool
	fRound, fBcast *types.Var
}

// descField: v (a result of ClassifyMsg) is field f of the description looked up in the merged table lk.
func descField(v ssa.Value, lk *ssa.Lookup) *types.Var {
	return descFieldN(v, lk, 0)
}

func descFieldN(v ssa.Value, lk *ssa.Lookup, depth int) *types.Var {
	base, f, ok := fieldLoad(strip(v))
	if !ok {
		// a value computed from one field of the description (the round, normalised per phase:
		// `if round > 4 { round -= 4 }`): that field, if every operand that is not a constant leads to it
		if depth > 4 {
			return nil
		}
		var ops []ssa.Value
		switch x := strip(v).(type) {
		case *ssa.Phi:
			ops = x.Edges
		case *ssa.BinOp:
			ops = []ssa.Value{x.X, x.Y}
		case *ssa.Convert:
			ops = []ssa.Value{x.X}
		default:
			return nil
		}
		var hit *types.Var
		for _, o := range ops {
			if _, isK := o.(*ssa.Const); isK {
				continue
			}
			g := descFieldN(o, lk, depth+1)
			if g == nil || (hit != nil && g != hit) {
				return nil
			}
			hit = g
		}
		return hit
	}
	b := strip(base)
	if ld, isLd := b.(*ssa.UnOp); isLd && ld.Op == token.MUL {
		b = strip(ld.X) // a struct value copied into a local
	}
	if e, isE := b.(*ssa.Extract); isE {
		b = e.Tuple
	}
	if al, isA := b.(*ssa.Alloc); isA {
		// description copied into a local: its single store
		if sts := storesToCell(al); len(sts) == 1 {
			b = strip(sts[0].Val)
			if e, isE := b.(*ssa.Extract); isE {
				b = e.Tuple
			}
		}
	}
	if b == ssa.Value(lk) {
		return f
	}
	return nil
}

var tableNamesCache = map[string]tableNames{}

func adapterTableNames(m *Module, a adapterInfo) tableNames {
	if tn, ok := tableNamesCache[a.pkg]; ok {
		return tn
	}
	tn := tableNames{rounds: "msgURL2Round", bcast: "broadcastMessages"}
	fn := m.Func(a.pkg, "party", "ClassifyMsg")
	sp := m.SSAPkg(a.pkg)
	if fn != nil && sp != nil {
		var rounds, bcast []string
		add := func(l *[]string, n string) {
			for _, x := range *l {
				if x == n {
					return
				}
			}
			*l = append(*l, n)
		}
		for _, in := range instrsDeep(fn) {
			lk, ok := in.(*ssa.Lookup)
			if !ok {
				continue
			}
			u, ok := lk.X.(*ssa.UnOp)
			if !ok || u.Op != token.MUL {
				continue
			}
			g, ok := u.X.(*ssa.Global)
			if !ok || g.Pkg != sp {
				continue
			}
			mt, ok := g.Type().(*types.Pointer).Elem().Underlying().(*types.Map)
			if !ok {
				continue
			}
			if b, ok := mt.Key().Underlying().(*types.Basic); !ok || b.Info()&types.IsString == 0 {
				continue
			}
			if b, ok := mt.Elem().Underlying().(*types.Basic); ok && b.Info()&types.IsInteger != 0 {
				add(&rounds, g.Name())
			} else {
				add(&bcast, g.Name())
			}
		}
		if len(rounds) == 1 && len(bcast) == 1 {
			tn = tableNames{rounds: rounds[0], bcast: bcast[0]}
		}
		if len(rounds) == 0 && len(bcast) == 1 {
			// one table of descriptions: the fields are those the success return hands out
			var lk *ssa.Lookup
			for _, in := range instrsDeep(fn) {
				if l, ok := in.(*ssa.Lookup); ok && globalOf(l.X) == bcast[0] {
					lk = l
				}
			}
			for _, r := range returnsDeep(fn) {
				if lk == nil || len(r.Results) != 3 || !isNilConst(retResult(r, 2)) {
					continue
				}
				fr, fb := descField(retResult(r, 0), lk), descField(retResult(r, 1), lk)
				if fr != nil && fb != nil && intWidth(fr.Type()) > 0 {
					if bt, isB := fb.Type().Underlying().(*types.Basic); isB && bt.Kind() == types.Bool {
						tn = tableNames{rounds: bcast[0], bcast: bcast[0], merged: true, fRound: fr, fBcast: fb}
					}
				}
			}
		}
	}
	tableNamesCache[a.pkg] = tn
	return tn
}

type adapterTables struct {
	rounds    map[string]int64 // url -> raw round
	broadcast map[string]bool
	expected  map[string]bool   // url -> routed as broadcast by tss-lib
	phase     map[string]string // url -> keygen|signing
	roundsPos token.Pos
	bcastPos  token.Pos
}

func loadAdapterTables(c *Ctx, a adapterInfo, rule string) *adapterTables {
	m := c.Mod(a.mod)
	if m == nil {
		return nil
	}
	p := m.Pkg(a.pkg)
	if p == nil {
		c.Fatalf("anchor", "package %s not loaded", a.pkg)
		return nil
	}
	t := &adapterTables{rounds: map[string]int64{}, broadcast: map[string]bool{}, expected: map[string]bool{}, phase: map[string]string{}}
	// the tables as package initialisation leaves them, whatever source form builds them
	sp := m.SSAPkg(a.pkg)
	ev, err := evalPackageInit(sp)
	if err != nil {
		c.Fatalf("anchor", "%s: cannot evaluate the package initialisation that builds the message tables: %v", a.pkg, err)
		return nil
	}
	tn := adapterTableNames(m, a)
	if tn.rounds != "msgURL2Round" || tn.bcast != "broadcastMessages" {
		c.Note("anchor: %s: classification tables found by role in ClassifyMsg: rounds=%s broadcast=%s", a.pkg, tn.rounds, tn.bcast)
	}
	rm, ok := ev.mapOf(sp, tn.rounds)
	if !ok {
		c.Fatalf("anchor", "%s: %s is not a package-level map built at initialisation", a.pkg, tn.rounds)
		return nil
	}
	t.roundsPos = rm.pos
	if g, ok := sp.Members[tn.rounds].(*ssa.Global); ok && g.Pos().IsValid() {
		t.roundsPos = g.Pos()
	}
	if tn.merged {
		// one table of descriptions: read the two fields of every entry
		t.bcastPos = t.roundsPos
		idxOf := func(f *types.Var) int {
			if st, isS := f.Pkg().Scope().Lookup(ownerOfField(sp, f)).Type().Underlying().(*types.Struct); isS {
				for i := 0; i < st.NumFields(); i++ {
					if st.Field(i) == f {
						return i
					}
				}
			}
			return -1
		}
		ir, ib := idxOf(tn.fRound), idxOf(tn.fBcast)
		for _, k := range rm.keys {
			cell, isC := rm.m[k].(*icell)
			if !isC || ir < 0 || ib < 0 || ir >= len(cell.fields) || ib >= len(cell.fields) {
				c.Fatalf("anchor", "%s: %s[%q] is not a description the initialisation code builds", a.pkg, tn.rounds, k)
				return nil
			}
			rv, okR := cell.fields[ir].v.(constant.Value)
			bv, okB := cell.fields[ib].v.(constant.Value)
			if !okR || !okB || rv.Kind() != constant.Int || bv.Kind() != constant.Bool {
				c.Fatalf("anchor", "%s: the round/class of %s[%q] are not constants of the initialisation code", a.pkg, tn.rounds, k)
				return nil
			}
			v, _ := constant.Int64Val(rv)
			t.rounds[k] = v
			if constant.BoolVal(bv) {
				t.broadcast[k] = true
			}
		}
	} else {
		for _, k := range rm.keys {
			kv, isK := rm.m[k].(constant.Value)
			if !isK || kv.Kind() != constant.Int {
				c.Fatalf("anchor", "%s: %s[%q] is not a constant of the initialisation code", a.pkg, tn.rounds, k)
				return nil
			}
			v, _ := constant.Int64Val(kv)
			t.rounds[k] = v
		}
	}
	bm, ok := ev.mapOf(sp, tn.bcast)
	if !ok {
		c.Fatalf("anchor", "%s: %s is not a package-level map built at initialisation", a.pkg, tn.bcast)
		return nil
	}
	t.bcastPos = bm.pos
	if g, ok := sp.Members[tn.bcast].(*ssa.Global); ok && g.Pos().IsValid() {
		t.bcastPos = g.Pos()
	}
	for _, k := range bm.keys {
		if tn.merged {
			break
		}
		if kv, isK := bm.m[k].(constant.Value); isK && kv.Kind() == constant.Bool && !constant.BoolVal(kv) {
			continue // a map to bool with an explicit false
		}
		t.broadcast[k] = true
	}
	for _, ph := range []string{"keygen", "signing"} {
		dep := m.Pkg("github.com/bnb-chain/tss-lib/v2/" + a.curve + "/" + ph)
		if dep == nil || len(dep.Syntax) == 0 {
			c.Fatalf("anchor", "dependency package tss-lib %s/%s not loaded with syntax", a.curve, ph)
			return nil
		}
		routing, registry, err := tssRouting(dep)
		if err != nil {
			c.Fatalf("anchor", "%v", err)
			return nil
		}
		protoPkg, protoMsgs, ok := protoFileInfo(dep)
		if !ok {
			c.Fatalf("anchor", "cannot read the protobuf file descriptor of tss-lib %s/%s", a.curve, ph)
			return nil
		}
		inProto := map[string]bool{}
		for _, n := range protoMsgs {
			inProto[n] = true
		}
		for _, name := range registry {
			b, has := routing[name]
			if !has {
				c.Fatalf("anchor", "tss-lib %s/%s: registered message %s has no constructor with a routing literal", a.curve, ph, name)
				return nil
			}
			if !inProto[name] {
				c.Fatalf("anchor", "tss-lib %s/%s: registered message %s not in the protobuf descriptor", a.curve, ph, name)
				return nil
			}
			url := "type.googleapis.com/" + protoPkg + "." + name
			t.expected[url] = b
			t.phase[url] = ph
		}
	}
	return t
}

// effectiveRound models ClassifyMsg's normalisation `if round > K { round -= D }` read from its SSA.
func adapterNormalisation(c *Ctx, m *Module, a adapterInfo) (func(int64) int64, string, bool) {
	fn := m.Func(a.pkg, "party", "ClassifyMsg")
	if fn == nil {
		return nil, "", false
	}
	var lk *ssa.Lookup
	tn := adapterTableNames(m, a)
	for _, in := range instrsDeep(fn) {
		if l, ok := in.(*ssa.Lookup); ok {
			if g, ok := l.X.(*ssa.UnOp); ok {
				if gl, ok := g.X.(*ssa.Global); ok && gl.Name() == tn.rounds {
					lk = l
				}
			}
		}
	}
	if lk == nil {
		return nil, "", false
	}
	// returned round value
	var ret ssa.Value
	for _, in := range instrsOf(fn) {
		if r, ok := in.(*ssa.Return); ok && len(r.Results) == 3 {
			if k, ok := r.Results[2].(*ssa.Const); ok && k.Value == nil {
				if _, isK := r.Results[0].(*ssa.Const); isK && ret != nil {
					continue // `return 0, false, nil` for a type that is not in the table
				}
				ret = r.Results[0]
			}
		}
	}
	if ret == nil {
		return nil, "", false
	}
	if strip(ret) == ssa.Value(lk) {
		return func(r int64) int64 { return r }, "identity", true
	}
	var bound ssa.Value = lk
	if tn.merged {
		// the looked-up round is a field of the description
		if descField(ret, lk) == tn.fRound {
			return func(r int64) int64 { return r }, "identity", true
		}
		for _, in := range instrsDeep(fn) {
			if v, isV := in.(ssa.Value); isV && descField(v, lk) == tn.fRound {
				bound = v
			}
		}
	}
	// the normalisation is read as a function by evaluating the returned value with the looked-up round
	// bound to each concrete value (an if in place, a helper function, a constant offset, …)
	eval := func(r int64) (int64, bool) {
		k, ok := evalUnder(ret, map[ssa.Value]constant.Value{bound: constant.MakeInt64(r)}, 0)
		if !ok || k.Kind() != constant.Int {
			return 0, false
		}
		v, ok := constant.Int64Val(k)
		return v, ok
	}
	desc := ""
	for r := int64(0); r <= 16; r++ {
		v, ok := eval(r)
		if !ok {
			return nil, "", false
		}
		if v != r && desc == "" {
			desc = fmt.Sprintf("round≥%d ↦ round%+d", r, v-r)
		}
	}
	if desc == "" {
		desc = "identity"
	}
	return func(r int64) int64 {
		if v, ok := eval(r); ok {
			return v
		}
		return r
	}, desc, true
}

func ruleAdapterDistinctRounds(c *Ctx, rule string, a adapterInfo, t *adapterTables) {
	m := c.Mod(a.mod)
	norm, desc, ok := adapterNormalisation(c, m, a)
	fnm := a.pkg[strings.LastIndex(a.pkg, "/")+1:] + ".ClassifyMsg"
	if !ok {
		c.Unk(rule, fnm, "round normalisation", m.Pos(t.roundsPos), "cannot read ClassifyMsg's round computation (idiom outside the recognised set)")
		return
	}
	seen := map[string]string{}
	var urls []string
	for u := range t.rounds {
		urls = append(urls, u)
	}
	sort.Strings(urls)
	for _, u := range urls {
		if !t.broadcast[u] {
			continue
		}
		r := norm(t.rounds[u])
		ph := t.phase[u]
		key := ph + "/" + strconv.FormatInt(r, 10)
		short := u[strings.LastIndex(u, ".")+1:]
		if r < 0 || r > 127 {
			c.Bad(rule, fnm, "round of "+short, m.Pos(t.roundsPos), fmt.Sprintf("effective round %d is outside 0..127: the acknowledgement encoder panics", r))
			continue
		}
		if other, dup := seen[key]; dup {
			c.Bad(rule, fnm, "round of "+short, m.Pos(t.roundsPos), fmt.Sprintf("broadcast types %s and %s of phase %s share effective round %d (%s): the second broadcast of an honest sender looks like equivocation", other, short, ph, r, desc))
			continue
		}
		seen[key] = short
		c.OK(rule, fnm, "round of "+short, m.Pos(t.roundsPos), fmt.Sprintf("phase %s effective round %d unique, ≤127 (%s)", ph, r, desc))
	}
}

func checkC19(c *Ctx) {
	c.explanation = "Static decision from source that, for both tss-lib adapters, (T1) the keys of msgURL2Round are exactly the message types registered by the resolved tss-lib version (registry lists + protobuf descriptors read from the dependency's source), (T2) broadcastMessages is exactly the set of types whose tss-lib constructor builds MessageRouting{IsBroadcast:true}, (T3) broadcast types of one phase have distinct effective rounds ≤127 under ClassifyMsg's normalisation, ClassifyMsg derives class and round from the type URL of the received bytes only, (G1) the hand-over p.in<-msg is dominated by claimed==from with claimed derived from msg.GetFrom(), (G2) Sign's non-error return is dominated by bytes.Equal(sigOut.M, f(msgHash)) and returns data of that sigOut, and nothing else writes the tables."
	c.notDecided = "tss-lib's internal behaviour beyond its routing literals"
	c.Assume("tss-lib v2 routes a message according to the MessageRouting literal of its constructor; anypb type URLs are type.googleapis.com/<proto full name>")
	for _, a := range adapters {
		t := loadAdapterTables(c, a, "C19.T1")
		if t == nil {
			continue
		}
		m := c.Mod(a.mod)
		short := a.curve
		T1, T2, T3, G1, G2, G3, W1 := "C19.T1", "C19.T2", "C19.T3", "C19.G1", "C19.G2", "C19.G3", "C19.W1"
		c.Rule(T1, "keys(msgURL2Round) = message types registered in the adapter's tss-lib version", 10)
		c.Rule(T2, "broadcastMessages = types constructed with IsBroadcast:true", 10)
		c.Rule(T3, "distinct effective rounds ≤127 per phase among broadcast types; class/round from the received type URL", 8)
		c.Rule(G1, "p.in <- msg dominated by claimed == from, claimed ← msg.GetFrom()", 1)
		c.Rule(G2, "Sign returns a signature only under bytes.Equal(sigOut.M, f(msgHash))", 1)
		c.Rule(G3, "the seat a message is attributed to is that of the party whose key equals the transport sender", 3)
		c.Rule(W1, "tables are never written after initialisation", 1)
		var urls []string
		for u := range t.expected {
			urls = append(urls, u)
		}
		for u := range t.rounds {
			if _, ok := t.expected[u]; !ok {
				urls = append(urls, u)
			}
		}
		for u := range t.broadcast {
			_, a1 := t.expected[u]
			_, a2 := t.rounds[u]
			if !a1 && !a2 {
				urls = append(urls, u)
			}
		}
		sort.Strings(urls)
		for _, u := range urls {
			name := short + ":" + u[strings.LastIndex(u, ".")+1:]
			exp, registered := t.expected[u]
			_, have := t.rounds[u]
			switch {
			case registered && have:
				c.OK(T1, a.pkg, "type "+name, m.Pos(t.roundsPos), "registered in tss-lib and present in msgURL2Round")
			case registered && !have:
				c.Bad(T1, a.pkg, "type "+name, m.Pos(t.roundsPos), "tss-lib emits this message type but msgURL2Round has no entry: it is classified as round 0")
			default:
				c.Bad(T1, a.pkg, "type "+name, m.Pos(t.roundsPos), "msgURL2Round has an entry for a type URL that the resolved tss-lib version does not register (typo or version drift)")
			}
			if registered {
				c.Check(exp == t.broadcast[u], T2, a.pkg, "class of "+name, m.Pos(t.bcastPos),
					fmt.Sprintf("tss-lib IsBroadcast=%v = adapter class", exp),
					fmt.Sprintf("tss-lib routes %s with IsBroadcast=%v but the adapter classifies it as broadcast=%v: a broadcast bypasses reliable broadcast, or a point-to-point message never reaches the quorum", name, exp, t.broadcast[u]))
			} else if t.broadcast[u] {
				c.Bad(T2, a.pkg, "class of "+name, m.Pos(t.bcastPos), "broadcastMessages lists a type URL unknown to tss-lib")
			}
		}
		ruleAdapterDistinctRounds(c, T3, a, t)
		ruleAdapterClassifyProvenance(c, T3, a)
		ruleAdapterSenderBinding(c, G1, a)
		ruleAdapterDigestBinding(c, G2, a)
		ruleAdapterSeatBinding(c, G3, a)
		// W1: no writes to the tables
		tn := adapterTableNames(m, a)
		for _, fn := range m.PkgFuncs(a.pkg) {
			c.Analysed(FuncName(fn))
			for _, in := range instrsOf(fn) {
				bad := ""
				switch x := in.(type) {
				case *ssa.MapUpdate:
					if g := globalOf(x.Map); g == tn.rounds || g == tn.bcast {
						if !isInitFunc(fn) {
							bad = g
						}
					}
				case *ssa.Store:
					if g, ok := x.Addr.(*ssa.Global); ok && (g.Name() == tn.rounds || g.Name() == tn.bcast) && !isInitFunc(fn) {
						bad = g.Name()
					}
				case *ssa.Call:
					if b, ok := x.Call.Value.(*ssa.Builtin); ok && b.Name() == "delete" {
						if g := globalOf(x.Call.Args[0]); g == tn.rounds || g == tn.bcast {
							bad = g
						}
					}
				}
				if bad != "" {
					c.Bad(W1, FuncName(fn), "write to "+bad, m.Pos(in.Pos()), "the classification table is modified at run time; the table read from source is not what the classifier uses")
				}
			}
		}
		c.OK(W1, a.pkg, "tables written only by the package initialiser", m.Pos(t.roundsPos), "no MapUpdate/Store/delete on the two tables outside init")
	}
}

func globalOf(v ssa.Value) string {
	if u, ok := strip(v).(*ssa.UnOp); ok && u.Op == token.MUL {
		if g, ok := u.X.(*ssa.Global); ok {
			return g.Name()
		}
	}
	return ""
}

// ClassifyMsg: class ← broadcastMessages[any.TypeUrl], round ← msgURL2Round[any.TypeUrl], any ← Unmarshal(param).
func ruleAdapterClassifyProvenance(c *Ctx, rule string, a adapterInfo) {
	m := c.Mod(a.mod)
	fn := c.mustFunc(m, a.pkg, "party", "ClassifyMsg")
	if fn == nil {
		return
	}
	tn := adapterTableNames(m, a)
	var anyAlloc ssa.Value
	for _, in := range instrsDeep(fn) {
		if cl, ok := in.(*ssa.Call); ok {
			if o := calleeObj(&cl.Call); o != nil && o.Name() == "Unmarshal" && len(cl.Call.Args) == 2 && strip(cl.Call.Args[0]) == strip(fn.Params[1]) {
				anyAlloc = strip(cl.Call.Args[1])
			}
		}
	}
	okU := anyAlloc != nil
	isTypeURL := func(v ssa.Value) bool {
		b, f, ok := fieldLoad(resultOf(v))
		return ok && f.Name() == "TypeUrl" && strip(b) == anyAlloc
	}
	okB, okR, okE := false, false, false
	for _, in := range instrsOf(fn) {
		r, ok := in.(*ssa.Return)
		if !ok || len(r.Results) != 3 {
			continue
		}
		if k, isK := r.Results[2].(*ssa.Const); !isK || k.Value != nil {
			continue
		}
		// class
		if tup, isOK := commaOK(resultOf(r.Results[1])); isOK {
			if lk, isL := tup.(*ssa.Lookup); isL && globalOf(lk.X) == tn.bcast && isTypeURL(lk.Index) {
				okB = true
			}
		}
		if tn.merged {
			for _, in2 := range instrsDeep(fn) {
				if lk, isL := in2.(*ssa.Lookup); isL && globalOf(lk.X) == tn.bcast && isTypeURL(lk.Index) && descField(retResult(r, 1), lk) == tn.fBcast {
					okB = true
				}
			}
			if _, isK := retResult(r, 0).(*ssa.Const); isK && okB {
				continue // the "type not in the table" return after the class was established by the other one
			}
		}
		// round depends on msgURL2Round[TypeUrl]
		sl := NewSlicer(m, a.pkg).Slice(r.Results[0])
		okR = sliceHas(sl, func(v ssa.Value) bool {
			lk, ok := v.(*ssa.Lookup)
			return ok && globalOf(lk.X) == tn.rounds && isTypeURL(lk.Index)
		})
		// unmarshal error checked
		okE = hasFact(FactsAt(r), func(f Fact) bool {
			cl, ok := strip(f.X).(*ssa.Call)
			if !ok || f.Op != token.EQL || !isNilConst(f.Y) {
				return false
			}
			o := calleeObj(&cl.Call)
			return o != nil && o.Name() == "Unmarshal"
		})
	}
	c.Check(okU && okB && okR && okE, rule, FuncName(fn), "classification derives from the received type URL", m.Pos(fn.Pos()),
		"any ← Unmarshal(msgBytes) (error checked); class ← broadcastMessages[any.TypeUrl]; round ← msgURL2Round[any.TypeUrl]",
		fmt.Sprintf("ClassifyMsg does not derive class/round from the tables keyed by the received message's type URL (unmarshal=%v class=%v round=%v err-checked=%v)", okU, okB, okR, okE))
}

func ruleAdapterSenderBinding(c *Ctx, rule string, a adapterInfo) {
	m := c.Mod(a.mod)
	fn := c.mustFunc(m, a.pkg, "party", "OnMsg")
	if fn == nil {
		return
	}
	from := fn.Params[2]
	sl := NewSlicer(m, a.pkg)
	n := 0
	for _, in := range instrsDeep(fn) {
		snd, ok := in.(*ssa.Send)
		if !ok {
			continue
		}
		n++
		sent := resultOf(snd.X)
		ok2 := hasFact(FactsAt(snd), func(f Fact) bool {
			if f.Op != token.EQL {
				return false
			}
			for _, pr := range [][2]ssa.Value{{f.X, f.Y}, {f.Y, f.X}} {
				if strip(pr[1]) != strip(from) {
					continue
				}
				isGetFrom := func(v ssa.Value) bool {
					cl, ok := v.(*ssa.Call)
					return ok && cl.Call.IsInvoke() && cl.Call.Method.Name() == "GetFrom" && (strip(cl.Call.Value) == sent || resultOf(cl.Call.Value) == sent)
				}
				// (the claimed sender may be what a helper extracts from the message: its successful return)
				if chainTo(pr[0], isGetFrom) || chainTo(resultOf(pr[0]), isGetFrom) {
					return true
				}
			}
			return false
		})
		// the message handed over was parsed from the received bytes
		ps := sl.Slice(sent)
		ok3 := ps[fn.Params[1]]
		c.Check(ok2 && ok3, rule, FuncName(fn), "hand-over p.in <- msg", m.Pos(snd.Pos()),
			"dominated by uint16(msg.GetFrom().KeyInt()) == from; msg parsed from msgBytes",
			"a message whose embedded sender differs from the transport-authenticated sender reaches the protocol instance")
	}
	if n == 0 {
		c.Bad(rule, FuncName(fn), "hand-over p.in <- msg", "-", "OnMsg never hands the message to the protocol loop")
	}
}

func ruleAdapterDigestBinding(c *Ctx, rule string, a adapterInfo) {
	m := c.Mod(a.mod)
	fn := c.mustFunc(m, a.pkg, "party", "Sign")
	if fn == nil {
		return
	}
	msgHash := fn.Params[2]
	sl := NewSlicer(m, a.pkg)
	n := 0
	for _, r := range returnsDeep(fn) {
		if len(r.Results) != 2 {
			continue
		}
		res := retResults(r)
		if k, isK := res[1].(*ssa.Const); !isK || k.Value != nil {
			continue // error return
		}
		if isNilConst(res[0]) {
			continue
		}
		n++
		var sigOut ssa.Value
		okFaithful := false
		okEq := boolFact(FactsAt(r), true, func(v ssa.Value) bool {
			cl, ok := v.(*ssa.Call)
			if !ok || !isCallTo(&cl.Call, "bytes", "Equal") {
				return false
			}
			for _, pr := range [][2]ssa.Value{{cl.Call.Args[0], cl.Call.Args[1]}, {cl.Call.Args[1], cl.Call.Args[0]}} {
				b, f, isF := fieldLoad(strip(pr[0]))
				if !isF || f.Name() != "M" {
					continue
				}
				if s := sl.Slice(pr[1]); s[msgHash] {
					sigOut = strip(b)
					okFaithful = digestFaithful(pr[1], msgHash, 0)
					return true
				}
			}
			return false
		})
		okData := false
		if sigOut != nil {
			s := sl.Slice(res[0])
			okData = s[sigOut]
			// sigOut comes from the channel given to the signing party
			ss := sl.Slice(sigOut)
			okData = okData && sliceHas(ss, func(v ssa.Value) bool { _, ok := v.(*ssa.Select); return ok })
		}
		c.Check(okEq && okData, rule, FuncName(fn), "successful return of Sign", m.Pos(r.Pos()),
			"dominated by bytes.Equal(sigOut.M, f(msgHash)); returns R,S of that sigOut",
			"a signature is returned without checking that the signed digest is the requested one (or the returned data is not that signature)")
		if okEq {
			// … and f loses nothing the library does not lose: the requested digest itself, through
			// big.Int.SetBytes/Bytes (what the library is handed) or the curve's standard hashToInt — not
			// through a helper that pads, truncates or copies a prefix
			c.Check(okFaithful, rule, FuncName(fn), "the digest compared is the requested one", m.Pos(r.Pos()),
				"msgHash through big.Int.SetBytes/Bytes (or hashToInt) only",
				"the value the signed message is compared with is derived from the requested digest by a lossy helper (padding / truncation to a fixed width): a signature on a prefix or a padded form of the digest passes the check and is returned for the digest the caller asked to sign")
		}
	}
	if n == 0 {
		c.Bad(rule, FuncName(fn), "successful return of Sign", "-", "Sign has no successful return")
	}
}

// ruleAdapterSeatBinding (G3): tss-lib attributes a parsed message by From.Index alone (the wire bytes
// carry no sender), so the sender binding of the adapter is the seat lookup: the identity handed to
// ParseWireMessage is built from the transport sender, its Index comes from the lookup on that same
// identity, and the lookup returns a seat only for the party whose key EQUALS the given key.
func ruleAdapterSeatBinding(c *Ctx, rule string, a adapterInfo) {
	m := c.Mod(a.mod)
	fn := c.mustFunc(m, a.pkg, "party", "OnMsg")
	if fn == nil {
		return
	}
	from := fn.Params[2]
	sl := NewSlicer(m, a.pkg)
	var locate *ssa.Function
	type seatSite struct {
		val ssa.Value
		id  ssa.Value
		at  ssa.Instruction
	}
	var inPlace []seatSite
	nParse := 0
	for _, in := range instrsDeep(fn) {
		cl, ok := in.(*ssa.Call)
		if !ok {
			continue
		}
		o := calleeObj(&cl.Call)
		if o == nil || o.Name() != "ParseWireMessage" || len(cl.Call.Args) < 2 {
			continue
		}
		nParse++
		id := resultOf(cl.Call.Args[1])
		// identity built from the transport sender: tss.NewPartyID(.., key) directly, or through a
		// constructor of the package that forwards (a function of) its parameter as the key
		okKey := false
		if mk, isCall := id.(*ssa.Call); isCall {
			if mo := calleeObj(&mk.Call); mo != nil && mo.Name() == "NewPartyID" && len(mk.Call.Args) == 3 {
				okKey = sl.Slice(mk.Call.Args[2])[from]
			} else if g := staticCallee(&mk.Call); g != nil && g.Blocks != nil && pkgPathOf(g) == a.pkg && len(g.Params) == len(mk.Call.Args) {
				var rets []*ssa.Return
				for _, gi := range instrsOf(g) {
					if r, isR := gi.(*ssa.Return); isR {
						rets = append(rets, r)
					}
				}
				if len(rets) == 1 && len(rets[0].Results) == 1 {
					noParamLook++
					inner, isC := strip(rets[0].Results[0]).(*ssa.Call)
					noParamLook--
					if isC {
						if mo := calleeObj(&inner.Call); mo != nil && mo.Name() == "NewPartyID" && len(inner.Call.Args) == 3 {
							ks := NewSlicer(m, a.pkg).Slice(inner.Call.Args[2])
							fed := 0
							okKey = true
							for i, gp := range g.Params {
								if !ks[gp] {
									continue
								}
								fed++
								if !sl.Slice(mk.Call.Args[i])[from] {
									okKey = false
								}
							}
							okKey = okKey && fed > 0
						}
					}
				}
			}
		}
		c.Check(okKey, rule, FuncName(fn), "identity given to ParseWireMessage", m.Pos(cl.Pos()), "tss.NewPartyID(.., key ← from)",
			"the identity under which the received bytes are parsed is not built from the transport-authenticated sender")
		// its Index is the result of the lookup on the same identity, stored before parsing
		okIdx := false
		for _, in2 := range instrsDeep(fn) {
			st, isSt := in2.(*ssa.Store)
			if !isSt {
				continue
			}
			fa, isFA := st.Addr.(*ssa.FieldAddr)
			if !isFA || fieldOfAddr(fa).Name() != "Index" {
				continue
			}
			// Index lives in the embedded MessageWrapper_PartyID or directly in PartyID
			base := strip(fa.X)
			if ld, isLd := base.(*ssa.UnOp); isLd && ld.Op == token.MUL {
				if fa2, ok := ld.X.(*ssa.FieldAddr); ok {
					base = strip(fa2.X)
				}
			}
			if base != id {
				continue
			}
			lc, isCall := strip(st.Val).(*ssa.Call)
			if !isCall {
				// the lookup written out in place: a variable that leaves −1 only for an equal key
				if instrDominates(st, cl) {
					inPlace = append(inPlace, seatSite{val: st.Val, id: id, at: st})
					okIdx = true
				}
				continue
			}
			cal := staticCallee(&lc.Call)
			if cal == nil || pkgPathOf(cal) != a.pkg || len(lc.Call.Args) < 2 || strip(lc.Call.Args[len(lc.Call.Args)-1]) != id {
				continue
			}
			if instrDominates(st, cl) {
				okIdx = true
				locate = cal
			}
		}
		c.Check(okIdx, rule, FuncName(fn), "seat of the identity", m.Pos(cl.Pos()), "id.Index = locatePartyIndex(id) before parsing",
			"the seat index of the sender identity is not the result of the adapter's lookup on that identity")
	}
	if nParse == 0 {
		c.Bad(rule, FuncName(fn), "ParseWireMessage call", "-", "OnMsg does not parse the received bytes with tss.ParseWireMessage")
		return
	}
	// equalKeyFact: the facts establish key(IDs()[seat]) == key(idv)
	equalKeyFact := func(facts []Fact, seat ssa.Value, idv ssa.Value) bool {
		keyRoot := func(v ssa.Value) ssa.Value {
			var root ssa.Value
			chainTo(strip(v), func(x ssa.Value) bool {
				x = strip(x)
				if x == strip(idv) {
					root = x
					return true
				}
				if ld, ok := x.(*ssa.UnOp); ok && ld.Op == token.MUL {
					if ia, ok := ld.X.(*ssa.IndexAddr); ok {
						root = ia
						return true
					}
				}
				return false
			})
			return root
		}
		return hasFact(facts, func(f Fact) bool {
			var x, y ssa.Value
			switch {
			case f.Op == 0 && f.True:
				cl, ok := f.Bool.(*ssa.Call)
				if !ok || !isCallTo(&cl.Call, "bytes", "Equal") {
					return false
				}
				x, y = cl.Call.Args[0], cl.Call.Args[1]
			case f.Op == token.EQL && isZero(f.Y):
				cl, ok := strip(f.X).(*ssa.Call)
				if !ok {
					return false
				}
				o := calleeObj(&cl.Call)
				if o == nil || o.Name() != "Cmp" || len(cl.Call.Args) != 2 {
					return false
				}
				x, y = cl.Call.Args[0], cl.Call.Args[1]
			default:
				return false
			}
			for _, pr := range [][2]ssa.Value{{x, y}, {y, x}} {
				ia, isIA := keyRoot(pr[0]).(*ssa.IndexAddr)
				if !isIA || keyRoot(pr[1]) != strip(idv) {
					continue
				}
				if sameValue(ia.Index, seat) || strip(ia.Index) == strip(seat) {
					return true
				}
			}
			return false
		})
	}
	// in place: every value the seat variable can take other than a negative constant enters it on an
	// edge that is taken only after the equality test succeeded
	for _, sp := range inPlace {
		ok := true
		nNonNeg := 0
		var walk func(v ssa.Value, d int)
		seenPhi := map[*ssa.Phi]bool{}
		walk = func(v ssa.Value, d int) {
			if k, isK := constInt(v); isK && k < 0 {
				return
			}
			if p, isPhi := v.(*ssa.Phi); isPhi && d < 4 {
				if seenPhi[p] {
					return
				}
				seenPhi[p] = true
				for i, e := range p.Edges {
					if e == ssa.Value(p) {
						continue
					}
					if _, inner := e.(*ssa.Phi); inner {
						walk(e, d+1)
						continue
					}
					if k, isK := constInt(e); isK && k < 0 {
						continue
					}
					nNonNeg++
					pred := p.Block().Preds[i]
					if !equalKeyFact(FactsAt(pred.Instrs[len(pred.Instrs)-1]), e, sp.id) {
						ok = false
					}
				}
				return
			}
			nNonNeg++
			ok = false // a computed seat that is not selected by comparison
		}
		walk(sp.val, 0)
		c.Check(ok && nNonNeg > 0, rule, FuncName(fn), "seat assigned only for an equal key", m.Pos(sp.at.Pos()),
			"every non-negative value of the seat enters it behind key(IDs()[i]) == key(id)",
			"the seat written into the sender identity can be that of a party whose key differs from the sender's: a message received from a node outside the session (or from another member) is attributed to that party's seat, and tss-lib processes it as that party's message")
	}
	if locate == nil {
		return
	}
	c.Analysed(FuncName(locate))
	idParam := locate.Params[len(locate.Params)-1]
	// keyOf: v is (derived by single-input steps from) the key of `owner`
	keyRoot := func(v ssa.Value) ssa.Value {
		var root ssa.Value
		chainTo(strip(v), func(x ssa.Value) bool {
			x = strip(x)
			if x == strip(idParam) {
				root = x
				return true
			}
			if ld, ok := x.(*ssa.UnOp); ok && ld.Op == token.MUL {
				if ia, ok := ld.X.(*ssa.IndexAddr); ok {
					root = ia
					return true
				}
			}
			return false
		})
		return root
	}
	nRet := 0
	for _, in := range instrsOf(locate) {
		r, ok := in.(*ssa.Return)
		if !ok {
			continue
		}
		res := retResult(r, 0)
		if k, isK := constInt(res); isK {
			if k < 0 {
				continue
			}
		}
		nRet++
		okEq := hasFact(FactsAt(r), func(f Fact) bool {
			var x, y ssa.Value
			switch {
			case f.Op == 0 && f.True:
				cl, ok := f.Bool.(*ssa.Call)
				if !ok || !isCallTo(&cl.Call, "bytes", "Equal") {
					return false
				}
				x, y = cl.Call.Args[0], cl.Call.Args[1]
			case f.Op == token.EQL && isZero(f.Y):
				cl, ok := strip(f.X).(*ssa.Call)
				if !ok {
					return false
				}
				o := calleeObj(&cl.Call)
				if o == nil || o.Name() != "Cmp" || len(cl.Call.Args) != 2 {
					return false
				}
				x, y = cl.Call.Args[0], cl.Call.Args[1]
			default:
				return false
			}
			for _, pr := range [][2]ssa.Value{{x, y}, {y, x}} {
				ia, isIA := keyRoot(pr[0]).(*ssa.IndexAddr)
				if !isIA || keyRoot(pr[1]) != strip(idParam) {
					continue
				}
				if sameValue(ia.Index, res) || strip(ia.Index) == strip(res) {
					return true
				}
			}
			return false
		})
		c.Check(okEq, rule, FuncName(locate), "seat returned only for an equal key", m.Pos(r.Pos()),
			"return i dominated by key(IDs()[i]) == key(id)",
			"the lookup can return the seat of a party whose key differs from the given one: a message received from a node outside the session (or from another member) is attributed to that party's seat, and tss-lib processes it as that party's message")
	}
	if nRet == 0 {
		c.Bad(rule, FuncName(locate), "seat lookup", "-", "the lookup never returns a seat")
	}
}

// isInitFunc: the package initialiser or one of the source-level init() functions (named init#N in SSA),
// whose effect on the tables is what evalPackageInit computes.
func isInitFunc(fn *ssa.Function) bool {
	return fn.Parent() == nil && fn.Signature.Recv() == nil && (fn.Name() == "init" || strings.HasPrefix(fn.Name(), "init#"))
}

// ownerOfField: the name of the package-level struct type that declares f.
func ownerOfField(sp *ssa.Package, f *types.Var) string {
	sc := sp.Pkg.Scope()
	for _, n := range sc.Names() {
		tn, ok := sc.Lookup(n).(*types.TypeName)
		if !ok {
			continue
		}
		st, ok := tn.Type().Underlying().(*types.Struct)
		if !ok {
			continue
		}
		for i := 0; i < st.NumFields(); i++ {
			if st.Field(i) == f {
				return n
			}
		}
	}
	return ""
}

// digestFaithful: v is the requested digest itself, or is obtained from it only through
// (*big.Int).SetBytes / (*big.Int).Bytes and the ECDSA hashToInt helper (the standard reduction of a
// hash to the curve order's bit length, which the verifier applies too).
func digestFaithful(v, msgHash ssa.Value, depth int) bool {
	if depth > 8 || v == nil {
		return false
	}
	v = strip(v)
	if v == strip(msgHash) {
		return true
	}
	cl, ok := v.(*ssa.Call)
	if !ok {
		return false
	}
	if o := calleeObj(&cl.Call); o != nil && o.Pkg() != nil && o.Pkg().Path() == "math/big" {
		switch o.Name() {
		case "Bytes":
			return len(cl.Call.Args) == 1 && digestFaithful(cl.Call.Args[0], msgHash, depth+1)
		case "SetBytes":
			return len(cl.Call.Args) == 2 && digestFaithful(cl.Call.Args[1], msgHash, depth+1)
		}
		return false
	}
	if g := staticCallee(&cl.Call); g != nil && g.Name() == "hashToInt" && len(cl.Call.Args) >= 1 {
		return digestFaithful(cl.Call.Args[0], msgHash, depth+1)
	}
	return false
}
