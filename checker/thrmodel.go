package main

// Structural model of package threshold shared by several properties.

import (
	"go/types"

	"golang.org/x/tools/go/ssa"
)

type thrModel struct {
	m   *Module
	fns []*ssa.Function
	sl  *Slicer
	la  *LockAnalysis

	scheme                                           *types.Named
	fRBCTab, fSyncTab, fClsTab, fDKGRunning          *types.Var
	fRBF, fSyncFactory, fSetupOnce, fLock, fSend     *types.Var
	fSelfID, fKGF, fSF, fStored, fThreshold, fMember *types.Var
	fMsgRound, fMsgDigest, fMsgBroadcast, fMsgSender *types.Var
	fMsgPayload                                      *types.Var
	fFilterH, fFilterAllowed                         *types.Var
	fTSLock, fTSH                                    *types.Var
	fIncData, fIncSource, fIncTopic, fIncType        *types.Var
	setup, hashFn                                    *ssa.Function
	conts                                            map[*ssa.Function]ssa.CallInstruction
}

func buildThresholdModel(c *Ctx) *thrModel {
	m := c.Mod(ModRoot)
	if m == nil {
		return nil
	}
	t := &thrModel{m: m}
	t.fns = m.PkgFuncs(PkgThreshold)
	if len(t.fns) == 0 {
		c.Fatalf("anchor", "package threshold has no functions")
		return nil
	}
	for _, f := range t.fns {
		c.Analysed(FuncName(f))
	}
	t.scheme = c.mustType(m, PkgThreshold, "Scheme")
	fld := func(typ, name string) *types.Var { return c.mustField(m, PkgThreshold, typ, name) }
	t.fRBCTab = fld("Scheme", "rbcInProgress")
	t.fSyncTab = fld("Scheme", "syncsInProgress")
	t.fClsTab = fld("Scheme", "messageClassifiers")
	t.fDKGRunning = fld("Scheme", "dkgRunning")
	t.fRBF = fld("Scheme", "RBF")
	t.fSyncFactory = fld("Scheme", "SyncFactory")
	t.fSetupOnce = fld("Scheme", "setupOnce")
	t.fLock = fld("Scheme", "lock")
	t.fSend = fld("Scheme", "Send")
	t.fSelfID = fld("Scheme", "SelfID")
	t.fKGF = fld("Scheme", "KeyGenFactory")
	t.fSF = fld("Scheme", "SignerFactory")
	t.fStored = fld("Scheme", "StoredData")
	t.fThreshold = fld("Scheme", "Threshold")
	t.fMember = fld("Scheme", "Membership")
	t.fMsgRound = fld("rbcMsg", "round")
	t.fMsgDigest = fld("rbcMsg", "digest")
	t.fMsgBroadcast = fld("rbcMsg", "broadcast")
	t.fMsgSender = fld("rbcMsg", "sender")
	t.fMsgPayload = fld("rbcMsg", "payload")
	t.fFilterH = fld("rbcFilter", "h")
	t.fFilterAllowed = fld("rbcFilter", "allowedList")
	t.fTSLock = fld("threadSafeRBC", "lock")
	t.fTSH = fld("threadSafeRBC", "h")
	t.fIncData = c.mustField(m, PkgTypes, "IncMessage", "Data")
	t.fIncSource = c.mustField(m, PkgTypes, "IncMessage", "Source")
	t.fIncTopic = c.mustField(m, PkgTypes, "IncMessage", "Topic")
	t.fIncType = c.mustField(m, PkgTypes, "IncMessage", "MsgType")
	t.setup = c.mustFunc(m, PkgThreshold, "Scheme", "setup")
	t.hashFn = c.mustFunc(m, PkgThreshold, "", "hash")
	if len(c.fatal) > 0 {
		return nil
	}
	t.sl = NewSlicer(m, PkgThreshold)
	t.la = NewLockAnalysis(m, t.sl, PkgThreshold)
	t.conts = continuationFns(t.sl, t.fns)
	return t
}

// upParam follows a parameter of a private function with exactly one static
// call site to the actual argument (repeatedly).
func (t *thrModel) upParam(v ssa.Value) ssa.Value {
	v = strip(v)
	for i := 0; i < 4; i++ {
		p, ok := v.(*ssa.Parameter)
		if !ok {
			return v
		}
		cs := t.sl.callers[p.Parent()]
		if len(cs) != 1 {
			return v
		}
		idx := paramIndex(p)
		args := cs[0].Common().Args
		if idx < 0 || idx >= len(args) {
			return v
		}
		v = strip(args[idx])
	}
	return v
}

// isSHA256Helper: fn(in) = sha256.New(); Write(in); Sum(nil).
func isSHA256Helper(fn *ssa.Function) bool {
	if fn == nil || len(fn.Params) != 1 {
		return false
	}
	newCall, wroteParam, sum := false, false, false
	for _, in := range instrsOf(fn) {
		c, ok := in.(*ssa.Call)
		if !ok {
			continue
		}
		if isCallTo(&c.Call, "crypto/sha256", "New") {
			newCall = true
		}
		if c.Call.IsInvoke() && c.Call.Method.Name() == "Write" && len(c.Call.Args) == 1 && strip(c.Call.Args[0]) == strip(fn.Params[0]) {
			wroteParam = true
		}
		if c.Call.IsInvoke() && c.Call.Method.Name() == "Sum" {
			sum = true
		}
		if isCallTo(&c.Call, "crypto/sha256", "Sum256") && len(c.Call.Args) == 1 && strip(c.Call.Args[0]) == strip(fn.Params[0]) {
			newCall, wroteParam, sum = true, true, true
		}
	}
	return newCall && wroteParam && sum
}

// rbcMsgAllocs: allocations of rbcMsg in the package.
func (t *thrModel) rbcMsgAllocs() []*ssa.Alloc {
	var out []*ssa.Alloc
	for _, fn := range t.fns {
		for _, in := range instrsOf(fn) {
			if a, ok := in.(*ssa.Alloc); ok {
				if p, ok := a.Type().(*types.Pointer); ok && t.m.isNamedA(p.Elem(), PkgThreshold, "rbcMsg") {
					out = append(out, a)
				}
			}
		}
	}
	return out
}
