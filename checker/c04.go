package main

// C04 — RBC totality in fault-free runs: the table clauses (distinct rounds,
// writer/reader class agreement) and the two structural guards.

import (
	"fmt"
	"go/constant"
	"go/token"
	"go/types"
	"sort"
	"strconv"

	"golang.org/x/tools/go/ssa"
)

func init() { register("C04", checkC04) }

type builtinBackend struct {
	mod, pkg, typ string
}

var builtinBackends = []builtinBackend{
	{ModBLS, PkgBLS, "TBLS"},
	{ModPS, PkgPS, "TPS"},
}

type classRow struct {
	round int64
	bcast bool
	pos   token.Pos
}

// classifyTable reads `switch msgBytes[0] { case K: return R, B, nil ... }` from SSA.
func classifyTable(fn *ssa.Function) (map[int64]classRow, bool) {
	out := map[int64]classRow{}
	if len(fn.Params) < 2 {
		return nil, false
	}
	data := fn.Params[1]
	isTag := func(v ssa.Value) bool {
		v = strip(v)
		// `tag, payload := decodeMsg(msgBytes)`: an accessor shared with the handler, a single return
		// of data[0] of its own parameter, applied to this function's data
		if e, ok := v.(*ssa.Extract); ok {
			if cl, ok := e.Tuple.(*ssa.Call); ok {
				if g := cl.Call.StaticCallee(); g != nil && pureAccessor(g) {
					for _, in := range instrsOf(g) {
						r, ok := in.(*ssa.Return)
						if !ok || e.Index >= len(r.Results) {
							continue
						}
						ld, ok := r.Results[e.Index].(*ssa.UnOp)
						if !ok || ld.Op != token.MUL {
							return false
						}
						ia, ok := ld.X.(*ssa.IndexAddr)
						if !ok {
							return false
						}
						p, ok := ia.X.(*ssa.Parameter)
						k, isK := constInt(ia.Index)
						if !ok || !isK || k != 0 {
							return false
						}
						i := paramIndex(p)
						return i >= 0 && i < len(cl.Call.Args) && strip(cl.Call.Args[i]) == strip(data)
					}
				}
			}
			return false
		}
		ld, ok := v.(*ssa.UnOp)
		if !ok || ld.Op != token.MUL {
			return false
		}
		ia, ok := ld.X.(*ssa.IndexAddr)
		if !ok || strip(ia.X) != strip(data) {
			return false
		}
		k, ok := constInt(ia.Index)
		return ok && k == 0
	}
	// candidate tag values: every constant the tag is compared with
	cands := map[int64]bool{}
	for _, in := range instrsOf(fn) {
		if bo, ok := in.(*ssa.BinOp); ok && (bo.Op == token.EQL || bo.Op == token.NEQ) {
			for _, pr := range [][2]ssa.Value{{bo.X, bo.Y}, {bo.Y, bo.X}} {
				if k, ok := constInt(pr[1]); ok && isTag(pr[0]) {
					cands[k] = true
				}
			}
		}
	}
	// … and every key of a package-level table the tag is looked up in (`known := table[tag]`)
	type tabLookup struct {
		keys map[int64]constant.Value
	}
	lookups := map[*ssa.Lookup]*tabLookup{}
	var ev *initEval
	for _, in := range instrsOf(fn) {
		lk, ok := in.(*ssa.Lookup)
		if !ok || !isTag(lk.Index) {
			continue
		}
		ld, ok := lk.X.(*ssa.UnOp)
		if !ok || ld.Op != token.MUL {
			return nil, false
		}
		g, ok := ld.X.(*ssa.Global)
		if !ok || g.Pkg != fn.Pkg || globalStoredOutsideInit(g) {
			return nil, false
		}
		if ev == nil {
			var err error
			if ev, err = evalPackageInit(fn.Pkg); err != nil {
				return nil, false
			}
		}
		im, ok := ev.mapOf(fn.Pkg, g.Name())
		if !ok {
			return nil, false
		}
		tl := &tabLookup{keys: map[int64]constant.Value{}}
		for _, ks := range im.keys {
			kv, isK := im.m[ks].(constant.Value)
			k, err := strconv.ParseInt(ks, 10, 64)
			if !isK || err != nil {
				return nil, false
			}
			tl.keys[k] = kv
			cands[k] = true
		}
		lookups[lk] = tl
	}
	// the value of a table lookup (or of its comma-ok flag) for tag k
	lookupVal := func(v ssa.Value, k int64) (constant.Value, bool) {
		switch x := v.(type) {
		case *ssa.Lookup:
			if tl := lookups[x]; tl != nil && !x.CommaOk {
				if kv, has := tl.keys[k]; has {
					return kv, true
				}
				return nil, false
			}
		case *ssa.Extract:
			if lk, ok := x.Tuple.(*ssa.Lookup); ok {
				if tl := lookups[lk]; tl != nil {
					kv, has := tl.keys[k]
					if x.Index == 1 {
						return constant.MakeBool(has), true
					}
					if has {
						return kv, true
					}
				}
			}
		}
		return nil, false
	}
	// evaluate the function's control flow for each tag value (switch, if-chain and || forms alike):
	// branches on the tag are decided, any other branch is explored both ways; the successful returns
	// reached must agree on (round, class)
	evalCond := func(v ssa.Value, k int64) (bool, bool) {
		neg := false
		for {
			if u, ok := v.(*ssa.UnOp); ok && u.Op == token.NOT {
				v, neg = u.X, !neg
				continue
			}
			break
		}
		if kv, ok := lookupVal(v, k); ok && kv.Kind() == constant.Bool {
			return constant.BoolVal(kv) != neg, true
		}
		bo, ok := v.(*ssa.BinOp)
		if !ok || (bo.Op != token.EQL && bo.Op != token.NEQ) {
			return false, false
		}
		for _, pr := range [][2]ssa.Value{{bo.X, bo.Y}, {bo.Y, bo.X}} {
			if c, ok := constInt(pr[1]); ok && isTag(pr[0]) {
				val := (c == k) == (bo.Op == token.EQL)
				return val != neg, true
			}
		}
		return false, false
	}
	for k := range cands {
		var rows []classRow
		bad := false
		seen := map[*ssa.BasicBlock]bool{}
		var walk func(b *ssa.BasicBlock)
		walk = func(b *ssa.BasicBlock) {
			if seen[b] || b == fn.Recover {
				return
			}
			seen[b] = true
			last := b.Instrs[len(b.Instrs)-1]
			switch t := last.(type) {
			case *ssa.Return:
				if len(t.Results) != 3 {
					bad = true
					return
				}
				res := retResults(t)
				if !isNilConst(res[2]) {
					return // error return
				}
				bk, ok2 := res[1].(*ssa.Const)
				if !ok2 {
					// the class read from a table
					if kv, ok := lookupVal(res[1], k); ok && kv.Kind() == constant.Bool {
						bk, ok2 = ssa.NewConst(kv, res[1].Type()), true
					}
				}
				if !ok2 || bk.Value == nil {
					bad = true
					return
				}
				round, ok1 := constInt(res[0])
				if !ok1 {
					if isTag(res[0]) {
						round = k // the round is the tag itself
					} else {
						bad = true
						return
					}
				}
				rows = append(rows, classRow{round: round, bcast: bk.Value.String() == "true", pos: t.Pos()})
			case *ssa.If:
				if val, known := evalCond(t.Cond, k); known {
					if val {
						walk(b.Succs[0])
					} else {
						walk(b.Succs[1])
					}
					return
				}
				walk(b.Succs[0])
				walk(b.Succs[1])
			default:
				for _, s := range b.Succs {
					walk(s)
				}
			}
		}
		walk(fn.Blocks[0])
		if bad {
			return nil, false
		}
		if len(rows) == 0 {
			continue // this value is rejected
		}
		for _, r := range rows[1:] {
			if r.round != rows[0].round || r.bcast != rows[0].bcast {
				return nil, false
			}
		}
		out[k] = rows[0]
	}
	return out, len(out) > 0
}

// encodeWritesTag: encodeMsg(tag, payload) stores tag at index 0 of the buffer it returns.
func encodeWritesTag(fn *ssa.Function) bool {
	if fn == nil || len(fn.Params) != 2 {
		return false
	}
	// byte 0 of the returned buffer is the tag parameter, however the buffer is assembled
	// (buf[0] = tag, append(buf, tag) onto an empty buffer, …): the encoder's byte writes (lanes.go)
	noParamLook++
	defer func() { noParamLook-- }()
	var rets []ssa.Value
	for _, in := range instrsOf(fn) {
		if r, ok := in.(*ssa.Return); ok && len(r.Results) == 1 {
			rets = append(rets, bufferRoot(r.Results[0]))
		}
	}
	if len(rets) == 0 {
		return false
	}
	for _, rv := range rets {
		found := false
		for _, w := range encoderWrites(fn) {
			if !w.Pos.OK || w.Pos.Base != "" || w.Pos.Off != 0 {
				continue
			}
			if w.Lane.Kind != laneSrc || w.Lane.K != 0 || strip(w.Lane.Src) != ssa.Value(fn.Params[0]) {
				continue
			}
			if w.Buf == rv || sameValue(w.Buf, rv) {
				found = true
			}
		}
		if !found {
			return false
		}
	}
	return true
}

func checkC04(c *Ctx) {
	c.explanation = "Static decision of the table clauses of RBC totality: (T1) for each of the four backends the map broadcast-class message type → round read from source (switch in ClassifyMsg of BLS/PS; msgURL2Round/broadcastMessages under ClassifyMsg's normalisation for the adapters) is injective per session phase with every round ≤127; (T2) for every sendMsg(encodeMsg(K,…), B, …) call site of BLS and PS the receiver-side ClassifyMsg returns class B for constant K and encodeMsg really writes K as first byte; (G1) acknowledgements about own messages are dropped before registration; (V1) point-to-point messages are passed through; (V2) the round and class a received payload is registered under are the local classifier's verdict on that payload, the fields of an acknowledgement are the decoder's output (otherwise distinct table rounds do not give distinct registrations: the second broadcast of an honest sender would look like equivocation). Exactly-once delivery under every interleaving is a liveness statement over schedules and is not decided."
	c.notDecided = "exactly-once delivery and absence of false equivocation under every interleaving (parking of early acknowledgements, several senders/rounds in flight)"
	const T1, T2, G1, V1 = "C04.T1", "C04.T2", "C04.G1", "C04.V1"
	c.Rule(T1, "broadcast-class message types of one phase have distinct rounds ≤127", 4+16)
	c.Rule(T2, "sender-side class constant = receiver-side ClassifyMsg class, per send site", 3)
	c.Rule(G1, "acks about own messages are dropped before registration", 1)
	c.Rule(V1, "point-to-point pass-through", 1)
	for _, b := range builtinBackends {
		m := c.Mod(b.mod)
		if m == nil {
			continue
		}
		cls := c.mustFunc(m, b.pkg, b.typ, "ClassifyMsg")
		enc := c.mustFunc(m, b.pkg, "", "encodeMsg")
		fSend := c.mustField(m, b.pkg, b.typ, "sendMsg")
		if cls == nil || enc == nil || fSend == nil {
			continue
		}
		tab, ok := classifyTable(cls)
		if !ok {
			c.Unk(T1, FuncName(cls), "classification table", m.Pos(cls.Pos()), "ClassifyMsg is not a switch over msgBytes[0] with constant results (idiom outside the recognised set)")
			continue
		}
		var tags []int64
		for k := range tab {
			tags = append(tags, k)
		}
		sort.Slice(tags, func(i, j int) bool { return tags[i] < tags[j] })
		seen := map[int64]int64{}
		for _, k := range tags {
			row := tab[k]
			if !row.bcast {
				continue
			}
			if row.round < 0 || row.round > 127 {
				c.Bad(T1, FuncName(cls), fmt.Sprintf("round of tag %d", k), m.Pos(row.pos), fmt.Sprintf("round %d outside 0..127 (the acknowledgement encoder panics)", row.round))
			} else if o, dup := seen[row.round]; dup {
				c.Bad(T1, FuncName(cls), fmt.Sprintf("round of tag %d", k), m.Pos(row.pos), fmt.Sprintf("broadcast tags %d and %d share round %d: an honest sender's second broadcast looks like equivocation", o, k, row.round))
			} else {
				seen[row.round] = k
				c.OK(T1, FuncName(cls), fmt.Sprintf("round of tag %d", k), m.Pos(row.pos), fmt.Sprintf("round %d unique", row.round))
			}
		}
		okEnc := encodeWritesTag(enc)
		fns := m.PkgFuncs(b.pkg)
		for _, f := range fns {
			c.Analysed(FuncName(f))
		}
		n := 0
		sites, undecided := backendSendSites(fns, fSend, enc)
		for _, call := range undecided {
			n++
			c.Unk(T2, FuncName(call.Parent()), "sendMsg call", m.Pos(call.Pos()), "the message is not built by encodeMsg with a tag that is constant at this send site (or at every call of the enclosing helper)")
		}
		for _, ss := range sites {
			n++
			fn := FuncName(ss.at.Parent())
			pos := m.Pos(ss.at.Pos())
			k := ss.tag
			sentB, okB := ss.bcastConst()
			if !okB {
				c.Unk(T2, fn, "sendMsg call", pos, "tag or class is not a constant at this send site")
				continue
			}
			row, has := tab[k]
			construct := fmt.Sprintf("sendMsg(encodeMsg(%d,…), %v,…)", k, sentB)
			switch {
			case !okEnc:
				c.Bad(T2, fn, construct, pos, "encodeMsg does not write its tag argument as the first byte of the message it returns")
			case !has:
				c.Bad(T2, fn, construct, pos, "the receiver-side classifier has no case for this tag: every such message is rejected")
			case row.bcast != sentB:
				c.Bad(T2, fn, construct, pos, fmt.Sprintf("sent with isBroadcast=%v but classified by receivers as broadcast=%v: it either bypasses reliable broadcast or never reaches the quorum", sentB, row.bcast))
			default:
				c.OK(T2, fn, construct, pos, fmt.Sprintf("receiver class %v, round %d", row.bcast, row.round))
			}
		}
		if n == 0 {
			c.Bad(T2, b.pkg, "sendMsg call sites", "-", "no send site found")
		}
	}
	for _, a := range adapters {
		t := loadAdapterTables(c, a, T1)
		if t == nil {
			continue
		}
		ruleAdapterDistinctRounds(c, T1, a, t)
	}
	// G1 / V1 on rbc
	r := buildRBCModel(c)
	if r == nil {
		return
	}
	n := 0
	for _, in := range r.registrationSites() {
		facts := FactsAt(in)
		// ack path = len(Ack digest) > 0
		if !hasFact(facts, r.ackPathFact) {
			continue
		}
		if mu, isMU := in.(*ssa.MapUpdate); isMU && r.isSelfID(mu.Key) {
			continue // the own voucher (direct receipt), not an acknowledgement
		}
		n++
		ok2 := hasFact(facts, func(f Fact) bool {
			return f.Op == token.NEQ && ((r.isAckSender(f.X) && r.isSelfID(f.Y)) || (r.isAckSender(f.Y) && r.isSelfID(f.X)))
		})
		c.Check(ok2, G1, FuncName(r.receive), "ack registration", r.m.Pos(in.Pos()), "dominated by sender(ack) != SelfID",
			"acknowledgements about this party's own broadcasts are registered: after N−1 of them the (never received) message is handed over as nil")
	}
	if n == 0 {
		c.Bad(G1, FuncName(r.receive), "ack registration", "-", "no registration on the acknowledgement path: early acknowledgements are lost")
	}
	ruleC03V3Named(c, r, V1)

	// O1: acknowledgements that overtake their payload are parked, not dropped: on the
	// acknowledgement path the voucher insertion must not be conditional on the payload
	// having been received already or on the entry existing.
	const O1 = "C04.O1"
	c.Rule(O1, "on the ack path the voucher insertion is not conditional on the payload/entry being present", 1)
	nO := 0
	for _, mu := range r.inserts {
		ctxs, ok := contextsOf(mu, r.entries, r.fns, 3)
		if !ok {
			continue
		}
		for _, sc := range ctxs {
			key := sc.Resolve(mu.Key)
			if r.isSelfID(key) {
				continue
			}
			nO++
			bad := ""
			// in this context the message argument is what the caller passed (nil on the ack path):
			prune := nilnessPrune(func(v ssa.Value) (bool, bool) {
				rv := sc.Resolve(v)
				if isNilConst(rv) {
					return true, true
				}
				return false, false
			})
			for _, f := range FactsAtP(mu, prune) {
				switch {
				case f.Op == token.NEQ && (isNilConst(f.Y) || isNilConst(f.X)):
					x := f.X
					if isNilConst(x) {
						x = f.Y
					}
					rx := sc.Resolve(x)
					if isNilConst(rx) {
						bad = "the insertion requires a non-nil message, which an acknowledgement never carries"
					}
					if _, fld, isF := fieldLoad(strip(x)); isF && fld == r.fEntryM {
						bad = "the insertion requires the payload to have been received already"
					}
				case f.Op == 0 && f.True:
					if tup, isOK := commaOK(f.Bool); isOK {
						if lk, isL := tup.(*ssa.Lookup); isL && isLoadOfField(lk.X, r.fReception) {
							bad = "the insertion requires the reception entry to exist already"
						}
					}
				}
			}
			c.Check(bad == "", O1, FuncName(mu.Parent()), "early acknowledgement parked via "+ctxName(sc), r.m.Pos(mu.Pos()),
				"no guard on payload/entry presence", bad+": an acknowledgement that overtakes its payload is lost and the quorum is never reached")
		}
	}
	if nO == 0 {
		c.Bad(O1, "rbc", "ack-path voucher insertion", "-", "no voucher insertion on the acknowledgement path")
	}
	ruleC04Drops(c, r)
	ruleC04Callbacks(c)
	ruleC04FreshFrames(c)
	// V2: the tables above say that broadcast types have distinct rounds; that helps only if the round a
	// received payload is registered under IS the local classifier's verdict on that payload (and an
	// acknowledgement's round the decoder's output) — the provenance rule shared with C02.V1 / C03.V2
	if t := buildThresholdModel(c); t != nil {
		ruleC02V1(c, t, "C04.V2")
	}
}

// ruleC04Callbacks (C04.O3): the two callbacks the orchestrator gives to every reliable-broadcast
// instance are unconditional: the acknowledgement callback reaches Scheme.Send with the encoding of
// its own arguments on every path, and the hand-over callback reaches the backend's OnMsg on every
// path.  An acknowledgement that is sometimes withheld (or a hand-over that is sometimes skipped)
// leaves the other receivers one voucher short for ever in a fault-free run.
func ruleC04Callbacks(c *Ctx) {
	const O3 = "C04.O3"
	c.Rule(O3, "acknowledgement and hand-over callbacks of every RBC instance are unconditional; a received payload is always acknowledged", 2)
	t := buildThresholdModel(c)
	if t == nil {
		return
	}
	n := 0
	for _, ci := range callsOfFuncField(t.fns, t.fRBF) {
		args := ci.Common().Args
		if len(args) < 2 {
			continue
		}
		for k, what := range []string{"acknowledgement callback reaches Send", "hand-over callback reaches OnMsg"} {
			// (a literal, or the literal a closure factory called here returns)
			mc, fc := closureLiteral(args[k])
			if mc == nil {
				c.Unk(O3, FuncName(ci.Parent()), what, t.m.Pos(ci.Pos()), "the callback is not a function literal")
				continue
			}
			lit := mc.Fn.(*ssa.Function)
			c.Analysed(FuncName(lit))
			n++
			done := func(in ssa.Instruction) bool {
				cc := callCommon(in)
				if cc == nil {
					return false
				}
				if k == 0 {
					if !callsFuncField(cc, t.fSend) || len(cc.Args) < 3 {
						return false
					}
					// the payload is the encoding of this callback's own arguments
					sl := t.sl.Slice(cc.Args[2])
					// (for a method value: the method's own parameters, without the receiver)
					params := lit.Params
					if body := litBody(lit); body != lit && body.Signature.Recv() != nil && len(body.Params) > 0 {
						params = body.Params[1:]
					}
					for _, p := range params {
						if !sl[p] {
							return false
						}
					}
					return true
				}
				if cc.IsInvoke() && cc.Method.Name() == "OnMsg" {
					return true
				}
				// the factory was given the backend's OnMsg as a method value
				if fa := factoryArg(cc.Value, fc); fa != nil {
					if _, meth, isB := boundMethod(fa); isB && meth.Name() == "OnMsg" {
						return true
					}
				}
				return false
			}
			bad := ""
			for _, e := range undoneExits(litBody(lit), withCallees(done, 0), nil) { // (a step that always does it counts)
				at := t.m.Pos(e.Ret.Instrs[len(e.Ret.Instrs)-1].Pos())
				if e.B == nil {
					bad = "the return at " + at + " is reached without it"
				} else {
					bad = "the return at " + at + " skips it, decided by the test at " + t.m.Pos(blockPos(e.B))
				}
				break
			}
			c.Check(bad == "", O3, FuncName(lit), what, t.m.Pos(lit.Pos()), "on every path from the entry to a return",
				"the callback does not always do its job: "+bad+"; an acknowledgement withheld (or a hand-over skipped) on some condition leaves the other parties' receivers one voucher short for ever, or loses a delivered message, in a fault-free run")
		}
	}
	if n == 0 {
		c.Bad(O3, "threshold", "RBC instance construction", "-", "no call through Scheme.RBF with function-literal callbacks found")
	}
	// receiver side: a directly received broadcast payload is always acknowledged
	r := buildRBCModel(c)
	if r == nil {
		return
	}
	nP := 0
	for _, in := range r.registrationSites() {
		if ci, isCall := in.(ssa.CallInstruction); isCall && callsFuncField(ci.Common(), r.fFwd) {
			continue // the point-to-point pass-through
		}
		if hasFact(FactsAt(in), r.ackPathFact) {
			continue
		}
		nP++
		acked := false
		for _, a := range callsOfFuncField(deepFuncs(r.receive), r.fAck) {
			if instrDominates(a.(ssa.Instruction), in) {
				acked = true
			}
		}
		if !acked {
			acked = pathToReturnAvoiding(in, func(x ssa.Instruction) bool {
				cc := callCommon(x)
				return cc != nil && callsFuncField(cc, r.fAck)
			}, nil) == nil
		}
		c.Check(acked, O3, FuncName(r.receive), "received payload is acknowledged", r.m.Pos(in.Pos()), "BroadcastAck on every path through the registration of a directly received payload",
			"a directly received broadcast payload is not always acknowledged: the other receivers never collect this party's voucher")
	}
	if nP == 0 {
		c.Bad(O3, FuncName(r.receive), "received payload is acknowledged", "-", "no registration of a directly received payload found")
	}
}

// ruleC04Drops (C04.O2): the only ways an incoming broadcast payload or acknowledgement leaves the
// receiver without being registered are the enumerated ones: the halt flag, an acknowledgement about
// an own message, a self-vouch, a conflicting digest (which sets the halt flag) — or a test of the
// message alone.  Any other arm that returns without the voucher insertion makes the outcome depend on
// what else is in flight (other rounds, other senders, arrival order), which is what C04 excludes.
func ruleC04Drops(c *Ctx, r *rbcModel) {
	const O2 = "C04.O2"
	c.Rule(O2, "no unregistered exit from Receive/registerMsg other than the enumerated drop reasons", 1)
	m := r.m
	sl := NewSlicer(m, PkgRBC)
	// mutable receiver state: fields of Receiver stored to by package code (directly or as a map)
	mutable := map[*types.Var]bool{}
	if st, ok := r.receiver.Underlying().(*types.Struct); ok {
		for i := 0; i < st.NumFields(); i++ {
			f := st.Field(i)
			if len(storesToField(r.fns, f)) > 0 || len(mapUpdatesOfField(r.fns, f)) > 0 {
				mutable[f] = true
			}
		}
	}
	readsMutable := func(v ssa.Value) *types.Var {
		var hit *types.Var
		for x := range sl.Slice(v) {
			if _, f, ok := fieldLoad(x); ok && mutable[f] {
				hit = f
			}
		}
		return hit
	}
	delivered := r.deliveredFlag()
	for _, fn := range r.fns {
		if fn.Blocks == nil || len(fn.Blocks[0].Instrs) == 0 {
			continue
		}
		// functions on the registration path: Receive and whatever it calls that reaches a sink
		if fn != r.receive && !(r.reachesSink(fn, map[*ssa.Function]bool{}) && len(staticCallsTo(r.fns, fn)) > 0) {
			continue
		}
		registered := func(in ssa.Instruction) bool {
			if mu, ok := in.(*ssa.MapUpdate); ok {
				for _, x := range r.inserts {
					if x == mu {
						return true
					}
				}
			}
			if st, ok := in.(*ssa.Store); ok {
				if fa, ok := st.Addr.(*ssa.FieldAddr); ok && fieldOfAddr(fa) == r.fEquiv {
					if k, ok := st.Val.(*ssa.Const); ok && k.Value != nil && k.Value.String() == "true" {
						// halting on a conflicting digest: the guard is checked by C02.G2
						return true
					}
				}
			}
			if ci, ok := in.(ssa.CallInstruction); ok {
				if callsFuncField(ci.Common(), r.fFwd) {
					return true
				}
				if cal := staticCallee(ci.Common()); cal != nil && pkgPathOf(cal) == PkgRBC && r.reachesSink(cal, map[*ssa.Function]bool{}) {
					return true
				}
			}
			return false
		}
		skip := func(b *ssa.BasicBlock, succ int) bool {
			iff, ok := b.Instrs[len(b.Instrs)-1].(*ssa.If)
			if !ok {
				return false
			}
			f := factOf(Guard{iff, succ == 0})
			// (the test may be on the verdict of a screening helper: what its returns with that verdict establish)
			for _, hf := range helperOutcomeFacts(f, 0) {
				switch {
				case hf.Op == token.EQL && ((r.isAckSender(hf.X) && r.isSelfID(hf.Y)) || (r.isAckSender(hf.Y) && r.isSelfID(hf.X))):
					return true // acknowledgement about an own message
				case hf.Op == token.EQL && ((r.isAckSender(hf.X) && strip(hf.Y) == ssa.Value(r.paramFrom)) || (r.isAckSender(hf.Y) && strip(hf.X) == ssa.Value(r.paramFrom))):
					return true // self-vouch
				}
			}
			switch {
			case f.Op == 0 && f.True && isLoadOfField(f.Bool, r.fEquiv):
				return true // halted
			case f.Op == token.EQL && ((r.isAckSender(f.X) && r.isSelfID(f.Y)) || (r.isAckSender(f.Y) && r.isSelfID(f.X))):
				return true // acknowledgement about an own message
			case f.Op == token.EQL && ((r.isAckSender(f.X) && strip(f.Y) == ssa.Value(r.paramFrom)) || (r.isAckSender(f.Y) && strip(f.X) == ssa.Value(r.paramFrom))):
				return true // self-vouch
			case f.Op == 0 && f.True && delivered != nil:
				// the very entry this message belongs to was handed over already: nothing left to collect
				if _, fld, isF := entryBaseOf(f.Bool); isF && fld == delivered {
					k := r.receptionKeyOf(f.Bool)
					for _, mu := range r.inserts {
						if mu.Parent() == fn && k != nil && sameValue(k, r.receptionKeyOf(mu.Map)) {
							return true
						}
					}
				}
			}
			return false
		}
		// a step split off a registering function (its only caller), called after the registration has
		// happened: none of its exits skips it
		if cs := helperCall(fn); cs != nil {
			after := false
			for _, in := range instrsOf(cs.Parent()) {
				if in != ssa.Instruction(cs) && registered(in) && instrDominates(in, cs) {
					after = true
				}
			}
			if after {
				c.Check(true, O2, FuncName(fn), "exits without registration", m.Pos(fn.Pos()), "called only after the registration in "+FuncName(cs.Parent()), "")
				continue
			}
		}
		bad := ""
		for _, e := range undoneExits(fn, registered, skip) {
			if e.B == nil {
				bad = "the return at " + m.Pos(e.Ret.Instrs[len(e.Ret.Instrs)-1].Pos()) + " is reached without any registration"
				break
			}
			iff := e.B.Instrs[len(e.B.Instrs)-1].(*ssa.If)
			// a test of the message alone (no mutable receiver state involved) may decide an exit
			if f := readsMutable(iff.Cond); f != nil {
				bad = "the return at " + m.Pos(e.Ret.Instrs[len(e.Ret.Instrs)-1].Pos()) + " skips registration and is decided by the test at " + m.Pos(blockPos(e.B)) + ", which reads receiver state " + f.Name()
				break
			}
		}
		c.Check(bad == "", O2, FuncName(fn), "exits without registration", m.Pos(fn.Pos()),
			"every return that skips the voucher insertion / hand-over is behind: halt flag, ack about own message, self-vouch, conflicting digest (sets the halt flag), this entry already handed over, or a test of the message alone",
			"a payload or acknowledgement can be dropped silently: "+bad+"; whether it is dropped depends on what else was received before, so some interleavings lose a broadcast (no quorum) in a fault-free run")
	}
}

// deliveredFlag: the boolean field of a reception entry whose falsity guards the broadcast hand-over
// (the at-most-once flag that C03.G1 checks).
func (r *rbcModel) deliveredFlag() *types.Var {
	for _, h := range r.bcastHandovers {
		for _, f := range FactsAt(h.(ssa.Instruction)) {
			if f.Op != 0 || f.True {
				continue
			}
			if _, fld, isF := entryBaseOf(f.Bool); isF && r.receptionKeyOf(f.Bool) != nil {
				return fld
			}
		}
	}
	return nil
}

// pureAccessor: a function with one block and one return whose results are read off its parameters
// (index/slice/field expressions), with no calls and no stores.
func pureAccessor(g *ssa.Function) bool {
	if g == nil || len(g.Blocks) != 1 || len(g.FreeVars) > 0 {
		return false
	}
	for _, in := range g.Blocks[0].Instrs {
		switch in.(type) {
		case *ssa.IndexAddr, *ssa.UnOp, *ssa.Slice, *ssa.Return, *ssa.Field, *ssa.FieldAddr, *ssa.Convert, *ssa.ChangeType, *ssa.DebugRef:
		default:
			return false
		}
	}
	return true
}

// globalStoredOutsideInit: a package-level variable assigned (or whose address escapes) anywhere but in
// the package initialiser.
func globalStoredOutsideInit(g *ssa.Global) bool {
	if g.Pkg == nil {
		return true
	}
	var roots []*ssa.Function
	for _, mem := range g.Pkg.Members {
		switch x := mem.(type) {
		case *ssa.Function:
			roots = append(roots, x)
		case *ssa.Type:
			n, ok := x.Type().(*types.Named)
			if !ok {
				continue
			}
			for _, t := range []types.Type{n, types.NewPointer(n)} {
				ms := g.Pkg.Prog.MethodSets.MethodSet(t)
				for i := 0; i < ms.Len(); i++ {
					if f := g.Pkg.Prog.MethodValue(ms.At(i)); f != nil && f.Pkg == g.Pkg {
						roots = append(roots, f)
					}
				}
			}
		}
	}
	for _, f := range roots {
		for _, fn := range WithAnon(f) {
			if fn.Name() == "init" && fn.Parent() == nil {
				continue
			}
			for _, b := range fn.Blocks {
				for _, in := range b.Instrs {
					for _, op := range in.Operands(nil) {
						if *op != ssa.Value(g) {
							continue
						}
						if ld, ok := in.(*ssa.UnOp); ok && ld.Op == token.MUL {
							// a read; a map read through it may still be updated: look for updates
							for _, r := range *ld.Referrers() {
								if _, isUp := r.(*ssa.MapUpdate); isUp {
									return true
								}
								if cl, isC := r.(ssa.CallInstruction); isC {
									if bi, isB := cl.Common().Value.(*ssa.Builtin); isB && (bi.Name() == "len") {
										continue
									}
									return true // handed to a function (delete, or anything that may write)
								}
								if _, isSt := r.(*ssa.Store); isSt {
									return true
								}
							}
							continue
						}
						return true
					}
				}
			}
		}
	}
	// methods
	return false
}

// ruleC04FreshFrames (C04.F1): every frame the orchestrator hands to Scheme.Send is built in a buffer of
// its own.  Send keeps the slice after it returns (the transport queues it for a writer goroutine, the
// silent-mode Box passes it on): a frame assembled in a scratch buffer that outlives the invocation —
// a captured variable, a field, a global, re-sliced to [:0] and appended to — is overwritten by the next
// message while it is still queued.  A private message then arrives as (part of) a later broadcast: the
// addressee never gets it and honest parties see two different digests for one (sender, round).
// Decided: the buffer the payload argument was grown from (through append chains, loops and transparent
// helpers) is a nil slice, a make or a literal of the same invocation, or a value the invocation was
// given as a parameter — never a load from memory that persists across invocations.
func ruleC04FreshFrames(c *Ctx) {
	const F1 = "C04.F1"
	c.Rule(F1, "frames handed to Scheme.Send are built in a buffer of their own (no scratch buffer shared across sends)", 4)
	t := buildThresholdModel(c)
	if t == nil {
		return
	}
	n := 0
	for _, call := range callsOfFuncField(t.fns, t.fSend) {
		args := call.Common().Args
		if len(args) < 3 {
			continue
		}
		n++
		root := bufferRoot(args[2])
		bad := ""
		switch x := root.(type) {
		case *ssa.UnOp:
			if x.Op == token.MUL {
				switch a := x.X.(type) {
				case *ssa.FreeVar:
					bad = "a variable captured from the enclosing function (" + a.Name() + ")"
				case *ssa.FieldAddr:
					bad = "a field (" + fieldOfAddr(a).Name() + ")"
				case *ssa.Global:
					bad = "a package-level variable (" + a.Name() + ")"
				case *ssa.Alloc:
					// a local cell: fine unless closures that outlive this invocation write it — a cell
					// captured by a literal is shared with every invocation of that literal
					if a.Referrers() != nil {
						for _, r := range *a.Referrers() {
							if _, isMC := r.(*ssa.MakeClosure); isMC {
								if sts := storesToCell(a); len(sts) > 1 {
									bad = "a local variable shared with a function literal and assigned more than once (" + a.Comment + ")"
								}
							}
						}
					}
				}
			}
		}
		c.Check(bad == "", F1, FuncName(call.Parent()), "payload buffer of a send", t.m.Pos(call.Pos()),
			"grown from "+render(root)+": a buffer of this invocation (or the caller's value)",
			"the frame is assembled in "+bad+", re-used by every send: Send keeps the slice (transport queue, message box), so the next message overwrites a frame that is still queued — a private message is lost and receivers see conflicting digests for one sender and round in a fault-free run")
	}
	if n == 0 {
		c.Bad(F1, "threshold", "sends", "-", "no call of Scheme.Send found")
	}
}
