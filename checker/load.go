package main

// Loader: one Go module of /repo -> type-checked packages + SSA + (lazy) VTA call graph.
// Nothing is cached between runs; every run re-reads /repo's working tree.

import (
	"fmt"
	"go/ast"
	"go/token"
	"go/types"
	"os"
	"path/filepath"
	"sort"
	"strings"

	"golang.org/x/tools/go/callgraph"
	"golang.org/x/tools/go/callgraph/cha"
	"golang.org/x/tools/go/callgraph/vta"
	"golang.org/x/tools/go/packages"
	"golang.org/x/tools/go/ssa"
	"golang.org/x/tools/go/ssa/ssautil"
)

// The five analysed modules, relative to the repository root.
const (
	ModRoot  = "."
	ModBLS   = "mpc/bls"
	ModPS    = "mpc/ps"
	ModECDSA = "mpc/binance/ecdsa"
	ModEDDSA = "mpc/binance/eddsa"
)

const (
	PkgThreshold = "github.com/IBM/TSS/threshold"
	PkgRBC       = "github.com/IBM/TSS/rbc"
	PkgDisc      = "github.com/IBM/TSS/disc"
	PkgMsg       = "github.com/IBM/TSS/msg"
	PkgNet       = "github.com/IBM/TSS/net"
	PkgTypes     = "github.com/IBM/TSS/types"
	PkgBLS       = "github.com/IBM/TSS/mpc/bls"
	PkgPS        = "github.com/IBM/TSS/mpc/ps"
	PkgECDSA     = "github.com/IBM/TSS/mpc/binance/ecdsa"
	PkgEDDSA     = "github.com/IBM/TSS/mpc/binance/eddsa"
)

type Module struct {
	Repo    string // repository root
	Rel     string // module dir relative to Repo
	Dir     string
	Fset    *token.FileSet
	Initial []*packages.Package
	All     map[string]*packages.Package
	Prog    *ssa.Program
	cg      *callgraph.Graph
	allFns  map[*ssa.Function]bool
}

func goEnv() []string {
	var env []string
	for _, e := range os.Environ() {
		if strings.HasPrefix(e, "GOWORK=") || strings.HasPrefix(e, "GOFLAGS=") ||
			strings.HasPrefix(e, "GOPROXY=") || strings.HasPrefix(e, "GOSUMDB=") ||
			strings.HasPrefix(e, "GOTOOLCHAIN=") || strings.HasPrefix(e, "GOARCH=") && os.Getenv("TSSCHECK_KEEP_GOARCH") == "" {
			continue
		}
		env = append(env, e)
	}
	env = append(env, "GOWORK=off", "GOFLAGS=-mod=mod", "GOPROXY=off", "GOSUMDB=off", "GOTOOLCHAIN=local")
	return env
}

// LoadModule type-checks every non-test package of the module (and, with
// syntax, all of its dependencies) and builds SSA for the whole program.
// Any load or type error is returned: an unanalysable tree is a failure.
func LoadModule(repo, rel string) (*Module, error) {
	dir := filepath.Join(repo, rel)
	fset := token.NewFileSet()
	cfg := &packages.Config{
		Mode:  packages.LoadAllSyntax | packages.NeedModule,
		Dir:   dir,
		Fset:  fset,
		Env:   goEnv(),
		Tests: false,
	}
	initial, err := packages.Load(cfg, "./...")
	if err != nil {
		return nil, fmt.Errorf("load %s: %v", rel, err)
	}
	if len(initial) == 0 {
		return nil, fmt.Errorf("load %s: zero packages", rel)
	}
	m := &Module{Repo: repo, Rel: rel, Dir: dir, Fset: fset, Initial: initial, All: map[string]*packages.Package{}}
	var errs []string
	packages.Visit(initial, nil, func(p *packages.Package) {
		m.All[p.PkgPath] = p
		for _, e := range p.Errors {
			errs = append(errs, e.Error())
		}
	})
	if len(errs) > 0 {
		sort.Strings(errs)
		if len(errs) > 8 {
			errs = errs[:8]
		}
		return nil, fmt.Errorf("load %s: type/load errors: %s", rel, strings.Join(errs, "; "))
	}
	prog, _ := ssautil.AllPackages(initial, ssa.InstantiateGenerics)
	prog.Build()
	m.Prog = prog
	registerHelpers(m)
	loadedModules = append(loadedModules, m)
	if !anchorLearn {
		m.resolveAllAnchors()
	}
	return m, nil
}

// OwnPackage reports whether the package path belongs to IBM/TSS itself.
func ownPkgPath(p string) bool {
	return p == "github.com/IBM/TSS" || strings.HasPrefix(p, "github.com/IBM/TSS/")
}

func (m *Module) Pkg(path string) *packages.Package { return m.All[path] }

func (m *Module) SSAPkg(path string) *ssa.Package {
	p := m.All[path]
	if p == nil {
		return nil
	}
	return m.Prog.Package(p.Types)
}

// InitialOwn returns the module's own packages (sorted by path).
func (m *Module) InitialOwn() []*packages.Package {
	out := append([]*packages.Package(nil), m.Initial...)
	sort.Slice(out, func(i, j int) bool { return out[i].PkgPath < out[j].PkgPath })
	return out
}

// LookupType returns the named type pkg.name or nil.  An unexported type that was renamed is found by
// its recorded shape (anchorfp.go).
func (m *Module) LookupType(pkg, name string) *types.Named {
	p := m.All[pkg]
	if p == nil {
		return nil
	}
	if o := p.Types.Scope().Lookup(name); o != nil {
		if tn, ok := o.(*types.TypeName); ok {
			if n, _ := tn.Type().(*types.Named); n != nil {
				m.learnType(pkg, n)
				return n
			}
		}
		return nil
	}
	return m.typeByFingerprint(pkg, name)
}

// Func resolves a package-level function (recv == "") or a method of the
// named type recv (pointer or value receiver).  An unexported function that was renamed is found by
// its recorded signature and body features (anchorfp.go).
func (m *Module) Func(pkg, recv, name string) *ssa.Function {
	p := m.All[pkg]
	if p == nil {
		return nil
	}
	if recv == "" {
		if o := p.Types.Scope().Lookup(name); o != nil {
			f, ok := o.(*types.Func)
			if !ok {
				return nil
			}
			fn := m.Prog.FuncValue(f)
			m.learnFunc(pkg, recv, name, fn)
			return fn
		}
		var cands []*ssa.Function
		sc := p.Types.Scope()
		for _, nm := range sc.Names() {
			if f, ok := sc.Lookup(nm).(*types.Func); ok {
				cands = append(cands, m.Prog.FuncValue(f))
			}
		}
		if fn := m.funcByFingerprint(pkg, recv, name, cands); fn != nil {
			return fn
		}
		// a package-level function that became a method of a (session) type of the package under the
		// same name: unique among the methods declared in the package
		var meth []*ssa.Function
		for _, nm := range sc.Names() {
			tn, ok := sc.Lookup(nm).(*types.TypeName)
			if !ok {
				continue
			}
			named, ok := tn.Type().(*types.Named)
			if !ok {
				continue
			}
			for i := 0; i < named.NumMethods(); i++ {
				if f := named.Method(i); f.Name() == name {
					if fn := m.Prog.FuncValue(f); fn != nil {
						meth = append(meth, fn)
					}
				}
			}
		}
		if len(meth) == 1 {
			noteFallback("anchor: %s.%s is now the method %s", pkg, name, FuncName(meth[0]))
			return meth[0]
		}
		return nil
	}
	n := m.LookupType(pkg, recv)
	if n == nil {
		return nil
	}
	var cands []*ssa.Function
	for _, t := range []types.Type{n, types.NewPointer(n)} {
		ms := types.NewMethodSet(t)
		for i := 0; i < ms.Len(); i++ {
			sel := ms.At(i)
			f, ok := sel.Obj().(*types.Func)
			if !ok || sel.Obj().Pkg() != p.Types || len(sel.Index()) != 1 {
				continue // only methods declared on this type (not promoted)
			}
			if sel.Obj().Name() == name {
				fn := m.Prog.FuncValue(f)
				m.learnFunc(pkg, recv, name, fn)
				return fn
			}
			cands = append(cands, m.Prog.FuncValue(f))
		}
	}
	return m.funcByFingerprint(pkg, recv, name, cands)
}

// Field resolves a struct field object of named struct type pkg.typ.  An unexported field that was
// renamed is found by its type shape and position among the same-shaped fields (anchorfp.go).
func (m *Module) Field(pkg, typ, field string) *types.Var {
	n := m.LookupType(pkg, typ)
	if n == nil {
		return nil
	}
	st, ok := n.Underlying().(*types.Struct)
	if !ok {
		return nil
	}
	for i := 0; i < st.NumFields(); i++ {
		if st.Field(i).Name() == field {
			m.learnField(pkg, typ, st, st.Field(i))
			return st.Field(i)
		}
	}
	if f := m.fieldByFingerprint(pkg, typ, st, field); f != nil {
		return f
	}
	return m.fieldInNestedStruct(pkg, typ, st, field)
}

// WithAnon returns fn and all function literals nested in it.
func WithAnon(fn *ssa.Function) []*ssa.Function {
	if fn == nil {
		return nil
	}
	out := []*ssa.Function{fn}
	for _, a := range fn.AnonFuncs {
		out = append(out, WithAnon(a)...)
	}
	// method values standing for literals written in fn (inline.go)
	var ws []*ssa.Function
	for w, mc := range methodLiteral {
		if mc.Parent() == fn {
			ws = append(ws, w)
		}
	}
	sort.Slice(ws, func(i, j int) bool { return ws[i].String() < ws[j].String() })
	return append(out, ws...)
}

// PkgFuncs returns every source function (incl. methods and literals) of an own package.
func (m *Module) PkgFuncs(pkg string) []*ssa.Function {
	sp := m.SSAPkg(pkg)
	if sp == nil {
		return nil
	}
	seen := map[*ssa.Function]bool{}
	var out []*ssa.Function
	add := func(f *ssa.Function) {
		if f == nil || seen[f] || f.Blocks == nil {
			return
		}
		for _, g := range WithAnon(f) {
			if !seen[g] {
				seen[g] = true
				out = append(out, g)
			}
		}
	}
	for _, mem := range sp.Members {
		switch x := mem.(type) {
		case *ssa.Function:
			if x.Synthetic == "" || x.Name() == "init" {
				add(x)
			}
		case *ssa.Type:
			n, ok := x.Type().(*types.Named)
			if !ok {
				continue
			}
			for _, t := range []types.Type{n, types.NewPointer(n)} {
				ms := m.Prog.MethodSets.MethodSet(t)
				for i := 0; i < ms.Len(); i++ {
					f := m.Prog.MethodValue(ms.At(i))
					if f != nil && f.Synthetic == "" && f.Pkg == sp {
						add(f)
					}
				}
			}
		}
	}
	for _, w := range extraFuncs[pkg] {
		if !seen[w] {
			seen[w] = true
			out = append(out, w)
		}
	}
	// instantiations of the package's generic functions (built with ssa.InstantiateGenerics): each is a
	// function with a body of its own that the package's code calls
	for fn := range m.AllFunctions() {
		if o := fn.Origin(); o != nil && o != fn && o.Pkg == sp && fn.Blocks != nil && fn.Parent() == nil {
			add(fn)
		}
	}
	sort.Slice(out, func(i, j int) bool { return out[i].String() < out[j].String() })
	return out
}

// AllFunctions of the program (needed by VTA).
func (m *Module) AllFunctions() map[*ssa.Function]bool {
	if m.allFns == nil {
		m.allFns = ssautil.AllFunctions(m.Prog)
	}
	return m.allFns
}

// CallGraph returns the VTA call graph refined from CHA.
func (m *Module) CallGraph() *callgraph.Graph {
	if m.cg == nil {
		fns := m.AllFunctions()
		m.cg = vta.CallGraph(fns, cha.CallGraph(m.Prog))
	}
	return m.cg
}

func (m *Module) Pos(p token.Pos) string {
	if !p.IsValid() {
		return "-"
	}
	pos := m.Fset.Position(p)
	rel, err := filepath.Rel(m.Repo, pos.Filename)
	if err != nil || strings.HasPrefix(rel, "..") {
		rel = pos.Filename
	}
	return fmt.Sprintf("%s:%d:%d", rel, pos.Line, pos.Column)
}

// FileOf returns the syntax file containing pos in an own package.
func (m *Module) FileOf(p token.Pos) (*packages.Package, *ast.File) {
	for _, pk := range m.All {
		if !ownPkgPath(pk.PkgPath) {
			continue
		}
		for _, f := range pk.Syntax {
			if f.Pos() <= p && p <= f.End() {
				return pk, f
			}
		}
	}
	return nil, nil
}

// FuncName is the stable, line-independent name used in obligation keys.
func FuncName(fn *ssa.Function) string {
	if fn == nil {
		return "<nil>"
	}
	s := fn.String()
	s = strings.ReplaceAll(s, "github.com/IBM/TSS/", "")
	return s
}
