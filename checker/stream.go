package main

// Value-precise linear arithmetic over slice lengths, copy completeness, and the byte-stream
// content of writer calls (used by the framing rules of C17 and the encoder rules of C13).
//
// Unlike Lin (ssax.go), whose terms are keyed by role so that two functions can be compared,
// VLin keys its atoms by value identity inside ONE function, so it can be used to prove
// inequalities.

import (
	"fmt"
	"go/token"
	"go/types"
	"sort"
	"strconv"
	"strings"

	"golang.org/x/tools/go/ssa"
)

type VLin struct {
	T map[string]int64
	K int64
}

func vconst(k int64) VLin { return VLin{T: map[string]int64{}, K: k} }
func vatom(a string) VLin { return VLin{T: map[string]int64{a: 1}} }
func vadd(a, b VLin, sign int64) VLin {
	out := VLin{T: map[string]int64{}, K: a.K + sign*b.K}
	for k, v := range a.T {
		out.T[k] += v
	}
	for k, v := range b.T {
		out.T[k] += sign * v
	}
	for k, v := range out.T {
		if v == 0 {
			delete(out.T, k)
		}
	}
	return out
}
func vscale(a VLin, k int64) VLin {
	out := VLin{T: map[string]int64{}, K: a.K * k}
	for t, c := range a.T {
		if c*k != 0 {
			out.T[t] = c * k
		}
	}
	return out
}
func (a VLin) eq(b VLin) bool {
	d := vadd(a, b, -1)
	return d.K == 0 && len(d.T) == 0
}
func (a VLin) String() string {
	var ks []string
	for k := range a.T {
		ks = append(ks, k)
	}
	sort.Strings(ks)
	var sb strings.Builder
	for _, k := range ks {
		fmt.Fprintf(&sb, "%+d·%s ", a.T[k], k)
	}
	fmt.Fprintf(&sb, "%+d", a.K)
	return sb.String()
}

// nonneg: every atom is a length (or unsigned) with a non-negative coefficient and K ≥ 0.
func (a VLin) nonneg() bool {
	if a.K < 0 {
		return false
	}
	for t, c := range a.T {
		if c < 0 || !(strings.HasPrefix(t, "len(") || strings.HasPrefix(t, "u:")) {
			return false
		}
	}
	return true
}

type lenEnv struct {
	fn       *ssa.Function
	pkgFns   []*ssa.Function
	resolved bool // resolve copy() results to len(src) when the copy is provably complete
	depth    int
}

// objKey: canonical name of the object a slice value denotes (stable across repeated loads of a
// field that this function never stores to); "" if the value has no stable name.
func (e *lenEnv) objKey(v ssa.Value) string {
	v = strip(v)
	switch x := v.(type) {
	case *ssa.Parameter:
		return fmt.Sprintf("param%d", paramIndex(x))
	case *ssa.UnOp:
		if x.Op == token.MUL {
			if fa, ok := x.X.(*ssa.FieldAddr); ok {
				f := fieldOfAddr(fa)
				b := e.objKey(fa.X)
				if b == "" {
					return ""
				}
				if len(storesToField([]*ssa.Function{e.fn}, f)) > 0 {
					// stored in this function: repeated loads may differ; name the object, not the value
					return b + "." + f.Name() + "@obj"
				}
				return b + "." + f.Name()
			}
		}
	}
	if v == nil {
		return ""
	}
	return fmt.Sprintf("%s#%s", v.Name(), e.fn.Name())
}

func (e *lenEnv) of(v ssa.Value) VLin {
	v = strip(v)
	if k, ok := constInt(v); ok {
		return vconst(k)
	}
	switch x := v.(type) {
	case *ssa.BinOp:
		switch x.Op {
		case token.ADD:
			return vadd(e.of(x.X), e.of(x.Y), 1)
		case token.SUB:
			return vadd(e.of(x.X), e.of(x.Y), -1)
		case token.MUL:
			if k, ok := constInt(x.Y); ok {
				return vscale(e.of(x.X), k)
			}
			if k, ok := constInt(x.X); ok {
				return vscale(e.of(x.Y), k)
			}
		}
	case *ssa.Convert:
		if intWidth(x.X.Type()) > 0 && intWidth(x.Type()) >= intWidth(x.X.Type()) {
			return e.of(x.X)
		}
	case *ssa.Call:
		if b, ok := x.Call.Value.(*ssa.Builtin); ok {
			switch b.Name() {
			case "len":
				return e.lenOf(x.Call.Args[0])
			case "copy":
				if e.resolved && e.depth < 6 {
					e.depth++
					ok, _ := e.copyComplete(x)
					e.depth--
					if ok {
						return e.lenOf(x.Call.Args[1])
					}
				}
			}
		}
	}
	pre := "v:"
	if b, ok := v.Type().Underlying().(*types.Basic); ok && b.Info()&types.IsUnsigned != 0 {
		pre = "u:"
	}
	return vatom(pre + v.Name() + "#" + e.fn.Name())
}

func (e *lenEnv) lenOf(x ssa.Value) VLin {
	x = resultOf(x)
	switch s := x.(type) {
	case *ssa.Const:
		if s.Value == nil {
			return vconst(0)
		}
		if s.Value.Kind().String() == "String" {
			return vconst(int64(len(constantString(s))))
		}
	case *ssa.MakeSlice:
		return e.of(s.Len)
	case *ssa.Slice:
		var hi VLin
		if s.High != nil {
			hi = e.of(s.High)
		} else if p, ok := s.X.Type().Underlying().(*types.Pointer); ok {
			if arr, ok := p.Elem().Underlying().(*types.Array); ok {
				hi = vconst(arr.Len())
			} else {
				hi = vatom("len(" + e.objKey(s.X) + ")")
			}
		} else {
			hi = e.lenOf(s.X)
		}
		if s.Low != nil {
			return vadd(hi, e.of(s.Low), -1)
		}
		return hi
	case *ssa.Call:
		if b, ok := s.Call.Value.(*ssa.Builtin); ok && b.Name() == "append" && len(s.Call.Args) == 2 {
			return vadd(e.lenOf(s.Call.Args[0]), e.lenOf(s.Call.Args[1]), 1)
		}
	case *ssa.Phi:
		var first *VLin
		same := true
		for _, ed := range s.Edges {
			l := e.lenOf(ed)
			if first == nil {
				first = &l
			} else if !first.eq(l) {
				same = false
			}
		}
		if first != nil && same {
			return *first
		}
	case *ssa.UnOp:
		if s.Op == token.MUL {
			if fa, ok := s.X.(*ssa.FieldAddr); ok {
				if k, ok := e.fieldLenAt(s, fa); ok {
					return vconst(k)
				}
			}
		}
	}
	k := e.objKey(x)
	if k == "" {
		k = x.Name() + "#" + e.fn.Name()
	}
	if strings.HasSuffix(k, "@obj") {
		// a field this function stores to: the length belongs to this particular load
		k += ":" + x.Name()
	}
	return vatom("len(" + k + ")")
}

func constantString(c *ssa.Const) string {
	s := c.Value.ExactString()
	if len(s) >= 2 && s[0] == '"' {
		if u, err := strconv.Unquote(s); err == nil {
			return u
		}
	}
	return s
}

// fieldLenAt: the length of a buffer kept in a struct field, when every store to the field in the
// package is a make of one constant length (or nil) located in this function, and the field is
// provably non-nil at the load (stored, or tested against nil, on every path).
func (e *lenEnv) fieldLenAt(ld *ssa.UnOp, fa *ssa.FieldAddr) (int64, bool) {
	f := fieldOfAddr(fa)
	all := storesToField(e.pkgFns, f)
	if len(all) == 0 {
		return 0, false
	}
	var K int64 = -1
	madeConst := func(v ssa.Value) (int64, bool) {
		v = strip(v)
		switch m := v.(type) {
		case *ssa.MakeSlice:
			return constInt(m.Len)
		case *ssa.Slice:
			if al, ok := m.X.(*ssa.Alloc); ok && m.Low == nil {
				if arr, ok := al.Type().(*types.Pointer).Elem().Underlying().(*types.Array); ok {
					if m.High == nil {
						return arr.Len(), true
					}
					return constInt(m.High)
				}
			}
		}
		return 0, false
	}
	for _, st := range all {
		if st.Parent() != e.fn {
			return 0, false
		}
		if isNilConst(st.Val) {
			continue
		}
		k, ok := madeConst(st.Val)
		if !ok || (K >= 0 && k != K) {
			return 0, false
		}
		K = k
	}
	if K < 0 {
		return 0, false
	}
	base := e.objKey(fa.X)
	sameField := func(a ssa.Value) bool {
		fa2, ok := a.(*ssa.FieldAddr)
		return ok && fieldOfAddr(fa2) == f && e.objKey(fa2.X) == base
	}
	// must-non-nil forward analysis
	in := map[*ssa.BasicBlock]bool{}
	out := map[*ssa.BasicBlock]bool{}
	for _, b := range e.fn.Blocks {
		in[b], out[b] = true, true
	}
	in[e.fn.Blocks[0]] = false
	transfer := func(b *ssa.BasicBlock, st bool, upto ssa.Instruction) bool {
		for _, i := range b.Instrs {
			if i == upto {
				return st
			}
			if s, ok := i.(*ssa.Store); ok && sameField(s.Addr) {
				st = !isNilConst(s.Val)
			}
		}
		return st
	}
	edgeVal := func(p, b *ssa.BasicBlock) bool {
		v := out[p]
		if iff, ok := p.Instrs[len(p.Instrs)-1].(*ssa.If); ok && len(p.Succs) == 2 {
			for k, s := range p.Succs {
				if s != b {
					continue
				}
				fct := factOf(Guard{iff, k == 0})
				if fct.Op == token.NEQ && isNilConst(fct.Y) {
					if l, ok := strip(fct.X).(*ssa.UnOp); ok && l.Op == token.MUL && sameField(l.X) {
						// no store between that load and the branch
						okNo := true
						for _, i := range p.Instrs[instrIndexIn(p, l)+1:] {
							if s, ok := i.(*ssa.Store); ok && sameField(s.Addr) {
								okNo = false
							}
						}
						if okNo && l.Block() == p {
							v = true
						}
					}
				}
			}
		}
		return v
	}
	for changed := true; changed; {
		changed = false
		for _, b := range e.fn.Blocks {
			ni := b != e.fn.Blocks[0]
			if ni {
				for _, p := range b.Preds {
					if !edgeVal(p, b) {
						ni = false
					}
				}
				if len(b.Preds) == 0 {
					ni = false
				}
			}
			no := transfer(b, ni, nil)
			if ni != in[b] || no != out[b] {
				in[b], out[b] = ni, no
				changed = true
			}
		}
	}
	if transfer(ld.Block(), in[ld.Block()], ld) {
		return K, true
	}
	return 0, false
}

func instrIndexIn(b *ssa.BasicBlock, v ssa.Value) int {
	for i, in := range b.Instrs {
		if x, ok := in.(ssa.Value); ok && x == v {
			return i
		}
	}
	return -1
}

// factsVLin: the mandatory guards at `at` as inequalities G ≥ 0.
func (e *lenEnv) factsVLin(at ssa.Instruction) []VLin {
	var out []VLin
	for _, f := range FactsAt(at) {
		if f.Op == 0 || (intWidth(f.X.Type()) == 0 && !isUntypedInt(f.X.Type())) {
			continue
		}
		x, y := e.of(f.X), e.of(f.Y)
		switch f.Op {
		case token.LEQ:
			out = append(out, vadd(y, x, -1))
		case token.LSS:
			out = append(out, vadd(vadd(y, x, -1), vconst(1), -1))
		case token.GEQ:
			out = append(out, vadd(x, y, -1))
		case token.GTR:
			out = append(out, vadd(vadd(x, y, -1), vconst(1), -1))
		case token.EQL:
			out = append(out, vadd(x, y, -1), vadd(y, x, -1))
		}
	}
	return out
}

// proveGE0: L ≥ 0 at `at`, from at most two guards plus non-negativity of lengths.
func (e *lenEnv) proveGE0(l VLin, at ssa.Instruction) (bool, string) {
	if l.nonneg() {
		return true, "by construction"
	}
	gs := e.factsVLin(at)
	for _, g := range gs {
		if vadd(l, g, -1).nonneg() {
			return true, "from the guard " + g.String() + " ≥ 0"
		}
	}
	for i, g := range gs {
		for _, h := range gs[i+1:] {
			if vadd(vadd(l, g, -1), h, -1).nonneg() {
				return true, "from the guards " + g.String() + " ≥ 0 and " + h.String() + " ≥ 0"
			}
		}
	}
	return false, ""
}

// copyComplete: copy(dst, src) copies all of src (len(dst) ≥ len(src) on every path to it).
func (e *lenEnv) copyComplete(c *ssa.Call) (bool, string) {
	sub := *e
	sub.resolved = true
	d := vadd(sub.lenOf(c.Call.Args[0]), sub.lenOf(c.Call.Args[1]), -1)
	ok, by := sub.proveGE0(d, c)
	if ok {
		return true, by
	}
	return false, "len(dst) − len(src) = " + d.String() + " is not provably ≥ 0"
}

func builtinCalls(fn *ssa.Function, name string) []*ssa.Call {
	var out []*ssa.Call
	for _, in := range instrsDeep(fn) {
		if c, ok := in.(*ssa.Call); ok {
			if b, ok := c.Call.Value.(*ssa.Builtin); ok && b.Name() == name {
				out = append(out, c)
			}
		}
	}
	return out
}

// ---------------------------------------------------------------------------
// stream content

type segment struct {
	Src      string // "header", "data", or a description of anything else
	Complete bool
	Why      string
}

type streamEnv struct {
	le     *lenEnv
	header ssa.Value // the header buffer (root)
	isData func(v ssa.Value) bool
}

// rootAndOffset: v = B[lo:...][lo2:...] → (B, Σ lo) with the unresolved (atom) form of copy results.
func (se *streamEnv) rootAndOffset(v ssa.Value) (ssa.Value, VLin) {
	v = resultOf(v)
	off := vconst(0)
	for i := 0; i < 6; i++ {
		s, ok := v.(*ssa.Slice)
		if !ok {
			break
		}
		if _, isArr := s.X.Type().Underlying().(*types.Pointer); isArr {
			break // slice of an array allocation: that is the make itself
		}
		if s.Low != nil {
			off = vadd(off, se.le.of(s.Low), 1)
		}
		v = strip(s.X)
	}
	return v, off
}

func (se *streamEnv) sameObj(a, b ssa.Value) bool {
	a, b = strip(a), strip(b)
	if a == b {
		return true
	}
	ka, kb := se.le.objKey(a), se.le.objKey(b)
	return ka != "" && ka == kb && !strings.Contains(ka, "#")
}

// segsOf: what bytes a slice value holds when it is written at `at`.
func (se *streamEnv) segsOf(v ssa.Value, at ssa.Instruction, depth int) []segment {
	v = resultOf(v)
	if depth > 4 {
		return []segment{{Src: "unresolved value " + v.Name()}}
	}
	if se.isData(v) {
		return []segment{{Src: "data", Complete: true}}
	}
	if v == se.header {
		return []segment{{Src: "header", Complete: true}}
	}
	// a buffer grown by appends from the header buffer: header bytes appended piecewise stay "header",
	// an appended payload is a segment of its own; the value written must be the end of the chain
	if bufferRoot(v) == se.header && v != se.header {
		if app, isApp := v.(*ssa.Call); isApp {
			var chain func(x ssa.Value, d int) []segment
			chain = func(x ssa.Value, d int) []segment {
				x = strip(x)
				if x == se.header {
					return []segment{{Src: "header", Complete: true}}
				}
				c2, ok := x.(*ssa.Call)
				if !ok || d > 8 {
					return nil
				}
				b, ok := c2.Call.Value.(*ssa.Builtin)
				if !ok {
					// a transparent helper that appends: what it returns
					if r := resultOf(c2); r != ssa.Value(c2) {
						return chain(r, d+1)
					}
					return nil
				}
				if b.Name() != "append" || len(c2.Call.Args) != 2 {
					return nil
				}
				pre := chain(c2.Call.Args[0], d+1)
				if pre == nil {
					return nil
				}
				if se.isData(strip(c2.Call.Args[1])) {
					return append(pre, segment{Src: "data", Complete: true})
				}
				if pre[len(pre)-1].Src != "header" {
					return append(pre, segment{Src: "bytes appended after the payload"})
				}
				return pre // more header bytes
			}
			if segs := chain(app, 0); segs != nil {
				last := true
				if refs := v.Referrers(); refs != nil {
					for _, r := range *refs {
						if c2, ok := r.(*ssa.Call); ok {
							if b, ok := c2.Call.Value.(*ssa.Builtin); ok && b.Name() == "append" && len(c2.Call.Args) == 2 && c2.Call.Args[0] == v {
								last = false
							}
						}
					}
				}
				if !last {
					segs[0].Complete = false
					segs[0].Why = "a later append extends the buffer after it was written"
				}
				return segs
			}
		}
	}
	if c, ok := v.(*ssa.Call); ok {
		if b, ok := c.Call.Value.(*ssa.Builtin); ok && b.Name() == "append" && len(c.Call.Args) == 2 {
			return append(se.segsOf(c.Call.Args[0], at, depth+1), se.segsOf(c.Call.Args[1], at, depth+1)...)
		}
	}
	root, off := se.rootAndOffset(v)
	if sl, ok := v.(*ssa.Slice); ok && root == se.header {
		// a sub-slice of the header
		whole := len(off.T) == 0 && off.K == 0 && (sl.High == nil || se.le.of(sl.High).eq(se.le.lenOf(se.header)))
		return []segment{{Src: "header", Complete: whole, Why: "only part of the header is written"}}
	}
	if len(off.T) != 0 || off.K != 0 {
		return []segment{{Src: "a buffer written from offset " + off.String()}}
	}
	// a scratch buffer filled by copy calls that precede the write
	type filled struct {
		c   *ssa.Call
		off VLin
	}
	var fs []filled
	for _, c := range builtinCalls(se.le.fn, "copy") {
		r, o := se.rootAndOffset(c.Call.Args[0])
		if se.sameObj(r, root) && instrDominates(c, at) {
			fs = append(fs, filled{c, o})
		}
	}
	if len(fs) == 0 {
		return []segment{{Src: "buffer " + v.Name() + " with unknown content"}}
	}
	var out []segment
	next := vconst(0)
	used := map[int]bool{}
	for range fs {
		found := -1
		for i, f := range fs {
			if !used[i] && f.off.eq(next) {
				found = i
			}
		}
		if found < 0 {
			return append(out, segment{Src: "buffer region at " + next.String() + " not filled by a copy"})
		}
		used[found] = true
		c := fs[found].c
		ok, why := se.le.copyComplete(c)
		for _, s := range se.segsOf(c.Call.Args[1], c, depth+1) {
			if !ok {
				s.Complete = false
				s.Why = "copy at " + se.le.fn.Prog.Fset.Position(c.Pos()).String() + " may truncate: " + why
			}
			out = append(out, s)
		}
		// the next region starts where this copy ended: n (its result) or len(src)
		n1 := vadd(next, se.le.of(c), 1)
		next = n1
		// also accept an offset written as len(src)
		for i, f := range fs {
			if !used[i] && !f.off.eq(next) && f.off.eq(vadd(vadd(next, se.le.of(c), -1), se.le.lenOf(c.Call.Args[1]), 1)) {
				next = f.off
			}
		}
	}
	// the slice written must end where the last copy ended
	if sl, ok := v.(*ssa.Slice); ok && sl.High != nil {
		hi := se.le.of(sl.High)
		res := *se.le
		res.resolved = true
		if !hi.eq(next) && !res.of(sl.High).eq(res.ofV(next)) {
			out = append(out, segment{Src: fmt.Sprintf("the slice written ends at %s, the filled part at %s", hi, next)})
		}
	} else {
		// whole buffer written: its length must equal the filled part
		res := *se.le
		res.resolved = true
		if !res.lenOf(v).eq(res.ofV(next)) {
			out = append(out, segment{Src: fmt.Sprintf("the whole buffer (%s bytes) is written, %s were filled", res.lenOf(v), next)})
		}
	}
	return out
}

// ofV re-expresses an unresolved form with copy-result atoms resolved where the copies are complete.
func (e *lenEnv) ofV(l VLin) VLin {
	out := vconst(l.K)
	for t, c := range l.T {
		repl := vatom(t)
		if strings.HasPrefix(t, "v:") {
			name := strings.TrimSuffix(strings.TrimPrefix(t, "v:"), "#"+e.fn.Name())
			for _, cp := range builtinCalls(e.fn, "copy") {
				if cp.Name() == name {
					if ok, _ := e.copyComplete(cp); ok {
						r := *e
						r.resolved = true
						repl = r.lenOf(cp.Call.Args[1])
					}
				}
			}
		}
		out = vadd(out, vscale(repl, c), 1)
	}
	return out
}

// streamPaths enumerates the paths of fn from the entry to a Return on which every writer call
// succeeded, and returns for each the concatenated segments.  isWrite selects the writer calls and
// returns the written slice.  An error arm of a writer call ends the path (the connection is dropped
// there: C17.O1).  Loops containing a write are reported as a single pseudo-path with an "in a loop" segment.
func (se *streamEnv) streamPaths(isWrite func(c *ssa.Call) (ssa.Value, bool)) [][]segment {
	fn := se.le.fn
	errEdge := map[*ssa.BasicBlock]int{}
	for _, in := range instrsOf(fn) {
		c, ok := in.(*ssa.Call)
		if !ok {
			continue
		}
		if _, isW := isWrite(c); !isW {
			continue
		}
		for _, b := range fn.Blocks {
			iff, ok := b.Instrs[len(b.Instrs)-1].(*ssa.If)
			if !ok {
				continue
			}
			f := factOf(Guard{iff, true})
			if f.Op == 0 && strip(f.Bool) == ssa.Value(c) {
				// a writer that reports success as a bool: the false arm is the failure arm
				if f.True {
					errEdge[b] = 1
				} else {
					errEdge[b] = 0
				}
				continue
			}
			ev := errValueOf(f.X)
			if ex, ok := ev.(*ssa.Extract); ok {
				ev = ex.Tuple
			}
			if (f.Op == token.NEQ || f.Op == token.EQL) && isNilConst(f.Y) && ev == ssa.Value(c) {
				if f.Op == token.NEQ {
					errEdge[b] = 0
				} else {
					errEdge[b] = 1
				}
			}
		}
	}
	var out [][]segment
	var walk func(b *ssa.BasicBlock, acc []segment, on map[*ssa.BasicBlock]int)
	count := 0
	walk = func(b *ssa.BasicBlock, acc []segment, on map[*ssa.BasicBlock]int) {
		count++
		if count > 20000 {
			return
		}
		if n, seen := on[b]; seen {
			if n != len(acc) {
				out = append(out, append(append([]segment(nil), acc...), segment{Src: "a write inside a loop"}))
			}
			return // a cycle without writes adds nothing; its exit is explored through the other successor
		}
		on2 := map[*ssa.BasicBlock]int{b: len(acc)}
		for k, v := range on {
			on2[k] = v
		}
		for _, in := range b.Instrs {
			if c, ok := in.(*ssa.Call); ok {
				if arg, isW := isWrite(c); isW {
					acc = append(append([]segment(nil), acc...), se.segsOf(arg, c, 0)...)
				}
			}
			if _, ok := in.(*ssa.Return); ok {
				out = append(out, acc)
				return
			}
			if _, ok := in.(*ssa.Panic); ok {
				return
			}
		}
		for k, s := range b.Succs {
			if ek, ok := errEdge[b]; ok && ek == k {
				continue
			}
			walk(s, acc, on2)
		}
	}
	walk(fn.Blocks[0], nil, map[*ssa.BasicBlock]int{})
	if count > 20000 {
		out = append(out, []segment{{Src: "too many paths to enumerate"}})
	}
	return out
}

func segsString(s []segment) string {
	var p []string
	for _, x := range s {
		t := x.Src
		if !x.Complete && (x.Src == "header" || x.Src == "data") {
			t += " (possibly truncated: " + x.Why + ")"
		}
		p = append(p, t)
	}
	if len(p) == 0 {
		return "nothing"
	}
	return strings.Join(p, " ++ ")
}
