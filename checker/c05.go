package main

// C05 — a misbehaving DKG participant cannot split or poison the key
// (structural conditions on the built-in BLS and PS key generation, sibling-checked).

import (
	"fmt"
	"go/token"
	"go/types"
	"strings"

	"golang.org/x/tools/go/ssa"
)

func init() { register("C05", checkC05) }

type dkgModel struct {
	b      builtinBackend
	m      *Module
	fns    []*ssa.Function
	sl     *Slicer
	keygen *ssa.Function
	onMsg  *ssa.Function

	fShares, fCommitments, fPKs, fParties, fThreshold *types.Var
	fSend, fParty, fLock, fSignal                     *types.Var
	fSharesProcessed                                  *types.Var // PS only
	enc                                               *ssa.Function
	tagCommit, tagReveal, tagShare                    int64
	waits                                             []*waitFn
	n1Rule                                            string
}

type waitFn struct {
	fn      *ssa.Function // the phase's wait function (what KeyGen's phases call)
	inner   *ssa.Function // the function that contains the Cond.Wait loop (fn itself, or a shared helper)
	site    ssa.CallInstruction
	bind    map[*ssa.Parameter]*ssa.MakeClosure // completion test passed to a shared helper
	kind    string                              // shares | commitments | reveals
	waitPos token.Pos
}

func constOf(m *Module, pkg, name string) (int64, bool) {
	return m.ConstA(pkg, name)
}

func constIntVal(o *types.Const) (int64, bool) {
	if o.Val() == nil {
		return 0, false
	}
	s := o.Val().ExactString()
	var v int64
	_, err := fmt.Sscanf(s, "%d", &v)
	return v, err == nil
}

func buildDKGModel(c *Ctx, b builtinBackend) *dkgModel {
	m := c.Mod(b.mod)
	if m == nil {
		return nil
	}
	d := &dkgModel{b: b, m: m}
	d.fns = m.PkgFuncs(b.pkg)
	for _, f := range d.fns {
		c.Analysed(FuncName(f))
	}
	d.sl = NewSlicer(m, b.pkg)
	d.keygen = c.mustFunc(m, b.pkg, b.typ, "KeyGen")
	d.onMsg = c.mustFunc(m, b.pkg, b.typ, "OnMsg")
	d.enc = c.mustFunc(m, b.pkg, "", "encodeMsg")
	fld := func(n string) *types.Var { return c.mustField(m, b.pkg, b.typ, n) }
	d.fShares, d.fCommitments, d.fPKs = fld("shares"), fld("commitments"), fld("publicKeysOfParties")
	d.fParties, d.fThreshold, d.fSend, d.fParty = fld("parties"), fld("threshold"), fld("sendMsg"), fld("Party")
	d.fLock, d.fSignal = fld("lock"), fld("signal")
	if b.typ == "TPS" {
		d.fSharesProcessed = fld("sharesProcessed")
	}
	var ok1, ok2, ok3 bool
	d.tagShare, ok1 = constOf(m, b.pkg, "shareDistribution")
	d.tagCommit, ok2 = constOf(m, b.pkg, "commitPK")
	d.tagReveal, ok3 = constOf(m, b.pkg, "revealPK")
	if !ok1 || !ok2 || !ok3 {
		c.Fatalf("anchor", "%s: message tag constants not found", b.pkg)
	}
	if len(c.fatal) > 0 {
		return nil
	}
	// wait functions: contain a sync.Cond.Wait call.  A wait whose completion test is a func() bool
	// parameter (one generic "wait until" helper shared by the phases) yields one wait per call site
	// that passes a function literal: the literal is the phase's completion test.
	classify := func(w *waitFn, f Fact) {
		if l, _, ok := linFact(f); ok {
			for t := range l.Terms {
				switch {
				case strings.Contains(t, "."+d.fShares.Name()+")") || (d.fSharesProcessed != nil && strings.HasSuffix(t, "."+d.fSharesProcessed.Name())):
					w.kind = "shares"
				case strings.Contains(t, "."+d.fCommitments.Name()+")"):
					w.kind = "commitments"
				case strings.Contains(t, "."+d.fPKs.Name()+")"):
					w.kind = "reveals"
				}
			}
		}
	}
	for _, fn := range d.fns {
		for _, in := range instrsOf(fn) {
			cl, ok := in.(*ssa.Call)
			if !ok || !isCallTo(&cl.Call, "sync", "Cond.Wait") {
				continue
			}
			// a func-typed parameter that fn invokes?
			var pred *ssa.Parameter
			for _, in2 := range instrsOf(fn) {
				if c2, ok := in2.(*ssa.Call); ok && !c2.Call.IsInvoke() {
					noParamLook++
					v := strip(c2.Call.Value)
					noParamLook--
					if p, ok := v.(*ssa.Parameter); ok && p.Parent() == fn {
						if sig, ok := p.Type().Underlying().(*types.Signature); ok && sig.Params().Len() == 0 && sig.Results().Len() == 1 {
							pred = p
						}
					}
				}
			}
			if pred != nil {
				idx := paramIndex(pred)
				for _, cs := range staticCallsTo(d.fns, fn) {
					args := cs.Common().Args
					if idx >= len(args) {
						continue
					}
					mc, ok := strip(args[idx]).(*ssa.MakeClosure)
					if !ok {
						continue
					}
					w := &waitFn{fn: cs.Parent(), inner: fn, site: cs, waitPos: cl.Pos(), bind: map[*ssa.Parameter]*ssa.MakeClosure{pred: mc}}
					for _, in3 := range instrsDeep(mc.Fn.(*ssa.Function)) {
						if bo, ok := in3.(*ssa.BinOp); ok {
							classify(w, Fact{Op: bo.Op, X: bo.X, Y: bo.Y})
						}
					}
					d.waits = append(d.waits, w)
				}
				continue
			}
			w := &waitFn{fn: fn, inner: fn, waitPos: cl.Pos()}
			// classify by the field whose size the loop compares
			for _, in2 := range instrsOf(fn) {
				if iff, ok := in2.(*ssa.If); ok {
					classify(w, factOf(Guard{iff, true}))
				}
			}
			d.waits = append(d.waits, w)
		}
	}
	return d
}

// sendSite: one place where a backend sends a message of a known tag: the sendMsg call itself or, when
// the call sits in a small helper that is given the tag (`tps.broadcast(commitPK, payload)`), each call of
// that helper.
type sendSite struct {
	call    ssa.CallInstruction // the sendMsg call
	at      ssa.CallInstruction // where the tag is fixed: call, or the helper's call site
	tag     int64
	payload ssa.Value // second argument of encodeMsg, as seen at `at`
	bcast   ssa.Value // isBroadcast argument, as seen at `at`
}

func (s sendSite) bcastConst() (bool, bool) {
	k, ok := s.bcast.(*ssa.Const)
	if !ok || k.Value == nil {
		return false, false
	}
	return k.Value.String() == "true", true
}

// backendSendSites lists the send sites of a backend; undecided holds the sendMsg calls whose tag is
// fixed neither at the call nor by every caller of the enclosing helper.
func backendSendSites(fns []*ssa.Function, fSend *types.Var, enc *ssa.Function) (sites []sendSite, undecided []ssa.CallInstruction) {
	for _, call := range callsOfFuncField(fns, fSend) {
		args := call.Common().Args
		if len(args) < 2 {
			undecided = append(undecided, call)
			continue
		}
		ec, ok := strip(args[0]).(*ssa.Call)
		if !ok || staticCallee(&ec.Call) != enc || len(ec.Call.Args) != 2 {
			undecided = append(undecided, call)
			continue
		}
		if k, ok := constInt(ec.Call.Args[0]); ok {
			sites = append(sites, sendSite{call: call, at: call, tag: k, payload: ec.Call.Args[1], bcast: args[1]})
			continue
		}
		// the tag is a parameter of the enclosing unexported helper: one site per caller
		h := call.Parent()
		noParamLook++
		tp, isP := strip(ec.Call.Args[0]).(*ssa.Parameter)
		noParamLook--
		css := staticCallsTo(fns, h)
		if !isP || tp.Parent() != h || h.Object() == nil || h.Object().Exported() || len(css) == 0 || funcUsedAsValue(fns, h) {
			undecided = append(undecided, call)
			continue
		}
		at := func(cs ssa.CallInstruction, v ssa.Value) ssa.Value {
			noParamLook++
			sv := strip(v)
			noParamLook--
			if p, ok := sv.(*ssa.Parameter); ok && p.Parent() == h {
				if i := paramIndex(p); i >= 0 && i < len(cs.Common().Args) {
					return cs.Common().Args[i]
				}
			}
			return v
		}
		var lifted []sendSite
		okAll := true
		for _, cs := range css {
			k, ok := constInt(at(cs, tp))
			if !ok {
				okAll = false
				break
			}
			lifted = append(lifted, sendSite{call: call, at: cs, tag: k, payload: at(cs, ec.Call.Args[1]), bcast: at(cs, args[1])})
		}
		if !okAll {
			undecided = append(undecided, call)
			continue
		}
		sites = append(sites, lifted...)
	}
	return
}

// funcUsedAsValue: f is referenced other than as the callee of a static call (stored, passed, bound).
func funcUsedAsValue(fns []*ssa.Function, f *ssa.Function) bool {
	for _, fn := range fns {
		for _, in := range instrsOf(fn) {
			for _, op := range in.Operands(nil) {
				if *op != ssa.Value(f) {
					continue
				}
				if ci, ok := in.(ssa.CallInstruction); ok && ci.Common().Value == ssa.Value(f) {
					// callee position; the same function may still appear among the arguments
					isArg := false
					for _, a := range ci.Common().Args {
						if a == ssa.Value(f) {
							isArg = true
						}
					}
					if !isArg {
						continue
					}
				}
				return true
			}
		}
	}
	return false
}

// sendSites returns the send sites of the backend with the tag constant they transmit.
func (d *dkgModel) sendSites() []sendSite {
	sites, _ := backendSendSites(d.fns, d.fSend, d.enc)
	return sites
}

// errorHonoured: the error result `res` of call `cl` in fn is either returned
// directly, or tested with the non-nil arm returning a non-nil error, and
// everything else reachable after the call is dominated by res == nil.
func errorHonoured(cl *ssa.Call) (bool, string) {
	fn := cl.Parent()
	if cl.Referrers() == nil || len(*cl.Referrers()) == 0 {
		return false, "the result is discarded"
	}
	// returned directly
	for _, r := range *cl.Referrers() {
		if ret, ok := r.(*ssa.Return); ok {
			for _, x := range ret.Results {
				if x == ssa.Value(cl) {
					return true, ""
				}
			}
		}
		if st, ok := r.(*ssa.Store); ok {
			// result spill before rundefers; `return f()` in a function with defers
			if _, ok := st.Addr.(*ssa.Alloc); ok {
				for _, in := range st.Block().Instrs {
					if ret, ok := in.(*ssa.Return); ok {
						for i := range ret.Results {
							if retResult(ret, i) == ssa.Value(cl) {
								return true, ""
							}
						}
					}
				}
			}
		}
	}
	// tested
	var test *ssa.If
	for _, b := range fn.Blocks {
		if iff, ok := b.Instrs[len(b.Instrs)-1].(*ssa.If); ok {
			f := factOf(Guard{iff, true})
			if (f.Op == token.NEQ || f.Op == token.EQL) && strip(f.X) == ssa.Value(cl) && isNilConst(f.Y) {
				test = iff
			}
		}
	}
	if test == nil {
		return false, "the error is never compared with nil"
	}
	f := factOf(Guard{test, true})
	errArm := test.Block().Succs[0]
	if f.Op == token.EQL {
		errArm = test.Block().Succs[1]
	}
	// the error arm must end in a return with a non-nil error without rejoining
	for b := range reachableBlocks(errArm) {
		last := b.Instrs[len(b.Instrs)-1]
		switch x := last.(type) {
		case *ssa.Return:
			nonNil := false
			for i := range x.Results {
				rv := retResult(x, i)
				if types.Identical(rv.Type(), cl.Type()) && !isNilConst(rv) {
					nonNil = true
				}
			}
			if !nonNil {
				return false, "the expiry arm returns without an error"
			}
		}
	}
	// nothing after the call escapes the test: every call/return reachable from the call is dominated by the test or lies on the error arm
	for _, in := range instrsOf(fn) {
		if in == ssa.Instruction(cl) || !instrDominates(cl, in) {
			continue
		}
		switch in.(type) {
		case *ssa.Call, *ssa.Return, *ssa.Store, *ssa.MapUpdate, *ssa.Send:
			if in.Block() == cl.Block() {
				continue // evaluation of the condition itself
			}
			if !test.Block().Dominates(in.Block()) {
				return false, "code after the wait is not controlled by the error test"
			}
		}
	}
	return true, ""
}

func checkC05(c *Ctx) {
	c.explanation = "Static decision, for the built-in BLS and PS key generation (sibling-checked), of: (O1) every function that waits on the condition variable until a count is reached or the context expires returns an error that distinguishes expiry, and every caller up to KeyGen honours it (returns it or branches on it before anything else); (O2) the reveal broadcast is sent only after the commitment wait succeeded and after the own commitment was sent; (N1) the wait thresholds in linear normal form (shares n−1, commitments n−1, reveals n); (G1) KeyGen's success is dominated by validateCommitments()==nil and inside it sha256(revealed[p]) is compared with commitments[p] for the same p, a mismatch returns an error, and on both sides the commitment is a proper SHA-256 digest of the key (sha256.Sum256(x), or New/Write(x)/Sum(nil) — not Sum(x) of an empty hash); (G2) success is dominated by the size test of the map filled once per enumerated t-subset; (T1) commit and reveal are broadcast-class at the sender and at the receiver; (G3) in OnMsg every store of a contribution is dominated by the not-present arm of a lookup with the same key; (P1, PS) decoded share/key vectors are length-validated before they are stored. That a consistent outcome implies jointly usable shares is algebra and is not decided."
	c.notDecided = "algebraic usability of the resulting shares; enumeration of victim sets and strategies"
	c.Assume("sync.Cond semantics; reliable broadcast delivers identical commit/reveal values to all honest parties (C02)")
	const O1, O2, N1, G1, G2, T1, G3, P1 = "C05.O1", "C05.O2", "C05.N1", "C05.G1", "C05.G2", "C05.T1", "C05.G3", "C05.P1"
	c.Rule(O1, "waits return an error on expiry and every caller up to KeyGen honours it", 6)
	c.Rule(O2, "reveal sent only after a successful commitment wait and after the own commitment", 1)
	c.Rule(N1, "wait thresholds: shares n−1, commitments n−1, reveals n", 3)
	c.Rule(G1, "commitment check dominates success; same-key comparison; mismatch aborts", 3)
	c.Rule(G2, "t-subset cross-check result dominates success", 2)
	c.Rule(T1, "commit and reveal are broadcast-class on both sides", 2)
	c.Rule(G3, "first value per peer wins", 3)
	c.Rule(P1, "PS: decoded vectors length-validated before being stored", 1)
	for _, b := range builtinBackends {
		d := buildDKGModel(c, b)
		if d == nil {
			continue
		}
		short := b.pkg[strings.LastIndex(b.pkg, "/")+1:]
		m := d.m

		d.ruleWaits(c, O1)

		// ---------------------------------------------------------------- O2
		sends := d.sendSites()
		var revealSends []ssa.CallInstruction
		var commitSend ssa.CallInstruction
		for _, ss := range sends {
			if ss.tag == d.tagReveal {
				revealSends = append(revealSends, ss.at)
			}
			if ss.tag == d.tagCommit {
				commitSend = ss.at
			}
		}
		if len(revealSends) == 0 || commitSend == nil {
			c.Bad(O2, b.pkg, "reveal/commit send sites", "-", "cannot find the commit and reveal broadcasts")
		}
		for _, revealSend := range revealSends {
			if commitSend == nil {
				break
			}
			// lift both to KeyGen: the calls in KeyGen that (transitively) contain them
			kgReveal := d.liftToKeyGen(revealSend)
			kgCommit := d.liftToKeyGen(commitSend)
			var commitWaitCall ssa.Instruction
			for _, w := range d.waits {
				if w.kind == "commitments" {
					for _, cs := range staticCallsTo(d.fns, w.fn) {
						commitWaitCall = d.liftToKeyGen(cs)
					}
				}
			}
			ok := kgReveal != nil && kgCommit != nil && commitWaitCall != nil
			why := "cannot relate reveal, commit and the commitment wait inside KeyGen"
			if ok {
				cw, isCall := commitWaitCall.(*ssa.Call)
				switch {
				case !isCall:
					ok, why = false, "commitment wait is not a plain call"
				case kgCommit == kgReveal:
					ok, why = false, "the reveal is sent by the same phase call that sends the commitment and waits for the others' commitments: it is not conditional on that wait"
				case !instrDominates(kgCommit, kgReveal):
					ok, why = false, "the reveal is not preceded by the own commitment on every path"
				default:
					// reveal dominated by commit-wait result == nil
					ok = hasFact(FactsAt(kgReveal), func(f Fact) bool {
						return f.Op == token.EQL && strip(f.X) == ssa.Value(cw) && isNilConst(f.Y)
					})
					why = "the reveal broadcast is not dominated by the successful outcome of the commitment wait: on expiry an honest party discloses its public key without holding all commitments"
				}
			}
			c.Check(ok, O2, FuncName(d.keygen), "reveal after successful commitment wait ("+FuncName(revealSend.Parent())+")", m.Pos(revealSend.Pos()), "KeyGen: commitPhase() == nil dominates revealPhase(); commit broadcast precedes", why)
		}

		// ---------------------------------------------------------------- G1
		d.ruleCommitmentCheck(c, G1)
		d.ruleCommitmentSent(c, G1)
		// ---------------------------------------------------------------- G2
		d.ruleCrossCheck(c, G2)
		// ---------------------------------------------------------------- T1
		cls := m.Func(b.pkg, b.typ, "ClassifyMsg")
		if tab, ok := classifyTable(cls); ok {
			for _, ss := range sends {
				cs, k := ss.at, ss.tag
				if k != d.tagCommit && k != d.tagReveal {
					continue
				}
				sentB, isK := ss.bcastConst()
				sentB = sentB && isK
				row, has := tab[k]
				c.Check(has && row.bcast && sentB, T1, FuncName(cs.Parent()), fmt.Sprintf("%s tag %d broadcast on both sides", short, k), m.Pos(cs.Pos()), "sent with isBroadcast=true, classified broadcast",
					"commit/reveal is not broadcast-class on both sides: honest parties may evaluate different values")
			}
		} else {
			c.Unk(T1, FuncName(cls), "classification table", m.Pos(cls.Pos()), "ClassifyMsg idiom not recognised")
		}
		// ---------------------------------------------------------------- G3
		from := strip(d.onMsg.Params[2])
		for _, f := range []*types.Var{d.fShares, d.fCommitments, d.fPKs} {
			ups := fieldMapStores(deepFuncs(d.onMsg), f)
			if len(ups) == 0 {
				c.Bad(G3, FuncName(d.onMsg), "store into "+f.Name(), "-", "OnMsg never records this contribution")
			}
			for _, st := range ups {
				mu := st.mu
				// (the test may sit next to the store inside a helper that is given the map, or before the call)
				facts := FactsAt(mu)
				if st.call != nil {
					facts = append(facts, FactsAt(st.call)...)
				}
				ok := st.resolve(mu.Key) == from && boolFact(facts, false, func(v ssa.Value) bool {
					tup, isOK := commaOK(v)
					if !isOK {
						return false
					}
					lk, isL := tup.(*ssa.Lookup)
					if !isL {
						return false
					}
					if lk.Parent() == mu.Parent() {
						return st.sameMap(lk.X, f) && st.resolve(lk.Index) == from
					}
					return isLoadOfField(lk.X, f) && strip(lk.Index) == from
				})
				c.Check(ok, G3, FuncName(d.onMsg), "store into "+f.Name(), m.Pos(st.at().Pos()), "keyed by from, dominated by the not-present arm of "+f.Name()+"[from]",
					"a later message of the same peer overwrites its earlier contribution (a participant can show different values over time)")
			}
		}
		// ---------------------------------------------------------------- P1 (PS)
		if b.typ == "TPS" {
			d.rulePSLengths(c, P1)
		}
	}
}

// thresholdFact: the `return nil` of a wait is guarded by the right count comparison.
func (d *dkgModel) thresholdFact(c *Ctx, w *waitFn, r *ssa.Return) bool {
	N1 := d.n1Rule
	if N1 == "" {
		N1 = "C05.N1"
	}
	lenParties := "len(field " + fieldKey(d.fParties) + ")"
	var forms []map[string]int64
	var k int64
	switch w.kind {
	case "shares":
		forms = []map[string]int64{{"len(field " + fieldKey(d.fShares) + ")": 1, lenParties: -1}}
		if d.fSharesProcessed != nil {
			forms = append(forms, map[string]int64{"field " + fieldKey(d.fSharesProcessed): 1, lenParties: -1})
		}
		k = 1
	case "commitments":
		forms = []map[string]int64{{"len(field " + fieldKey(d.fCommitments) + ")": 1, lenParties: -1}}
		k = 1
	case "reveals":
		forms = []map[string]int64{{"len(field " + fieldKey(d.fPKs) + ")": 1, lenParties: -1}}
		k = 0
	default:
		c.Unk(N1, FuncName(w.fn), "wait threshold", d.m.Pos(r.Pos()), "cannot tell which contribution this wait counts")
		return false
	}
	found := ""
	ok := hasFact(FactsAt(r), func(f Fact) bool {
		for _, form := range forms {
			if matchLin(f, form, k, token.EQL, token.GEQ) {
				l, op, _ := linFact(f)
				found = l.String() + " " + op.String() + " 0"
				return true
			}
		}
		return false
	})
	want := "n−1"
	if k == 0 {
		want = "n"
	}
	c.Check(ok, N1, FuncName(w.fn), "wait threshold for "+w.kind, d.m.Pos(r.Pos()), found,
		"the wait for "+w.kind+" does not complete exactly when "+want+" contributions are held (with fewer, the protocol continues with missing contributions; with more, it never completes)")
	return ok
}

// liftToKeyGen returns the instruction in KeyGen whose (transitive, static) callee contains site.
func (d *dkgModel) liftToKeyGen(site ssa.Instruction) ssa.Instruction {
	cur := site
	for i := 0; i < 5; i++ {
		if cur.Parent() == d.keygen {
			return cur
		}
		cs := staticCallsTo(d.fns, cur.Parent())
		if len(cs) != 1 {
			return nil
		}
		cur = cs[0].(ssa.Instruction)
	}
	return nil
}

func (d *dkgModel) successReturns() []*ssa.Return {
	var out []*ssa.Return
	for _, in := range instrsOf(d.keygen) {
		if r, ok := in.(*ssa.Return); ok && len(r.Results) == 2 {
			rv := retResult(r, 0)
			if !isNilConst(rv) {
				out = append(out, r)
			}
		}
	}
	return out
}

func (d *dkgModel) ruleCommitmentCheck(c *Ctx, rule string) {
	m := d.m
	val := m.Func(d.b.pkg, d.b.typ, "validateCommitments")
	if val == nil {
		c.Fatalf("anchor", "%s.validateCommitments not found", d.b.typ)
		return
	}
	c.Analysed(FuncName(val))
	succ := d.successReturns()
	if len(succ) == 0 {
		c.Bad(rule, FuncName(d.keygen), "success return", "-", "KeyGen has no successful return")
	}
	for _, r := range succ {
		ok := hasFact(FactsAt(r), func(f Fact) bool {
			cl, isC := strip(f.X).(*ssa.Call)
			return f.Op == token.EQL && isC && staticCallee(&cl.Call) == val && isNilConst(f.Y)
		})
		c.Check(ok, rule, FuncName(d.keygen), "success dominated by validateCommitments() == nil", m.Pos(r.Pos()), "permitting arm", "key generation succeeds although a revealed key does not match its commitment (or the check is not evaluated)")
	}
	// inside: bytes.Equal(sha256(pk), commitments[party]) with the same range key
	var rng *ssa.Range
	for _, in := range instrsOf(val) {
		if rg, ok := in.(*ssa.Range); ok && isLoadOfField(rg.X, d.fPKs) {
			rng = rg
		}
	}
	if rng == nil {
		c.Bad(rule, FuncName(val), "iteration over revealed keys", m.Pos(val.Pos()), "validateCommitments does not iterate over every revealed key")
		return
	}
	isRangePart := func(v ssa.Value, idx int) bool {
		e, ok := strip(v).(*ssa.Extract)
		if !ok || e.Index != idx {
			return false
		}
		nx, ok := e.Tuple.(*ssa.Next)
		return ok && nx.Iter == ssa.Value(rng)
	}
	nEq := 0
	for _, in := range instrsOf(val) {
		cl, ok := in.(*ssa.Call)
		if !ok || !isCallTo(&cl.Call, "bytes", "Equal") {
			continue
		}
		nEq++
		okPair := false
		for _, pr := range [][2]ssa.Value{{cl.Call.Args[0], cl.Call.Args[1]}, {cl.Call.Args[1], cl.Call.Args[0]}} {
			// pr[1] = commitments[key]
			var lk *ssa.Lookup
			if e, ok := strip(pr[1]).(*ssa.Extract); ok && e.Index == 0 {
				lk, _ = e.Tuple.(*ssa.Lookup)
			} else if l, ok := strip(pr[1]).(*ssa.Lookup); ok {
				lk = l
			}
			if lk == nil || !isLoadOfField(lk.X, d.fCommitments) || !isRangePart(lk.Index, 1) {
				continue
			}
			// pr[0] = a proper SHA-256 digest whose input is the range value (the revealed key)
			ins := sha256Inputs(pr[0], 0)
			overVal := false
			for _, iv := range ins {
				if sliceHas(d.sl.Slice(iv), func(v ssa.Value) bool { return isRangePart(v, 2) }) {
					overVal = true
				}
			}
			if len(ins) > 0 && overVal {
				okPair = true
			}
		}
		c.Check(okPair, rule, FuncName(val), "commitment comparison", m.Pos(cl.Pos()), "bytes.Equal(sha256(revealed[p]), commitments[p]) for the same p", "the commitment compared is not the one of the party whose key is hashed (or the key is not hashed)")
		// mismatch arm returns a non-nil error and does not continue the loop
		okAbort := false
		for _, b := range val.Blocks {
			iff, isIf := b.Instrs[len(b.Instrs)-1].(*ssa.If)
			if !isIf {
				continue
			}
			f := factOf(Guard{iff, true})
			if f.Op != 0 || f.Bool != ssa.Value(cl) {
				continue
			}
			mis := b.Succs[1]
			if !f.True {
				mis = b.Succs[0]
			}
			okAbort = true
			for blk := range reachableBlocks(mis) {
				if blk == rng.Block() || blockHas(blk, func(i ssa.Instruction) bool { nx, ok := i.(*ssa.Next); return ok && nx.Iter == ssa.Value(rng) }) {
					okAbort = false // loops on
				}
				if r, ok := blk.Instrs[len(blk.Instrs)-1].(*ssa.Return); ok && isNilConst(retResult(r, 0)) {
					okAbort = false
				}
			}
		}
		c.Check(okAbort, rule, FuncName(val), "mismatch aborts", m.Pos(cl.Pos()), "the mismatch arm returns a non-nil error", "a commitment mismatch does not abort key generation")
	}
	if nEq == 0 {
		c.Bad(rule, FuncName(val), "commitment comparison", m.Pos(val.Pos()), "no comparison of a hash with a commitment")
	}
	// the only skip is for the own id
	for _, b := range val.Blocks {
		iff, isIf := b.Instrs[len(b.Instrs)-1].(*ssa.If)
		if !isIf {
			continue
		}
		f := factOf(Guard{iff, true})
		if f.Op == token.EQL || f.Op == token.NEQ {
			if isRangePart(f.X, 1) || isRangePart(f.Y, 1) {
				other := f.Y
				if isRangePart(f.Y, 1) {
					other = f.X
				}
				c.Check(isLoadOfField(other, d.fParty), rule, FuncName(val), "only the own key is exempt", m.Pos(iff.Pos()), "skip iff party == own id", "keys of parties other than this one are exempt from the commitment check")
			}
		}
	}
}

func blockHas(b *ssa.BasicBlock, pred func(ssa.Instruction) bool) bool {
	for _, in := range b.Instrs {
		if pred(in) {
			return true
		}
	}
	return false
}

func (d *dkgModel) ruleCrossCheck(c *Ctx, rule string) {
	m := d.m
	asm := m.Func(d.b.pkg, d.b.typ, "assembleThresholdPublicKey")
	if asm == nil {
		c.Fatalf("anchor", "%s.assembleThresholdPublicKey not found", d.b.typ)
		return
	}
	c.Analysed(FuncName(asm))
	// the map whose size decides: result #0 of the assembly, or a field of the collector object it returns
	var decisionField *types.Var
	for _, r := range d.successReturns() {
		ok := hasFact(FactsAt(r), func(f Fact) bool {
			x, isLen := lenOperand(strip(f.X))
			if !isLen {
				return false
			}
			var fld *types.Var
			sx := strip(x)
			if ld, isLd := sx.(*ssa.UnOp); isLd && ld.Op == token.MUL {
				if fa, isFA := ld.X.(*ssa.FieldAddr); isFA {
					sx, fld = strip(fa.X), fieldOfAddr(fa)
				}
			}
			var cl *ssa.Call
			if e, isE := sx.(*ssa.Extract); isE && e.Index == 0 {
				cl, _ = e.Tuple.(*ssa.Call)
			} else if c1, isC := sx.(*ssa.Call); isC && fld != nil {
				cl = c1
			}
			if cl == nil || staticCallee(&cl.Call) != asm {
				return false
			}
			if fld != nil {
				if _, isMap := fld.Type().Underlying().(*types.Map); !isMap {
					return false
				}
				decisionField = fld
			}
			k, isK := constInt(f.Y)
			return isK && ((f.Op == token.LEQ && k == 1) || (f.Op == token.LSS && k == 2) || (f.Op == token.EQL && k == 1))
		})
		c.Check(ok, rule, FuncName(d.keygen), "success dominated by a single interpolated key", m.Pos(r.Pos()), "len(assembleThresholdPublicKey()#0) ≤ 1 on the permitting arm", "key generation succeeds although different t-subsets interpolate to different threshold keys (or the result of the cross-check is not tested)")
	}
	// inside: chooseKoutOfN(len(parties), threshold, closure) and the closure records one entry per subset in the returned map
	okCall, okRecord := false, false
	for _, in := range instrsOf(asm) {
		cl, ok := in.(*ssa.Call)
		if !ok {
			continue
		}
		cal := staticCallee(&cl.Call)
		if cal == nil || cal.Name() != "chooseKoutOfN" || len(cl.Call.Args) != 3 {
			continue
		}
		x, isLen := lenOperand(cl.Call.Args[0])
		okCall = isLen && isLoadOfField(x, d.fParties) && isLoadOfField(cl.Call.Args[1], d.fThreshold)
		mc, isMC := strip(cl.Call.Args[2]).(*ssa.MakeClosure)
		if !isMC {
			continue
		}
		clo := mc.Fn.(*ssa.Function)
		c.Analysed(FuncName(clo))
		// returned map of asm
		var retMap ssa.Value
		for _, in2 := range instrsOf(asm) {
			if r, ok := in2.(*ssa.Return); ok {
				retMap = strip(retResult(r, 0))
			}
		}
		for _, in2 := range instrsDeep(clo) {
			mu, ok := in2.(*ssa.MapUpdate)
			if !ok {
				continue
			}
			// map is the captured returned map; executed unconditionally at the end of the closure; key derives from the aggregate over this subset
			capt := false
			if ld, isLd := strip(mu.Map).(*ssa.UnOp); isLd && decisionField != nil {
				// the collector's map: a field of the object bound to the callback and returned
				if fa, isFA := ld.X.(*ssa.FieldAddr); isFA && fieldOfAddr(fa) == decisionField {
					if fv, ok := strip(fa.X).(*ssa.FreeVar); ok {
						for i, f := range clo.FreeVars {
							if f == fv && i < len(mc.Bindings) && strip(mc.Bindings[i]) == retMap {
								capt = true
							}
						}
					}
				}
			}
			if fv, ok := strip(mu.Map).(*ssa.FreeVar); ok {
				for i, f := range clo.FreeVars {
					if f == fv && strip(mc.Bindings[i]) == retMap {
						capt = true
					}
				}
			} else if ld, ok := strip(mu.Map).(*ssa.UnOp); ok {
				if cell := cellOf(ld.X); cell != nil {
					if rl, ok := retMap.(*ssa.UnOp); ok && cellOf(rl.X) == cell {
						capt = true
					}
					if sts := storesToCell(cell); len(sts) == 1 && strip(sts[0].Val) == retMap {
						capt = true
					}
				}
			}
			s := d.sl.Slice(mu.Key)
			fromSubset := len(clo.Params) == 1 && s[clo.Params[0]]
			uncond := len(GuardsOf(mu)) == 0 || onlyLoopGuards(mu)
			if mu.Parent() != clo {
				// in a step of the callback: the step is called unconditionally too
				for f := mu.Parent(); f != nil && f != clo; {
					hc := helperCall(f)
					if hc == nil {
						uncond = false
						break
					}
					uncond = uncond && (len(GuardsOf(hc)) == 0 || onlyLoopGuards(hc))
					f = hc.Parent()
				}
			}
			if capt && fromSubset && uncond {
				okRecord = true
			} else {
				c.Note("cross-check record in %s: captured-returned-map=%v key-from-subset=%v unconditional=%v", FuncName(clo), capt, fromSubset, uncond)
			}
		}
	}
	c.Check(okCall, rule, FuncName(asm), "enumeration over (len(parties), threshold)", m.Pos(asm.Pos()), "chooseKoutOfN(len(parties), threshold, …)", "the cross-check does not enumerate the t-subsets of all n parties")
	c.Check(okRecord, rule, FuncName(asm), "one record per enumerated subset", m.Pos(asm.Pos()), "the closure stores the aggregate of its subset into the returned map unconditionally", "not every enumerated subset is recorded in the map whose size decides the outcome")
}

// onlyLoopGuards: the mandatory guards of instr are loop-exit conditions (rangeover / index loops), not data tests.
func onlyLoopGuards(in ssa.Instruction) bool {
	for _, g := range GuardsOf(in) {
		f := factOf(g)
		if f.Op == 0 {
			// ok flag of a range Next
			if e, ok := f.Bool.(*ssa.Extract); ok {
				if _, ok := e.Tuple.(*ssa.Next); ok {
					continue
				}
			}
			return false
		}
		if f.Op == token.GEQ || f.Op == token.LSS || f.Op == token.LEQ || f.Op == token.GTR {
			// index loop bound
			if _, isLen := lenOperand(strip(f.Y)); isLen {
				continue
			}
			if _, isLen := lenOperand(strip(f.X)); isLen {
				continue
			}
		}
		return false
	}
	return true
}

// PS: lengths of decoded vectors validated before the contribution is stored.
func (d *dkgModel) rulePSLengths(c *Ctx, rule string) {
	m := d.m
	msgBytes := strip(d.onMsg.Params[1])
	fPPn, fPPgs := m.Field(d.b.pkg, "PP", "n"), m.Field(d.b.pkg, "PP", "gs")
	for _, f := range []*types.Var{d.fShares, d.fPKs} {
		for _, mu := range mapUpdatesOfField(deepFuncs(d.onMsg), f) {
			stored := d.sl.Slice(mu.Value)
			ok := hasFact(FactsAt(mu), func(fct Fact) bool {
				if fct.Op != token.EQL {
					return false
				}
				l, _, isLin := linFact(fct)
				if !isLin {
					return false
				}
				hasN := false
				for t, k := range l.Terms {
					if k != 0 && ((fPPn != nil && t == "field "+fieldKey(fPPn)) || (fPPgs != nil && t == "len(field "+fieldKey(fPPgs)+")")) {
						hasN = true
					}
				}
				if !hasN {
					return false
				}
				// the other side is the length of a vector of the value decoded from this message
				for _, side := range []ssa.Value{fct.X, fct.Y} {
					x, isLen := lenOperand(strip(side))
					if !isLen {
						continue
					}
					for v := range d.sl.Slice(x) {
						cl, isC := v.(*ssa.Call)
						if !isC || staticCallee(&cl.Call) == nil {
							continue
						}
						fromMsg := false
						for _, a := range cl.Call.Args {
							if d.sl.Slice(a)[msgBytes] {
								fromMsg = true
							}
						}
						if !fromMsg {
							continue
						}
						if stored[cl] {
							return true // the decoded value itself is stored
						}
						for _, a := range cl.Call.Args {
							if sameValue(a, mu.Value) || sameSliceExpr(a, mu.Value) {
								return true // the raw bytes that were decoded and measured are stored
							}
						}
					}
				}
				return false
			})
			c.Check(ok, rule, FuncName(d.onMsg), "length of decoded vector before store into "+f.Name(), m.Pos(mu.Pos()), "len(decoded vector) == configured length on the permitting arm",
				"a contribution whose vector length differs from the configured message length is accepted and later indexed up to the configured length (index out of range in combineShares / YPoints) — a single malformed message from a participant crashes honest parties")
		}
	}
}

// sameSliceExpr: two Slice instructions over the same base with the same constant bounds.
func sameSliceExpr(a, b ssa.Value) bool {
	sa, ok1 := strip(a).(*ssa.Slice)
	sb, ok2 := strip(b).(*ssa.Slice)
	if !ok1 || !ok2 || strip(sa.X) != strip(sb.X) {
		return false
	}
	eq := func(x, y ssa.Value) bool {
		if x == nil || y == nil {
			return x == nil && y == nil
		}
		kx, okx := constInt(x)
		ky, oky := constInt(y)
		return okx && oky && kx == ky
	}
	return eq(sa.Low, sb.Low) && eq(sa.High, sb.High)
}

// ruleWaits: every wait on the condition variable reports expiry and every caller up to KeyGen honours it.
func (d *dkgModel) ruleWaits(c *Ctx, O1 string) {
	b := d.b
	m := d.m
	if len(d.waits) != 3 {
		c.Bad(O1, b.pkg, "wait functions", "-", fmt.Sprintf("%d functions wait on the condition variable; expected the three phase waits", len(d.waits)))
	}
	errType := types.Universe.Lookup("error").Type()
	honoured := map[*ssa.Function]bool{}
	for _, w := range d.waits {
		fn := w.fn
		fname := FuncName(fn)
		res := fn.Signature.Results()
		if res.Len() != 1 || !types.Identical(res.At(0).Type(), errType) {
			c.Bad(O1, fname, "expiry is reported", m.Pos(fn.Pos()), "the wait returns nothing: when the context expires the caller cannot tell and carries on with incomplete contributions (reveals its key without holding all commitments, dereferences missing shares)")
			continue
		}
		// returns: nil only under the threshold fact; non-nil on the expiry exit
		okNil, okExp := true, false
		withClosureBinding(w.bind, func() {
			for _, in := range instrsOf(w.inner) {
				r, ok := in.(*ssa.Return)
				if !ok {
					continue
				}
				rv := retResult(r, 0)
				if isNilConst(rv) {
					if !d.thresholdFact(c, w, r) {
						okNil = false
					}
				} else if contextEndedAt(r) {
					// reached on the arm where the context ended
					okExp = true
				}
			}
		})
		if w.inner != fn {
			// the phase function hands the helper's verdict on
			if cl, isCall := w.site.(*ssa.Call); isCall {
				if ok, _ := errorHonoured(cl); !ok {
					okNil = false
				}
			} else {
				okNil = false
			}
		}
		c.Check(okNil && okExp, O1, fname, "expiry is reported", m.Pos(fn.Pos()), "nil only under the threshold; non-nil error on the context-ended exit",
			"the wait does not distinguish expiry from completion")
		honoured[fn] = okNil && okExp
		// callers up to KeyGen
		seen := map[*ssa.Function]bool{}
		var up func(f *ssa.Function)
		up = func(f *ssa.Function) {
			if seen[f] || f == d.keygen {
				return
			}
			seen[f] = true
			for _, cs := range staticCallsTo(d.fns, f) {
				cl, isCall := cs.(*ssa.Call)
				construct := "caller honours error of " + f.Name()
				if !isCall {
					c.Bad(O1, FuncName(cs.Parent()), construct, m.Pos(cs.Pos()), "the wait is started with go/defer: its outcome is lost")
					continue
				}
				ok, why := errorHonoured(cl)
				c.Check(ok, O1, FuncName(cs.Parent()), construct, m.Pos(cs.Pos()), "returned directly or tested before anything else", "the outcome of the wait is ignored ("+why+"): on expiry the protocol proceeds with incomplete data")
				if cs.Parent() != d.keygen {
					if cs.Parent().Signature.Results().Len() == 0 {
						c.Bad(O1, FuncName(cs.Parent()), "propagates error of "+f.Name(), m.Pos(cs.Parent().Pos()), "the phase function has no error result to propagate the expiry")
						continue
					}
					up(cs.Parent())
				}
			}
		}
		up(fn)
	}

}

// contextEndedAt: the instruction is reached only after the context was found ended: the select-based
// helper returned true, ctx.Err() != nil, or the Done arm of an inline select was taken.
func contextEndedAt(in ssa.Instruction) bool {
	return hasFact(FactsAt(in), func(f Fact) bool {
		if f.Op == 0 && f.True {
			if cl, ok := f.Bool.(*ssa.Call); ok {
				if g := staticCallee(&cl.Call); g != nil {
					for _, x := range instrsOf(g) {
						if sel, ok := x.(*ssa.Select); ok {
							for _, st := range sel.States {
								if dc, ok := strip(st.Chan).(*ssa.Call); ok && dc.Call.IsInvoke() && dc.Call.Method.Name() == "Done" {
									return true
								}
							}
						}
					}
				}
			}
		}
		if f.Op == token.NEQ && isNilConst(f.Y) {
			if cl, ok := strip(f.X).(*ssa.Call); ok && cl.Call.IsInvoke() && cl.Call.Method.Name() == "Err" && isContextType(cl.Call.Value.Type()) {
				return true
			}
		}
		if e, ok := strip(f.X).(*ssa.Extract); ok && e.Index == 0 && f.Op == token.EQL {
			if sel, ok := e.Tuple.(*ssa.Select); ok {
				if k, okK := constInt(f.Y); okK && int(k) >= 0 && int(k) < len(sel.States) {
					if dc, ok := strip(sel.States[k].Chan).(*ssa.Call); ok && dc.Call.IsInvoke() && dc.Call.Method.Name() == "Done" {
						return true
					}
				}
			}
		}
		return false
	})
}

// sha256Inputs: v is a proper SHA-256 digest — sha256.Sum256(x) (possibly re-sliced), or h.Sum(nil) of
// h := sha256.New() after h.Write(x…) — and returns the values x that were hashed.  nil if v is not a
// digest of that form: in particular h.Sum(x) with a non-nil argument and nothing written, which only
// APPENDS the digest of the empty input to x (x stays in the clear).  Own helper functions returning a
// digest of their parameters are followed.
func sha256Inputs(v ssa.Value, depth int) []ssa.Value {
	if depth > 4 {
		return nil
	}
	v = resultOf(v)
	switch x := v.(type) {
	case *ssa.Slice:
		// digest := sha256.Sum256(x); digest[:]
		if al, ok := x.X.(*ssa.Alloc); ok {
			sts := storesToCell(al)
			if len(sts) == 1 {
				return sha256Inputs(sts[0].Val, depth+1)
			}
		}
		return sha256Inputs(x.X, depth+1)
	case *ssa.Call:
		if isCallTo(&x.Call, "crypto/sha256", "Sum256") {
			return []ssa.Value{x.Call.Args[0]}
		}
		if x.Call.IsInvoke() && x.Call.Method.Name() == "Sum" {
			if !isNilConst(x.Call.Args[0]) {
				return nil
			}
			h := strip(x.Call.Value)
			if hc, ok := h.(*ssa.Call); !ok || !isCallTo(&hc.Call, "crypto/sha256", "New") {
				return nil
			}
			var ins []ssa.Value
			if refs := h.Referrers(); refs != nil {
				for _, r := range *refs {
					w, ok := r.(*ssa.Call)
					if ok && w.Call.IsInvoke() && w.Call.Method.Name() == "Write" && w.Call.Value == h && instrDominates(w, x) {
						ins = append(ins, w.Call.Args[0])
					}
				}
			}
			// the hash value may have gone through a MakeInterface / local
			if len(ins) == 0 {
				for _, in := range instrsOf(x.Parent()) {
					w, ok := in.(*ssa.Call)
					if ok && w.Call.IsInvoke() && w.Call.Method.Name() == "Write" && strip(w.Call.Value) == h && instrDominates(w, x) {
						ins = append(ins, w.Call.Args[0])
					}
				}
			}
			return ins
		}
		// an own helper returning a digest of its parameters
		g := x.Call.StaticCallee()
		if g == nil || g.Blocks == nil || !ownPkgPath(pkgPathOf(g)) {
			return nil
		}
		var ret *ssa.Return
		for _, in := range instrsOf(g) {
			if r, ok := in.(*ssa.Return); ok {
				if ret != nil {
					return nil
				}
				ret = r
			}
		}
		if ret == nil || len(ret.Results) != 1 {
			return nil
		}
		noParamLook++
		inner := sha256Inputs(retResult(ret, 0), depth+1)
		noParamLook--
		var out []ssa.Value
		for _, iv := range inner {
			noParamLook++
			s := strip(iv)
			noParamLook--
			if p, ok := s.(*ssa.Parameter); ok && p.Parent() == g {
				if idx := paramIndex(p); idx >= 0 && idx < len(x.Call.Args) {
					out = append(out, x.Call.Args[idx])
					continue
				}
			}
			out = append(out, iv)
		}
		return out
	}
	return nil
}

// ruleCommitmentSent: what a party broadcasts as its commitment is a proper SHA-256 digest of the very
// bytes it later reveals (hiding: the commitment must not contain the key in the clear).
func (d *dkgModel) ruleCommitmentSent(c *Ctx, rule string) {
	sends := d.sendSites()
	var reveals []ssa.Value
	for _, ss := range sends {
		if ss.tag == d.tagReveal {
			reveals = append(reveals, ss.payload)
		}
	}
	n := 0
	for _, ss := range sends {
		call := ss.at
		if ss.tag != d.tagCommit {
			continue
		}
		n++
		ins := sha256Inputs(ss.payload, 0)
		okKey := false
		for _, iv := range ins {
			for _, rv := range reveals {
				if sameValue(iv, rv) || d.sl.sameRoot(iv, rv) || strip(iv) == strip(rv) {
					okKey = true
				}
			}
		}
		c.Check(len(ins) > 0 && okKey, rule, FuncName(call.Parent()), "commitment sent is a digest of the key revealed later", d.m.Pos(call.Pos()),
			"payload = SHA-256 over the bytes sent with the reveal",
			"the commitment broadcast is not a SHA-256 digest of the key that is revealed later (e.g. hash.Sum(pk) without writing pk only appends the empty digest to pk): the key contribution is disclosed with the commitment, and a participant that commits last can choose its key as a function of the others'")
	}
	if n == 0 {
		c.Bad(rule, d.b.pkg, "commitment broadcast", "-", "no commitment is sent")
	}
}
