package main

// C20 — data-race freedom of concurrent API use: lock discipline on the
// stateful types (frozen guarded-by table), publication ordering, atomics.

import (
	"fmt"
	"go/token"
	"go/types"
	"sort"
	"strings"

	"golang.org/x/tools/go/ssa"
)

func init() { register("C20", checkC20) }

type guardSpec struct {
	field *types.Var
	lock  *types.Var
	rw    bool // lock is an RWMutex: reads may hold it shared
}

type fieldAccess struct {
	in    ssa.Instruction
	write bool
	what  string
}

// accessesOf enumerates the instructions that read or write field f or the
// aggregate (map/slice) it holds.
func accessesOf(fns []*ssa.Function, f *types.Var) []fieldAccess {
	var out []fieldAccess
	for _, fn := range fns {
		for _, in := range instrsOf(fn) {
			switch x := in.(type) {
			case *ssa.Store:
				if fa, ok := x.Addr.(*ssa.FieldAddr); ok && fieldOfAddr(fa) == f {
					if isFreshLocal(fa.X, fn) {
						continue // constructing an object nobody else can see yet
					}
					out = append(out, fieldAccess{in, true, "store to ." + f.Name()})
				}
				if ia, ok := x.Addr.(*ssa.IndexAddr); ok && isLoadOfField(ia.X, f) {
					out = append(out, fieldAccess{in, true, "element store into ." + f.Name()})
				}
			case *ssa.UnOp:
				if x.Op == token.MUL {
					if fa, ok := x.X.(*ssa.FieldAddr); ok && fieldOfAddr(fa) == f {
						if isFreshLocal(fa.X, fn) {
							continue
						}
						out = append(out, fieldAccess{in, false, "load of ." + f.Name()})
					}
				}
			case *ssa.MapUpdate:
				if isLoadOfField(x.Map, f) {
					out = append(out, fieldAccess{in, true, "map update of ." + f.Name()})
				}
			case *ssa.Lookup:
				if isLoadOfField(x.X, f) {
					out = append(out, fieldAccess{in, false, "lookup in ." + f.Name()})
				}
			case *ssa.Range:
				if isLoadOfField(x.X, f) {
					out = append(out, fieldAccess{in, false, "range over ." + f.Name()})
				}
			case *ssa.Next:
				if rg, ok := x.Iter.(*ssa.Range); ok && isLoadOfField(rg.X, f) {
					out = append(out, fieldAccess{in, false, "iteration step over ." + f.Name()})
				}
			case *ssa.IndexAddr:
				if isLoadOfField(x.X, f) {
					out = append(out, fieldAccess{in, false, "element of ." + f.Name()})
				}
			case ssa.CallInstruction:
				if b, ok := x.Common().Value.(*ssa.Builtin); ok {
					for _, a := range x.Common().Args {
						if isLoadOfField(a, f) {
							w := b.Name() == "delete" || b.Name() == "append" || b.Name() == "copy"
							out = append(out, fieldAccess{in, w && b.Name() == "delete", b.Name() + " on ." + f.Name()})
						}
					}
				}
			}
		}
	}
	return out
}

// isFreshLocal: base is an object allocated in fn (composite literal / new) — not yet published.
func isFreshLocal(base ssa.Value, fn *ssa.Function) bool {
	a, ok := strip(base).(*ssa.Alloc)
	return ok && a.Parent() == fn
}

type exemption struct {
	fnSuffix string
	fields   string // comma separated field names, "" = all
	reason   string
}

func exempted(ex []exemption, fn *ssa.Function, f *types.Var) (string, bool) {
	// the function itself, the function a literal is written in, and the function a transparent
	// helper is inlined into (an exemption is about a phase of the object's life, not about a body)
	names := []string{FuncName(fn), FuncName(outermost(fn)), FuncName(rootOfHelper(fn)), FuncName(rootOfHelper(outermost(fn))), FuncName(outermost(rootOfHelper(fn)))}
	for _, e := range ex {
		hit := false
		for _, name := range names {
			hit = hit || strings.HasSuffix(name, e.fnSuffix)
		}
		if !hit {
			continue
		}
		if e.fields == "" {
			return e.reason, true
		}
		for _, n := range strings.Split(e.fields, ",") {
			if n == f.Name() {
				return e.reason, true
			}
		}
	}
	return "", false
}

func checkGuardedBy(c *Ctx, rule string, m *Module, la *LockAnalysis, fns []*ssa.Function, specs []guardSpec, ex []exemption) int {
	n := 0
	for _, sp := range specs {
		acc := accessesOf(fns, sp.field)
		sort.Slice(acc, func(i, j int) bool { return acc[i].in.Pos() < acc[j].in.Pos() })
		for _, a := range acc {
			fn := a.in.Parent()
			construct := a.what + " (" + render1(a.in) + ")"
			pos := m.Pos(a.in.Pos())
			if reason, ok := exempted(ex, fn, sp.field); ok {
				c.OK(rule, FuncName(fn), construct, pos, "exempt: "+reason)
				n++
				continue
			}
			need := LockR
			if a.write || !sp.rw {
				need = LockW
			}
			held := la.At(a.in)[sp.lock]
			ok := held >= need
			mode := "exclusively"
			if need == LockR {
				mode = "at least shared"
			}
			c.Check(ok, rule, FuncName(fn), construct, pos, "holds "+sp.lock.Name()+" ("+la.At(a.in).String()+")",
				fmt.Sprintf("%s without holding %s %s (must-lockset %s): another goroutine (a dispatcher calling HandleMessage/OnMsg, or a second session) can access the same memory concurrently", a.what, sp.lock.Name(), mode, la.At(a.in).String()))
			n++
		}
	}
	return n
}

func render1(in ssa.Instruction) string {
	if v, ok := in.(ssa.Value); ok {
		s := render(v)
		if len(s) > 60 {
			s = s[:60] + "…"
		}
		return s
	}
	switch x := in.(type) {
	case *ssa.Store:
		return render(x.Addr)
	case *ssa.MapUpdate:
		return render(x.Map) + "[" + render(x.Key) + "]"
	}
	return in.String()
}

func checkC20(c *Ctx) {
	c.explanation = "Static decision by a must-lockset analysis (locks abstracted by mutex field, defer-aware, entry locksets intersected over static call sites, synchronous callbacks inherit the caller's lockset, goroutines/escaping functions start empty) that every access to a field of the frozen guarded-by table — Scheme's handler tables and dkgRunning, TBLS/TPS contribution maps and counters, Box's three maps, storedMessages' buffer, counters and lastUsed — holds its lock in a sufficient mode; exemptions are per function with the ordering rule that justifies them (object still unpublished: Init/SetShareData happen before the handler is registered, which is itself decided here; sync.Once body with every method calling it first). Further: the Box epoch counters are touched only through sync/atomic; Member's and topicPeerView's state fields are sync.Map/channels and their config fields are never written after construction; the RBC instance is serialised by the wrapper chain (C02.V3). Not decided: races on memory outside these types (loggers, tss-lib), completeness of the frozen table beyond the check that every field of these structs is classified."
	c.notDecided = "memory outside the listed types; the Go memory model is not explored dynamically"
	c.Assume("sync.Mutex/RWMutex/Once/Map and sync/atomic semantics; a lock instance protects the fields of the same struct instance")
	const L1, L2, O1, A1, T1 = "C20.L1", "C20.L2", "C20.O1", "C20.A1", "C20.T1"
	c.Rule(L1, "guarded-by discipline", 30)
	c.Rule(L2, "serialising wrappers enter the wrapped (unsynchronised) instance only with their lock held exclusively", 1)
	c.Rule(O1, "backend Init/SetShareData happen before the handler is published", 1)
	c.Rule(A1, "epoch counters only through sync/atomic", 2)
	c.Rule(T1, "every field of the stateful structs is classified; Member state is sync.Map/chan, config never written", 4)
	// ------------------------------------------------------------------ threshold
	if t := buildThresholdModel(c); t != nil {
		specs := []guardSpec{
			{t.fSyncTab, t.fLock, true}, {t.fRBCTab, t.fLock, true}, {t.fClsTab, t.fLock, true}, {t.fDKGRunning, t.fLock, true},
		}
		checkGuardedBy(c, L1, t.m, t.la, t.fns, specs, nil)
		ruleSerialisingWrappers(c, L2, t)
		classifyFields(c, T1, t.m, PkgThreshold, "Scheme", map[string]string{
			"dkgRunning": "guarded", "syncsInProgress": "guarded", "rbcInProgress": "guarded", "messageClassifiers": "guarded",
			"setupOnce": "sync", "lock": "sync",
			"Threshold": "config", "SelfID": "config", "Membership": "config", "Logger": "config", "SignerFactory": "config", "KeyGenFactory": "config",
			"Send":        "config: assigned by the constructor before the object is returned",
			"RBF":         "once: written by setup inside setupOnce.Do, read only after Do returned (C02.V3)",
			"SyncFactory": "once: written by setup inside setupOnce.Do, read only after Do returned (C02.V3)",
			"StoredData":  "API contract: SetStoredData is called between sessions, not concurrently with Sign (outside the property's quantifier)",
		})
		// O1: Init / SetShareData happen before publication of the RBC handler in the same continuation
		// (a registration inside a helper shared by the sessions is judged at each call of the helper)
		var pubs []ssa.Instruction
		for _, mu0 := range mapUpdatesOfField(t.fns, t.fRBCTab) {
			fn0 := mu0.Parent()
			if helperCall(fn0) == nil && fn0.Parent() == nil {
				if cs := staticCallsTo(t.fns, fn0); len(cs) >= 2 {
					for _, c0 := range cs {
						pubs = append(pubs, c0.(ssa.Instruction))
					}
					continue
				}
			}
			pubs = append(pubs, mu0)
		}
		for _, mu := range pubs {
			for _, name := range []string{"Init", "SetShareData"} {
				var evs []ssa.Instruction
				for _, ci := range invokesOf(t.fns, name) {
					if name == "SetShareData" && strings.HasSuffix(FuncName(ci.Parent()), "ThresholdPK") {
						continue // private instance, never published
					}
					evs = append(evs, ci.(ssa.Instruction))
				}
				// only events of the same session kind: those that can reach this registration's function or are reached with it
				okAny, okAll := false, true
				for _, e := range evs {
					if !sameSessionScope(t, e, mu) {
						continue
					}
					if t.happensBefore(e, mu) {
						okAny = true
					} else {
						okAll = false
					}
				}
				if name == "SetShareData" && !strings.Contains(FuncName(mu.Parent()), "prepareSigning") {
					continue // key generation does not load share data
				}
				c.Check(okAny && okAll, O1, FuncName(mu.Parent()), name+" before publication of the RBC handler", t.m.Pos(mu.Pos()),
					"every "+name+" of the session's backend instance dominates the registration",
					"the message handler becomes reachable before "+name+" has finished: a message arriving in between runs OnMsg concurrently with "+name+"'s unsynchronised writes (and, before Init, on nil maps)")
			}
		}
	}

	// ------------------------------------------------------------------ BLS / PS
	for _, b := range builtinBackends {
		d := buildDKGModel(c, b)
		if d == nil {
			continue
		}
		la := NewLockAnalysis(d.m, d.sl, b.pkg)
		specs := []guardSpec{{d.fShares, d.fLock, false}, {d.fCommitments, d.fLock, false}, {d.fPKs, d.fLock, false}}
		classes := map[string]string{
			"shares": "guarded", "commitments": "guarded", "publicKeysOfParties": "guarded",
			"lock": "sync", "signal": "sync: condition variable bound to lock",
			"Party": "config", "Logger": "config", "Curve": "config", "MessageLength": "config",
			"id": "init: written by Init before publication (C20.O1), read-only afterwards", "sendMsg": "init", "parties": "init", "threshold": "init", "init": "init", "pp": "init", "msgLength": "init",
			"sk":         "protocol goroutine only (KeyGen/Sign); SetShareData before publication (C20.O1)",
			"sd":         "protocol goroutine only; SetShareData before publication (C20.O1)",
			"storedData": "protocol goroutine only; SetShareData before publication (C20.O1)",
			"PKs":        "unused",
		}
		if d.fSharesProcessed != nil {
			specs = append(specs, guardSpec{d.fSharesProcessed, d.fLock, false})
			classes["sharesProcessed"] = "guarded"
		}
		ex := []exemption{
			{"." + b.typ + ").Init", "", "the instance is not yet reachable by dispatchers: Init happens before the handler is registered (C20.O1)"},
			{"." + b.typ + ").SetShareData", "", "SetShareData happens before the handler is registered (C20.O1); ThresholdPK uses a private instance"},
		}
		checkGuardedBy(c, L1, d.m, la, d.fns, specs, ex)
		classifyFields(c, T1, d.m, b.pkg, b.typ, classes)
	}

	// ------------------------------------------------------------------ msg.Box
	if m := c.Mod(ModRoot); m != nil {
		fns := m.PkgFuncs(PkgMsg)
		for _, f := range fns {
			c.Analysed(FuncName(f))
		}
		sl := NewSlicer(m, PkgMsg)
		la := NewLockAnalysis(m, sl, PkgMsg)
		fld := func(typ, n string) *types.Var { return c.mustField(m, PkgMsg, typ, n) }
		boxLock, smLock := fld("Box", "lock"), fld("storedMessages", "lock")
		if len(c.fatal) == 0 {
			specs := []guardSpec{
				{fld("Box", "pendingMessages"), boxLock, true}, {fld("Box", "startedSending"), boxLock, true}, {fld("Box", "totalInFlightTopicsBySender"), boxLock, true},
				{fld("storedMessages", "messages"), smLock, true}, {fld("storedMessages", "messageCountPerSender"), smLock, true}, {fld("storedMessages", "lastUsed"), smLock, true},
			}
			ex := []exemption{{"(*msg.Box).initialize$1", "", "body of init.Do: runs once, and every method that touches the maps calls initialize() first (checked below)"}}
			// the body of init.Do by role: whatever function the package hands to Do of the Box's Once — a
			// literal or a method value (`b.init.Do(b.setup)`)
			onceBody := map[*ssa.Function]bool{}
			if fOnce := m.Field(PkgMsg, "Box", "init"); fOnce != nil {
				for _, fn := range fns {
					for _, in := range instrsOf(fn) {
						cl, ok := in.(*ssa.Call)
						if !ok || !isCallTo(&cl.Call, "sync", "Once.Do") || len(cl.Call.Args) != 2 {
							continue
						}
						fa, ok := cl.Call.Args[0].(*ssa.FieldAddr)
						if !ok || fieldOfAddr(fa) != fOnce {
							continue
						}
						if mc, _ := closureLiteral(cl.Call.Args[1]); mc != nil {
							body := litBody(mc.Fn.(*ssa.Function))
							onceBody[body] = true
							ex = append(ex, exemption{FuncName(body), "", "body of init.Do (found by role): runs once, and every method that touches the maps calls initialize() first (checked below)"})
						}
					}
				}
			}
			checkGuardedBy(c, L1, m, la, fns, specs, ex)
			// every function touching the Box maps calls initialize() before (or all its callers do)
			initFn := m.Func(PkgMsg, "Box", "initialize")
			for _, sp := range specs[:3] {
				for _, a := range accessesOf(fns, sp.field) {
					fn := a.in.Parent()
					if strings.HasSuffix(FuncName(fn), "initialize$1") || onceBody[fn] || onceBody[rootOfHelper(fn)] {
						continue
					}
					ok := callsBefore(fn, initFn, a.in) || allCallersCallBefore(fns, fn, initFn, 2)
					c.Check(ok, L1, FuncName(fn), "initialize() before "+a.what, m.Pos(a.in.Pos()), "dominated by b.initialize() (here or in every caller)", "the map is used by a method that did not run init.Do first: nil map / race with the initialisation")
				}
			}
			// A1 atomics
			for _, n := range []string{"currentGCEpochNum", "lastGC"} {
				f := fld("Box", n)
				cnt := 0
				for _, fn := range fns {
					for _, in := range instrsOf(fn) {
						fa, ok := in.(*ssa.FieldAddr)
						if !ok || fieldOfAddr(fa) != f || fa.Referrers() == nil {
							continue
						}
						for _, r := range *fa.Referrers() {
							cnt++
							ok := false
							if ci, isC := r.(ssa.CallInstruction); isC {
								if o := calleeObj(ci.Common()); o != nil && o.Pkg() != nil && o.Pkg().Path() == "sync/atomic" {
									ok = true
								}
							}
							// the counter's address handed to an object of the package (a clock that ticks
							// it): every use of the pointer field that holds it is a sync/atomic call
							if st, isSt := r.(*ssa.Store); isSt && st.Val == ssa.Value(fa) {
								if pfa, isFA := st.Addr.(*ssa.FieldAddr); isFA {
									ok = pointerFieldOnlyAtomic(fns, fieldOfAddr(pfa))
								}
							}
							c.Check(ok, A1, FuncName(fn), "access to Box."+n, m.Pos(r.Pos()), "through sync/atomic", "the epoch counter is read or written without sync/atomic while the clock goroutine increments it")
						}
					}
				}
				if cnt == 0 {
					c.Bad(A1, "msg", "access to Box."+n, "-", "no access found")
				}
			}
			classifyFields(c, T1, m, PkgMsg, "Box", map[string]string{
				"stopClock": "once: written in init.Do", "currentGCEpochNum": "atomic", "lastGC": "atomic", "init": "sync", "lock": "sync",
				"pendingMessages": "guarded", "startedSending": "guarded", "totalInFlightTopicsBySender": "guarded",
				"MessageHandler": "config", "NewTicker": "config", "GCExpire": "config", "GCSweep": "config", "Logger": "config", "ForwardSend": "config", "MaxInFlightTopicsBySender": "config",
			})
			classifyFields(c, T1, m, PkgMsg, "storedMessages", map[string]string{
				"logger": "config: set at construction", "lock": "sync", "lastUsed": "guarded", "messages": "guarded", "messageCountPerSender": "guarded",
			})
		}
		// disc.Member
		for _, spec := range []struct {
			typ    string
			state  []string
			config []string
		}{
			{"Member", []string{"tagsToIDsAndTopics", "topicsToMemberViews"}, []string{"Membership", "Broadcast", "Send", "Logger", "ID"}},
			{"topicPeerView", []string{"receivedMsg", "memberToView", "responsesReceived", "responses"}, nil},
		} {
			nt := m.LookupType(PkgDisc, spec.typ)
			if nt == nil {
				c.Fatalf("anchor", "disc.%s not found", spec.typ)
				continue
			}
			st := nt.Underlying().(*types.Struct)
			known := map[string]bool{}
			for _, n := range spec.state {
				known[n] = true
			}
			for _, n := range spec.config {
				known[n] = true
			}
			discFns := m.PkgFuncs(PkgDisc)
			for i := 0; i < st.NumFields(); i++ {
				f := st.Field(i)
				if !known[f.Name()] {
					written := false
					for _, s := range storesToField(discFns, f) {
						if !isFreshLocal(s.Addr.(*ssa.FieldAddr).X, s.Parent()) {
							written = true
						}
					}
					for _, a := range accessesOf(discFns, f) {
						if a.write {
							written = true
						}
					}
					ts := types.TypeString(f.Type(), nil)
					if written && !strings.Contains(ts, "sync.Map") && !strings.HasPrefix(ts, "chan ") {
						c.Bad(T1, "disc."+spec.typ, "field "+f.Name(), m.Pos(f.Pos()), "a new mutable field of a concurrently used struct is neither sync.Map nor a channel")
					}
					continue
				}
				isState := false
				for _, n := range spec.state {
					if n == f.Name() {
						isState = true
					}
				}
				if isState {
					ts := types.TypeString(f.Type(), nil)
					ok := strings.Contains(ts, "sync.Map") || strings.HasPrefix(ts, "chan ")
					c.Check(ok, T1, "disc."+spec.typ, "state field "+f.Name(), m.Pos(f.Pos()), ts, "shared state of the synchroniser is a plain "+ts+" accessed from the dispatcher and from Synchronize without synchronisation")
				}
				// never written outside construction
				bad := ""
				for _, s := range storesToField(discFns, f) {
					if !isFreshLocal(s.Addr.(*ssa.FieldAddr).X, s.Parent()) {
						bad = FuncName(s.Parent())
					}
				}
				c.Check(bad == "", T1, "disc."+spec.typ, "field "+f.Name()+" assigned only at construction", m.Pos(f.Pos()), "no store outside a composite literal", "the field is reassigned in "+bad+" while other goroutines read it")
			}
		}
	}
}

// sameSessionScope: event and registration belong to the same flow (DKG vs signing): share an outermost function chain.
func sameSessionScope(t *thrModel, e, reg ssa.Instruction) bool {
	roots := func(in ssa.Instruction) map[*ssa.Function]bool {
		out := map[*ssa.Function]bool{}
		var up func(f *ssa.Function, d int)
		up = func(f *ssa.Function, d int) {
			if d > 6 {
				return
			}
			f = outermost(f)
			cs := t.sl.callers[f]
			if len(cs) == 0 {
				out[f] = true
				return
			}
			for _, c := range cs {
				up(c.Parent(), d+1)
			}
		}
		up(in.Parent(), 0)
		return out
	}
	a, b := roots(e), roots(reg)
	for f := range a {
		if b[f] {
			return true
		}
	}
	return false
}

// callsBefore: fn calls target at an instruction dominating `at`.
func callsBefore(fn, target *ssa.Function, at ssa.Instruction) bool {
	for _, in := range instrsOf(fn) {
		if ci, ok := in.(*ssa.Call); ok && staticCallee(&ci.Call) == target && instrDominates(ci, at) {
			return true
		}
	}
	return false
}

func allCallersCallBefore(fns []*ssa.Function, fn, target *ssa.Function, depth int) bool {
	if depth == 0 {
		return false
	}
	cs := staticCallsTo(fns, fn)
	// closures: judged by their parent at creation
	if fn.Parent() != nil {
		for _, in := range instrsOf(fn.Parent()) {
			if mc, ok := in.(*ssa.MakeClosure); ok && mc.Fn == fn {
				if callsBefore(fn.Parent(), target, mc) || allCallersCallBefore(fns, fn.Parent(), target, depth-1) {
					return true
				}
			}
		}
	}
	if len(cs) == 0 {
		return false
	}
	for _, c := range cs {
		if !callsBefore(c.Parent(), target, c.(ssa.Instruction)) && !allCallersCallBefore(fns, c.Parent(), target, depth-1) {
			return false
		}
	}
	return true
}

// classifyFields: every field of the struct has an entry in the frozen classification.
func classifyFields(c *Ctx, rule string, m *Module, pkg, typ string, classes map[string]string) {
	nt := m.LookupType(pkg, typ)
	if nt == nil {
		c.Fatalf("anchor", "%s.%s not found", pkg, typ)
		return
	}
	st := nt.Underlying().(*types.Struct)
	missing := []string{}
	// the table names fields as the reference tree does; each is resolved as an anchor (a renamed field is
	// found by its type and position)
	classified := map[*types.Var]bool{}
	for name := range classes {
		if f := m.Field(pkg, typ, name); f != nil {
			classified[f] = true
		}
	}
	for i := 0; i < st.NumFields(); i++ {
		if _, ok := classes[st.Field(i).Name()]; !ok && !classified[st.Field(i)] {
			// a field that is only ever assigned while the object is constructed is immutable configuration
			mutated := false
			for _, a := range accessesOf(m.PkgFuncs(pkg), st.Field(i)) {
				if a.write {
					mutated = true
				}
			}
			if mutated {
				missing = append(missing, st.Field(i).Name())
			}
		}
	}
	short := pkg[strings.LastIndex(pkg, "/")+1:] + "." + typ
	c.Check(len(missing) == 0, rule, short, "all fields classified", m.Pos(nt.Obj().Pos()), fmt.Sprintf("%d fields", st.NumFields()),
		"the struct has mutable field(s) "+strings.Join(missing, ", ")+" that the frozen guarded-by table does not classify (guarded / config / init / atomic): its accesses are not checked")
}

// ruleSerialisingWrappers: the reliable-broadcast receiver and the synchroniser have no lock of their
// own; package threshold wraps each instance in a struct holding a mutex plus the wrapped function /
// interface.  Every method of such a wrapper must hold that mutex EXCLUSIVELY around every call into
// the wrapped value (a read lock admits two dispatchers at once; the wrapped code writes its maps even
// on paths that look read-only, e.g. lazy initialisation).
func ruleSerialisingWrappers(c *Ctx, rule string, t *thrModel) {
	pkg := t.m.Pkg(PkgThreshold)
	if pkg == nil {
		return
	}
	isMutex := func(ty types.Type) bool {
		return isNamed(ty, "sync", "Mutex") || isNamed(ty, "sync", "RWMutex")
	}
	scope := pkg.Types.Scope()
	for _, name := range scope.Names() {
		tn, ok := scope.Lookup(name).(*types.TypeName)
		if !ok {
			continue
		}
		st, ok := tn.Type().Underlying().(*types.Struct)
		if !ok || st.NumFields() != 2 {
			continue
		}
		var lock, inner *types.Var
		for i := 0; i < 2; i++ {
			f := st.Field(i)
			switch f.Type().Underlying().(type) {
			case *types.Signature, *types.Interface:
				inner = f
			default:
				if isMutex(f.Type()) {
					lock = f
				}
			}
		}
		if lock == nil || inner == nil {
			continue
		}
		n := 0
		for _, fn := range t.fns {
			if fn.Signature.Recv() == nil || namedOf(fn.Signature.Recv().Type()) == nil || namedOf(fn.Signature.Recv().Type()).Obj() != tn {
				continue
			}
			for _, in := range instrsOf(fn) {
				ci, ok := in.(ssa.CallInstruction)
				if !ok {
					continue
				}
				cc := ci.Common()
				through := callsFuncField(cc, inner)
				if !through && cc.IsInvoke() && isLoadOfField(cc.Value, inner) {
					through = true
				}
				if !through {
					continue
				}
				n++
				c.Check(t.la.Holds(in, lock, LockW), rule, FuncName(fn), "call into the wrapped "+inner.Name(), t.m.Pos(in.Pos()),
					"must-lockset "+t.la.At(in).String(),
					"the wrapped instance (which has no lock of its own) is entered without holding "+name+"."+lock.Name()+" exclusively: two dispatcher goroutines can run inside it at once and race on its maps")
			}
		}
		if n == 0 {
			c.Bad(rule, name, "call into the wrapped "+inner.Name(), t.m.Pos(tn.Pos()), "the wrapper never calls the wrapped value")
		}
	}
}

// pointerFieldOnlyAtomic: pf is an unexported pointer-typed field; everywhere in fns its value is
// loaded only to be passed to sync/atomic functions (and it is stored only by composite literals /
// plain stores of an address): the pointee is accessed atomically through it.
func pointerFieldOnlyAtomic(fns []*ssa.Function, pf *types.Var) bool {
	if pf.Exported() {
		return false
	}
	if _, isPtr := pf.Type().Underlying().(*types.Pointer); !isPtr {
		return false
	}
	n := 0
	for _, fn := range fns {
		for _, in := range instrsOf(fn) {
			var loaded ssa.Value
			switch x := in.(type) {
			case *ssa.UnOp:
				if fa, ok := x.X.(*ssa.FieldAddr); ok && x.Op == token.MUL && fieldOfAddr(fa) == pf {
					loaded = x
				}
			case *ssa.Field:
				if st, ok := x.X.Type().Underlying().(*types.Struct); ok && x.Field < st.NumFields() && st.Field(x.Field) == pf {
					loaded = x
				}
			}
			if loaded == nil || loaded.Referrers() == nil {
				continue
			}
			for _, r := range *loaded.Referrers() {
				if _, isD := r.(*ssa.DebugRef); isD {
					continue
				}
				ci, isC := r.(ssa.CallInstruction)
				if !isC {
					return false
				}
				o := calleeObj(ci.Common())
				if o == nil || o.Pkg() == nil || o.Pkg().Path() != "sync/atomic" {
					return false
				}
				n++
			}
		}
	}
	return n > 0
}
