package main

// Engine B (byte lanes): abstract interpretation of integer values as arrays
// of byte lanes, used to compare the layout written by an encoder with the
// layout read back by its decoder.

import (
	"fmt"
	"go/token"
	"go/types"

	"golang.org/x/tools/go/ssa"
)

type laneKind int

const (
	laneZero laneKind = iota
	laneByte          // a byte read from the buffer at a position
	laneSrc           // byte k of a source integer value
	laneUnknown
)

type posExpr struct {
	Base string // "" = absolute; otherwise a loop descriptor "loop(init,stride)"
	Off  int64
	OK   bool
}

func (p posExpr) String() string {
	if !p.OK {
		return "?"
	}
	if p.Base == "" {
		return fmt.Sprintf("%d", p.Off)
	}
	// canonical: the constant offset is folded into the loop's start (i from 0, buf[33+i] ≡ off from 33, buf[off])
	var init, stride int64
	if n, _ := fmt.Sscanf(p.Base, "loop(init=%d,stride=%d)", &init, &stride); n == 2 {
		return fmt.Sprintf("loop(init=%d,stride=%d)+0", init+p.Off, stride)
	}
	return fmt.Sprintf("%s+%d", p.Base, p.Off)
}

type lane struct {
	Kind laneKind
	Pos  posExpr   // laneByte
	Buf  ssa.Value // laneByte: the buffer read
	Src  ssa.Value // laneSrc
	K    int       // laneSrc: which byte of Src
}

func (l lane) String() string {
	switch l.Kind {
	case laneZero:
		return "0"
	case laneByte:
		return "buf[" + l.Pos.String() + "]"
	case laneSrc:
		return fmt.Sprintf("%s.byte%d", render(l.Src), l.K)
	}
	return "?"
}

// posOf evaluates an index expression to const or loop-relative form.
func posOf(v ssa.Value) posExpr {
	v = strip(v)
	if c, ok := constInt(v); ok {
		return posExpr{Off: c, OK: true}
	}
	switch x := v.(type) {
	case *ssa.BinOp:
		if x.Op == token.MUL {
			// (loop(a,s)+off)·k = loop(a·k, s·k) + off·k
			for _, pr := range [][2]ssa.Value{{x.X, x.Y}, {x.Y, x.X}} {
				k, ok := constInt(pr[1])
				if !ok {
					continue
				}
				p := posOf(pr[0])
				if !p.OK {
					return posExpr{}
				}
				if p.Base == "" {
					return posExpr{Off: p.Off * k, OK: true}
				}
				var init, stride int64
				if n, _ := fmt.Sscanf(p.Base, "loop(init=%d,stride=%d)", &init, &stride); n == 2 {
					return posExpr{Base: fmt.Sprintf("loop(init=%d,stride=%d)", init*k, stride*k), Off: p.Off * k, OK: true}
				}
				return posExpr{}
			}
		}
		if x.Op == token.ADD {
			if c, ok := constInt(x.Y); ok {
				p := posOf(x.X)
				p.Off += c
				return p
			}
			if c, ok := constInt(x.X); ok {
				p := posOf(x.Y)
				p.Off += c
				return p
			}
		}
	case *ssa.Phi:
		// induction variable: φ(init, φ+stride)
		if len(x.Edges) == 2 {
			for i := 0; i < 2; i++ {
				init, ok := constInt(x.Edges[i])
				if !ok {
					continue
				}
				if b, ok := x.Edges[1-i].(*ssa.BinOp); ok && b.Op == token.ADD && b.X == ssa.Value(x) {
					if s, ok := constInt(b.Y); ok {
						return posExpr{Base: fmt.Sprintf("loop(init=%d,stride=%d)", init, s), OK: true}
					}
				}
			}
		}
	}
	return posExpr{}
}

func widthLanes(t types.Type) int {
	w := intWidth(t)
	if w == 0 {
		return 0
	}
	return w / 8
}

// lanesOf abstracts an integer value.
func lanesOf(v ssa.Value, depth int) []lane {
	n := widthLanes(v.Type())
	if n == 0 {
		return nil
	}
	unknown := func() []lane {
		out := make([]lane, n)
		for i := range out {
			out[i] = lane{Kind: laneUnknown}
		}
		return out
	}
	source := func(s ssa.Value) []lane {
		out := make([]lane, n)
		for i := range out {
			out[i] = lane{Kind: laneSrc, Src: s, K: i}
		}
		return out
	}
	if depth > 10 {
		return unknown()
	}
	// a value handed back by a transparent helper: what the helper returns
	switch v.(type) {
	case *ssa.Call, *ssa.Extract:
		if r := resultOf(v); r != v && widthLanes(r.Type()) == n {
			return lanesOf(r, depth+1)
		}
	}
	if c, ok := v.(*ssa.Const); ok {
		if k, ok := constInt(c); ok && k == 0 {
			return make([]lane, n)
		}
		return unknown()
	}
	switch x := v.(type) {
	case *ssa.ChangeType:
		return lanesOf(x.X, depth+1)
	case *ssa.Convert:
		in := lanesOf(x.X, depth+1)
		if in == nil {
			return unknown()
		}
		out := make([]lane, n)
		for i := 0; i < n && i < len(in); i++ {
			out[i] = in[i]
		}
		// signed sources would sign-extend; only unsigned (or same-size) are modelled
		if len(in) < n {
			if b, ok := x.X.Type().Underlying().(*types.Basic); ok && b.Info()&types.IsUnsigned == 0 {
				for i := len(in); i < n; i++ {
					out[i] = lane{Kind: laneUnknown}
				}
			}
		}
		return out
	case *ssa.UnOp:
		if x.Op == token.MUL {
			if ia, ok := x.X.(*ssa.IndexAddr); ok && n == 1 {
				buf, base, okb := sliceBase(ia.X)
				p := posOf(ia.Index)
				if okb && p.OK && !(base.Base != "" && p.Base != "") {
					if base.Base != "" {
						p.Base = base.Base
					}
					p.Off += base.Off
					return []lane{{Kind: laneByte, Pos: p, Buf: buf}}
				}
				return []lane{{Kind: laneByte, Pos: posExpr{}, Buf: strip(ia.X)}}
			}
			// a field of a struct value built elsewhere in this analysis' view — a local that received the
			// result of a decoding helper (`header, err := readFrameHeader(conn)` … header.payloadSize):
			// the value that field was given
			if fa, ok := x.X.(*ssa.FieldAddr); ok {
				if al, isA := fa.X.(*ssa.Alloc); isA {
					if fv := structFieldValue(al, fieldOfAddr(fa), 0); fv != nil && fv != v && widthLanes(fv.Type()) == n {
						return lanesOf(fv, depth+1)
					}
				}
			}
			return source(v)
		}
		return unknown()
	case *ssa.Index:
		if n == 1 {
			return []lane{{Kind: laneByte, Pos: posOf(x.Index), Buf: strip(x.X)}}
		}
		return source(v)
	case *ssa.BinOp:
		switch x.Op {
		case token.SHL, token.SHR:
			k, ok := constInt(x.Y)
			if !ok || k%8 != 0 {
				return unknown()
			}
			in := lanesOf(x.X, depth+1)
			sh := int(k / 8)
			out := make([]lane, n)
			for i := 0; i < n; i++ {
				var j int
				if x.Op == token.SHL {
					j = i - sh
				} else {
					j = i + sh
				}
				if j >= 0 && j < len(in) {
					out[i] = in[j]
				}
			}
			return out
		case token.ADD, token.OR, token.XOR:
			a, b := lanesOf(x.X, depth+1), lanesOf(x.Y, depth+1)
			out := make([]lane, n)
			for i := 0; i < n; i++ {
				switch {
				case a[i].Kind == laneZero:
					out[i] = b[i]
				case b[i].Kind == laneZero:
					out[i] = a[i]
				default:
					out[i] = lane{Kind: laneUnknown}
				}
			}
			// a carry cannot occur when lanes do not overlap, which is what we require
			return out
		case token.AND:
			// masks: v & 0xff
			if k, ok := constInt(x.Y); ok {
				in := lanesOf(x.X, depth+1)
				out := make([]lane, n)
				for i := 0; i < n; i++ {
					b := (k >> (8 * uint(i))) & 0xff
					if b == 0xff {
						out[i] = in[i]
					} else if b != 0 {
						out[i] = lane{Kind: laneUnknown}
					}
				}
				return out
			}
		}
		return unknown()
	case *ssa.Call:
		// encoding/binary readers: LittleEndian.Uint16(b[a:]) etc.
		if o := calleeObj(&x.Call); o != nil && o.Pkg() != nil && o.Pkg().Path() == "encoding/binary" {
			little := false
			if sig := o.Type().(*types.Signature); sig.Recv() != nil {
				little = namedOf(sig.Recv().Type()) != nil && namedOf(sig.Recv().Type()).Obj().Name() == "littleEndian"
			}
			if len(x.Call.Args) >= 1 {
				buf, base, ok := sliceBase(x.Call.Args[len(x.Call.Args)-1])
				if ok {
					out := make([]lane, n)
					for i := 0; i < n; i++ {
						off := int64(i)
						if !little {
							off = int64(n - 1 - i)
						}
						p := base
						p.Off += off
						out[i] = lane{Kind: laneByte, Pos: p, Buf: buf}
					}
					return out
				}
			}
		}
		return source(v)
	}
	return source(v)
}

// sliceBase: v = buf[a:] (or buf itself) -> (buf, a).
func sliceBase(v ssa.Value) (ssa.Value, posExpr, bool) {
	v = strip(v)
	if s, ok := v.(*ssa.Slice); ok {
		base := posExpr{OK: true}
		if s.Low != nil {
			base = posOf(s.Low)
		}
		inner, ib, ok := sliceBase(s.X)
		if !ok || !base.OK {
			return nil, posExpr{}, false
		}
		if ib.Base != "" && base.Base != "" {
			return nil, posExpr{}, false
		}
		if ib.Base != "" {
			base.Base = ib.Base
		}
		base.Off += ib.Off
		return inner, base, true
	}
	return v, posExpr{OK: true}, true
}

// byteWrite is one `buf[pos] = lane` of an encoder.
type byteWrite struct {
	Buf  ssa.Value
	Pos  posExpr
	Lane lane
	At   token.Pos
}

// encoderWrites collects single-byte stores into byte buffers of fn, plus
// binary.*.PutUintN calls.
func encoderWrites(fn *ssa.Function) []byteWrite {
	var out []byteWrite
	for _, in := range instrsDeep(fn) {
		switch x := in.(type) {
		case *ssa.Store:
			ia, ok := x.Addr.(*ssa.IndexAddr)
			if !ok || widthLanes(x.Val.Type()) != 1 {
				continue
			}
			if a, isA := ia.X.(*ssa.Alloc); isA && a.Comment == "varargs" {
				continue // the temporary holding the arguments of a variadic call, not a buffer
			}
			ls := lanesOf(x.Val, 0)
			if len(ls) != 1 {
				continue
			}
			out = append(out, byteWrite{Buf: bufferRoot(ia.X), Pos: posOf(ia.Index), Lane: ls[0], At: x.Pos()})
		case *ssa.Call:
			// header = append(header, b0, b1, …): bytes written at the buffer's current length
			if bi, ok := x.Call.Value.(*ssa.Builtin); ok && bi.Name() == "append" && len(x.Call.Args) == 2 && isByteSlice(x.Type()) {
				if base := appendPos(x.Call.Args[0]); base.OK {
					for i, e := range variadicElems(x.Call.Args[1]) {
						ls := lanesOf(e, 0)
						if len(ls) != 1 {
							continue
						}
						p := base
						p.Off += int64(i)
						out = append(out, byteWrite{Buf: bufferRoot(x), Pos: p, Lane: ls[0], At: x.Pos()})
					}
				}
				continue
			}
			o := calleeObj(&x.Call)
			if o == nil || o.Pkg() == nil || o.Pkg().Path() != "encoding/binary" || len(x.Call.Args) < 2 {
				continue
			}
			name := o.Name()
			var n int
			switch name {
			case "PutUint16":
				n = 2
			case "PutUint32":
				n = 4
			case "PutUint64":
				n = 8
			default:
				continue
			}
			little := false
			if sig := o.Type().(*types.Signature); sig.Recv() != nil && namedOf(sig.Recv().Type()) != nil {
				little = namedOf(sig.Recv().Type()).Obj().Name() == "littleEndian"
			}
			args := x.Call.Args
			buf, base, ok := sliceBase(args[len(args)-2])
			if !ok {
				continue
			}
			vl := lanesOf(args[len(args)-1], 0)
			for i := 0; i < n && i < len(vl); i++ {
				off := int64(i)
				if !little {
					off = int64(n - 1 - i)
				}
				p := base
				p.Off += off
				out = append(out, byteWrite{Buf: bufferRoot(buf), Pos: p, Lane: vl[i], At: x.Pos()})
			}
		}
	}
	return out
}

// bufferRoot normalises the buffer operand (array alloc behind a slice, etc.).
func bufferRoot(v ssa.Value) ssa.Value {
	v = strip(v)
	for i := 0; i < 12; i++ {
		if s, ok := v.(*ssa.Slice); ok && s.Low == nil {
			v = strip(s.X)
			continue
		}
		// a buffer grown by append: the buffer it started from
		if c, ok := v.(*ssa.Call); ok {
			if b, ok := c.Call.Value.(*ssa.Builtin); ok && b.Name() == "append" && len(c.Call.Args) == 2 {
				v = strip(c.Call.Args[0])
				continue
			}
			// … also when a transparent helper does the appending (`buf = appendPreamble(buf, …)`)
			if r := resultOf(c); r != ssa.Value(c) {
				v = strip(r)
				continue
			}
		}
		// … also when it grows in a loop
		if ph, ok := v.(*ssa.Phi); ok {
			if init, _, ok := loopAppendPhi(ph); ok {
				v = strip(init)
				continue
			}
		}
		break
	}
	return v
}

// appendOffset: the constant length of a buffer built by appends from an empty make (where the next
// append writes), or -1.
func appendOffset(v ssa.Value) int64 {
	v = strip(v)
	if c, ok := v.(*ssa.Call); ok {
		if _, isB := c.Call.Value.(*ssa.Builtin); !isB {
			if r := resultOf(c); r != ssa.Value(c) {
				v = strip(r) // what a transparent helper returns
			}
		}
	}
	if ms, ok := v.(*ssa.MakeSlice); ok {
		if k, ok := constInt(ms.Len); ok {
			return k
		}
		return -1
	}
	if s, ok := v.(*ssa.Slice); ok && s.Low == nil {
		if h, ok := constInt(s.High); ok && s.High != nil {
			return h
		}
		if a, ok := s.X.(*ssa.Alloc); ok && s.High == nil {
			if arr, ok := a.Type().(*types.Pointer).Elem().Underlying().(*types.Array); ok {
				return arr.Len()
			}
		}
		return -1
	}
	if k, ok := v.(*ssa.Const); ok && k.Value == nil {
		return 0 // nil slice
	}
	if c, ok := v.(*ssa.Call); ok {
		if b, ok := c.Call.Value.(*ssa.Builtin); ok && b.Name() == "append" && len(c.Call.Args) == 2 {
			base := appendOffset(c.Call.Args[0])
			if base < 0 {
				return -1
			}
			els := variadicElems(c.Call.Args[1])
			if len(els) == 0 {
				// a spread: its length when a dominating test fixes it (if len(tag) != 32 { panic })
				if n, ok := knownLenAt(c.Call.Args[1], c); ok {
					return base + n
				}
				return -1
			}
			return base + int64(len(els))
		}
	}
	return -1
}

// knownLenAt: the length of slice (or string) x is fixed to a constant by a test every path to at has passed.
func knownLenAt(x ssa.Value, at ssa.Instruction) (int64, bool) {
	x = strip(x)
	if k, ok := x.(*ssa.Const); ok && k.Value != nil && k.Value.Kind().String() == "String" {
		return int64(len(constantString(k))), true
	}
	for _, f := range FactsAt(at) {
		if f.Op != token.EQL {
			continue
		}
		lx, ok := lenOperand(strip(f.X))
		if !ok || !(strip(lx) == x || sameValue(lx, x)) {
			continue
		}
		if k, ok := constInt(f.Y); ok && k >= 0 {
			return k, true
		}
	}
	return 0, false
}

// loopAppendPhi: ph is a buffer grown by a constant number of appended elements per loop iteration:
// φ(init, append(…append(φ, e…)…, e…)).  Returns the buffer before the loop and the elements per iteration.
func loopAppendPhi(ph *ssa.Phi) (ssa.Value, int64, bool) {
	if len(ph.Edges) != 2 {
		return nil, 0, false
	}
	for k := 0; k < 2; k++ {
		init, step := ph.Edges[k], ph.Edges[1-k]
		n := int64(0)
		v := strip(step)
		ok := false
		for i := 0; i < 16; i++ {
			if v == ssa.Value(ph) {
				ok = true
				break
			}
			c, isC := v.(*ssa.Call)
			if !isC {
				break
			}
			b, isB := c.Call.Value.(*ssa.Builtin)
			if !isB || b.Name() != "append" || len(c.Call.Args) != 2 {
				break
			}
			els := variadicElems(c.Call.Args[1])
			if len(els) == 0 {
				break
			}
			n += int64(len(els))
			v = strip(c.Call.Args[0])
		}
		if ok && n > 0 && strip(init) != ssa.Value(ph) {
			return init, n, true
		}
	}
	return nil, 0, false
}

// appendPos: where the next append onto v writes — a constant (appendOffset) or, for a buffer grown
// in a loop, the loop-relative position loop(init, stride).
func appendPos(v ssa.Value) posExpr {
	if k := appendOffset(v); k >= 0 {
		return posExpr{Off: k, OK: true}
	}
	v = strip(v)
	if ph, ok := v.(*ssa.Phi); ok {
		if init, stride, ok := loopAppendPhi(ph); ok {
			if k := appendOffset(init); k >= 0 {
				return posExpr{Base: fmt.Sprintf("loop(init=%d,stride=%d)", k, stride), OK: true}
			}
		}
		return posExpr{}
	}
	if c, ok := v.(*ssa.Call); ok {
		if b, ok := c.Call.Value.(*ssa.Builtin); ok && b.Name() == "append" && len(c.Call.Args) == 2 {
			base := appendPos(c.Call.Args[0])
			els := variadicElems(c.Call.Args[1])
			if !base.OK || len(els) == 0 {
				return posExpr{}
			}
			base.Off += int64(len(els))
			return base
		}
	}
	return posExpr{}
}
