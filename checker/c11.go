package main

// C11 — KeyGen and Sign fail cleanly on timeout, cancellation or a vanished peer.

import (
	"fmt"
	"go/token"
	"go/types"
	"strings"

	"golang.org/x/tools/go/ssa"
)

func init() { register("C11", checkC11) }

// outermost lexical parent
func outermost(fn *ssa.Function) *ssa.Function {
	for i := 0; enclosingFn(fn) != nil && i < 24; i++ {
		fn = enclosingFn(fn)
	}
	return fn
}

type apiRoot struct {
	t        *thrModel
	fn       *ssa.Function
	result   ssa.Value // identity of the result channel (chanID: the cell of the variable, or the make(chan) a session field holds)
	mk       *ssa.MakeChan
	sel      *ssa.Select
	ctxParam ssa.Value
}

// partOfLiteral: fn is a literal, or (through transparent helpers) part of the body of one.
func partOfLiteral(fn *ssa.Function) bool {
	for i := 0; fn != nil && i < 16; i++ {
		if fn.Parent() != nil || methodLiteral[fn] != nil {
			return true
		}
		c := helperCall(fn)
		if c == nil {
			return false
		}
		fn = c.Parent()
	}
	return false
}

// findAPIRoots: functions of threshold that allocate a buffered result channel and select on it.
func (t *thrModel) findAPIRoots() []*apiRoot {
	var out []*apiRoot
	for _, fn := range t.fns {
		if partOfLiteral(fn) {
			continue
		}
		var sel *ssa.Select
		n := 0
		for _, in := range instrsOf(fn) {
			if s, ok := in.(*ssa.Select); ok && s.Blocking {
				sel = s
				n++
			}
		}
		if n != 1 {
			continue
		}
		for _, st := range sel.States {
			if st.Dir != types.RecvOnly {
				continue
			}
			id := t.chanID(st.Chan)
			var mk *ssa.MakeChan
			switch x := id.(type) {
			case *ssa.Alloc:
				sts := storesToCell(x)
				if len(sts) != 1 {
					continue
				}
				mk, _ = strip(sts[0].Val).(*ssa.MakeChan)
			case *ssa.MakeChan:
				mk = x
			}
			if mk == nil {
				continue
			}
			out = append(out, &apiRoot{t: t, fn: fn, result: id, mk: mk, sel: sel})
		}
	}
	return out
}

func (r *apiRoot) isSendOnResult(in ssa.Instruction) bool {
	snd, ok := in.(*ssa.Send)
	if !ok {
		return false
	}
	return r.t.chanID(snd.Chan) == r.result
}

// allPathsSend: every path from fn's entry to a return sends on the result channel
// (skip decides exempt edges).
func (r *apiRoot) allPathsSend(fn *ssa.Function, skip func(*ssa.BasicBlock, int) bool) []*ssa.BasicBlock {
	fn = litBody(fn) // a method value standing for a literal: the method's body
	if len(fn.Blocks) == 0 || len(fn.Blocks[0].Instrs) == 0 {
		return nil
	}
	first := fn.Blocks[0].Instrs[0]
	if r.isSendOnResult(first) {
		return nil
	}
	return pathToReturnAvoiding(first, withCallees(r.isSendOnResult, 0), skip)
}

func checkC11(c *Ctx) {
	c.explanation = "Static decision of: (O1) in Sign and runDKG every path of a Synchronize continuation from its entry to a return sends on the (buffered) result channel or hands over to a nested, blocking Synchronize whose continuation does; the error arm of the goroutine that runs the first-level Synchronize reports too; exempt are only the arms taken after a nested Synchronize itself failed (with the per-call synchroniser the orchestrator builds this is context expiry, which the API-level select turns into an error); (O2) the API function blocks only in one select that has a ctx.Done() arm returning a non-nil error, and the result channel is buffered; (O3) the BLS/PS waits return an error on expiry and every caller up to KeyGen honours it; (O4) KeyGen arms the context monitor before any wait and the monitor signals the condition variable under the same lock on ctx.Done(); (P1) every explicit panic in code reachable from KeyGen/Sign of the orchestrator and the four backends has a frozen reason (caller contract or a premise decided by another rule); (G1) the adapters' session loops select on ctx.Done() and return an error there. Wall-clock promptness, tss-lib internals and goroutine-leak freedom are not decided."
	c.notDecided = "wall-clock promptness; tss-lib internals; goroutine leak freedom"
	c.Assume("context.Context: Done() is closed on cancellation/expiry and Err() is then non-nil; sync.Cond semantics")
	const O1, O2, O3, O4, P1, G1 = "C11.O1", "C11.O2", "C11.O3", "C11.O4", "C11.P1", "C11.G1"
	c.Rule(O1, "every continuation path reports on the result channel", 2)
	c.Rule(O2, "API blocks only in a select with a ctx.Done() arm; result channel buffered", 2)
	c.Rule(O3, "BLS/PS waits report expiry (thresholds in normal form) and callers honour it", 12)
	c.Rule(O4, "context monitor armed before the waits, signalling under the lock; waits park only after a fresh context check", 3)
	c.Rule(P1, "explicit panics reachable from KeyGen/Sign have a frozen reason", 10)
	c.Rule(G1, "adapter session loops have a ctx.Done() arm returning an error", 2)
	t := buildThresholdModel(c)
	if t != nil {
		m := t.m
		roots := t.findAPIRoots()
		if len(roots) < 2 {
			c.Bad(O2, "threshold", "API roots", "-", fmt.Sprintf("found %d functions that select on a result channel; expected runDKG and Sign", len(roots)))
		}
		for _, r := range roots {
			fname := FuncName(r.fn)
			// ---------------- O2
			size, okS := constInt(r.mk.Size)
			c.Check(okS && size >= 1, O2, fname, "result channel is buffered", m.Pos(r.mk.Pos()), fmt.Sprintf("make(chan, %d)", size), "an unbuffered result channel blocks the reporting goroutine for ever once the API call returned on ctx.Done()")
			doneIdx := -1
			for i, st := range r.sel.States {
				if cl, ok := strip(st.Chan).(*ssa.Call); ok && cl.Call.IsInvoke() && cl.Call.Method.Name() == "Done" {
					doneIdx = i
				}
			}
			okDone := false
			if doneIdx >= 0 {
				// block taken when index == doneIdx returns a non-nil error
				for _, b := range r.fn.Blocks {
					iff, ok := b.Instrs[len(b.Instrs)-1].(*ssa.If)
					if !ok {
						continue
					}
					f := factOf(Guard{iff, true})
					if f.Op != token.EQL {
						continue
					}
					e, ok := strip(f.X).(*ssa.Extract)
					k, okK := constInt(f.Y)
					if !ok || !okK || e.Tuple != ssa.Value(r.sel) || e.Index != 0 || int(k) != doneIdx {
						continue
					}
					arm := b.Succs[0]
					for blk := range reachableBlocks(arm) {
						if ret, ok := blk.Instrs[len(blk.Instrs)-1].(*ssa.Return); ok && blk == arm {
							n := len(ret.Results)
							if n > 0 && !isNilConst(retResult(ret, n-1)) {
								okDone = true
							}
						}
					}
				}
			}
			c.Check(okDone, O2, fname, "select has a ctx.Done() arm returning an error", m.Pos(r.sel.Pos()), "case <-ctx.Done(): return …, ctx.Err()", "the API call does not return with an error when its context ends")
			// no other blocking operation in the root's own body
			for _, in := range instrsOf(r.fn) {
				bad := ""
				switch x := in.(type) {
				case *ssa.UnOp:
					if x.Op == token.ARROW {
						bad = "channel receive outside the select"
					}
				case *ssa.Send:
					bad = "channel send in the API goroutine"
				case *ssa.Call:
					if isCallTo(&x.Call, "sync", "WaitGroup.Wait") || isCallTo(&x.Call, "sync", "Cond.Wait") {
						bad = "wait in the API goroutine"
					}
					if invokesMethod(&x.Call, "Synchronize") {
						bad = "Synchronize called synchronously by the API goroutine (its ctx arm is the synchroniser's, not the API's)"
					}
				}
				if bad != "" {
					c.Bad(O2, fname, "blocking operation: "+bad, m.Pos(in.Pos()), "the API goroutine can block outside the select that watches ctx.Done()")
				}
			}

			// ---------------- O1
			// continuations lexically inside this root
			type contInfo struct {
				fn     *ssa.Function
				invoke ssa.CallInstruction
			}
			var conts []contInfo
			for f, ci := range t.conts {
				if outermost(f) == outermost(r.fn) {
					conts = append(conts, contInfo{f, ci})
				}
			}
			reports := func(f *ssa.Function) bool { return r.allPathsSend(f, nil) == nil }
			n1 := 0
			for _, ci := range conts {
				// nested (second level) continuations are judged through their parent
				if _, nested := t.contCall(ci.invoke.Parent()); nested && !isGoInstr(ci.invoke) {
					continue
				}
				if isGoInstr(ci.invoke) {
					// `go X.Synchronize(ctx, cont)` inside a continuation: cont need not report (the enclosing continuation waits for it)
					if _, inner := t.contCall(ci.invoke.Parent()); inner {
						continue
					}
				}
				n1++
				// exempt edges: nested blocking Synchronize: nil edge if its continuation reports on all paths; non-nil edge always (documented exemption)
				nilSkip := syncNilEdgeSkipper(t.sl, ci.fn, reports)
				errSkip := syncErrEdgeSkipper(t.sl, ci.fn)
				skip := func(b *ssa.BasicBlock, s int) bool { return nilSkip(b, s) || errSkip(b, s) }
				p := r.allPathsSend(ci.fn, skip)
				c.Check(p == nil, O1, FuncName(ci.fn), "continuation reports on every path", m.Pos(ci.fn.Pos()),
					"every entry→return path sends on the result channel (or a nested Synchronize's continuation does)",
					"a path of the continuation returns without reporting: "+describePath(m, p)+" — the API call then waits until its context ends (for ever with context.Background())")
				// the goroutine running the first-level Synchronize reports its failure
				g := ci.invoke.Parent()
				if cl, ok := ci.invoke.(*ssa.Call); ok && g != r.fn {
					nilS := func(b *ssa.BasicBlock, s int) bool {
						iff, ok := b.Instrs[len(b.Instrs)-1].(*ssa.If)
						if !ok {
							return false
						}
						f := factOf(Guard{iff, s == 0})
						return f.Op == token.EQL && isNilConst(f.Y) && errValueOf(f.X) == ssa.Value(cl)
					}
					p2 := pathToReturnAvoiding(cl, withCallees(r.isSendOnResult, 0), nilS) // (a reporting helper counts: `r.fail(err)`)
					c.Check(p2 == nil, O1, FuncName(g), "failure of the first-level Synchronize is reported", m.Pos(cl.Pos()), "err != nil arm sends on the result channel", "when the first synchronisation fails the API call is not told")
				}
			}
			if n1 == 0 {
				c.Bad(O1, fname, "first-level continuation", "-", "no Synchronize continuation found under this API function")
			}
		}
		// ---------------- P1 threshold part
		auditPanics(c, P1, t.m, PkgThreshold, []*ssa.Function{t.m.Func(PkgThreshold, "Scheme", "KeyGen"), t.m.Func(PkgThreshold, "Scheme", "Sign")})
	}

	// ---------------- O3 / O4 BLS, PS
	for _, b := range builtinBackends {
		d := buildDKGModel(c, b)
		if d == nil {
			continue
		}
		d.n1Rule = O3
		d.ruleWaits(c, O3)
		d.ruleMonitor(c, O4)
		d.ruleParkAfterCtxCheck(c, O4)
		auditPanics(c, P1, d.m, b.pkg, []*ssa.Function{d.keygen, d.m.Func(b.pkg, b.typ, "Sign"), d.m.Func(b.pkg, b.typ, "SetShareData"), d.m.Func(b.pkg, b.typ, "Init")})
	}
	// ---------------- G1 / P1 adapters
	for _, a := range adapters {
		m := c.Mod(a.mod)
		if m == nil {
			continue
		}
		for _, name := range []string{"KeyGen", "Sign"} {
			fn := c.mustFunc(m, a.pkg, "party", name)
			if fn == nil {
				continue
			}
			ok := false
			// returns that end the API call (also those of a helper whose results it forwards)
			ends := map[*ssa.Return]bool{}
			for _, r := range returnsDeep(fn) {
				ends[r] = true
			}
			for _, in := range instrsDeep(fn) {
				sel, isSel := in.(*ssa.Select)
				if !isSel || !sel.Blocking {
					continue
				}
				doneIdx := -1
				for i, st := range sel.States {
					if cl, ok := strip(st.Chan).(*ssa.Call); ok && cl.Call.IsInvoke() && cl.Call.Method.Name() == "Done" && strip(cl.Call.Value) == strip(fn.Params[1]) {
						doneIdx = i
					}
				}
				if doneIdx < 0 {
					continue
				}
				for _, b := range sel.Parent().Blocks {
					iff, isIf := b.Instrs[len(b.Instrs)-1].(*ssa.If)
					if !isIf {
						continue
					}
					f := factOf(Guard{iff, true})
					e, isE := strip(f.X).(*ssa.Extract)
					k, okK := constInt(f.Y)
					if f.Op == token.EQL && isE && okK && e.Tuple == ssa.Value(sel) && e.Index == 0 && int(k) == doneIdx {
						arm := b.Succs[0]
						if ret, isRet := arm.Instrs[len(arm.Instrs)-1].(*ssa.Return); isRet && ends[ret] && !isNilConst(retResult(ret, 1)) {
							ok = true
						}
						// the wait loop as a helper that reports (result, false) when the context ends: its
						// caller turns `false` into the error return of the API call
						if ret, isRet := arm.Instrs[len(arm.Instrs)-1].(*ssa.Return); isRet && len(ret.Results) >= 2 {
							last := len(ret.Results) - 1
							k, isK := retResult(ret, last).(*ssa.Const)
							if cs := helperCall(sel.Parent()); cs != nil && isK && k.Value != nil && k.Value.String() == "false" && cs.Referrers() != nil {
								for _, rf := range *cs.Referrers() {
									e2, isE2 := rf.(*ssa.Extract)
									if !isE2 || e2.Index != last || e2.Referrers() == nil {
										continue
									}
									for _, b2 := range cs.Parent().Blocks {
										iff2, isIf2 := b2.Instrs[len(b2.Instrs)-1].(*ssa.If)
										if !isIf2 {
											continue
										}
										f2 := factOf(Guard{iff2, true})
										if f2.Op != 0 || stripNoParam(f2.Bool) != ssa.Value(e2) {
											continue
										}
										falseArm := b2.Succs[1]
										if !f2.True {
											falseArm = b2.Succs[0]
										}
										if r2, isR2 := falseArm.Instrs[len(falseArm.Instrs)-1].(*ssa.Return); isR2 && ends[r2] && !isNilConst(retResult(r2, 1)) {
											ok = true
										}
									}
								}
							}
						}
					}
				}
			}
			c.Check(ok, G1, FuncName(fn), "session loop watches ctx.Done()", m.Pos(fn.Pos()), "select arm <-ctx.Done() returns an error", "the adapter's protocol loop does not end with an error when the context ends")
		}
		auditPanics(c, P1, m, a.pkg, []*ssa.Function{m.Func(a.pkg, "party", "KeyGen"), m.Func(a.pkg, "party", "Sign"), m.Func(a.pkg, "party", "Init"), m.Func(a.pkg, "party", "SetShareData")})
	}
}

func isGoInstr(ci ssa.CallInstruction) bool {
	_, ok := ci.(*ssa.Go)
	return ok
}

// syncErrEdgeSkipper: the err != nil edge of a blocking `err := X.Synchronize(...)` inside fn.
func syncErrEdgeSkipper(sl *Slicer, fn *ssa.Function) func(b *ssa.BasicBlock, succ int) bool {
	type edge struct {
		b    *ssa.BasicBlock
		succ int
	}
	skip := map[edge]bool{}
	for _, g := range deepFuncs(fn) { // the function with the helpers inlined into it
		for _, in := range instrsOf(g) {
			cl, ok := in.(*ssa.Call)
			if !ok || !invokesMethod(&cl.Call, "Synchronize") {
				continue
			}
			for _, b := range g.Blocks {
				if len(b.Instrs) == 0 {
					continue
				}
				iff, ok := b.Instrs[len(b.Instrs)-1].(*ssa.If)
				if !ok {
					continue
				}
				f := factOf(Guard{iff, true})
				if (f.Op == token.NEQ || f.Op == token.EQL) && isNilConst(f.Y) && errValueOf(f.X) == ssa.Value(cl) {
					errSucc := 0
					if f.Op == token.EQL {
						errSucc = 1
					}
					skip[edge{b, errSucc}] = true
				}
			}
		}
	}
	return func(b *ssa.BasicBlock, succ int) bool { return skip[edge{b, succ}] }
}

// ruleParkAfterCtxCheck: every Cond.Wait is entered only after the context was found alive since the
// last wake-up (the monitor signals once; a wake-up that finds nobody parked is lost).
func (d *dkgModel) ruleParkAfterCtxCheck(c *Ctx, rule string) {
	m := d.m
	doneFn := map[*ssa.Function]bool{}
	for _, w := range d.waits {
		fn := w.inner
		if doneFn[fn] {
			continue // one shared wait loop serves several phases
		}
		doneFn[fn] = true
		for _, in := range instrsOf(fn) {
			wc, ok := in.(*ssa.Call)
			if !ok || !isCallTo(&wc.Call, "sync", "Cond.Wait") {
				continue
			}
			var check ssa.Instruction
			selectsOnDone := func(sel *ssa.Select) int {
				for i, st := range sel.States {
					if dc, ok := strip(st.Chan).(*ssa.Call); ok && dc.Call.IsInvoke() && dc.Call.Method.Name() == "Done" {
						return i
					}
				}
				return -1
			}
			// accepted forms of "the context is still alive": a helper that polls ctx.Done() returned false;
			// ctx.Err() == nil; the default arm of an inline non-blocking select on ctx.Done()
			okFact := hasFact(FactsAt(wc), func(f Fact) bool {
				if f.Op == 0 {
					cl, ok := f.Bool.(*ssa.Call)
					if !ok || f.True {
						return false
					}
					cal := staticCallee(&cl.Call)
					if cal == nil {
						return false
					}
					for _, x := range instrsOf(cal) {
						if sel, ok := x.(*ssa.Select); ok && !sel.Blocking && selectsOnDone(sel) >= 0 {
							check = cl
							return true
						}
					}
					return false
				}
				if f.Op == token.EQL && isNilConst(f.Y) {
					if cl, ok := strip(f.X).(*ssa.Call); ok && cl.Call.IsInvoke() && cl.Call.Method.Name() == "Err" && isContextType(cl.Call.Value.Type()) {
						check = cl
						return true
					}
				}
				if e, ok := strip(f.X).(*ssa.Extract); ok && e.Index == 0 {
					if sel, ok := e.Tuple.(*ssa.Select); ok && !sel.Blocking {
						k, okK := constInt(f.Y)
						di := selectsOnDone(sel)
						if okK && di >= 0 && ((f.Op == token.NEQ && int(k) == di && len(sel.States) == 1) || (f.Op == token.EQL && int(k) == -1)) {
							check = sel
							return true
						}
					}
				}
				return false
			})
			// every cycle through the Wait re-evaluates the check
			okCycle := false
			if check != nil {
				okCycle = true
				for _, s := range wc.Block().Succs {
					if reachAvoiding(s, wc.Block(), check.Block()) && check.Block() != wc.Block() {
						okCycle = false
					}
				}
				if check.Block() == wc.Block() && instrIndex(check) > instrIndex(wc) {
					okCycle = false
				}
			}
			c.Check(okFact && okCycle, rule, FuncName(fn), "park only after the context was found alive", m.Pos(wc.Pos()),
				"Wait() is dominated by contextTimedOut(ctx) == false, re-evaluated on every cycle",
				"the wait can park without having checked the context since the last wake-up: the monitor signals only once, so a cancellation that happens just before the goroutine parks is lost and KeyGen blocks for ever on a cancelled context")
		}
	}
}

// ruleMonitor: KeyGen arms the monitor before any wait; the monitor signals under the lock on ctx.Done().
func (d *dkgModel) ruleMonitor(c *Ctx, rule string) {
	m := d.m
	mon := m.Func(d.b.pkg, d.b.typ, "monitorContextTimeout")
	if mon == nil {
		c.Fatalf("anchor", "%s.monitorContextTimeout not found", d.b.typ)
		return
	}
	c.Analysed(FuncName(mon))
	// (a) KeyGen calls the monitor before the first call that reaches a wait
	var monCall ssa.Instruction
	for _, in := range instrsOf(d.keygen) {
		if cl, ok := in.(*ssa.Call); ok && staticCallee(&cl.Call) == mon {
			monCall = cl
		}
	}
	okA := monCall != nil
	if okA {
		for _, w := range d.waits {
			for _, cs := range staticCallsTo(d.fns, w.fn) {
				if lifted := d.liftToKeyGen(cs); lifted == nil || !instrDominates(monCall, lifted) {
					okA = false
				}
			}
		}
		// and its stop function is deferred (so the goroutine ends with KeyGen)
		deferred := false
		for _, in := range instrsOf(d.keygen) {
			if df, ok := in.(*ssa.Defer); ok && strip(df.Call.Value) == monCall.(ssa.Value) {
				deferred = true
			}
		}
		okA = okA && deferred
	}
	c.Check(okA, rule, FuncName(d.keygen), "monitor armed before the waits, stop deferred", m.Pos(d.keygen.Pos()), "defer monitorContextTimeout(ctx)() dominates every wait", "a wait can start without a context monitor: when the context ends nobody wakes the waiting key generation")
	// (b) in the monitor's goroutine: on the Done arm Signal/Broadcast with the lock held
	okB := false
	la := NewLockAnalysis(m, d.sl, d.b.pkg)
	// the monitor's own code: its literals, its helpers, and whatever it starts with `go` (a literal or a
	// named method alike)
	monFns := WithAnon(mon)
	for i := 0; i < len(monFns) && i < 32; i++ {
		for _, in := range instrsOf(monFns[i]) {
			var g *ssa.Function
			switch x := in.(type) {
			case *ssa.Go:
				g = staticCallee(&x.Call)
			case *ssa.Call:
				g = isHelperCall(x)
			}
			if g == nil || g.Pkg != mon.Pkg {
				continue
			}
			for _, h := range WithAnon(g) {
				dup := false
				for _, e := range monFns {
					dup = dup || e == h
				}
				if !dup {
					monFns = append(monFns, h)
				}
			}
		}
	}
	for _, f := range monFns {
		for _, in := range instrsOf(f) {
			cl, ok := in.(*ssa.Call)
			if !ok {
				continue
			}
			if isCallTo(&cl.Call, "sync", "Cond.Signal") || isCallTo(&cl.Call, "sync", "Cond.Broadcast") {
				if la.Holds(cl, d.fLock, LockW) {
					// reached from a select that includes ctx.Done()
					for _, in2 := range instrsOf(f) {
						if sel, ok := in2.(*ssa.Select); ok {
							for _, st := range sel.States {
								if dc, ok := strip(st.Chan).(*ssa.Call); ok && dc.Call.IsInvoke() && dc.Call.Method.Name() == "Done" {
									okB = true
								}
							}
						}
					}
				}
			}
		}
	}
	c.Check(okB, rule, FuncName(mon), "signal under the lock on ctx.Done()", m.Pos(mon.Pos()), "lock; Signal; unlock on the Done arm", "the monitor does not wake the waiter under the condition variable's lock when the context ends (lost wake-up)")
}

// ---------------------------------------------------------------------------
// explicit panic audit

type panicReason struct {
	fnSuffix string // suffix of FuncName
	text     string // prefix of the panic text ("" = any)
	reason   string
}

var panicReasons = []panicReason{
	{"(*threshold.Scheme).runDKG$1", "\"Programming error", "unreachable: dkgRunning admits one key generation at a time (C12.L1) and cleanup removes the entry (C12.O1)"},
	{"(*threshold.Scheme).initializeHandlers$1", "\"Programming error", "unreachable: dkgRunning admits one key generation at a time (C12.L1) and cleanup removes the entry (C12.O1)"},
	{"(*threshold.Scheme).prepareSigning", "\"Programming error", "unreachable: a second Sign on a live topic is refused atomically (C12.L1) and all three entries are removed together (C12.O1)"},
	{"threshold.newRBCEncoding", "\"round must be", "unreachable: every broadcast round of every backend is ≤127 (C04.T1)"},
	{"(*mpc/bls.TBLS).Sign", "\"invoke SetShareData", "unreachable from the orchestrator: prepareSigning returns SetShareData's error before Sign is started (C11.O1); SetShareData always sets sk"},
	{"(*mpc/bls.TBLS).ensureInitOrPanic", "\"Init() must be called", "unreachable from the orchestrator: Init dominates the start of KeyGen (C01.O2)"},
	{"(*mpc/bls.TBLS).flattenPublicKeys", "\"programming error", "unreachable: the reveal wait succeeded with n keys (C05.O1, C05.N1) keyed by session participants"},
	{"(*mpc/bls.TBLS).assembleThresholdPublicKey$1", "\"programming error", "unreachable: n keys present (C05.O1/N1) and each was parsed successfully before being stored (decided by C10.R2)"},
	{"(*mpc/bls.TBLS).validateCommitments", "\"programming error", "unreachable: the commitment wait succeeded with n−1 commitments of the n−1 other participants (C05.O1/N1, C02.G3)"},
	{"mpc/bls.lagrangeCoefficient", "\"empty lagrange", "precondition t ≥ 2 (the property's quantifier)"},
	{"(*mpc/ps.TPS).flattenPublicKeys", "\"programming error", "unreachable: the reveal wait succeeded with n keys (C05.O1, C05.N1)"},
	{"(*mpc/ps.TPS).assembleThresholdPublicKey$1", "\"programming error", "unreachable: n keys present and each parsed before being stored (decided by C10.R2)"},
	{"(*mpc/ps.TPS).validateCommitments", "\"programming error", "unreachable: n−1 commitments of the other participants are held (C05.O1/N1)"},
	{"mpc/ps.lagrangeCoefficient", "\"empty lagrange", "precondition t ≥ 2 (the property's quantifier)"},
	{"mpc/ps.marshalShare", "(error)", "asn1.Marshal of a struct of byte slices cannot fail"},
	{"Bytes", "(error)", "asn1.Marshal of a struct of byte slices cannot fail"},
	{"mpc/ps.psuedoRandomG2", "(error)", "deterministic hash-to-curve of constants: fails on no input or on every input (then every test fails)"},
}

func auditPanics(c *Ctx, rule string, m *Module, pkg string, entries []*ssa.Function) {
	for _, r := range panicReasons {
		c.anchorReasonFn(r.fnSuffix)
	}
	m.resolveAllAnchors()
	seen := map[*ssa.Function]bool{}
	var walk func(fn *ssa.Function)
	var found []*ssa.Panic
	walk = func(fn *ssa.Function) {
		if fn == nil || seen[fn] || fn.Blocks == nil || pkgPathOf(fn) != pkg {
			return
		}
		seen[fn] = true
		c.Analysed(FuncName(fn))
		for _, in := range instrsOf(fn) {
			switch x := in.(type) {
			case *ssa.Panic:
				if x.Pos().IsValid() {
					found = append(found, x)
				}
			case *ssa.MakeClosure:
				walk(x.Fn.(*ssa.Function))
				if _, meth, ok := boundMethod(x); ok {
					walk(m.Prog.FuncValue(meth))
				}
			case ssa.CallInstruction:
				walk(staticCallee(x.Common()))
			}
		}
	}
	for _, e := range entries {
		walk(e)
	}
	for _, p := range found {
		fn := FuncName(p.Parent())
		txt := panicText(p)
		reason, _ := panicReasonFor(p.Parent(), txt, m.PkgFuncs(pkg), 0)
		c.Check(reason != "", rule, fn, "panic "+txt, m.Pos(p.Pos()), reason,
			"an explicit panic is reachable from KeyGen/Sign and has no recorded reason why it cannot be triggered by a timeout, a vanished peer or a failed local precondition")
	}
}

// isContextType: t is context.Context.
func isContextType(t types.Type) bool {
	n, ok := t.(*types.Named)
	return ok && n.Obj().Pkg() != nil && n.Obj().Pkg().Path() == "context" && n.Obj().Name() == "Context"
}

// pkgOfReasonFn: "mpc/bls" for "(*mpc/bls.TBLS).ensureInitOrPanic", "threshold" for "threshold.newRBCEncoding".
func pkgOfReasonFn(key string) string {
	k := strings.TrimLeft(key, "(*")
	if i := strings.Index(k, "."); i >= 0 {
		return k[:i]
	}
	return ""
}

// panicFnMatches: a reason names the top-level function a panic belongs to; the panic may sit in that
// function, in a function literal nested in it, or in a transparent helper inlined into it.  A panic
// that moved with its helper into a caller (the helper was inlined) is still the same panic: the text
// identifies it inside the package the reason names.
func panicFnMatches(fn *ssa.Function, suffix string) bool {
	if pk := pkgOfReasonFn(suffix); pk != "" {
		if rel := strings.TrimPrefix(pkgPathOf(fn), "github.com/IBM/TSS/"); rel == pk && reasonFnGone(suffix) {
			return true // the named function is gone (inlined): the text alone identifies the panic
		}
	}
	base := suffix
	if i := strings.Index(base, "$"); i >= 0 {
		base = base[:i]
	}
	for f, i := fn, 0; f != nil && i < 32; f, i = enclosingFn(f), i+1 {
		name := nameBack(FuncName(f))
		if strings.HasSuffix(name, suffix) || strings.HasSuffix(name, base) {
			return true
		}
	}
	return false
}

var reasonFnExists = map[string]bool{}
var loadedModules []*Module

// reasonFnGone: no function of the package a reason names carries the name any more (nor was it renamed).
func reasonFnGone(suffix string) bool {
	pk := pkgOfReasonFn(suffix)
	if pk == "" {
		return false
	}
	key := suffix
	if i := strings.Index(key, "$"); i >= 0 {
		key = key[:i]
	}
	if v, has := reasonFnExists[key]; has {
		return !v
	}
	reasonFnExists[key] = false
	for _, m := range loadedModules {
		for p := range m.All {
			if strings.TrimPrefix(p, "github.com/IBM/TSS/") != pk {
				continue
			}
			for _, f := range m.PkgFuncs(p) {
				if strings.HasSuffix(nameBack(FuncName(f)), key) {
					reasonFnExists[key] = true
				}
			}
		}
	}
	return !reasonFnExists[key]
}

// panicReasonFor: the recorded reason for a panic with this text in fn — by the function it belongs to
// (panicFnMatches) or, when it sits in an unexported helper shared by a few callers (a lookup-or-panic
// accessor), by a reason recorded with the same text for the code of EVERY caller.
func panicReasonFor(fn *ssa.Function, txt string, fns []*ssa.Function, depth int) (string, bool) {
	for _, r := range panicReasons {
		if panicFnMatches(fn, r.fnSuffix) && strings.HasPrefix(txt, r.text) {
			return r.reason, true
		}
	}
	if depth > 2 {
		return "", false
	}
	last := fn
	for f, i := fn, 0; f != nil && i < 32; f, i = enclosingFn(f), i+1 {
		last = f
	}
	if last.Object() == nil || last.Object().Exported() {
		return "", false
	}
	cs := staticCallsTo(fns, last)
	if len(cs) < 2 || len(cs) > 4 {
		return "", false
	}
	reason := ""
	for _, c := range cs {
		r, ok := panicReasonFor(c.Parent(), txt, fns, depth+1)
		if !ok {
			return "", false
		}
		if reason == "" {
			reason = r
		}
	}
	return reason + " (recorded for each of the helper's callers)", true
}
