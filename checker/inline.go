package main

// Transparent helpers.
//
// Rules are written against the functions where a mechanism lives today.  Ordinary maintenance
// moves code between a function and a helper (extract function / inline function) without changing
// behaviour.  To keep the rules' verdicts independent of that decomposition, an unexported own
// function with exactly ONE static call site (a plain call), that is never used as a value and cannot
// be the target of an interface call, is treated as if it were written inline at its call site:
//
//   - strip() looks through its parameters to the arguments of that call,
//   - GuardsOf()/FactsAt() of an instruction inside it include the guards of the call site,
//   - instrDominates() relates instructions across the call,
//   - instrsDeep() lists a function's instructions together with those of its transparent helpers,
//   - the all-exits searches treat a call to such a helper as meeting an obligation when every path
//     through the helper meets it,
//   - a branch on the boolean / error result of such a helper inherits the facts common to the
//     helper's returns that produce this outcome.
//
// Functions with several call sites are NOT transparent (their parameters are ambiguous); rules that
// need them use calling contexts (sitectx.go).

import (
	"go/constant"
	"go/token"
	"go/types"
	"strings"

	"golang.org/x/tools/go/ssa"
)

var (
	helperSite  = map[*ssa.Function]*ssa.Call{}
	helpersDone = map[*ssa.Program]bool{}
	// methodLiteral: a method value x.M whose method M has no other use stands for a function literal
	// `func(args) { x.M(args) }` written at that place: go/ssa's bound-method wrapper W (a closure over
	// x that calls M) is analysed like a literal created at this MakeClosure, and M is a transparent
	// helper of W (so a field x.f read in M is a read through the captured x, as a captured variable
	// would be read in a literal).
	methodLiteral = map[*ssa.Function]*ssa.MakeClosure{}
	extraFuncs    = map[string][]*ssa.Function{} // package path → bound wrappers analysed as literals
	// spawnSite: an unexported function or method whose only use is one `go f(…)` or `defer f(…)`
	// statement — the body of a goroutine or of a deferred action written as a named function: lexically
	// it belongs to the function that starts it (like a `go func() {…}()` literal)
	spawnSite = map[*ssa.Function]ssa.CallInstruction{}
	// fieldStoreCount: number of stores to a struct field in all own functions (session-object fields are
	// those set once, by the composite literal that builds the object)
	fieldStoreCount = map[*types.Var]int{}
	// fieldStoredLater: the field is also written through a pointer / parameter / field path, i.e. not
	// only when a local composite is built
	fieldStoredLater = map[*types.Var]bool{}
)

// sessionFieldLoad: ld reads field f of a session object — an unexported struct built by a composite
// literal that this function (through transparent helpers: parameters, receivers) can see, f set by that
// literal and by nothing else in the program.  Returns the value the literal gave to f: the field plays
// the part a captured variable plays for a literal.
func sessionFieldLoad(ld *ssa.UnOp) ssa.Value {
	if ld.Op != token.MUL || sessionLook > 3 {
		return nil
	}
	fa, ok := ld.X.(*ssa.FieldAddr)
	if !ok {
		return nil
	}
	f := fieldOfAddr(fa)
	if f.Exported() || f.Pkg() == nil || !ownPkgPath(f.Pkg().Path()) || fieldStoreCount[f] != 1 {
		return nil
	}
	sessionLook++
	base := strip(fa.X)
	sessionLook--
	alloc, ok := base.(*ssa.Alloc)
	if !ok || alloc.Parent() == ld.Parent() {
		return nil // in the building function itself the object is an ordinary local
	}
	pt, isP := alloc.Type().Underlying().(*types.Pointer)
	if !isP || namedOf(pt.Elem()) == nil || namedOf(pt.Elem()).Obj().Exported() {
		return nil
	}
	val, ok := structLitFieldValue(alloc, f)
	if !ok {
		return nil
	}
	return val
}

var sessionLook int

// enclosingFn: the function whose body f is (analysed as) part of: the function a literal is written
// in, the only caller of a transparent helper, the function that takes a method value standing for a
// literal.
func enclosingFn(f *ssa.Function) *ssa.Function {
	if f == nil {
		return nil
	}
	if p := f.Parent(); p != nil {
		return p
	}
	if c := helperCall(f); c != nil {
		return c.Parent()
	}
	if mc := methodLiteral[f]; mc != nil {
		return mc.Parent()
	}
	if ci := spawnSite[f]; ci != nil {
		return ci.Parent()
	}
	return nil
}

// litBody: the function whose body a literal runs — the literal itself, or for a method value standing
// for a literal the method it calls.
func litBody(fn *ssa.Function) *ssa.Function {
	if methodLiteral[fn] == nil {
		// any other bound-method wrapper (a method value taken at several places: `link.forward` for
		// key generation and for signing): its body is the one call of the method
		if fn != nil && strings.HasSuffix(fn.Name(), "$bound") && fn.Synthetic != "" && len(fn.Blocks) == 1 {
			var only *ssa.Function
			n := 0
			for _, in := range fn.Blocks[0].Instrs {
				if c, ok := in.(*ssa.Call); ok {
					n++
					only = c.Call.StaticCallee()
				}
			}
			if n == 1 && only != nil && only.Blocks != nil {
				return only
			}
		}
		return fn
	}
	for _, in := range instrsOf(fn) {
		if c, ok := in.(*ssa.Call); ok {
			if g := c.Call.StaticCallee(); g != nil && helperSite[g] == c {
				return g
			}
		}
	}
	return fn
}

// litParent: the function a literal is written in (for a method value standing for a literal: the
// function that takes the method value).
func litParent(fn *ssa.Function) *ssa.Function {
	if fn == nil {
		return nil
	}
	if p := fn.Parent(); p != nil {
		return p
	}
	if mc := methodLiteral[fn]; mc != nil {
		return mc.Parent()
	}
	return nil
}

// registerHelpers computes the transparent helpers of a loaded module (idempotent).
func registerHelpers(m *Module) {
	if helpersDone[m.Prog] {
		return
	}
	helpersDone[m.Prog] = true
	var fns []*ssa.Function
	ifaceMethods := map[string]bool{}
	for path, p := range m.All {
		if !ownPkgPath(path) {
			continue
		}
		fns = append(fns, m.PkgFuncs(path)...)
		sc := p.Types.Scope()
		for _, n := range sc.Names() {
			if tn, ok := sc.Lookup(n).(*types.TypeName); ok {
				if it, ok := tn.Type().Underlying().(*types.Interface); ok {
					for i := 0; i < it.NumMethods(); i++ {
						ifaceMethods[it.Method(i).Name()] = true
					}
				}
			}
		}
	}
	calls := map[*ssa.Function][]ssa.CallInstruction{}
	valueUse := map[*ssa.Function]bool{}
	boundUses := map[*ssa.Function][]*ssa.MakeClosure{} // method → the method values taken of it
	for _, fn := range fns {
		for _, b := range fn.Blocks {
			for _, in := range b.Instrs {
				if st, ok := in.(*ssa.Store); ok {
					if fa, ok := st.Addr.(*ssa.FieldAddr); ok {
						fieldStoreCount[fieldOfAddr(fa)]++
						if _, isLocal := fa.X.(*ssa.Alloc); !isLocal {
							fieldStoredLater[fieldOfAddr(fa)] = true // not the initialisation of a local composite
						}
					}
				}
				var callee ssa.Value
				if ci, ok := in.(ssa.CallInstruction); ok {
					if f := ci.Common().StaticCallee(); f != nil {
						calls[f] = append(calls[f], ci)
						callee = ci.Common().Value
					}
				}
				if mc, ok := in.(*ssa.MakeClosure); ok {
					if _, meth, ok := boundMethod(mc); ok {
						if f := m.Prog.FuncValue(meth); f != nil {
							valueUse[f] = true
							boundUses[f] = append(boundUses[f], mc)
						}
					}
				}
				for _, op := range in.Operands(nil) {
					if op == nil || *op == nil {
						continue
					}
					if f, ok := (*op).(*ssa.Function); ok && ssa.Value(f) != callee {
						valueUse[f] = true
					} else if ok && ssa.Value(f) == callee {
						// the callee operand itself; but the same function may also be passed as an argument
						if ci, isCall := in.(ssa.CallInstruction); isCall {
							for _, a := range ci.Common().Args {
								if a == ssa.Value(f) {
									valueUse[f] = true
								}
							}
						}
					}
				}
			}
		}
	}
	for f, cs := range calls {
		staticCallersOf[f] = cs
	}
	for f := range valueUse {
		usedAsFuncValue[f] = true
	}
	// method values standing for literals: an unexported method of an own type that is never called and
	// of which exactly one method value is taken
	for meth, mcs := range boundUses {
		obj := meth.Object()
		if len(mcs) != 1 || obj == nil || obj.Exported() || meth.Blocks == nil || len(calls[meth]) != 0 || meth.Signature.Recv() == nil || ifaceMethods[meth.Name()] {
			continue
		}
		// no other use of the method as a value (method expression T.M, interface satisfaction through
		// an exported name is excluded above)
		other := false
		for _, fn := range fns {
			for _, b := range fn.Blocks {
				for _, in := range b.Instrs {
					for _, op := range in.Operands(nil) {
						if op != nil && *op == ssa.Value(meth) {
							other = true
						}
					}
				}
			}
		}
		if other {
			continue
		}
		w, _ := mcs[0].Fn.(*ssa.Function)
		if w == nil || w.Blocks == nil {
			continue
		}
		var inner *ssa.Call
		n := 0
		for _, in := range instrsOf(w) {
			if c, ok := in.(*ssa.Call); ok && c.Call.StaticCallee() == meth {
				inner = c
				n++
			}
		}
		if n != 1 {
			continue
		}
		methodLiteral[w] = mcs[0]
		helperSite[meth] = inner
		delete(valueUse, meth)
		pp := pkgPathOf(meth)
		extraFuncs[pp] = append(extraFuncs[pp], w)
	}
	for _, fn := range fns {
		obj := fn.Object()
		isInstance := fn.Origin() != nil && fn.Origin() != fn
		if obj == nil && isInstance {
			obj = fn.Origin().Object() // an instantiation carries no object of its own
		}
		if obj == nil || fn.Parent() != nil || (fn.Synthetic != "" && !isInstance) || obj.Exported() || fn.Name() == "init" || fn.Name() == "main" {
			continue
		}
		if !valueUse[fn] && len(calls[fn]) == 1 && !(fn.Signature.Recv() != nil && ifaceMethods[fn.Name()]) {
			switch calls[fn][0].(type) {
			case *ssa.Go, *ssa.Defer:
				if calls[fn][0].Parent() != fn {
					spawnSite[fn] = calls[fn][0]
				}
			}
		}
		if helperSite[fn] != nil {
			continue // a method standing behind a method value (above)
		}
		if valueUse[fn] || len(calls[fn]) != 1 {
			continue
		}
		if fn.Signature.Recv() != nil && ifaceMethods[fn.Name()] {
			continue
		}
		c, ok := calls[fn][0].(*ssa.Call)
		if !ok || c.Parent() == fn {
			continue
		}
		helperSite[fn] = c
	}
	// break cycles (mutual recursion through single call sites)
	for fn := range helperSite {
		seen := map[*ssa.Function]bool{fn: true}
		for g := helperSite[fn].Parent(); g != nil; {
			if seen[g] {
				delete(helperSite, fn)
				break
			}
			seen[g] = true
			c := helperSite[g]
			if c == nil {
				break
			}
			g = c.Parent()
		}
	}
}

// helperCall: the unique call site of a transparent helper, or nil.
func helperCall(fn *ssa.Function) *ssa.Call {
	if fn == nil {
		return nil
	}
	return helperSite[fn]
}

// isHelperCall: in is the call that a transparent helper is inlined at; returns the helper.
func isHelperCall(in ssa.Instruction) *ssa.Function {
	c, ok := in.(*ssa.Call)
	if !ok {
		return nil
	}
	g := c.Call.StaticCallee()
	if g != nil && helperSite[g] == c {
		return g
	}
	return nil
}

// instrsDeep lists the instructions of fn and, spliced in after their call, those of its
// transparent helpers (without the helpers' Return instructions, which are not exits of fn).
func instrsDeep(fn *ssa.Function) []ssa.Instruction {
	var out []ssa.Instruction
	var rec func(f *ssa.Function, depth int)
	rec = func(f *ssa.Function, depth int) {
		for _, b := range f.Blocks {
			if b == f.Recover {
				continue
			}
			for _, in := range b.Instrs {
				if depth > 0 {
					if _, isRet := in.(*ssa.Return); isRet {
						continue
					}
				}
				out = append(out, in)
				if g := isHelperCall(in); g != nil && depth < 5 {
					rec(g, depth+1)
				}
			}
		}
	}
	rec(fn, 0)
	return out
}

// deepFuncs: fn and its transparent helpers (transitively).
func deepFuncs(fn *ssa.Function) []*ssa.Function {
	out := []*ssa.Function{fn}
	for i := 0; i < len(out) && i < 64; i++ {
		for _, in := range instrsOf(out[i]) {
			if g := isHelperCall(in); g != nil {
				out = append(out, g)
			}
		}
	}
	return out
}

// rootOfHelper: the outermost function a (possibly nested) transparent helper is inlined into.
func rootOfHelper(fn *ssa.Function) *ssa.Function {
	for i := 0; i < 8; i++ {
		c := helperCall(fn)
		if c == nil {
			return fn
		}
		fn = c.Parent()
	}
	return fn
}

// inDeep: instruction in belongs to fn or to one of its transparent helpers.
func inDeep(in ssa.Instruction, fn *ssa.Function) bool {
	return in.Parent() == fn || rootOfHelper(in.Parent()) == fn || liftTo(in, fn) != nil
}

// liftTo: the instruction of fn that in is (transitively) executed by: in itself when in.Parent()==fn,
// otherwise the call in fn through which the helper containing in is entered.  nil if unrelated.
func liftTo(in ssa.Instruction, fn *ssa.Function) ssa.Instruction {
	for i := 0; i < 8; i++ {
		if in.Parent() == fn {
			return in
		}
		c := helperCall(in.Parent())
		if c == nil {
			return nil
		}
		in = c
	}
	return nil
}

// mustExecute: in is executed on every path through its function that reaches a Return
// (its block dominates every returning block).
func mustExecute(in ssa.Instruction) bool {
	fn := in.Parent()
	for _, b := range fn.Blocks {
		if b == fn.Recover || len(b.Instrs) == 0 {
			continue
		}
		if _, ok := b.Instrs[len(b.Instrs)-1].(*ssa.Return); !ok {
			continue
		}
		if b == in.Block() {
			continue
		}
		if !in.Block().Dominates(b) {
			return false
		}
	}
	return true
}

// instrDominatesDeep: a is executed before b on every path reaching b, across transparent helpers.
func instrDominatesDeep(a, b ssa.Instruction) bool {
	if a.Parent() == b.Parent() {
		return localDominates(a, b)
	}
	// b inside a helper (transitively) of a's function: a must dominate the call
	if lb := liftTo(b, a.Parent()); lb != nil {
		return lb != a && localDominates(a, lb)
	}
	// a inside a helper of b's function (or of a common ancestor): a must be unavoidable in its helper
	// at every level up to the common function, and the call must dominate (the lift of) b
	cur := a
	for i := 0; i < 8; i++ {
		c := helperCall(cur.Parent())
		if c == nil {
			return false
		}
		inner := cur
		cur = c
		if lb := liftTo(b, cur.Parent()); lb != nil {
			if lb == cur {
				return false // both inside the same call but in different helpers below it: handled by the first two cases at a deeper level
			}
			// only the helper's returns from which lb can be reached count: when lb is behind `err == nil`
			// of this call, the returns with a non-nil error do not
			return mustExecuteBefore(inner, c, lb) && localDominates(cur, lb)
		}
		if !mustExecute(inner) {
			return false
		}
	}
	return false
}

func localDominates(a, b ssa.Instruction) bool {
	if a.Block() == b.Block() {
		return instrIndex(a) < instrIndex(b)
	}
	return a.Block().Dominates(b.Block())
}

// helperOutcomeFacts: for a fact about the result of a call to a transparent helper — a boolean result
// being true/false, or an error result being nil/non-nil — the facts that hold at EVERY return of the
// helper producing that outcome (in the helper's frame; parameters resolve through strip).
func helperOutcomeFacts(f Fact, depth int) []Fact {
	if depth > 3 {
		return nil
	}
	var call *ssa.Call
	idx := 0
	var want func(v ssa.Value, r *ssa.Return) (matches bool, decidable bool)
	switch {
	case f.Op == 0:
		v := f.Bool
		if e, ok := v.(*ssa.Extract); ok {
			v, idx = e.Tuple, e.Index
		}
		c, ok := v.(*ssa.Call)
		if !ok {
			return nil
		}
		call = c
		want = func(v ssa.Value, _ *ssa.Return) (bool, bool) {
			k, ok := v.(*ssa.Const)
			if !ok || k.Value == nil {
				return false, false
			}
			return (k.Value.String() == "true") == f.True, true
		}
	case (f.Op == token.EQL || f.Op == token.NEQ) && isNilConst(f.Y):
		v := stripNoParam(f.X)
		if e, ok := v.(*ssa.Extract); ok {
			v, idx = e.Tuple, e.Index
		}
		c, ok := v.(*ssa.Call)
		if !ok {
			return nil
		}
		call = c
		wantNil := f.Op == token.EQL
		isErrResult := func(v ssa.Value) bool {
			return types.Identical(v.Type(), types.Universe.Lookup("error").Type())
		}
		want = func(v ssa.Value, r *ssa.Return) (bool, bool) {
			if isNilConst(v) {
				return wantNil, true
			}
			if !isErrResult(v) {
				// a pointer / map / func result that is not the constant nil: it MAY be non-nil, and it
				// MAY be nil — the return belongs to either outcome (the facts kept are those common to
				// every return that can produce the outcome, so counting it in is the sound side)
				if _, isAlloc := stripNoParam(v).(*ssa.Alloc); isAlloc {
					return !wantNil, true // the address of a fresh object: never nil
				}
				return true, true
			}
			// an error variable that was found non-nil on the way to this return
			for _, g := range GuardsLocal(r) {
				gf := factOf(g)
				if gf.Op == token.NEQ && isNilConst(gf.Y) && stripNoParam(gf.X) == stripNoParam(v) {
					return !wantNil, true
				}
			}
			// a non-constant error value: assume non-nil only when it is a freshly built error
			if cl, ok := v.(*ssa.Call); ok {
				if o := calleeObj(&cl.Call); o != nil && o.Pkg() != nil && (o.Pkg().Path() == "fmt" && o.Name() == "Errorf" || o.Pkg().Path() == "errors" && o.Name() == "New") {
					return !wantNil, true
				}
			}
			if mi, ok := v.(*ssa.MakeInterface); ok {
				if cl, ok := mi.X.(*ssa.Call); ok {
					if o := calleeObj(&cl.Call); o != nil && o.Pkg() != nil && o.Pkg().Path() == "errors" {
						return !wantNil, true
					}
				}
			}
			return false, false
		}
	case (f.Op == token.EQL || f.Op == token.NEQ) && (isValueConst(f.Y) || isValueConst(f.X)):
		// `status := classify(x); if status == statusConflict { … }`: the helper reports one of several
		// constants (an enumeration): what holds at every return that reports this one
		kv, cv := f.Y, f.X
		if !isValueConst(kv) {
			kv, cv = f.X, f.Y
		}
		k := kv.(*ssa.Const)
		v := stripNoParam(cv)
		if e, ok := v.(*ssa.Extract); ok {
			v, idx = e.Tuple, e.Index
		}
		c, ok := v.(*ssa.Call)
		if !ok {
			return nil
		}
		call = c
		wantEq := f.Op == token.EQL
		want = func(v ssa.Value, _ *ssa.Return) (bool, bool) {
			rk, ok := v.(*ssa.Const)
			if !ok || rk.Value == nil {
				return false, false
			}
			return constant.Compare(rk.Value, token.EQL, k.Value) == wantEq, true
		}
	default:
		return nil
	}
	g := call.Call.StaticCallee()
	if f.Op == 0 && f.True && idx == 0 && g != nil {
		if fs := allOfFacts(g, call); fs != nil {
			return fs
		}
	}
	var translate func([]Fact) []Fact
	if g == nil || helperSite[g] != call {
		if g != nil && pureOfParams(g) {
			// a predicate over its parameters alone, shared by several callers (`t.valid()`): the facts
			// of its returns, with this call's arguments in place of the parameters
			translate = func(fs []Fact) []Fact { return factsForCall(fs, g, call) }
		} else {
			g = boundLiteral(call)
			if g == nil {
				return nil
			}
		}
	}
	if translate == nil {
		translate = func(fs []Fact) []Fact { return fs }
	}
	// a predicate with a single return of a computed boolean: the outcome is that expression's value
	if f.Op == 0 {
		var rets []*ssa.Return
		for _, in := range instrsOf(g) {
			if r, ok := in.(*ssa.Return); ok && idx < len(r.Results) {
				rets = append(rets, r)
			}
		}
		if len(rets) == 1 {
			rv := retResult(rets[0], idx)
			if phi, isPhi := rv.(*ssa.Phi); isPhi && phi.Block() == rets[0].Block() {
				// `return a && b` / `return a || b`: per incoming edge, what holds at the end of the
				// predecessor and the value carried; the facts common to the edges giving this outcome
				var common []Fact
				first := true
				for i, e := range phi.Edges {
					pred := phi.Block().Preds[i]
					var fs []Fact
					if k, isK := e.(*ssa.Const); isK {
						if k.Value == nil || (k.Value.String() == "true") != f.True {
							continue
						}
					} else {
						fs = append(fs, factOf2(e, f.True, f.If))
						fs = append(fs, helperOutcomeFacts(fs[0], depth+1)...)
					}
					fs = append(fs, factsAtDepth(pred.Instrs[len(pred.Instrs)-1], depth+1)...)
					fs = withMirrored(fs)
					if first {
						common, first = fs, false
						continue
					}
					var keep []Fact
					for _, x := range common {
						for _, y := range fs {
							if x.Op == y.Op && x.True == y.True && x.Bool == y.Bool && x.X == y.X && x.Y == y.Y {
								keep = append(keep, x)
								break
							}
						}
					}
					common = keep
				}
				return translate(append(common, factsAtDepth(rets[0], depth+1)...))
			}
			if _, isK := rv.(*ssa.Const); !isK {
				out := []Fact{factOf2(rv, f.True, f.If)}
				// … itself the outcome of a further predicate (a method value's wrapper calling the method)
				out = append(out, helperOutcomeFacts(out[0], depth+1)...)
				out = append(out, factsAtDepth(rets[0], depth+1)...)
				return translate(out)
			}
		}
	}
	var common []Fact
	first := true
	for _, in := range instrsOf(g) {
		r, ok := in.(*ssa.Return)
		if !ok || idx >= len(r.Results) {
			continue
		}
		m, dec := want(retResult(r, idx), r)
		if !dec {
			return nil
		}
		if !m {
			continue
		}
		fs := factsAtDepth(r, depth+1)
		if first {
			common, first = fs, false
			continue
		}
		var keep []Fact
		for _, x := range common {
			for _, y := range fs {
				if x.Op == y.Op && x.True == y.True && x.Bool == y.Bool && x.X == y.X && x.Y == y.Y {
					keep = append(keep, x)
					break
				}
			}
		}
		common = keep
	}
	return translate(common)
}

// pureOfParams: a small function of its parameters and constants alone — no loads, calls, or captured
// state — so that what holds at its returns can be restated at any call in terms of the arguments.
func pureOfParams(g *ssa.Function) bool {
	if g == nil || len(g.Blocks) == 0 || len(g.FreeVars) > 0 || len(g.Blocks) > 12 {
		return false
	}
	for _, b := range g.Blocks {
		for _, in := range b.Instrs {
			switch x := in.(type) {
			case *ssa.BinOp, *ssa.If, *ssa.Jump, *ssa.Return, *ssa.Phi, *ssa.Convert, *ssa.ChangeType, *ssa.DebugRef:
			case *ssa.UnOp:
				if x.Op == token.MUL || x.Op == token.ARROW {
					return false
				}
			case *ssa.Call:
				// len/cap of a parameter
				bi, ok := x.Call.Value.(*ssa.Builtin)
				if !ok || (bi.Name() != "len" && bi.Name() != "cap") {
					return false
				}
			default:
				return false
			}
		}
	}
	return true
}

// factsForCall restates facts of g's frame at a call of g: operands that are parameters (possibly
// converted) become the call's arguments, constants stay, anything else drops the fact.
func factsForCall(fs []Fact, g *ssa.Function, call *ssa.Call) []Fact {
	var tr func(v ssa.Value, d int) ssa.Value
	tr = func(v ssa.Value, d int) ssa.Value {
		if v == nil || d > 4 {
			return nil
		}
		switch x := v.(type) {
		case *ssa.Const:
			return x
		case *ssa.Parameter:
			if x.Parent() != g {
				return nil
			}
			if i := paramIndex(x); i >= 0 && i < len(call.Call.Args) {
				return call.Call.Args[i]
			}
			return nil
		case *ssa.ChangeType:
			return tr(x.X, d+1)
		case *ssa.Convert:
			// only representation-preserving conversions (same size and signedness)
			if bt, ok := x.Type().Underlying().(*types.Basic); ok {
				if bf, ok := x.X.Type().Underlying().(*types.Basic); ok && bt.Kind() == bf.Kind() {
					return tr(x.X, d+1)
				}
			}
			return nil
		}
		return nil
	}
	var out []Fact
	for _, f := range fs {
		if f.Op == 0 {
			if b := tr(f.Bool, 0); b != nil {
				f.Bool = b
				out = append(out, f)
			}
			continue
		}
		x, y := tr(f.X, 0), tr(f.Y, 0)
		if x == nil || y == nil {
			continue
		}
		f.X, f.Y = x, y
		out = append(out, f)
	}
	return out
}

// stripNoParam is strip without the parameter look-through (used where the call itself is wanted).
func stripNoParam(v ssa.Value) ssa.Value {
	noParamLook++
	defer func() { noParamLook-- }()
	return strip(v)
}

var noParamLook int

// resultOf looks through a call to a transparent helper to the value it returns: the helper's single
// return or, when the last result is an error, its single successful return.  (Not part of strip():
// rules also identify calls by their callee.)
func resultOf(v ssa.Value) ssa.Value {
	for i := 0; i < 6; i++ {
		v = strip(v)
		idx := 0
		var call *ssa.Call
		switch x := v.(type) {
		case *ssa.Call:
			call = x
		case *ssa.Extract:
			if c, ok := x.Tuple.(*ssa.Call); ok {
				call, idx = c, x.Index
			}
		case *ssa.UnOp:
			// a local captured by a closure lives in a cell: the value it is assigned once
			if x.Op == token.MUL {
				if cell := cellOf(x.X); cell != nil {
					if sts := storesToCell(cell); len(sts) == 1 {
						v = sts[0].Val
						continue
					}
				}
			}
		}
		if call == nil {
			return v
		}
		g := call.Call.StaticCallee()
		if g == nil || helperSite[g] != call {
			return v
		}
		res := g.Signature.Results()
		errLast := res.Len() > 0 && types.Identical(res.At(res.Len()-1).Type(), types.Universe.Lookup("error").Type())
		okLast := false
		if res.Len() > 1 {
			if b, isB := res.At(res.Len() - 1).Type().Underlying().(*types.Basic); isB && b.Kind() == types.Bool {
				okLast = true
			}
		}
		var cand []*ssa.Return
		for _, in := range instrsOf(g) {
			r, ok := in.(*ssa.Return)
			if !ok || idx >= len(r.Results) {
				continue
			}
			if errLast && idx != res.Len()-1 && !isNilConst(retResult(r, res.Len()-1)) {
				continue // an error return: the other results are not used by a correct caller
			}
			if okLast && idx != res.Len()-1 {
				if k, isK := retResult(r, res.Len()-1).(*ssa.Const); isK && k.Value != nil && k.Value.Kind() == constant.Bool && !constant.BoolVal(k.Value) {
					continue // the comma-ok idiom: `return zero, false`
				}
			}
			cand = append(cand, r)
		}
		if len(cand) != 1 {
			return v
		}
		v = retResult(cand[0], idx)
	}
	return v
}

// forwardsTo: g is a thin wrapper around pkg.name — it contains exactly one call to it, executed on
// every path — and reports, per argument of that call, which parameter of g is passed (-1: none).
func forwardsTo(g *ssa.Function, pkg, name string) ([]int, bool) {
	if g == nil || g.Blocks == nil {
		return nil, false
	}
	var the *ssa.Call
	for _, in := range instrsOf(g) {
		if c, ok := in.(*ssa.Call); ok && isCallTo(&c.Call, pkg, name) {
			if the != nil {
				return nil, false
			}
			the = c
		}
	}
	if the == nil || !calleeMustPass(g, func(in ssa.Instruction) bool { return in == ssa.Instruction(the) }, 3) {
		return nil, false
	}
	out := make([]int, len(the.Call.Args))
	for i, a := range the.Call.Args {
		out[i] = -1
		noParamLook++
		sa := strip(a)
		noParamLook--
		if p, ok := sa.(*ssa.Parameter); ok && p.Parent() == g {
			out[i] = paramIndex(p)
		}
	}
	return out, true
}

// closureBind: active bindings of func-typed parameters to the function literal a call site passes
// (a generic helper analysed once per call site).  helperOutcomeFacts resolves calls of a bound
// parameter to the literal.
var closureBind = map[*ssa.Parameter]*ssa.MakeClosure{}

func withClosureBinding(b map[*ssa.Parameter]*ssa.MakeClosure, f func()) {
	for p, mc := range b {
		closureBind[p] = mc
	}
	defer func() {
		for p := range b {
			delete(closureBind, p)
		}
	}()
	f()
}

// boundLiteral: the function literal a call through a bound func-typed parameter invokes, or nil.
func boundLiteral(call *ssa.Call) *ssa.Function {
	if call.Call.IsInvoke() {
		return nil
	}
	noParamLook++
	v := strip(call.Call.Value)
	noParamLook--
	if p, ok := v.(*ssa.Parameter); ok {
		if mc := closureBind[p]; mc != nil {
			return mc.Fn.(*ssa.Function)
		}
	}
	return nil
}

// mustExecuteBefore: in is executed on every path through its function (the helper called at `call`) that
// returns in a way compatible with what is known where `user` executes: when user is dominated by the
// call's error result being nil, only the helper's returns with a nil error are considered.
func mustExecuteBefore(in ssa.Instruction, call *ssa.Call, user ssa.Instruction) bool {
	fn := in.Parent()
	res := fn.Signature.Results()
	errIdx := -1
	if res.Len() > 0 && types.Identical(res.At(res.Len()-1).Type(), types.Universe.Lookup("error").Type()) {
		errIdx = res.Len() - 1
	}
	onlySuccess := false
	if errIdx >= 0 {
		for _, g := range GuardsLocal(user) {
			f := factOf(g)
			if f.Op != token.EQL || !isNilConst(f.Y) {
				continue
			}
			v := stripNoParam(f.X)
			if e, ok := v.(*ssa.Extract); ok && e.Tuple == ssa.Value(call) && e.Index == errIdx {
				onlySuccess = true
			}
			if v == ssa.Value(call) && res.Len() == 1 {
				onlySuccess = true
			}
		}
	}
	for _, b := range fn.Blocks {
		if b == fn.Recover || len(b.Instrs) == 0 {
			continue
		}
		r, ok := b.Instrs[len(b.Instrs)-1].(*ssa.Return)
		if !ok {
			continue
		}
		if onlySuccess && !isNilConst(retResult(r, errIdx)) {
			continue
		}
		if b == in.Block() {
			continue
		}
		if !in.Block().Dominates(b) {
			return false
		}
	}
	return true
}

// returnsDeep: the return statements that end fn, where a `return g(…)` that forwards all results of
// a transparent helper g unchanged is replaced by g's own returns (recursively).
func returnsDeep(fn *ssa.Function) []*ssa.Return {
	return returnsDeepN(fn, 0)
}

func returnsDeepN(fn *ssa.Function, depth int) []*ssa.Return {
	var out []*ssa.Return
	for _, in := range instrsOf(fn) {
		r, ok := in.(*ssa.Return)
		if !ok {
			continue
		}
		if g := forwardedHelper(r); g != nil && depth < 4 {
			out = append(out, returnsDeepN(g, depth+1)...)
			continue
		}
		out = append(out, r)
	}
	return out
}

// forwardedHelper: r returns exactly the results of one call to a transparent helper, in order.
func forwardedHelper(r *ssa.Return) *ssa.Function {
	if len(r.Results) == 0 {
		return nil
	}
	var call *ssa.Call
	for i, v := range retResults(r) {
		var c *ssa.Call
		switch x := v.(type) {
		case *ssa.Call:
			if len(r.Results) == 1 {
				c = x
			}
		case *ssa.Extract:
			if cc, ok := x.Tuple.(*ssa.Call); ok && x.Index == i {
				c = cc
			}
		}
		if c == nil || (call != nil && c != call) {
			return nil
		}
		call = c
	}
	g := isHelperCall(call)
	if g == nil || g.Signature.Results().Len() != len(r.Results) {
		return nil
	}
	return g
}

// closureFactory: g is an own function whose only return is a function literal (a closure factory:
// `func threadSafe(create F) F { return func(…) … { … create(…) … } }`).  Returns the literal.
func closureFactory(g *ssa.Function) *ssa.MakeClosure {
	if g == nil || g.Blocks == nil || !ownPkgPath(pkgPathOf(g)) {
		return nil
	}
	var ret *ssa.Return
	for _, in := range instrsOf(g) {
		if r, ok := in.(*ssa.Return); ok {
			if ret != nil {
				return nil
			}
			ret = r
		}
	}
	if ret == nil || len(ret.Results) != 1 {
		return nil
	}
	noParamLook++
	mc, _ := strip(retResult(ret, 0)).(*ssa.MakeClosure)
	noParamLook--
	return mc
}

// closureLiteral: the function literal that v denotes — a MakeClosure, or the literal returned by the
// closure factory that v is a call of (then the call is returned too: the literal's captured factory
// parameters stand for the arguments of that call).
func closureLiteral(v ssa.Value) (*ssa.MakeClosure, *ssa.Call) {
	v = strip(v)
	if mc, ok := v.(*ssa.MakeClosure); ok {
		return mc, nil
	}
	if c, ok := v.(*ssa.Call); ok {
		if g := c.Call.StaticCallee(); g != nil && len(g.Params) == len(c.Call.Args) {
			if mc := closureFactory(g); mc != nil {
				return mc, c
			}
		}
	}
	return nil, nil
}

// factoryArg: v, a value inside a literal made by a closure factory called at fc, is (a capture of) a
// parameter of that factory: the argument fc passes for it.  Otherwise nil.
func factoryArg(v ssa.Value, fc *ssa.Call) ssa.Value {
	if fc == nil {
		return nil
	}
	g := fc.Call.StaticCallee()
	noParamLook++
	v = strip(v)
	noParamLook--
	for i := 0; i < 4; i++ {
		switch x := v.(type) {
		case *ssa.Parameter:
			if x.Parent() != g {
				return nil
			}
			idx := paramIndex(x)
			if idx < 0 || idx >= len(fc.Call.Args) {
				return nil
			}
			return fc.Call.Args[idx]
		case *ssa.FreeVar:
			fn := x.Parent()
			idx := -1
			for k, fv := range fn.FreeVars {
				if fv == x {
					idx = k
				}
			}
			var mcs []*ssa.MakeClosure
			if fn.Parent() != nil {
				for _, in := range instrsOf(fn.Parent()) {
					if mc, ok := in.(*ssa.MakeClosure); ok && mc.Fn == ssa.Value(fn) {
						mcs = append(mcs, mc)
					}
				}
			}
			if len(mcs) != 1 || idx < 0 || idx >= len(mcs[0].Bindings) {
				return nil
			}
			noParamLook++
			v = strip(mcs[0].Bindings[idx])
			noParamLook--
		case *ssa.UnOp:
			// a captured variable lives in a cell: the parameter spilled into it
			if x.Op != token.MUL {
				return nil
			}
			if fv, ok := x.X.(*ssa.FreeVar); ok {
				v = fv
				continue
			}
			cell := cellOf(x.X)
			if cell == nil {
				return nil
			}
			sts := storesToCell(cell)
			if len(sts) != 1 {
				return nil
			}
			noParamLook++
			v = strip(sts[0].Val)
			noParamLook--
		case *ssa.Alloc:
			sts := storesToCell(x)
			if len(sts) != 1 {
				return nil
			}
			noParamLook++
			v = strip(sts[0].Val)
			noParamLook--
		default:
			return nil
		}
	}
	return nil
}

// inlinedInto: fn is target or a transparent helper (at any depth) of target.
func inlinedInto(fn, target *ssa.Function) bool {
	for i := 0; fn != nil && i < 16; i++ {
		if fn == target {
			return true
		}
		c := helperCall(fn)
		if c == nil {
			return false
		}
		fn = c.Parent()
	}
	return false
}

// isValueConst: a constant with a value (a number, string or boolean; not nil).
func isValueConst(v ssa.Value) bool {
	k, ok := v.(*ssa.Const)
	if !ok || k.Value == nil {
		return false
	}
	switch k.Value.Kind() {
	case constant.Int, constant.String, constant.Bool:
		return true
	}
	return false
}

// staticCallersOf / usedAsFuncValue: every static call of an own function, and whether it is also used as
// a value (filled by registerHelpers for all own packages of the program).
var (
	staticCallersOf = map[*ssa.Function][]ssa.CallInstruction{}
	usedAsFuncValue = map[*ssa.Function]bool{}
)

// mapParamOfField: v is a map-typed parameter of an unexported helper (possibly an instantiation of a
// generic one) and EVERY call of that helper passes the map held in field f for it: inside the helper the
// parameter is that table (`putHandlerLocked(s.rbcInProgress, topic, h)`).
func mapParamOfField(v ssa.Value, f *types.Var, depth int) bool {
	if depth > 2 {
		return false
	}
	p, ok := stripNoParam(v).(*ssa.Parameter)
	if !ok {
		return false
	}
	if _, isMap := p.Type().Underlying().(*types.Map); !isMap {
		return false
	}
	g := p.Parent()
	if g == nil || g.Object() == nil || g.Object().Exported() || usedAsFuncValue[g] {
		return false
	}
	cs := staticCallersOf[g]
	idx := paramIndex(p)
	if len(cs) == 0 || idx < 0 {
		return false
	}
	for _, c := range cs {
		args := c.Common().Args
		if idx >= len(args) {
			return false
		}
		if _, fld, isF := fieldLoad(stripNoParam(args[idx])); isF && fld == f {
			continue
		}
		if mapParamOfField(args[idx], f, depth+1) {
			continue
		}
		return false
	}
	return true
}

// jointEnumFacts: several tests of ONE call of a helper that reports an enumeration constant
// (`switch r.screen(x) { case verdictA: return; case verdictB: return }` leaves "≠ A and ≠ B" on the
// continuing path): the facts common to the returns compatible with ALL of them — more than what each
// test yields on its own.
func jointEnumFacts(base []Fact, depth int) []Fact {
	if depth > 3 {
		return nil
	}
	type test struct {
		k  *ssa.Const
		eq bool
	}
	byCall := map[*ssa.Call][]test{}
	var order []*ssa.Call
	for _, f := range base {
		if f.Op != token.EQL && f.Op != token.NEQ {
			continue
		}
		kv, cv := f.Y, f.X
		if !isValueConst(kv) {
			kv, cv = f.X, f.Y
		}
		if !isValueConst(kv) {
			continue
		}
		c, ok := stripNoParam(cv).(*ssa.Call)
		if !ok {
			continue
		}
		if _, seen := byCall[c]; !seen {
			order = append(order, c)
		}
		byCall[c] = append(byCall[c], test{kv.(*ssa.Const), f.Op == token.EQL})
	}
	var out []Fact
	for _, c := range order {
		ts := byCall[c]
		if len(ts) < 2 {
			continue
		}
		g := c.Call.StaticCallee()
		if g == nil || helperSite[g] != c || g.Signature.Results().Len() != 1 {
			continue
		}
		var common []Fact
		first, okAll := true, true
		for _, in := range instrsOf(g) {
			r, ok := in.(*ssa.Return)
			if !ok {
				continue
			}
			rk, isK := r.Results[0].(*ssa.Const)
			if !isK || rk.Value == nil {
				okAll = false
				break
			}
			compatible := true
			for _, t := range ts {
				if constant.Compare(rk.Value, token.EQL, t.k.Value) != t.eq {
					compatible = false
				}
			}
			if !compatible {
				continue
			}
			fs := factsAtDepth(r, depth+1)
			if first {
				common, first = fs, false
				continue
			}
			var keep []Fact
			for _, x := range common {
				for _, y := range fs {
					if x.Op == y.Op && x.True == y.True && x.Bool == y.Bool && x.X == y.X && x.Y == y.Y {
						keep = append(keep, x)
						break
					}
				}
			}
			common = keep
		}
		if okAll {
			out = append(out, common...)
		}
	}
	return out
}

// synthLen stands for len(arg) where the program has no such instruction at hand (the length of an
// argument packed into a variadic call, tested inside the callee's loop).  lenOperand reads it.
type synthLen struct{ arg ssa.Value }

func (s *synthLen) Name() string                  { return "len(" + s.arg.Name() + ")" }
func (s *synthLen) String() string                { return "len(" + s.arg.String() + ")" }
func (s *synthLen) Type() types.Type              { return types.Typ[types.Int] }
func (s *synthLen) Parent() *ssa.Function         { return s.arg.Parent() }
func (s *synthLen) Referrers() *[]ssa.Instruction { return nil }
func (s *synthLen) Pos() token.Pos                { return s.arg.Pos() }

// allOfFacts: the "every one of them" predicate over a variadic parameter,
//
//	func all(n int, vs ...[]T) bool { for _, v := range vs { if len(v) < n { return false } }; return true }
//
// When a call of it returns true, the negated test holds for each argument packed at that call — stated
// in the caller's frame.  The shape is checked exactly (a range loop over the variadic parameter whose
// body is one comparison that returns false, nothing else in the function), otherwise nil.
func allOfFacts(g *ssa.Function, call *ssa.Call) []Fact {
	if g == nil || !g.Signature.Variadic() || len(g.Blocks) != 5 || len(g.FreeVars) != 0 || len(call.Call.Args) != len(g.Params) || len(g.Params) == 0 {
		return nil
	}
	vs := g.Params[len(g.Params)-1]
	entry, H := g.Blocks[0], g.Blocks[1]
	// the two returns
	var rT, rF *ssa.Return
	for _, in := range instrsOf(g) {
		r, ok := in.(*ssa.Return)
		if !ok {
			continue
		}
		if len(r.Results) != 1 {
			return nil
		}
		k, isK := r.Results[0].(*ssa.Const)
		if !isK || k.Value == nil || k.Value.Kind() != constant.Bool {
			return nil
		}
		if constant.BoolVal(k.Value) {
			if rT != nil {
				return nil
			}
			rT = r
		} else {
			if rF != nil {
				return nil
			}
			rF = r
		}
	}
	if rT == nil || rF == nil || len(rF.Block().Preds) != 1 || len(rT.Block().Preds) != 1 || rT.Block().Preds[0] != H {
		return nil
	}
	B := rF.Block().Preds[0]
	if len(B.Preds) != 1 || B.Preds[0] != H || len(H.Preds) != 2 || len(entry.Succs) != 1 || entry.Succs[0] != H {
		return nil
	}
	bIf, ok := B.Instrs[len(B.Instrs)-1].(*ssa.If)
	if !ok || len(B.Succs) != 2 {
		return nil
	}
	var arm bool // the arm of the test that returns false
	switch {
	case B.Succs[0] == rF.Block() && B.Succs[1] == H:
		arm = true
	case B.Succs[1] == rF.Block() && B.Succs[0] == H:
		arm = false
	default:
		return nil
	}
	hIf, ok := H.Instrs[len(H.Instrs)-1].(*ssa.If)
	if !ok || len(H.Succs) != 2 || H.Succs[0] != B || H.Succs[1] != rT.Block() {
		return nil
	}
	// the loop: i = φ(-1, i+1); i+1 < len(vs)
	lt, ok := hIf.Cond.(*ssa.BinOp)
	if !ok || lt.Op != token.LSS {
		return nil
	}
	inc, ok := lt.X.(*ssa.BinOp)
	if !ok || inc.Op != token.ADD || inc.Block() != H {
		return nil
	}
	phi, ok := inc.X.(*ssa.Phi)
	if one, isK := constInt(inc.Y); !ok || !isK || one != 1 || phi.Block() != H || len(phi.Edges) != 2 {
		return nil
	}
	for i, e := range phi.Edges {
		if H.Preds[i] == entry {
			if k, isK := constInt(e); !isK || k != -1 {
				return nil
			}
		} else if e != ssa.Value(inc) {
			return nil
		}
	}
	if lx, isLen := lenOperand(lt.Y); !isLen || lx != ssa.Value(vs) {
		return nil
	}
	// the body: v = vs[i+1]; one comparison of v / len(v) with parameters and constants
	var elem *ssa.UnOp
	for _, in := range B.Instrs {
		switch x := in.(type) {
		case *ssa.IndexAddr:
			if x.X != ssa.Value(vs) || x.Index != ssa.Value(inc) {
				return nil
			}
		case *ssa.UnOp:
			ia, isIA := x.X.(*ssa.IndexAddr)
			if x.Op != token.MUL || !isIA || ia.X != ssa.Value(vs) || elem != nil {
				return nil
			}
			elem = x
		case *ssa.Call:
			if b, isB := x.Call.Value.(*ssa.Builtin); !isB || b.Name() != "len" {
				return nil
			}
		case *ssa.BinOp, *ssa.If, *ssa.DebugRef:
		default:
			return nil
		}
	}
	for _, in := range append(append([]ssa.Instruction(nil), entry.Instrs...), H.Instrs...) {
		switch x := in.(type) {
		case *ssa.Call:
			if b, isB := x.Call.Value.(*ssa.Builtin); !isB || b.Name() != "len" {
				return nil
			}
		case *ssa.BinOp, *ssa.If, *ssa.Phi, *ssa.Jump, *ssa.DebugRef:
		default:
			return nil
		}
	}
	if elem == nil {
		return nil
	}
	// the arguments packed at this call
	sl, ok := call.Call.Args[len(call.Call.Args)-1].(*ssa.Slice)
	if !ok || sl.Low != nil || sl.High != nil {
		return nil
	}
	arr, ok := sl.X.(*ssa.Alloc)
	if !ok || arr.Referrers() == nil {
		return nil
	}
	at, ok := arr.Type().Underlying().(*types.Pointer).Elem().Underlying().(*types.Array)
	if !ok {
		return nil
	}
	packed := make([]ssa.Value, at.Len())
	for _, r := range *arr.Referrers() {
		switch x := r.(type) {
		case *ssa.Slice:
			if x != sl {
				return nil
			}
		case *ssa.IndexAddr:
			k, isK := constInt(x.Index)
			if !isK || k < 0 || k >= at.Len() || x.Referrers() == nil || len(*x.Referrers()) != 1 || packed[k] != nil {
				return nil
			}
			st, isSt := (*x.Referrers())[0].(*ssa.Store)
			if !isSt || st.Addr != ssa.Value(x) || !instrDominates(st, call) {
				return nil
			}
			packed[k] = st.Val
		case *ssa.DebugRef:
		default:
			return nil
		}
	}
	for _, e := range packed {
		if e == nil {
			return nil
		}
	}
	f0 := factOf(Guard{If: bIf, Arm: !arm})
	if f0.Op == 0 {
		return nil
	}
	var out []Fact
	for _, e := range packed {
		tr := func(v ssa.Value) ssa.Value {
			if v == ssa.Value(elem) {
				return e
			}
			if lx, isLen := lenOperand(v); isLen && lx == ssa.Value(elem) {
				return &synthLen{arg: e}
			}
			switch x := v.(type) {
			case *ssa.Const:
				return x
			case *ssa.Parameter:
				if i := paramIndex(x); x != vs && x.Parent() == g && i >= 0 && i < len(call.Call.Args) {
					return call.Call.Args[i]
				}
			}
			return nil
		}
		x, y := tr(f0.X), tr(f0.Y)
		if x == nil || y == nil {
			return nil
		}
		out = append(out, Fact{Op: f0.Op, X: x, Y: y, If: bIf})
	}
	return out
}
