package main

// Transparent helpers.
//
// Rules are written against the functions where a mechanism lives today.  Ordinary maintenance
// moves code between a function and a helper (extract function / inline function) without changing
// behaviour.  To keep the rules' verdicts independent of that decomposition, an unexported own
// function with exactly ONE static call site (a plain call), that is never used as a value and cannot
// be the target of an interface call, is treated as if it were written inline at its call site:
//
//   - strip() looks through its parameters to the arguments of that call,
//   - GuardsOf()/FactsAt() of an instruction inside it include the guards of the call site,
//   - instrDominates() relates instructions across the call,
//   - instrsDeep() lists a function's instructions together with those of its transparent helpers,
//   - the all-exits searches treat a call to such a helper as meeting an obligation when every path
//     through the helper meets it,
//   - a branch on the boolean / error result of such a helper inherits the facts common to the
//     helper's returns that produce this outcome.
//
// Functions with several call sites are NOT transparent (their parameters are ambiguous); rules that
// need them use calling contexts (sitectx.go).

import (
	"go/constant"
	"go/token"
	"go/types"

	"golang.org/x/tools/go/ssa"
)

var (
	helperSite  = map[*ssa.Function]*ssa.Call{}
	helpersDone = map[*ssa.Program]bool{}
)

// registerHelpers computes the transparent helpers of a loaded module (idempotent).
func registerHelpers(m *Module) {
	if helpersDone[m.Prog] {
		return
	}
	helpersDone[m.Prog] = true
	var fns []*ssa.Function
	ifaceMethods := map[string]bool{}
	for path, p := range m.All {
		if !ownPkgPath(path) {
			continue
		}
		fns = append(fns, m.PkgFuncs(path)...)
		sc := p.Types.Scope()
		for _, n := range sc.Names() {
			if tn, ok := sc.Lookup(n).(*types.TypeName); ok {
				if it, ok := tn.Type().Underlying().(*types.Interface); ok {
					for i := 0; i < it.NumMethods(); i++ {
						ifaceMethods[it.Method(i).Name()] = true
					}
				}
			}
		}
	}
	calls := map[*ssa.Function][]ssa.CallInstruction{}
	valueUse := map[*ssa.Function]bool{}
	for _, fn := range fns {
		for _, b := range fn.Blocks {
			for _, in := range b.Instrs {
				var callee ssa.Value
				if ci, ok := in.(ssa.CallInstruction); ok {
					if f := ci.Common().StaticCallee(); f != nil {
						calls[f] = append(calls[f], ci)
						callee = ci.Common().Value
					}
				}
				if mc, ok := in.(*ssa.MakeClosure); ok {
					if _, meth, ok := boundMethod(mc); ok {
						if f := m.Prog.FuncValue(meth); f != nil {
							valueUse[f] = true
						}
					}
				}
				for _, op := range in.Operands(nil) {
					if op == nil || *op == nil {
						continue
					}
					if f, ok := (*op).(*ssa.Function); ok && ssa.Value(f) != callee {
						valueUse[f] = true
					} else if ok && ssa.Value(f) == callee {
						// the callee operand itself; but the same function may also be passed as an argument
						if ci, isCall := in.(ssa.CallInstruction); isCall {
							for _, a := range ci.Common().Args {
								if a == ssa.Value(f) {
									valueUse[f] = true
								}
							}
						}
					}
				}
			}
		}
	}
	for _, fn := range fns {
		obj := fn.Object()
		if obj == nil || fn.Parent() != nil || fn.Synthetic != "" || obj.Exported() || fn.Name() == "init" || fn.Name() == "main" {
			continue
		}
		if valueUse[fn] || len(calls[fn]) != 1 {
			continue
		}
		if fn.Signature.Recv() != nil && ifaceMethods[fn.Name()] {
			continue
		}
		c, ok := calls[fn][0].(*ssa.Call)
		if !ok || c.Parent() == fn {
			continue
		}
		helperSite[fn] = c
	}
	// break cycles (mutual recursion through single call sites)
	for fn := range helperSite {
		seen := map[*ssa.Function]bool{fn: true}
		for g := helperSite[fn].Parent(); g != nil; {
			if seen[g] {
				delete(helperSite, fn)
				break
			}
			seen[g] = true
			c := helperSite[g]
			if c == nil {
				break
			}
			g = c.Parent()
		}
	}
}

// helperCall: the unique call site of a transparent helper, or nil.
func helperCall(fn *ssa.Function) *ssa.Call {
	if fn == nil {
		return nil
	}
	return helperSite[fn]
}

// isHelperCall: in is the call that a transparent helper is inlined at; returns the helper.
func isHelperCall(in ssa.Instruction) *ssa.Function {
	c, ok := in.(*ssa.Call)
	if !ok {
		return nil
	}
	g := c.Call.StaticCallee()
	if g != nil && helperSite[g] == c {
		return g
	}
	return nil
}

// instrsDeep lists the instructions of fn and, spliced in after their call, those of its
// transparent helpers (without the helpers' Return instructions, which are not exits of fn).
func instrsDeep(fn *ssa.Function) []ssa.Instruction {
	var out []ssa.Instruction
	var rec func(f *ssa.Function, depth int)
	rec = func(f *ssa.Function, depth int) {
		for _, b := range f.Blocks {
			if b == f.Recover {
				continue
			}
			for _, in := range b.Instrs {
				if depth > 0 {
					if _, isRet := in.(*ssa.Return); isRet {
						continue
					}
				}
				out = append(out, in)
				if g := isHelperCall(in); g != nil && depth < 5 {
					rec(g, depth+1)
				}
			}
		}
	}
	rec(fn, 0)
	return out
}

// deepFuncs: fn and its transparent helpers (transitively).
func deepFuncs(fn *ssa.Function) []*ssa.Function {
	out := []*ssa.Function{fn}
	for i := 0; i < len(out) && i < 64; i++ {
		for _, in := range instrsOf(out[i]) {
			if g := isHelperCall(in); g != nil {
				out = append(out, g)
			}
		}
	}
	return out
}

// rootOfHelper: the outermost function a (possibly nested) transparent helper is inlined into.
func rootOfHelper(fn *ssa.Function) *ssa.Function {
	for i := 0; i < 8; i++ {
		c := helperCall(fn)
		if c == nil {
			return fn
		}
		fn = c.Parent()
	}
	return fn
}

// inDeep: instruction in belongs to fn or to one of its transparent helpers.
func inDeep(in ssa.Instruction, fn *ssa.Function) bool {
	return in.Parent() == fn || rootOfHelper(in.Parent()) == fn || liftTo(in, fn) != nil
}

// liftTo: the instruction of fn that in is (transitively) executed by: in itself when in.Parent()==fn,
// otherwise the call in fn through which the helper containing in is entered.  nil if unrelated.
func liftTo(in ssa.Instruction, fn *ssa.Function) ssa.Instruction {
	for i := 0; i < 8; i++ {
		if in.Parent() == fn {
			return in
		}
		c := helperCall(in.Parent())
		if c == nil {
			return nil
		}
		in = c
	}
	return nil
}

// mustExecute: in is executed on every path through its function that reaches a Return
// (its block dominates every returning block).
func mustExecute(in ssa.Instruction) bool {
	fn := in.Parent()
	for _, b := range fn.Blocks {
		if b == fn.Recover || len(b.Instrs) == 0 {
			continue
		}
		if _, ok := b.Instrs[len(b.Instrs)-1].(*ssa.Return); !ok {
			continue
		}
		if b == in.Block() {
			continue
		}
		if !in.Block().Dominates(b) {
			return false
		}
	}
	return true
}

// instrDominatesDeep: a is executed before b on every path reaching b, across transparent helpers.
func instrDominatesDeep(a, b ssa.Instruction) bool {
	if a.Parent() == b.Parent() {
		return localDominates(a, b)
	}
	// b inside a helper (transitively) of a's function: a must dominate the call
	if lb := liftTo(b, a.Parent()); lb != nil {
		return lb != a && localDominates(a, lb)
	}
	// a inside a helper of b's function (or of a common ancestor): a must be unavoidable in its helper
	// at every level up to the common function, and the call must dominate (the lift of) b
	cur := a
	for i := 0; i < 8; i++ {
		c := helperCall(cur.Parent())
		if c == nil {
			return false
		}
		inner := cur
		cur = c
		if lb := liftTo(b, cur.Parent()); lb != nil {
			if lb == cur {
				return false // both inside the same call but in different helpers below it: handled by the first two cases at a deeper level
			}
			// only the helper's returns from which lb can be reached count: when lb is behind `err == nil`
			// of this call, the returns with a non-nil error do not
			return mustExecuteBefore(inner, c, lb) && localDominates(cur, lb)
		}
		if !mustExecute(inner) {
			return false
		}
	}
	return false
}

func localDominates(a, b ssa.Instruction) bool {
	if a.Block() == b.Block() {
		return instrIndex(a) < instrIndex(b)
	}
	return a.Block().Dominates(b.Block())
}

// helperOutcomeFacts: for a fact about the result of a call to a transparent helper — a boolean result
// being true/false, or an error result being nil/non-nil — the facts that hold at EVERY return of the
// helper producing that outcome (in the helper's frame; parameters resolve through strip).
func helperOutcomeFacts(f Fact, depth int) []Fact {
	if depth > 3 {
		return nil
	}
	var call *ssa.Call
	idx := 0
	var want func(v ssa.Value, r *ssa.Return) (matches bool, decidable bool)
	switch {
	case f.Op == 0:
		v := f.Bool
		if e, ok := v.(*ssa.Extract); ok {
			v, idx = e.Tuple, e.Index
		}
		c, ok := v.(*ssa.Call)
		if !ok {
			return nil
		}
		call = c
		want = func(v ssa.Value, _ *ssa.Return) (bool, bool) {
			k, ok := v.(*ssa.Const)
			if !ok || k.Value == nil {
				return false, false
			}
			return (k.Value.String() == "true") == f.True, true
		}
	case (f.Op == token.EQL || f.Op == token.NEQ) && isNilConst(f.Y):
		v := stripNoParam(f.X)
		if e, ok := v.(*ssa.Extract); ok {
			v, idx = e.Tuple, e.Index
		}
		c, ok := v.(*ssa.Call)
		if !ok {
			return nil
		}
		call = c
		wantNil := f.Op == token.EQL
		want = func(v ssa.Value, r *ssa.Return) (bool, bool) {
			if isNilConst(v) {
				return wantNil, true
			}
			// an error variable that was found non-nil on the way to this return
			for _, g := range GuardsLocal(r) {
				gf := factOf(g)
				if gf.Op == token.NEQ && isNilConst(gf.Y) && stripNoParam(gf.X) == stripNoParam(v) {
					return !wantNil, true
				}
			}
			// a non-constant error value: assume non-nil only when it is a freshly built error
			if cl, ok := v.(*ssa.Call); ok {
				if o := calleeObj(&cl.Call); o != nil && o.Pkg() != nil && (o.Pkg().Path() == "fmt" && o.Name() == "Errorf" || o.Pkg().Path() == "errors" && o.Name() == "New") {
					return !wantNil, true
				}
			}
			if mi, ok := v.(*ssa.MakeInterface); ok {
				if cl, ok := mi.X.(*ssa.Call); ok {
					if o := calleeObj(&cl.Call); o != nil && o.Pkg() != nil && o.Pkg().Path() == "errors" {
						return !wantNil, true
					}
				}
			}
			return false, false
		}
	default:
		return nil
	}
	g := call.Call.StaticCallee()
	if g == nil || helperSite[g] != call {
		g = boundLiteral(call)
		if g == nil {
			return nil
		}
	}
	// a predicate with a single return of a computed boolean: the outcome is that expression's value
	if f.Op == 0 {
		var rets []*ssa.Return
		for _, in := range instrsOf(g) {
			if r, ok := in.(*ssa.Return); ok && idx < len(r.Results) {
				rets = append(rets, r)
			}
		}
		if len(rets) == 1 {
			rv := retResult(rets[0], idx)
			if _, isK := rv.(*ssa.Const); !isK {
				out := []Fact{factOf2(rv, f.True, f.If)}
				out = append(out, factsAtDepth(rets[0], depth+1)...)
				return out
			}
		}
	}
	var common []Fact
	first := true
	for _, in := range instrsOf(g) {
		r, ok := in.(*ssa.Return)
		if !ok || idx >= len(r.Results) {
			continue
		}
		m, dec := want(retResult(r, idx), r)
		if !dec {
			return nil
		}
		if !m {
			continue
		}
		fs := factsAtDepth(r, depth+1)
		if first {
			common, first = fs, false
			continue
		}
		var keep []Fact
		for _, x := range common {
			for _, y := range fs {
				if x.Op == y.Op && x.True == y.True && x.Bool == y.Bool && x.X == y.X && x.Y == y.Y {
					keep = append(keep, x)
					break
				}
			}
		}
		common = keep
	}
	return common
}

// stripNoParam is strip without the parameter look-through (used where the call itself is wanted).
func stripNoParam(v ssa.Value) ssa.Value {
	noParamLook++
	defer func() { noParamLook-- }()
	return strip(v)
}

var noParamLook int

// resultOf looks through a call to a transparent helper to the value it returns: the helper's single
// return or, when the last result is an error, its single successful return.  (Not part of strip():
// rules also identify calls by their callee.)
func resultOf(v ssa.Value) ssa.Value {
	for i := 0; i < 6; i++ {
		v = strip(v)
		idx := 0
		var call *ssa.Call
		switch x := v.(type) {
		case *ssa.Call:
			call = x
		case *ssa.Extract:
			if c, ok := x.Tuple.(*ssa.Call); ok {
				call, idx = c, x.Index
			}
		case *ssa.UnOp:
			// a local captured by a closure lives in a cell: the value it is assigned once
			if x.Op == token.MUL {
				if cell := cellOf(x.X); cell != nil {
					if sts := storesToCell(cell); len(sts) == 1 {
						v = sts[0].Val
						continue
					}
				}
			}
		}
		if call == nil {
			return v
		}
		g := call.Call.StaticCallee()
		if g == nil || helperSite[g] != call {
			return v
		}
		res := g.Signature.Results()
		errLast := res.Len() > 0 && types.Identical(res.At(res.Len()-1).Type(), types.Universe.Lookup("error").Type())
		okLast := false
		if res.Len() > 1 {
			if b, isB := res.At(res.Len() - 1).Type().Underlying().(*types.Basic); isB && b.Kind() == types.Bool {
				okLast = true
			}
		}
		var cand []*ssa.Return
		for _, in := range instrsOf(g) {
			r, ok := in.(*ssa.Return)
			if !ok || idx >= len(r.Results) {
				continue
			}
			if errLast && idx != res.Len()-1 && !isNilConst(retResult(r, res.Len()-1)) {
				continue // an error return: the other results are not used by a correct caller
			}
			if okLast && idx != res.Len()-1 {
				if k, isK := retResult(r, res.Len()-1).(*ssa.Const); isK && k.Value != nil && k.Value.Kind() == constant.Bool && !constant.BoolVal(k.Value) {
					continue // the comma-ok idiom: `return zero, false`
				}
			}
			cand = append(cand, r)
		}
		if len(cand) != 1 {
			return v
		}
		v = retResult(cand[0], idx)
	}
	return v
}

// forwardsTo: g is a thin wrapper around pkg.name — it contains exactly one call to it, executed on
// every path — and reports, per argument of that call, which parameter of g is passed (-1: none).
func forwardsTo(g *ssa.Function, pkg, name string) ([]int, bool) {
	if g == nil || g.Blocks == nil {
		return nil, false
	}
	var the *ssa.Call
	for _, in := range instrsOf(g) {
		if c, ok := in.(*ssa.Call); ok && isCallTo(&c.Call, pkg, name) {
			if the != nil {
				return nil, false
			}
			the = c
		}
	}
	if the == nil || !calleeMustPass(g, func(in ssa.Instruction) bool { return in == ssa.Instruction(the) }, 3) {
		return nil, false
	}
	out := make([]int, len(the.Call.Args))
	for i, a := range the.Call.Args {
		out[i] = -1
		noParamLook++
		sa := strip(a)
		noParamLook--
		if p, ok := sa.(*ssa.Parameter); ok && p.Parent() == g {
			out[i] = paramIndex(p)
		}
	}
	return out, true
}

// closureBind: active bindings of func-typed parameters to the function literal a call site passes
// (a generic helper analysed once per call site).  helperOutcomeFacts resolves calls of a bound
// parameter to the literal.
var closureBind = map[*ssa.Parameter]*ssa.MakeClosure{}

func withClosureBinding(b map[*ssa.Parameter]*ssa.MakeClosure, f func()) {
	for p, mc := range b {
		closureBind[p] = mc
	}
	defer func() {
		for p := range b {
			delete(closureBind, p)
		}
	}()
	f()
}

// boundLiteral: the function literal a call through a bound func-typed parameter invokes, or nil.
func boundLiteral(call *ssa.Call) *ssa.Function {
	if call.Call.IsInvoke() {
		return nil
	}
	noParamLook++
	v := strip(call.Call.Value)
	noParamLook--
	if p, ok := v.(*ssa.Parameter); ok {
		if mc := closureBind[p]; mc != nil {
			return mc.Fn.(*ssa.Function)
		}
	}
	return nil
}

// mustExecuteBefore: in is executed on every path through its function (the helper called at `call`) that
// returns in a way compatible with what is known where `user` executes: when user is dominated by the
// call's error result being nil, only the helper's returns with a nil error are considered.
func mustExecuteBefore(in ssa.Instruction, call *ssa.Call, user ssa.Instruction) bool {
	fn := in.Parent()
	res := fn.Signature.Results()
	errIdx := -1
	if res.Len() > 0 && types.Identical(res.At(res.Len()-1).Type(), types.Universe.Lookup("error").Type()) {
		errIdx = res.Len() - 1
	}
	onlySuccess := false
	if errIdx >= 0 {
		for _, g := range GuardsLocal(user) {
			f := factOf(g)
			if f.Op != token.EQL || !isNilConst(f.Y) {
				continue
			}
			v := stripNoParam(f.X)
			if e, ok := v.(*ssa.Extract); ok && e.Tuple == ssa.Value(call) && e.Index == errIdx {
				onlySuccess = true
			}
			if v == ssa.Value(call) && res.Len() == 1 {
				onlySuccess = true
			}
		}
	}
	for _, b := range fn.Blocks {
		if b == fn.Recover || len(b.Instrs) == 0 {
			continue
		}
		r, ok := b.Instrs[len(b.Instrs)-1].(*ssa.Return)
		if !ok {
			continue
		}
		if onlySuccess && !isNilConst(retResult(r, errIdx)) {
			continue
		}
		if b == in.Block() {
			continue
		}
		if !in.Block().Dominates(b) {
			return false
		}
	}
	return true
}

// returnsDeep: the return statements that end fn, where a `return g(…)` that forwards all results of
// a transparent helper g unchanged is replaced by g's own returns (recursively).
func returnsDeep(fn *ssa.Function) []*ssa.Return {
	return returnsDeepN(fn, 0)
}

func returnsDeepN(fn *ssa.Function, depth int) []*ssa.Return {
	var out []*ssa.Return
	for _, in := range instrsOf(fn) {
		r, ok := in.(*ssa.Return)
		if !ok {
			continue
		}
		if g := forwardedHelper(r); g != nil && depth < 4 {
			out = append(out, returnsDeepN(g, depth+1)...)
			continue
		}
		out = append(out, r)
	}
	return out
}

// forwardedHelper: r returns exactly the results of one call to a transparent helper, in order.
func forwardedHelper(r *ssa.Return) *ssa.Function {
	if len(r.Results) == 0 {
		return nil
	}
	var call *ssa.Call
	for i, v := range retResults(r) {
		var c *ssa.Call
		switch x := v.(type) {
		case *ssa.Call:
			if len(r.Results) == 1 {
				c = x
			}
		case *ssa.Extract:
			if cc, ok := x.Tuple.(*ssa.Call); ok && x.Index == i {
				c = cc
			}
		}
		if c == nil || (call != nil && c != call) {
			return nil
		}
		call = c
	}
	g := isHelperCall(call)
	if g == nil || g.Signature.Results().Len() != len(r.Results) {
		return nil
	}
	return g
}

// closureFactory: g is an own function whose only return is a function literal (a closure factory:
// `func threadSafe(create F) F { return func(…) … { … create(…) … } }`).  Returns the literal.
func closureFactory(g *ssa.Function) *ssa.MakeClosure {
	if g == nil || g.Blocks == nil || !ownPkgPath(pkgPathOf(g)) {
		return nil
	}
	var ret *ssa.Return
	for _, in := range instrsOf(g) {
		if r, ok := in.(*ssa.Return); ok {
			if ret != nil {
				return nil
			}
			ret = r
		}
	}
	if ret == nil || len(ret.Results) != 1 {
		return nil
	}
	noParamLook++
	mc, _ := strip(retResult(ret, 0)).(*ssa.MakeClosure)
	noParamLook--
	return mc
}

// closureLiteral: the function literal that v denotes — a MakeClosure, or the literal returned by the
// closure factory that v is a call of (then the call is returned too: the literal's captured factory
// parameters stand for the arguments of that call).
func closureLiteral(v ssa.Value) (*ssa.MakeClosure, *ssa.Call) {
	v = strip(v)
	if mc, ok := v.(*ssa.MakeClosure); ok {
		return mc, nil
	}
	if c, ok := v.(*ssa.Call); ok {
		if g := c.Call.StaticCallee(); g != nil && len(g.Params) == len(c.Call.Args) {
			if mc := closureFactory(g); mc != nil {
				return mc, c
			}
		}
	}
	return nil, nil
}

// factoryArg: v, a value inside a literal made by a closure factory called at fc, is (a capture of) a
// parameter of that factory: the argument fc passes for it.  Otherwise nil.
func factoryArg(v ssa.Value, fc *ssa.Call) ssa.Value {
	if fc == nil {
		return nil
	}
	g := fc.Call.StaticCallee()
	noParamLook++
	v = strip(v)
	noParamLook--
	for i := 0; i < 4; i++ {
		switch x := v.(type) {
		case *ssa.Parameter:
			if x.Parent() != g {
				return nil
			}
			idx := paramIndex(x)
			if idx < 0 || idx >= len(fc.Call.Args) {
				return nil
			}
			return fc.Call.Args[idx]
		case *ssa.FreeVar:
			fn := x.Parent()
			idx := -1
			for k, fv := range fn.FreeVars {
				if fv == x {
					idx = k
				}
			}
			var mcs []*ssa.MakeClosure
			if fn.Parent() != nil {
				for _, in := range instrsOf(fn.Parent()) {
					if mc, ok := in.(*ssa.MakeClosure); ok && mc.Fn == ssa.Value(fn) {
						mcs = append(mcs, mc)
					}
				}
			}
			if len(mcs) != 1 || idx < 0 || idx >= len(mcs[0].Bindings) {
				return nil
			}
			noParamLook++
			v = strip(mcs[0].Bindings[idx])
			noParamLook--
		case *ssa.UnOp:
			// a captured variable lives in a cell: the parameter spilled into it
			if x.Op != token.MUL {
				return nil
			}
			if fv, ok := x.X.(*ssa.FreeVar); ok {
				v = fv
				continue
			}
			cell := cellOf(x.X)
			if cell == nil {
				return nil
			}
			sts := storesToCell(cell)
			if len(sts) != 1 {
				return nil
			}
			noParamLook++
			v = strip(sts[0].Val)
			noParamLook--
		case *ssa.Alloc:
			sts := storesToCell(x)
			if len(sts) != 1 {
				return nil
			}
			noParamLook++
			v = strip(sts[0].Val)
			noParamLook--
		default:
			return nil
		}
	}
	return nil
}
