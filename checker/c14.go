package main

// C14 — silent-mode buffer: atomicity and ordering conditions of the
// store-or-forward / drain hand-off.  C15 — bounds and resource release.

import (
	"fmt"
	"go/token"
	"go/types"
	"os"

	"golang.org/x/tools/go/ssa"
)

func init() {
	register("C14", checkC14)
	register("C15", checkC15)
}

type boxModel struct {
	m   *Module
	fns []*ssa.Function
	sl  *Slicer
	la  *LockAnalysis

	boxLock, smLock                              *types.Var
	fPending, fStarted, fTotals                  *types.Var
	fMessages, fCount, fLastUsed, fSMLogger      *types.Var
	fEpoch, fLastGC, fMax, fExpire, fSweep, fHnd *types.Var
	send, add, maybeGC, mark, sweep              *ssa.Function
}

func buildBoxModel(c *Ctx) *boxModel {
	m := c.Mod(ModRoot)
	if m == nil {
		return nil
	}
	b := &boxModel{m: m}
	b.fns = m.PkgFuncs(PkgMsg)
	for _, f := range b.fns {
		c.Analysed(FuncName(f))
	}
	fld := func(typ, n string) *types.Var { return c.mustField(m, PkgMsg, typ, n) }
	b.boxLock, b.smLock = fld("Box", "lock"), fld("storedMessages", "lock")
	b.fPending, b.fStarted, b.fTotals = fld("Box", "pendingMessages"), fld("Box", "startedSending"), fld("Box", "totalInFlightTopicsBySender")
	b.fMessages, b.fCount, b.fLastUsed, b.fSMLogger = fld("storedMessages", "messages"), fld("storedMessages", "messageCountPerSender"), fld("storedMessages", "lastUsed"), fld("storedMessages", "logger")
	b.fEpoch, b.fLastGC, b.fMax = fld("Box", "currentGCEpochNum"), fld("Box", "lastGC"), fld("Box", "MaxInFlightTopicsBySender")
	b.fExpire, b.fSweep, b.fHnd = fld("Box", "GCExpire"), fld("Box", "GCSweep"), fld("Box", "MessageHandler")
	b.send = c.mustFunc(m, PkgMsg, "Box", "Send")
	b.add = c.mustFunc(m, PkgMsg, "storedMessages", "add")
	b.maybeGC = c.mustFunc(m, PkgMsg, "Box", "maybeGC")
	// mark and sweep may be functions of their own or written out inside maybeGC: the rules work on what
	// they do (gcEvents), the functions are only remembered when they exist
	b.mark = m.Func(PkgMsg, "Box", "mark")
	b.sweep = m.Func(PkgMsg, "Box", "sweep")
	if len(c.fatal) > 0 {
		return nil
	}
	b.sl = NewSlicer(m, PkgMsg)
	b.la = NewLockAnalysis(m, b.sl, PkgMsg)
	return b
}

// appendStores: stores of append(...) results into storedMessages.messages.
func (b *boxModel) appendStores() []*ssa.Store {
	var out []*ssa.Store
	for _, st := range storesToField(b.fns, b.fMessages) {
		if cl, ok := strip(st.Val).(*ssa.Call); ok {
			if bi, ok := cl.Call.Value.(*ssa.Builtin); ok && bi.Name() == "append" {
				out = append(out, st)
			}
		}
	}
	return out
}

// handlerCalls: invocations of MessageHandler.HandleMessage / Box.HandleMessage.
func (b *boxModel) forwardCalls(fns []*ssa.Function) []ssa.CallInstruction {
	var out []ssa.CallInstruction
	for _, fn := range fns {
		for _, in := range instrsOf(fn) {
			ci, ok := in.(ssa.CallInstruction)
			if !ok {
				continue
			}
			if invokesMethod(ci.Common(), "HandleMessage") {
				out = append(out, ci)
			}
			if cal := staticCallee(ci.Common()); cal != nil && cal.Name() == "HandleMessage" && pkgPathOf(cal) == PkgMsg {
				out = append(out, ci)
			}
		}
	}
	return out
}

func checkC14(c *Ctx) {
	c.explanation = "Static decision on msg's SSA and must-locksets of: (L1) the read of startedSending that decides \"buffer\" and the append into the topic's buffer lie in one exclusive critical section of Box.lock, and Send's mark-started, snapshot and deletion of the buffer lie in one exclusive section — so a message is either drained by Send or forwarded by the receiver, never parked behind the drain; (L2) selecting expired topics and deleting them happen in one exclusive section; (O1) drained messages are re-dispatched after the started mark (they are forwarded, not re-buffered) and are exactly the snapshot taken in that section; (O2) the started mark must not become visible before the drain unless drain and direct forward run under a common lock — violated by the current design and recorded as a known finding (a message arriving during the drain overtakes older buffered ones of the same sender). Exactly-once/in-order as behaviour over all interleavings is covered only through these atomicity and ordering conditions."
	c.notDecided = "exactly-once / in-order hand-off as behaviour; interleavings are not enumerated (the yield-point hook of the property belongs to another technique)"
	c.Assume("sync.RWMutex semantics; one Box.lock instance protects that Box's maps")
	b := buildBoxModel(c)
	if b == nil {
		return
	}
	m := b.m
	const L1, L2, O1, O2 = "C14.L1", "C14.L2", "C14.O1", "C14.O2"
	c.Rule(L1, "store-or-forward decision and store atomic w.r.t. Send's mark+snapshot+delete", 1)
	c.Rule(L2, "mark and sweep in one exclusive section", 1)
	c.Rule(O1, "drain after the started mark; drains exactly the snapshot", 1)
	c.Rule(O2, "started mark not visible before the drain (or common lock)", 1)

	ruleStartStamp(c, b, "C14.S1")

	// ------------------------------------------------------------------ L1 (receiver side)
	apps := b.appendStores()
	if len(apps) == 0 {
		c.Bad(L1, "msg", "append into the buffer", "-", "no append into storedMessages.messages found")
	}
	entries := map[*ssa.Function]bool{}
	for _, fn := range b.fns {
		if fn.Object() != nil && fn.Object().Exported() {
			entries[fn] = true
		}
	}
	for _, st := range apps {
		ctxs, ok := contextsOf(st, entries, b.fns, 4)
		if !ok || len(ctxs) == 0 {
			c.Unk(L1, FuncName(st.Parent()), "append into the buffer", m.Pos(st.Pos()), "cannot enumerate the calling contexts of the append up to an exported method")
			continue
		}
		for _, sc := range ctxs {
			// the decisions: lookups in startedSending whose not-found arm is mandatory for this context —
			// directly, or through a helper returning the lookup's flag (e.g. hasStartedSending).  An early
			// unlocked look is harmless as long as ONE decision shares the critical section of the store.
			type cand struct {
				lk *ssa.Lookup
				at ssa.Instruction
			}
			var cands []cand
			for _, f := range sc.Facts() {
				if f.Op != 0 || f.True {
					continue
				}
				if tup, isOK := commaOK(f.Bool); isOK {
					if lk, isL := tup.(*ssa.Lookup); isL && isLoadOfField(lk.X, b.fStarted) {
						cands = append(cands, cand{lk, lk})
					}
				}
				if cl, isC := stripNoParam(f.Bool).(*ssa.Call); isC {
					if cal := staticCallee(&cl.Call); cal != nil {
						for _, in := range instrsOf(cal) {
							if lk, isL := in.(*ssa.Lookup); isL && isLoadOfField(lk.X, b.fStarted) {
								cands = append(cands, cand{lk, cl})
							}
						}
					}
				}
			}
			construct := "decide-and-store via " + ctxName(sc)
			if len(cands) == 0 {
				c.Bad(L1, FuncName(st.Parent()), construct, m.Pos(st.Pos()), "the append is not conditional on the topic not having started: messages for started topics are buffered for ever")
				continue
			}
			async := false
			for _, cs := range sc.Calls {
				if _, isCall := cs.(*ssa.Call); !isCall {
					async = true // go / defer: the store does not run inside the caller's critical section
				}
			}
			okSec := false
			var shown ssa.Instruction
			for _, cd := range cands {
				decision, decisionAt := cd.lk, cd.at
				shown = decisionAt
				// same exclusive section: the instruction (in the decision's function) that leads to the append holds Box.lock
				// exclusively, and so does the decision, and both are covered by the same acquisition.
				var lead ssa.Instruction = st
				for k := len(sc.Calls) - 1; k >= 0; k-- {
					if sc.Calls[k].Parent() == decisionAt.Parent() {
						lead = sc.Calls[k].(ssa.Instruction)
					}
				}
				if st.Parent() == decisionAt.Parent() {
					lead = st
				}
				if lead.Parent() == decisionAt.Parent() && !async {
					s1 := b.la.sectionOf(decisionAt, b.boxLock)
					s2 := b.la.sectionOf(lead, b.boxLock)
					if s1 != nil && s1 == s2 && b.la.Holds(decisionAt, b.boxLock, LockW) && b.la.Holds(lead, b.boxLock, LockW) && (decision.Parent() == decisionAt.Parent() || lockFree(decision.Parent())) {
						okSec = true
						shown = decisionAt
						break
					}
				}
			}
			c.Check(okSec, L1, FuncName(shown.Parent()), construct, m.Pos(shown.Pos()),
				"the startedSending lookup and the (call leading to the) append hold Box.lock exclusively within one acquisition",
				"the decision \"not started yet\" and the store are taken in different critical sections: if the local party's first Send on the topic runs in between, it drains and deletes the buffer, and this message is then parked in a fresh buffer that nothing drains — it is never handed to the protocol")
		}
	}
	// ------------------------------------------------------------------ L1 (Send side)
	// the three steps — mark the topic started, look its buffer up, delete it — are found wherever Send
	// performs them (in place, in helpers of its own, in helpers shared with the collector) and compared
	// at the instruction of Send that executes them
	type sendEvent struct {
		in    ssa.Instruction   // the event
		at    ssa.Instruction   // the instruction of Send executing it
		key   ssa.Value         // topic key, resolved to Send's frame
		chain []ssa.Instruction // at … in: the instruction executing the event at every level of the call chain
	}
	sendRegion := []*ssa.Function{}
	{
		seen := map[*ssa.Function]bool{}
		var grow func(f *ssa.Function, d int)
		grow = func(f *ssa.Function, d int) {
			if f == nil || seen[f] || f.Blocks == nil || pkgPathOf(f) != PkgMsg || d > 2 || f == b.maybeGC {
				return
			}
			seen[f] = true
			sendRegion = append(sendRegion, f)
			for _, in := range instrsOf(f) {
				if cl, ok := in.(*ssa.Call); ok { // plain calls only: deferred and spawned calls run elsewhere
					grow(staticCallee(&cl.Call), d+1)
				}
			}
		}
		grow(b.send, 0)
	}
	eventsOf := func(match func(in ssa.Instruction) (ssa.Value, bool)) []sendEvent {
		var out []sendEvent
		for _, fn := range sendRegion {
			for _, in := range instrsOf(fn) {
				key, ok := match(in)
				if !ok {
					continue
				}
				ctxs, okc := contextsOf(in, map[*ssa.Function]bool{b.send: true}, sendRegion, 3)
				if !okc {
					continue
				}
				for _, sc := range ctxs {
					at := in
					var chain []ssa.Instruction
					for _, cs := range sc.Calls {
						chain = append(chain, cs.(ssa.Instruction))
					}
					chain = append(chain, in)
					if len(sc.Calls) > 0 {
						at = sc.Calls[0].(ssa.Instruction)
					}
					out = append(out, sendEvent{in, at, sc.Resolve(key), chain})
				}
			}
		}
		return out
	}
	marksE := eventsOf(func(in ssa.Instruction) (ssa.Value, bool) {
		mu, ok := in.(*ssa.MapUpdate)
		if ok && isLoadOfField(mu.Map, b.fStarted) {
			return mu.Key, true
		}
		return nil, false
	})
	snapsE := eventsOf(func(in ssa.Instruction) (ssa.Value, bool) {
		lk, ok := in.(*ssa.Lookup)
		if ok && isLoadOfField(lk.X, b.fPending) {
			return lk.Index, true
		}
		return nil, false
	})
	delsE := eventsOf(func(in ssa.Instruction) (ssa.Value, bool) {
		ci, ok := in.(ssa.CallInstruction)
		if !ok {
			return nil, false
		}
		if bi, isB := ci.Common().Value.(*ssa.Builtin); isB && bi.Name() == "delete" && isLoadOfField(ci.Common().Args[0], b.fPending) {
			return ci.Common().Args[1], true
		}
		return nil, false
	})
	var markSt *ssa.MapUpdate
	var snap *ssa.Lookup
	if len(marksE) == 0 || len(snapsE) == 0 || len(delsE) == 0 {
		c.Bad(L1, FuncName(b.send), "mark + snapshot + delete", m.Pos(b.send.Pos()), "Send does not mark the topic started, take the buffer and delete it")
	} else {
		okL1 := false
		sameKeyV := func(x, y ssa.Value) bool { return sameValue(x, y) || b.sl.sameRoot(x, y) }
		for _, me := range marksE {
			for _, se := range snapsE {
				for _, de := range delsE {
					// compared in the deepest function that executes all three (Send itself, or a helper holding the whole section)
					inOne := false
					for lvl := len(me.chain) - 1; lvl >= 0 && !inOne; lvl-- {
						f := me.chain[lvl].Parent()
						var x2, x3 ssa.Instruction
						for _, x := range se.chain {
							if x.Parent() == f {
								x2 = x
							}
						}
						for _, x := range de.chain {
							if x.Parent() == f {
								x3 = x
							}
						}
						if x2 == nil || x3 == nil {
							continue
						}
						x1 := me.chain[lvl]
						s1, s2, s3 := b.la.sectionOf(x1, b.boxLock), b.la.sectionOf(x2, b.boxLock), b.la.sectionOf(x3, b.boxLock)
						if s1 != nil && s1 == s2 && s2 == s3 && b.la.Holds(x1, b.boxLock, LockW) && b.la.Holds(x3, b.boxLock, LockW) {
							inOne = true
						}
					}
					if inOne && sameKeyV(me.key, se.key) && sameKeyV(me.key, de.key) {
						okL1 = true
						markSt, _ = me.in.(*ssa.MapUpdate)
						snap, _ = se.in.(*ssa.Lookup)
					}
				}
			}
		}
		if markSt == nil {
			markSt, _ = marksE[0].in.(*ssa.MapUpdate)
			snap, _ = snapsE[0].in.(*ssa.Lookup)
		}
		c.Check(okL1, L1, FuncName(b.send), "mark + snapshot + delete in one exclusive section, same topic", m.Pos(markSt.Pos()), "one acquisition of Box.lock", "Send marks the topic started, snapshots and deletes the buffer in separate critical sections (or for different keys): a message stored in between is lost or delivered twice")
	}
	// the instruction of Send that performs the mark (for the ordering of the drain)
	var markAt ssa.Instruction
	for _, me := range marksE {
		if me.in == ssa.Instruction(markSt) {
			markAt = me.at
		}
	}

	// ------------------------------------------------------------------ L2
	marks, sweeps := b.gcEvents()
	okL2 := len(marks) > 0 && len(sweeps) > 0
	var sec ssa.Instruction
	for _, e := range append(append([]ssa.Instruction(nil), marks...), sweeps...) {
		at := b.liftToGC(e)
		if at == nil {
			okL2 = false
			break
		}
		s1 := b.la.sectionOf(at, b.boxLock)
		if s1 == nil || !b.la.Holds(at, b.boxLock, LockW) || (sec != nil && s1 != sec) {
			okL2 = false
			break
		}
		sec = s1
	}
	c.Check(okL2, L2, FuncName(b.maybeGC), "mark and sweep under one acquisition", m.Pos(b.maybeGC.Pos()), "the selection of expired topics and their deletion lie inside one exclusive section of Box.lock",
		"expired topics are selected in one critical section and deleted in another: a topic that receives a message (or on which the party sends) in between is deleted although it was just used, and the message is never delivered")
	// what is deleted is what was selected as expired
	okArg := len(sweeps) > 0
	for _, e := range sweeps {
		key := e.(ssa.CallInstruction).Common().Args[1]
		fromMark := sliceHas(b.sl.Slice(key), func(v ssa.Value) bool {
			nx, ok := v.(*ssa.Next)
			if !ok {
				return false
			}
			rg, ok := nx.Iter.(*ssa.Range)
			return ok && (isLoadOfField(rg.X, b.fPending) || isLoadOfField(rg.X, b.fStarted))
		})
		if !fromMark {
			okArg = false
		}
	}
	c.Check(okArg, L2, FuncName(b.maybeGC), "sweep receives mark's selection", m.Pos(b.maybeGC.Pos()), "the deleted keys come from the loops that select expired topics", "the topics deleted are not the ones selected as expired")

	// ------------------------------------------------------------------ O1 / O2
	// the drain: calls of HandleMessage in Send (incl. its closures) over the snapshot
	// Send's own code: its literals and the package's functions it calls or defers (a deferred literal
	// and a deferred named method are the same drain), not following the re-dispatch itself
	drainRegion := WithAnon(b.send)
	for i := 0; i < len(drainRegion) && i < 32; i++ {
		for _, in := range instrsOf(drainRegion[i]) {
			ci, ok := in.(ssa.CallInstruction)
			if !ok {
				continue
			}
			if _, isGo := in.(*ssa.Go); isGo {
				continue
			}
			g := staticCallee(ci.Common())
			if g == nil || g.Blocks == nil || pkgPathOf(g) != PkgMsg || g == b.send || g == b.maybeGC || g.Name() == "HandleMessage" || g.Name() == "initialize" {
				continue
			}
			for _, h := range WithAnon(g) {
				dup := false
				for _, e := range drainRegion {
					dup = dup || e == h
				}
				if !dup {
					drainRegion = append(drainRegion, h)
				}
			}
		}
	}
	var drains []ssa.CallInstruction
	for _, fc := range b.forwardCalls(drainRegion) {
		drains = append(drains, fc)
	}
	if len(drains) == 0 {
		c.Bad(O1, FuncName(b.send), "drain", m.Pos(b.send.Pos()), "Send never re-dispatches the buffered messages")
	}
	for _, d := range drains {
		// message argument ranges over the snapshot of the entry looked up in the same section
		arg := d.Common().Args[len(d.Common().Args)-1]
		s := b.sl.Slice(arg)
		fromSnap := snap != nil && s[snap]
		fromField := sliceHasFieldLoad(s, b.fMessages)
		if !fromSnap || !fromField {
			// the snapshot travels in a field of an object made for this invocation of Send (`out.backlog`):
			// what Send's own code stores into that field
			for v := range s {
				fa, isFA := v.(*ssa.FieldAddr)
				if !isFA {
					continue
				}
				f := fieldOfAddr(fa)
				if f == nil || f.Exported() || f == b.fMessages || f == b.fPending || f == b.fStarted {
					continue
				}
				for _, sto := range storesToField(sendRegion, f) {
					s2 := b.sl.Slice(sto.Val)
					fromSnap = fromSnap || (snap != nil && s2[snap])
					fromField = fromField || sliceHasFieldLoad(s2, b.fMessages)
				}
			}
		}
		// executes after the mark: the closure is deferred/called after the mark
		after := false
		if d.Parent() == b.send {
			after = markAt != nil && instrDominates(markAt, d.(ssa.Instruction))
		} else {
			for _, in := range instrsOf(b.send) {
				if ci, ok := in.(ssa.CallInstruction); ok {
					if cal := b.sl.calleeOfInstr(ci); cal == d.Parent() && markAt != nil && instrDominates(markAt, in) {
						after = true
					}
				}
			}
		}
		if os.Getenv("TSSDEBUG") != "" {
			fmt.Fprintf(os.Stderr, "C14.O1 drain %s fromSnap=%v fromField=%v after=%v\n", m.Pos(d.Pos()), fromSnap, fromField, after)
		}
		c.Check(fromSnap && fromField && after, O1, FuncName(d.Parent()), "drain re-dispatches the snapshot after the mark", m.Pos(d.Pos()),
			"iterates pendingMessages[topic].messages taken in Send's section; runs after startedSending[topic] is set",
			"the drained messages are not the buffer taken under the lock, or they are re-dispatched before the topic is marked started (they would be buffered again and never delivered)")
		// O2: common lock or mark after drain
		held := b.la.Holds(d.(ssa.Instruction), b.boxLock, LockR)
		if !held && d.Parent() != b.send {
			// deferred closure: lockset at the exit of Send — conservatively empty
			held = false
		}
		c.Check(held, O2, FuncName(b.send), "drain ordered against direct forwarding", m.Pos(d.Pos()), "drain runs under Box.lock (direct forwards take it too)",
			"the topic is marked started before the buffered messages have been handed over and the drain runs without a lock shared with the direct-forward path: a message of sender S that arrives during the drain is forwarded at once and overtakes older buffered messages of S (per-sender arrival order is not preserved)")
	}
	_ = fmt.Sprintf
	_ = token.ADD
}

// gcRegion: maybeGC and the own functions it calls (mark, sweep, … — or nothing when they are inlined).
func (b *boxModel) gcRegion() []*ssa.Function {
	seen := map[*ssa.Function]bool{}
	var out []*ssa.Function
	var grow func(f *ssa.Function, d int)
	grow = func(f *ssa.Function, d int) {
		if f == nil || seen[f] || f.Blocks == nil || pkgPathOf(f) != PkgMsg || d > 2 {
			return
		}
		seen[f] = true
		out = append(out, f)
		for _, in := range instrsOf(f) {
			if ci, ok := in.(ssa.CallInstruction); ok {
				if g := staticCallee(ci.Common()); g != nil && g != b.send && g.Name() != "initialize" {
					grow(g, d+1)
				}
			}
		}
	}
	grow(b.maybeGC, 0)
	return out
}

// gcEvents: the selection of expired topics (loops over pendingMessages / startedSending) and their
// deletion (delete from pendingMessages) in the collector's region.
func (b *boxModel) gcEvents() (marks, sweeps []ssa.Instruction) {
	for _, fn := range b.gcRegion() {
		for _, in := range instrsOf(fn) {
			switch x := in.(type) {
			case *ssa.Range:
				if isLoadOfField(x.X, b.fPending) || isLoadOfField(x.X, b.fStarted) {
					marks = append(marks, in)
				}
			case ssa.CallInstruction:
				if bi, ok := x.Common().Value.(*ssa.Builtin); ok && bi.Name() == "delete" && isLoadOfField(x.Common().Args[0], b.fPending) {
					sweeps = append(sweeps, in)
				}
			}
		}
	}
	return
}

// liftToGC: the instruction of maybeGC that executes in (in itself, or the call leading to it).
func (b *boxModel) liftToGC(in ssa.Instruction) ssa.Instruction {
	region := b.gcRegion()
	for i := 0; i < 4; i++ {
		if in.Parent() == b.maybeGC {
			return in
		}
		cs := staticCallsTo(region, in.Parent())
		if len(cs) != 1 {
			return nil
		}
		in = cs[0].(ssa.Instruction)
	}
	return nil
}

// lockFree: the function performs no lock operation itself and calls nothing of the module that could —
// a look-up helper called inside a critical section runs entirely inside that section ("the caller holds
// the lock").
func lockFree(fn *ssa.Function) bool {
	if fn == nil || fn.Blocks == nil {
		return false
	}
	for _, in := range instrsOf(fn) {
		ci, ok := in.(ssa.CallInstruction)
		if !ok {
			continue
		}
		if _, isB := ci.Common().Value.(*ssa.Builtin); isB {
			continue
		}
		if _, isCall := in.(*ssa.Call); !isCall {
			return false // go / defer
		}
		return false
	}
	return true
}
