package main

// Engine O (order): must-follow on all exits, with deferred calls and the
// continuation axiom of Synchronize (checked by C07.O1): Synchronize returns
// nil iff it ran its continuation to completion.

import (
	"go/token"
	"go/types"

	"golang.org/x/tools/go/ssa"
)

// rootOf follows a value up through conversions, parameters with a unique
// static caller, captured variables and single-store cells. The result
// identifies "the same runtime value" across functions of one session.
func (sl *Slicer) rootOf(v ssa.Value) ssa.Value {
	for i := 0; i < 16; i++ {
		v = strip(v)
		switch x := v.(type) {
		case *ssa.Parameter:
			cs := sl.callers[x.Parent()]
			if len(cs) > 1 && len(cs) <= 6 && sl.rootDepth < 4 {
				// several callers that all pass the same thing (a `fail(err)` method of the session object
				// called from three places): that thing
				idx := paramIndex(x)
				var common ssa.Value
				same := idx >= 0
				sl.rootDepth++
				for _, c := range cs {
					args := c.Common().Args
					if idx >= len(args) || len(args) != len(x.Parent().Params) {
						same = false
						break
					}
					r := sl.rootOf(args[idx])
					if common != nil && r != common {
						same = false
						break
					}
					common = r
				}
				sl.rootDepth--
				if same && common != nil {
					if _, isP := common.(*ssa.Parameter); !isP || common != v {
						return common
					}
				}
				return v
			}
			if len(cs) != 1 {
				return v
			}
			idx := paramIndex(x)
			args := cs[0].Common().Args
			if idx < 0 || idx >= len(args) || len(args) != len(x.Parent().Params) {
				return v
			}
			v = args[idx]
			continue
		case *ssa.UnOp:
			if x.Op != token.MUL {
				return v
			}
			// a field of a session object — a struct built once by a composite literal, the field never
			// written again — read through a method's receiver or a captured pointer: the value the
			// literal gave it (the field plays the part of a captured variable)
			if fa, ok := x.X.(*ssa.FieldAddr); ok {
				if fv := sl.sessionFieldValue(fa); fv != nil {
					v = fv
					continue
				}
				return v
			}
			cell := cellOf(x.X)
			if cell == nil {
				return v
			}
			sts := storesToCell(cell)
			if len(sts) != 1 {
				return cell
			}
			v = sts[0].Val
			continue
		case *ssa.Call, *ssa.Extract:
			// what a transparent constructor / helper hands back (`report := newSignReport()`)
			if r := resultOf(v); r != v {
				v = r
				continue
			}
			return v
		case *ssa.FreeVar:
			// a captured value (not a cell)
			fn := x.Parent()
			idx := -1
			for k, fv := range fn.FreeVars {
				if fv == x {
					idx = k
				}
			}
			mcs := sl.closures[fn]
			if len(mcs) != 1 || idx < 0 {
				return v
			}
			v = mcs[0].Bindings[idx]
			continue
		}
		return v
	}
	return v
}

// sessionFieldValue: fa addresses field f of an object that rootOf traces to a composite literal of an
// unexported own struct type in which f is set; nothing else in the package stores to f.
func (sl *Slicer) sessionFieldValue(fa *ssa.FieldAddr) ssa.Value {
	f := fieldOfAddr(fa)
	if f.Exported() || f.Pkg() == nil || !ownPkgPath(f.Pkg().Path()) {
		return nil
	}
	if sl.sessDepth > 6 {
		return nil
	}
	sl.sessDepth++
	base := sl.rootOf(fa.X)
	sl.sessDepth--
	alloc, ok := base.(*ssa.Alloc)
	if !ok {
		return nil
	}
	if pt, isP := alloc.Type().Underlying().(*types.Pointer); !isP || namedOf(pt.Elem()) == nil || namedOf(pt.Elem()).Obj().Exported() {
		return nil
	}
	val, ok := structLitFieldValue(alloc, f)
	if !ok {
		return nil
	}
	// no other store to the field anywhere in the analysed package(s)
	n := 0
	for _, fn := range sl.fns {
		n += len(storesToField([]*ssa.Function{fn}, f))
	}
	if n != 1 {
		return nil
	}
	return val
}

func (sl *Slicer) sameRoot(a, b ssa.Value) bool {
	ra, rb := sl.rootOf(a), sl.rootOf(b)
	if ra == rb {
		return true
	}
	// two reads of one slot of one session object: a field that is assigned exactly once in the program
	// (after the literal, e.g. `r.syncTopic = hash(…)`), read through receivers that trace to one object
	la, okA := ra.(*ssa.UnOp)
	lb, okB := rb.(*ssa.UnOp)
	if !okA || !okB || la.Op != token.MUL || lb.Op != token.MUL {
		return false
	}
	fa, okA := la.X.(*ssa.FieldAddr)
	fb, okB := lb.X.(*ssa.FieldAddr)
	if !okA || !okB || fieldOfAddr(fa) != fieldOfAddr(fb) {
		return false
	}
	f := fieldOfAddr(fa)
	if f.Exported() || fieldStoreCount[f] != 1 {
		return false
	}
	oa, ob := sl.rootOf(fa.X), sl.rootOf(fb.X)
	_, isAlloc := oa.(*ssa.Alloc)
	return isAlloc && oa == ob
}

// calleeOfInstr resolves a call/defer/go to a function: static callee, closure literal, or local closure variable.
func (sl *Slicer) calleeOfInstr(ci ssa.CallInstruction) *ssa.Function {
	if f := staticCallee(ci.Common()); f != nil {
		return f
	}
	return sl.localClosureCallee(ci.Common().Value)
}

// pathToReturnAvoiding searches a path from just after `from` to a Return on
// which no instruction satisfies done. armed(in) marks instructions after
// which every exit is fine (a deferred release). skipEdge lets the caller
// declare edges on which the obligation is met by an axiom.
// Returns the blocks of a counter-example path, or nil.
func pathToReturnAvoiding(from ssa.Instruction, done func(ssa.Instruction) bool, skipEdge func(b *ssa.BasicBlock, succ int) bool) []*ssa.BasicBlock {
	return pathToExitAvoiding(from, done, skipEdge, false)
}

// pathToExitAvoiding with perInvocation: when from lies in a transparent helper, reaching the helper's
// own call site again (the caller's loop starts the next invocation) also ends a counter-example
// path.  Obligations of the form "before this invocation is over" need this when the caller never
// returns (a `for {}` worker loop): without it no Return is reachable and the obligation would hold
// vacuously.
func pathToExitAvoiding(from ssa.Instruction, done func(ssa.Instruction) bool, skipEdge func(b *ssa.BasicBlock, succ int) bool, perInvocation bool) []*ssa.BasicBlock {
	reentry := map[ssa.Instruction]bool{}
	if perInvocation {
		for f, n := from.Parent(), 0; f != nil && n < 8; n++ {
			c := helperCall(f)
			if c == nil {
				break
			}
			reentry[c] = true
			f = c.Parent()
		}
	}
	// The search runs over the control flow of from's function extended by its transparent helpers
	// (inline.go): a call to such a helper enters the helper's body, a Return of the helper continues
	// after its only call site.  A Return of any other function ends a counter-example path.
	type state struct {
		b    *ssa.BasicBlock
		idx  int
		path []*ssa.BasicBlock
	}
	type key struct {
		b   *ssa.BasicBlock
		idx int
	}
	visited := map[key]bool{}
	stack := []state{{from.Block(), instrIndex(from) + 1, []*ssa.BasicBlock{from.Block()}}}
	_ = from.Parent()
	for len(stack) > 0 {
		st := stack[len(stack)-1]
		stack = stack[:len(stack)-1]
		k := key{st.b, st.idx}
		if visited[k] || st.b == st.b.Parent().Recover {
			continue
		}
		visited[k] = true
		fn := st.b.Parent()
		met, ended := false, false
		for i := st.idx; i < len(st.b.Instrs); i++ {
			in := st.b.Instrs[i]
			if done(in) {
				met = true
				break
			}
			if reentry[in] {
				return st.path
			}
			if g := isHelperCall(in); g != nil && len(g.Blocks) > 0 {
				stack = append(stack, state{g.Blocks[0], 0, append(append([]*ssa.BasicBlock(nil), st.path...), g.Blocks[0])})
				ended = true
				break
			}
			if _, ok := in.(*ssa.Return); ok {
				if c := helperCall(fn); c != nil {
					// back to the caller, right after the call
					stack = append(stack, state{c.Block(), instrIndex(c) + 1, append(append([]*ssa.BasicBlock(nil), st.path...), c.Block())})
					ended = true
					break
				}
				return st.path
			}
		}
		if met || ended {
			continue
		}
		for j, s := range st.b.Succs {
			if skipEdge != nil && skipEdge(st.b, j) {
				continue
			}
			stack = append(stack, state{s, 0, append(append([]*ssa.BasicBlock(nil), st.path...), s)})
		}
	}
	return nil
}

func describePath(m *Module, p []*ssa.BasicBlock) string {
	s := ""
	for i, b := range p {
		if i > 0 {
			s += "→"
		}
		s += b.Comment
		if len(b.Instrs) > 0 {
			for _, in := range b.Instrs {
				if in.Pos().IsValid() {
					pos := m.Fset.Position(in.Pos())
					s += "@" + itoa(pos.Line)
					break
				}
			}
		}
	}
	return s
}

func itoa(i int) string {
	if i == 0 {
		return "0"
	}
	neg := i < 0
	if neg {
		i = -i
	}
	var b []byte
	for i > 0 {
		b = append([]byte{byte('0' + i%10)}, b...)
		i /= 10
	}
	if neg {
		b = append([]byte{'-'}, b...)
	}
	return string(b)
}

// syncErrNilEdge: for `err := X.Synchronize(ctx, cont, ...)` tested by `if err != nil`,
// returns a skipEdge predicate that drops the err==nil edge when contOK(cont)
// (the continuation ran, so whatever it guarantees on all of its exits holds).
func syncNilEdgeSkipper(sl *Slicer, fn *ssa.Function, contOK func(cont *ssa.Function) bool) func(b *ssa.BasicBlock, succ int) bool {
	type edge struct {
		b    *ssa.BasicBlock
		succ int
	}
	skip := map[edge]bool{}
	for _, g := range deepFuncs(fn) { // the function with the helpers inlined into it
		for _, in := range instrsOf(g) {
			cl, ok := in.(*ssa.Call)
			if !ok || !invokesMethod(&cl.Call, "Synchronize") || len(cl.Call.Args) < 2 {
				continue
			}
			cont := sl.localClosureCallee(cl.Call.Args[1])
			if cont == nil || !contOK(cont) {
				continue
			}
			for _, b := range g.Blocks {
				if len(b.Instrs) == 0 {
					continue
				}
				iff, ok := b.Instrs[len(b.Instrs)-1].(*ssa.If)
				if !ok {
					continue
				}
				f := factOf(Guard{iff, true})
				if (f.Op == token.NEQ || f.Op == token.EQL) && isNilConst(f.Y) && errValueOf(f.X) == ssa.Value(cl) {
					nilSucc := 1
					if f.Op == token.EQL {
						nilSucc = 0
					}
					skip[edge{b, nilSucc}] = true
				}
			}
		}
	}
	return func(b *ssa.BasicBlock, succ int) bool { return skip[edge{b, succ}] }
}

// errValueOf: v is the call result itself or a load of a cell that stores it.
func errValueOf(v ssa.Value) ssa.Value {
	v = strip(v)
	if u, ok := v.(*ssa.UnOp); ok && u.Op == token.MUL {
		if cell := cellOf(u.X); cell != nil {
			sts := storesToCell(cell)
			// the cell may be assigned several errors (err reused); pick the store that dominates the load and is nearest
			var best *ssa.Store
			for _, st := range sts {
				if st.Parent() == u.Parent() && instrDominates(st, u) {
					if best == nil || instrDominates(best, st) {
						best = st
					}
				}
			}
			if best != nil {
				return strip(best.Val)
			}
		}
	}
	return v
}

// ---------------------------------------------------------------------------
// post-dominators and control dependence (per function; CFGs here are small)

type ctrlDep struct {
	fn   *ssa.Function
	pdom map[*ssa.BasicBlock]map[*ssa.BasicBlock]bool // pdom[b] = blocks post-dominating b (including b)
}

func newCtrlDep(fn *ssa.Function) *ctrlDep {
	cd := &ctrlDep{fn: fn, pdom: map[*ssa.BasicBlock]map[*ssa.BasicBlock]bool{}}
	all := map[*ssa.BasicBlock]bool{}
	for _, b := range fn.Blocks {
		all[b] = true
	}
	for _, b := range fn.Blocks {
		if len(b.Succs) == 0 {
			cd.pdom[b] = map[*ssa.BasicBlock]bool{b: true}
		} else {
			s := map[*ssa.BasicBlock]bool{}
			for k := range all {
				s[k] = true
			}
			cd.pdom[b] = s
		}
	}
	for changed := true; changed; {
		changed = false
		for i := len(fn.Blocks) - 1; i >= 0; i-- {
			b := fn.Blocks[i]
			if len(b.Succs) == 0 {
				continue
			}
			ns := map[*ssa.BasicBlock]bool{}
			for k := range cd.pdom[b.Succs[0]] {
				ns[k] = true
			}
			for _, s := range b.Succs[1:] {
				for k := range ns {
					if !cd.pdom[s][k] {
						delete(ns, k)
					}
				}
			}
			ns[b] = true
			if len(ns) != len(cd.pdom[b]) {
				cd.pdom[b] = ns
				changed = true
			}
		}
	}
	return cd
}

// dependsOn: is block x control dependent on edge (b, k)?
func (cd *ctrlDep) dependsOn(x, b *ssa.BasicBlock, k int) bool {
	if len(b.Succs) < 2 {
		return false
	}
	s := b.Succs[k]
	if !cd.pdom[s][x] {
		return false
	}
	return x == b || !cd.pdom[b][x]
}

// dependsOnT: transitive control dependence of x on edge (b, k).
func (cd *ctrlDep) dependsOnT(x, b *ssa.BasicBlock, k int) bool {
	seen := map[*ssa.BasicBlock]bool{}
	var rec func(y *ssa.BasicBlock) bool
	rec = func(y *ssa.BasicBlock) bool {
		if seen[y] {
			return false
		}
		seen[y] = true
		if cd.dependsOn(y, b, k) {
			return true
		}
		for _, c := range cd.fn.Blocks {
			for j := range c.Succs {
				if len(c.Succs) >= 2 && cd.dependsOn(y, c, j) && c != y && rec(c) {
					return true
				}
			}
		}
		return false
	}
	return rec(x)
}

// decidedExit: an If edge that lies on a path from the entry to a Return on which `done` never holds.
type decidedExit struct {
	B   *ssa.BasicBlock
	K   int
	Ret *ssa.BasicBlock
}

// undoneExits lists, for every return block reachable from the entry without passing a `done`
// instruction (and without taking a skipped edge), the If edges on such paths that the return is
// (transitively) control dependent on.  A return reachable with no deciding edge at all is reported
// with B == nil.
func undoneExits(fn *ssa.Function, done func(ssa.Instruction) bool, skipEdge func(b *ssa.BasicBlock, succ int) bool) []decidedExit {
	if fn.Blocks == nil {
		return nil
	}
	reg := map[*ssa.BasicBlock]bool{}
	isRet := map[*ssa.BasicBlock]bool{}
	for _, b := range fn.Blocks {
		for _, in := range b.Instrs {
			if done(in) {
				reg[b] = true
				break
			}
			if _, ok := in.(*ssa.Return); ok {
				isRet[b] = true
			}
		}
	}
	// forward: block entries reachable undone
	uin := map[*ssa.BasicBlock]bool{}
	var fw func(b *ssa.BasicBlock)
	fw = func(b *ssa.BasicBlock) {
		if uin[b] || b == fn.Recover {
			return
		}
		uin[b] = true
		if reg[b] {
			return
		}
		for k, s := range b.Succs {
			if skipEdge != nil && skipEdge(b, k) {
				continue
			}
			fw(s)
		}
	}
	fw(fn.Blocks[0])
	// backward: returns reachable undone from a block's entry
	vr := map[*ssa.BasicBlock]map[*ssa.BasicBlock]bool{}
	for changed := true; changed; {
		changed = false
		for _, b := range fn.Blocks {
			if reg[b] {
				continue
			}
			if vr[b] == nil {
				vr[b] = map[*ssa.BasicBlock]bool{}
			}
			n := len(vr[b])
			if isRet[b] {
				vr[b][b] = true
			}
			for k, s := range b.Succs {
				if skipEdge != nil && skipEdge(b, k) {
					continue
				}
				for r := range vr[s] {
					vr[b][r] = true
				}
			}
			if len(vr[b]) != n {
				changed = true
			}
		}
	}
	cd := newCtrlDep(fn)
	var out []decidedExit
	for _, r := range fn.Blocks {
		if !isRet[r] || !uin[r] || reg[r] {
			continue
		}
		any := false
		for _, b := range fn.Blocks {
			if !uin[b] || reg[b] || len(b.Succs) < 2 {
				continue
			}
			for k, s := range b.Succs {
				if skipEdge != nil && skipEdge(b, k) {
					continue
				}
				if (s == r || vr[s][r]) && cd.dependsOnT(r, b, k) {
					out = append(out, decidedExit{b, k, r})
					any = true
				}
			}
		}
		if !any {
			out = append(out, decidedExit{nil, 0, r})
		}
	}
	return out
}

// blockPos: the last source position in a block (If instructions carry none).
func blockPos(b *ssa.BasicBlock) token.Pos {
	for i := len(b.Instrs) - 1; i >= 0; i-- {
		if p := b.Instrs[i].Pos(); p.IsValid() {
			return p
		}
		if v, ok := b.Instrs[i].(ssa.Value); ok {
			_ = v
		}
	}
	return token.NoPos
}

// calleeMustPass: every path through g from its entry to a return passes an instruction satisfying
// pred (directly or inside a callee that must pass one).  A context-free summary, valid for any caller.
func calleeMustPass(g *ssa.Function, pred func(ssa.Instruction) bool, depth int) bool {
	if g == nil || len(g.Blocks) == 0 || len(g.Blocks[0].Instrs) == 0 || depth > 3 {
		return false
	}
	first := g.Blocks[0].Instrs[0]
	d := withCallees(pred, depth+1)
	if d(first) {
		return true
	}
	return pathToReturnAvoiding(first, d, nil) == nil
}

// withCallees extends an event predicate to calls of own functions that must pass the event.
func withCallees(pred func(ssa.Instruction) bool, depth int) func(ssa.Instruction) bool {
	return func(in ssa.Instruction) bool {
		if pred(in) {
			return true
		}
		if c, ok := in.(*ssa.Call); ok {
			if g := c.Call.StaticCallee(); g != nil && g.Blocks != nil && ownPkgPath(pkgPathOf(g)) && isHelperCall(in) == nil {
				return calleeMustPass(g, pred, depth)
			}
		}
		return false
	}
}

// passesOnEdge: every path that leaves block b through successor succ reaches, before any return, an
// instruction satisfying pred (callee summaries included).
func passesOnEdge(b *ssa.BasicBlock, succ int, pred func(ssa.Instruction) bool) bool {
	last := b.Instrs[len(b.Instrs)-1]
	return pathToReturnAvoiding(last, withCallees(pred, 0), func(x *ssa.BasicBlock, k int) bool { return x == b && k != succ }) == nil
}

// passesOnEdgeInv: like passesOnEdge, per invocation of the enclosing transparent helper (see pathToExitAvoiding).
func passesOnEdgeInv(b *ssa.BasicBlock, succ int, pred func(ssa.Instruction) bool) bool {
	last := b.Instrs[len(b.Instrs)-1]
	return pathToExitAvoiding(last, withCallees(pred, 0), func(x *ssa.BasicBlock, k int) bool { return x == b && k != succ }, true) == nil
}
