package main

// Engine O (order): must-follow on all exits, with deferred calls and the
// continuation axiom of Synchronize (checked by C07.O1): Synchronize returns
// nil iff it ran its continuation to completion.

import (
	"go/token"

	"golang.org/x/tools/go/ssa"
)

// rootOf follows a value up through conversions, parameters with a unique
// static caller, captured variables and single-store cells. The result
// identifies "the same runtime value" across functions of one session.
func (sl *Slicer) rootOf(v ssa.Value) ssa.Value {
	for i := 0; i < 16; i++ {
		v = strip(v)
		switch x := v.(type) {
		case *ssa.Parameter:
			cs := sl.callers[x.Parent()]
			if len(cs) != 1 {
				return v
			}
			idx := paramIndex(x)
			args := cs[0].Common().Args
			if idx < 0 || idx >= len(args) || len(args) != len(x.Parent().Params) {
				return v
			}
			v = args[idx]
			continue
		case *ssa.UnOp:
			if x.Op != token.MUL {
				return v
			}
			cell := cellOf(x.X)
			if cell == nil {
				return v
			}
			sts := storesToCell(cell)
			if len(sts) != 1 {
				return cell
			}
			v = sts[0].Val
			continue
		case *ssa.FreeVar:
			// a captured value (not a cell)
			fn := x.Parent()
			idx := -1
			for k, fv := range fn.FreeVars {
				if fv == x {
					idx = k
				}
			}
			mcs := sl.closures[fn]
			if len(mcs) != 1 || idx < 0 {
				return v
			}
			v = mcs[0].Bindings[idx]
			continue
		}
		return v
	}
	return v
}

func (sl *Slicer) sameRoot(a, b ssa.Value) bool {
	ra, rb := sl.rootOf(a), sl.rootOf(b)
	return ra == rb
}

// calleeOfInstr resolves a call/defer/go to a function: static callee, closure literal, or local closure variable.
func (sl *Slicer) calleeOfInstr(ci ssa.CallInstruction) *ssa.Function {
	if f := staticCallee(ci.Common()); f != nil {
		return f
	}
	return sl.localClosureCallee(ci.Common().Value)
}

// pathToReturnAvoiding searches a path from just after `from` to a Return on
// which no instruction satisfies done. armed(in) marks instructions after
// which every exit is fine (a deferred release). skipEdge lets the caller
// declare edges on which the obligation is met by an axiom.
// Returns the blocks of a counter-example path, or nil.
func pathToReturnAvoiding(from ssa.Instruction, done func(ssa.Instruction) bool, skipEdge func(b *ssa.BasicBlock, succ int) bool) []*ssa.BasicBlock {
	fn := from.Parent()
	start := from.Block()
	idx := instrIndex(from)
	type state struct {
		b    *ssa.BasicBlock
		path []*ssa.BasicBlock
	}
	visited := map[*ssa.BasicBlock]bool{}
	// scan the rest of the start block
	scan := func(b *ssa.BasicBlock, fromIdx int) (met bool, isReturn bool) {
		for k := fromIdx; k < len(b.Instrs); k++ {
			in := b.Instrs[k]
			if done(in) {
				return true, false
			}
			if _, ok := in.(*ssa.Return); ok {
				return false, true
			}
		}
		return false, false
	}
	met, isRet := scan(start, idx+1)
	if met {
		return nil
	}
	if isRet {
		return []*ssa.BasicBlock{start}
	}
	var stack []state
	for k, s := range start.Succs {
		if skipEdge != nil && skipEdge(start, k) {
			continue
		}
		stack = append(stack, state{s, []*ssa.BasicBlock{start, s}})
	}
	for len(stack) > 0 {
		st := stack[len(stack)-1]
		stack = stack[:len(stack)-1]
		if visited[st.b] || st.b == fn.Recover {
			continue
		}
		visited[st.b] = true
		met, isRet := scan(st.b, 0)
		if met {
			continue
		}
		if isRet {
			return st.path
		}
		for k, s := range st.b.Succs {
			if skipEdge != nil && skipEdge(st.b, k) {
				continue
			}
			np := append(append([]*ssa.BasicBlock(nil), st.path...), s)
			stack = append(stack, state{s, np})
		}
	}
	return nil
}

func describePath(m *Module, p []*ssa.BasicBlock) string {
	s := ""
	for i, b := range p {
		if i > 0 {
			s += "→"
		}
		s += b.Comment
		if len(b.Instrs) > 0 {
			for _, in := range b.Instrs {
				if in.Pos().IsValid() {
					pos := m.Fset.Position(in.Pos())
					s += "@" + itoa(pos.Line)
					break
				}
			}
		}
	}
	return s
}

func itoa(i int) string {
	if i == 0 {
		return "0"
	}
	neg := i < 0
	if neg {
		i = -i
	}
	var b []byte
	for i > 0 {
		b = append([]byte{byte('0' + i%10)}, b...)
		i /= 10
	}
	if neg {
		b = append([]byte{'-'}, b...)
	}
	return string(b)
}

// syncErrNilEdge: for `err := X.Synchronize(ctx, cont, ...)` tested by `if err != nil`,
// returns a skipEdge predicate that drops the err==nil edge when contOK(cont)
// (the continuation ran, so whatever it guarantees on all of its exits holds).
func syncNilEdgeSkipper(sl *Slicer, fn *ssa.Function, contOK func(cont *ssa.Function) bool) func(b *ssa.BasicBlock, succ int) bool {
	type edge struct {
		b    *ssa.BasicBlock
		succ int
	}
	skip := map[edge]bool{}
	for _, in := range instrsOf(fn) {
		cl, ok := in.(*ssa.Call)
		if !ok || !invokesMethod(&cl.Call, "Synchronize") || len(cl.Call.Args) < 2 {
			continue
		}
		cont := sl.localClosureCallee(cl.Call.Args[1])
		if cont == nil || !contOK(cont) {
			continue
		}
		for _, b := range fn.Blocks {
			iff, ok := b.Instrs[len(b.Instrs)-1].(*ssa.If)
			if !ok {
				continue
			}
			f := factOf(Guard{iff, true})
			if (f.Op == token.NEQ || f.Op == token.EQL) && isNilConst(f.Y) && errValueOf(f.X) == ssa.Value(cl) {
				nilSucc := 1
				if f.Op == token.EQL {
					nilSucc = 0
				}
				skip[edge{b, nilSucc}] = true
			}
		}
	}
	return func(b *ssa.BasicBlock, succ int) bool { return skip[edge{b, succ}] }
}

// errValueOf: v is the call result itself or a load of a cell that stores it.
func errValueOf(v ssa.Value) ssa.Value {
	v = strip(v)
	if u, ok := v.(*ssa.UnOp); ok && u.Op == token.MUL {
		if cell := cellOf(u.X); cell != nil {
			sts := storesToCell(cell)
			// the cell may be assigned several errors (err reused); pick the store that dominates the load and is nearest
			var best *ssa.Store
			for _, st := range sts {
				if st.Parent() == u.Parent() && instrDominates(st, u) {
					if best == nil || instrDominates(best, st) {
						best = st
					}
				}
			}
			if best != nil {
				return strip(best.Val)
			}
		}
	}
	return v
}
