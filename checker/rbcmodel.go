package main

// Structural model of package rbc shared by C02, C03, C04.

import (
	"go/token"
	"go/types"

	"golang.org/x/tools/go/ssa"
)

type rbcModel struct {
	m   *Module
	fns []*ssa.Function

	receiver                          *types.Named
	idSet                             *types.Named
	fSelfID, fN, fFwd, fAck           *types.Var
	fReception, fPinned, fEquiv       *types.Var
	fEntryM, fEntryIDSet              *types.Var
	fRecSender, fRecDigest, fRecRound *types.Var
	receive                           *ssa.Function
	entries                           map[*ssa.Function]bool
	inserts                           []*ssa.MapUpdate
	handovers                         []ssa.CallInstruction
	bcastHandovers, p2pHandovers      []ssa.CallInstruction
	ackInvokes                        []ssa.CallInstruction
	paramM, paramFrom                 *ssa.Parameter
}

func buildRBCModel(c *Ctx) *rbcModel {
	m := c.Mod(ModRoot)
	if m == nil {
		return nil
	}
	r := &rbcModel{m: m}
	r.fns = m.PkgFuncs(PkgRBC)
	if len(r.fns) == 0 {
		c.Fatalf("anchor", "package rbc has no functions")
		return nil
	}
	for _, f := range r.fns {
		c.Analysed(FuncName(f))
	}
	r.receiver = c.mustType(m, PkgRBC, "Receiver")
	r.idSet = c.mustType(m, PkgRBC, "idSet")
	r.fSelfID = c.mustField(m, PkgRBC, "Receiver", "SelfID")
	r.fN = c.mustField(m, PkgRBC, "Receiver", "N")
	r.fFwd = c.mustField(m, PkgRBC, "Receiver", "ForwardToBackend")
	r.fAck = c.mustField(m, PkgRBC, "Receiver", "BroadcastAck")
	r.fReception = c.mustField(m, PkgRBC, "Receiver", "reception")
	r.fPinned = c.mustField(m, PkgRBC, "Receiver", "receivedRoundFromSender")
	r.fEquiv = c.mustField(m, PkgRBC, "Receiver", "equivocationDetected")
	r.fEntryM = c.mustField(m, PkgRBC, "msgAndIdSet", "m")
	r.fEntryIDSet = c.mustField(m, PkgRBC, "msgAndIdSet", "idSet")
	r.fRecSender = c.mustField(m, PkgRBC, "msgReception", "sender")
	r.fRecDigest = c.mustField(m, PkgRBC, "msgReception", "digest")
	r.fRecRound = c.mustField(m, PkgRBC, "msgReception", "msgRound")
	r.receive = c.mustFunc(m, PkgRBC, "Receiver", "Receive")
	if len(c.fatal) > 0 || r.receive == nil {
		return nil
	}
	if len(r.receive.Params) != 3 {
		c.Fatalf("anchor", "Receiver.Receive no longer has the (m, from) signature")
		return nil
	}
	r.paramM, r.paramFrom = r.receive.Params[1], r.receive.Params[2]
	r.entries = map[*ssa.Function]bool{r.receive: true}
	r.inserts = mapUpdatesOfType(r.fns, r.idSet)
	r.handovers = callsOfFuncField(r.fns, r.fFwd)
	for _, h := range r.handovers {
		ctxs, ok := contextsOf(h, r.entries, r.fns, 3)
		p2p := ok && len(ctxs) > 0
		for _, sc := range ctxs {
			if !boolFact(sc.Facts(), false, func(v ssa.Value) bool {
				cl, ok := v.(*ssa.Call)
				return ok && invokesMethod(&cl.Call, "WasBroadcast")
			}) {
				p2p = false
			}
		}
		if p2p {
			r.p2pHandovers = append(r.p2pHandovers, h)
		} else {
			r.bcastHandovers = append(r.bcastHandovers, h)
		}
	}
	r.ackInvokes = invokesOf(r.fns, "Ack")
	setQuorumForms(r)
	return r
}

// isAckSender: v is result #1 of an Ack() invoke (the party an acknowledgement is about).
func (r *rbcModel) isAckSender(v ssa.Value) bool {
	e, ok := strip(v).(*ssa.Extract)
	if !ok || e.Index != 1 {
		return false
	}
	cl, ok := e.Tuple.(*ssa.Call)
	return ok && invokesMethod(&cl.Call, "Ack")
}

func (r *rbcModel) isAckDigest(v ssa.Value) bool {
	e, ok := strip(v).(*ssa.Extract)
	if !ok || e.Index != 0 {
		return false
	}
	cl, ok := e.Tuple.(*ssa.Call)
	return ok && invokesMethod(&cl.Call, "Ack")
}

// receptionKeyOf: the msgReception value keying the entry whose voucher set / message is touched by v's address chain.
func (r *rbcModel) receptionKeyOf(v ssa.Value) ssa.Value {
	v = strip(v)
	for i := 0; i < 8 && v != nil; i++ {
		if i > 0 {
			// a helper working on the entry it is given: the entry its caller passes
			if _, isP := v.(*ssa.Parameter); isP {
				v = strip(v)
			}
		}
		switch x := v.(type) {
		case *ssa.UnOp:
			if x.Op != token.MUL {
				return nil
			}
			v = x.X
		case *ssa.FieldAddr:
			v = x.X
		case *ssa.Field:
			v = x.X
		case *ssa.Extract:
			v = x.Tuple
		case *ssa.Call:
			// entry := r.entryOf(key): a get-or-create helper — what it returns
			rv := resultOf(x)
			if rv == ssa.Value(x) {
				return nil
			}
			v = rv
		case *ssa.Lookup:
			if isLoadOfField(x.X, r.fReception) {
				return x.Index
			}
			return nil
		case *ssa.Phi:
			// entry := existing or newly created: all edges must agree
			var key ssa.Value
			for _, e := range x.Edges {
				k := r.receptionKeyOf(e)
				if k == nil {
					continue
				}
				if key != nil && strip(k) != strip(key) {
					return nil
				}
				key = k
			}
			return key
		default:
			return nil
		}
	}
	return nil
}

// senderOfReception resolves the `sender` component of a reception key in a context.
func (r *rbcModel) senderOfReception(sc SiteCtx, key ssa.Value) ssa.Value {
	if key == nil {
		return nil
	}
	k := sc.Resolve(key)
	if v := structFieldValue(k, r.fRecSender, 0); v != nil {
		return strip(v)
	}
	return nil
}

func (r *rbcModel) isSelfID(v ssa.Value) bool { return isLoadOfField(v, r.fSelfID) }

// ackPathFact: the fact says the message is an acknowledgement (its Ack() digest is non-empty).
func (r *rbcModel) ackPathFact(f Fact) bool {
	x, isLen := lenOperand(strip(f.X))
	if !isLen || !r.isAckDigest(x) {
		return false
	}
	k, isK := constInt(f.Y)
	if !isK {
		return false
	}
	return (f.Op == token.GTR && k == 0) || (f.Op == token.NEQ && k == 0) || (f.Op == token.GEQ && k == 1)
}

// registrationSites: where Receive (with its transparent helpers) registers a voucher: a call of a
// function that reaches a voucher insertion / hand-over, or such an insertion written in place.
func (r *rbcModel) registrationSites() []ssa.Instruction {
	var out []ssa.Instruction
	for _, in := range instrsDeep(r.receive) {
		if mu, ok := in.(*ssa.MapUpdate); ok {
			for _, x := range r.inserts {
				if x == mu {
					out = append(out, in)
				}
			}
			continue
		}
		ci, ok := in.(ssa.CallInstruction)
		if !ok || isHelperCall(in) != nil {
			continue // a transparent helper's body is part of this listing
		}
		cal := staticCallee(ci.Common())
		if cal != nil && r.reachesSink(cal, map[*ssa.Function]bool{}) {
			out = append(out, in)
		}
	}
	return out
}
