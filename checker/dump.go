package main

import (
	"fmt"
	"sort"

	"golang.org/x/tools/go/ssa"
)

// dumpPanics lists explicit panics and unchecked type assertions of all own packages (development aid).
func dumpPanics(repo string) {
	for _, rel := range []string{ModRoot, ModBLS, ModPS, ModECDSA, ModEDDSA} {
		m, err := LoadModule(repo, rel)
		if err != nil {
			fmt.Println(err)
			continue
		}
		for _, p := range m.InitialOwn() {
			var lines []string
			for _, fn := range m.PkgFuncs(p.PkgPath) {
				for _, in := range instrsOf(fn) {
					switch x := in.(type) {
					case *ssa.Panic:
						if x.Pos().IsValid() {
							lines = append(lines, fmt.Sprintf("%s | panic | %s | %s", FuncName(fn), panicText(x), m.Pos(x.Pos())))
						}
					case *ssa.TypeAssert:
						if !x.CommaOk && x.Pos().IsValid() {
							lines = append(lines, fmt.Sprintf("%s | assert | %s | %s", FuncName(fn), render(x), m.Pos(x.Pos())))
						}
					}
				}
			}
			sort.Strings(lines)
			for _, l := range lines {
				fmt.Println(l)
			}
		}
	}
}
