package main

// Engine L (lockset): must-held locks per instruction.
// Locks are abstracted by the mutex *field* (struct type + field), instances
// of one type are not distinguished. `defer x.Unlock()` keeps the lock until
// the function exits. Entry locksets are the intersection over all static
// call sites; functions that escape (used as values, `go`, deferred,
// exported, methods callable through interfaces) start with the empty set.

import (
	"go/token"
	"go/types"
	"sort"
	"strings"

	"golang.org/x/tools/go/ssa"
)

type LockMode int

const (
	LockR LockMode = 1
	LockW LockMode = 2
)

type LockSet map[*types.Var]LockMode

func (l LockSet) clone() LockSet {
	o := LockSet{}
	for k, v := range l {
		o[k] = v
	}
	return o
}

func (l LockSet) String() string {
	var s []string
	for k, v := range l {
		m := "W"
		if v == LockR {
			m = "R"
		}
		s = append(s, k.Name()+":"+m)
	}
	sort.Strings(s)
	return "{" + strings.Join(s, ",") + "}"
}

func meet(a, b LockSet) LockSet {
	if a == nil {
		return b.clone()
	}
	if b == nil {
		return a.clone()
	}
	o := LockSet{}
	for k, v := range a {
		if w, ok := b[k]; ok {
			if w < v {
				v = w
			}
			o[k] = v
		}
	}
	return o
}

func equalLS(a, b LockSet) bool {
	if (a == nil) != (b == nil) || len(a) != len(b) {
		return false
	}
	for k, v := range a {
		if b[k] != v {
			return false
		}
	}
	return true
}

type LockAnalysis struct {
	fns     []*ssa.Function
	inPkg   map[*ssa.Function]bool
	callers map[*ssa.Function][]ssa.CallInstruction
	escapes map[*ssa.Function]bool
	entry   map[*ssa.Function]LockSet // nil = TOP (not yet constrained)
	before  map[ssa.Instruction]LockSet
	sl      *Slicer
	// a literal passed to a callee that only calls it back synchronously: where it is passed and where
	// it is invoked.  Its entry lockset is what is held at the invocation, plus what the passing call
	// holds and the functions in between do not release.
	callbacks map[*ssa.Function][]callbackSite
}

type callbackSite struct {
	pass ssa.CallInstruction
	inv  *ssa.Call
}

// lockOp classifies a call as a lock operation on a mutex field.
func lockOp(cc *ssa.CallCommon) (f *types.Var, acquire bool, mode LockMode, ok bool) {
	o := calleeObj(cc)
	if o == nil || o.Pkg() == nil || o.Pkg().Path() != "sync" {
		return nil, false, 0, false
	}
	sig := o.Type().(*types.Signature)
	if sig.Recv() == nil || len(cc.Args) == 0 {
		return nil, false, 0, false
	}
	rn := namedOf(sig.Recv().Type())
	if rn == nil || (rn.Obj().Name() != "Mutex" && rn.Obj().Name() != "RWMutex") {
		return nil, false, 0, false
	}
	fa, isFA := cc.Args[0].(*ssa.FieldAddr)
	if !isFA {
		return nil, false, 0, false
	}
	f = fieldOfAddr(fa)
	switch o.Name() {
	case "Lock":
		return f, true, LockW, true
	case "RLock":
		return f, true, LockR, true
	case "Unlock":
		return f, false, LockW, true
	case "RUnlock":
		return f, false, LockR, true
	}
	return nil, false, 0, false
}

func NewLockAnalysis(m *Module, sl *Slicer, pkgs ...string) *LockAnalysis {
	la := &LockAnalysis{inPkg: map[*ssa.Function]bool{}, callers: map[*ssa.Function][]ssa.CallInstruction{},
		escapes: map[*ssa.Function]bool{}, entry: map[*ssa.Function]LockSet{}, before: map[ssa.Instruction]LockSet{}, sl: sl,
		callbacks: map[*ssa.Function][]callbackSite{}}
	for _, p := range pkgs {
		la.fns = append(la.fns, m.PkgFuncs(p)...)
	}
	for _, f := range la.fns {
		la.inPkg[f] = true
	}
	for _, fn := range la.fns {
		for _, in := range instrsOf(fn) {
			switch x := in.(type) {
			case *ssa.Call:
				callee := staticCallee(&x.Call)
				if callee == nil {
					callee = sl.localClosureCallee(x.Call.Value)
				}
				if callee != nil && la.inPkg[callee] {
					la.callers[callee] = append(la.callers[callee], x)
				}
				// function values passed as arguments escape — unless the callee only calls them synchronously
				for i, a := range x.Call.Args {
					if mc, ok := strip(a).(*ssa.MakeClosure); ok && callee != nil && la.inPkg[callee] && i < len(callee.Params) && syncOnlyParam(callee, i, map[*ssa.Function]bool{}) {
						// the literal runs where the callee invokes its parameter: it starts with the lockset held
						// there (the callee may take a lock before calling back, as a generic wait helper does)
						h := mc.Fn.(*ssa.Function)
						invs := invocationsOfParam(callee, i, map[*ssa.Function]bool{})
						la.callers[h] = append(la.callers[h], x)
						for _, inv := range invs {
							la.callbacks[h] = append(la.callbacks[h], callbackSite{x, inv})
						}
						continue
					}
					la.markEscape(a)
				}
			case *ssa.Go:
				if callee := staticCallee(&x.Call); callee != nil {
					la.escapes[callee] = true
				}
				for _, a := range x.Call.Args {
					la.markEscape(a)
				}
			case *ssa.Defer:
				if callee := staticCallee(&x.Call); callee != nil {
					la.escapes[callee] = true // runs at exit: start empty (conservative)
				}
				for _, a := range x.Call.Args {
					la.markEscape(a)
				}
			case *ssa.Store:
				la.markEscape(x.Val)
			case *ssa.Return:
				for _, r := range x.Results {
					la.markEscape(r)
				}
			case *ssa.MapUpdate:
				la.markEscape(x.Value)
			case *ssa.Send:
				la.markEscape(x.X)
			case *ssa.MakeInterface:
				la.markEscape(x.X)
			case *ssa.MakeClosure:
				for _, b := range x.Bindings {
					la.markEscape(b)
				}
			case *ssa.Phi:
				for _, e := range x.Edges {
					la.markEscape(e)
				}
			}
		}
	}
	for _, f := range la.fns {
		exported := f.Object() != nil && f.Object().Exported()
		isMethod := f.Signature.Recv() != nil
		if exported || la.escapes[f] || len(la.callers[f]) == 0 || (isMethod && implementsSomething(f)) {
			la.entry[f] = LockSet{}
		} else {
			la.entry[f] = nil // TOP
		}
	}
	// fixpoint
	for iter := 0; iter < 20; iter++ {
		changed := false
		la.before = map[ssa.Instruction]LockSet{}
		for _, f := range la.fns {
			la.analyse(f)
		}
		for _, f := range la.fns {
			if la.escapes[f] || len(la.callers[f]) == 0 {
				continue
			}
			exported := f.Object() != nil && f.Object().Exported()
			if exported || (f.Signature.Recv() != nil && implementsSomething(f)) {
				continue
			}
			var acc LockSet
			first := true
			if cbs := la.callbacks[f]; len(cbs) > 0 {
				// a synchronous callback: per (passing call, invocation) pair
				for _, cb := range cbs {
					lp, ok1 := la.before[cb.pass.(ssa.Instruction)]
					li, ok2 := la.before[ssa.Instruction(cb.inv)]
					if !ok1 || !ok2 {
						continue
					}
					ls := li.clone()
					for l, mode := range lp {
						if la.releasedBetween(l, cb) {
							continue
						}
						if ls[l] < mode {
							ls[l] = mode
						}
					}
					if first {
						acc, first = ls, false
					} else {
						acc = meet(acc, ls)
					}
				}
				if !first && !equalLS(la.entry[f], acc) {
					la.entry[f] = acc
					changed = true
				}
				continue
			}
			for _, cs := range la.callers[f] {
				ls, ok := la.before[cs.(ssa.Instruction)]
				if !ok {
					continue // caller block unreachable or TOP
				}
				if first {
					acc = ls.clone()
					first = false
				} else {
					acc = meet(acc, ls)
				}
			}
			if first {
				continue
			}
			if !equalLS(la.entry[f], acc) {
				la.entry[f] = acc
				changed = true
			}
		}
		if !changed {
			break
		}
	}
	return la
}

// implementsSomething: methods with exported names may be called through interfaces.
func implementsSomething(f *ssa.Function) bool {
	return f.Object() != nil && f.Object().Exported()
}

func (la *LockAnalysis) markEscape(v ssa.Value) {
	switch x := strip(v).(type) {
	case *ssa.Function:
		la.escapes[x] = true
	case *ssa.MakeClosure:
		la.escapes[x.Fn.(*ssa.Function)] = true
	}
}

func (la *LockAnalysis) analyse(fn *ssa.Function) {
	entry := la.entry[fn]
	if entry == nil {
		// TOP: not constrained yet; analyse with empty set but do not record (will be redone)
		entry = LockSet{}
	}
	in := make([]LockSet, len(fn.Blocks))
	done := make([]bool, len(fn.Blocks))
	in[0] = entry.clone()
	work := []*ssa.BasicBlock{fn.Blocks[0]}
	for len(work) > 0 {
		b := work[0]
		work = work[1:]
		cur := in[b.Index].clone()
		for _, ins := range b.Instrs {
			la.before[ins] = cur.clone()
			if c, ok := ins.(*ssa.Call); ok {
				if f, acq, mode, ok := lockOp(&c.Call); ok {
					if acq {
						cur[f] = mode
					} else {
						delete(cur, f)
					}
					continue
				}
				// a callee that releases a lock it did not acquire is not modelled (none in this code base)
			}
		}
		for _, s := range b.Succs {
			var nw LockSet
			if !done[s.Index] {
				nw = cur.clone()
			} else {
				nw = meet(in[s.Index], cur)
			}
			if !done[s.Index] || !equalLS(nw, in[s.Index]) {
				in[s.Index] = nw
				done[s.Index] = true
				work = append(work, s)
			}
		}
		done[b.Index] = true
	}
}

// At returns the must-held lockset immediately before instr.
func (la *LockAnalysis) At(instr ssa.Instruction) LockSet {
	if ls, ok := la.before[instr]; ok {
		return ls
	}
	return LockSet{}
}

// Holds: lock field f is held before instr in at least the given mode.
func (la *LockAnalysis) Holds(instr ssa.Instruction, f *types.Var, mode LockMode) bool {
	return la.At(instr)[f] >= mode
}

// sectionID identifies the critical section (the acquiring call) that covers
// instr for lock f: the nearest dominating acquire with no release in between
// on the dominator path (approximation used by the atomicity rules).
func (la *LockAnalysis) sectionOf(instr ssa.Instruction, f *types.Var) ssa.Instruction {
	fn := instr.Parent()
	var best ssa.Instruction
	for _, in := range instrsOf(fn) {
		c, ok := in.(*ssa.Call)
		if !ok {
			continue
		}
		g, acq, _, ok := lockOp(&c.Call)
		if !ok || g != f || !acq {
			continue
		}
		if instrDominates(in, instr) {
			if best == nil || instrDominates(best, in) {
				best = in
			}
		}
	}
	if best == nil {
		// inside a transparent helper that runs under its caller's lock: the section of the call
		if c := helperCall(fn); c != nil && la.At(instr)[f] != 0 {
			hasRelease := false
			for _, in := range instrsOf(fn) {
				if c2, ok := in.(*ssa.Call); ok {
					if g, acq, _, ok := lockOp(&c2.Call); ok && g == f && !acq {
						hasRelease = true
					}
				}
			}
			if !hasRelease {
				return la.sectionOf(c, f)
			}
		}
		return nil
	}
	// no release of f between best and instr on any path: approximated by must-lockset at instr
	if la.At(instr)[f] == 0 {
		return nil
	}
	// and no release dominating instr that is dominated by best
	for _, in := range instrsOf(fn) {
		c, ok := in.(*ssa.Call)
		if !ok {
			continue
		}
		g, acq, _, ok := lockOp(&c.Call)
		if ok && g == f && !acq && instrDominates(best, in) && instrDominates(in, instr) {
			return nil
		}
	}
	return best
}

var _ = token.NoPos

// syncOnlyParam: the func-typed parameter idx of fn is only ever called, or handed to the same
// position of a callee that only calls it (a synchronous callback such as an enumeration visitor).
func syncOnlyParam(fn *ssa.Function, idx int, seen map[*ssa.Function]bool) bool {
	if seen[fn] {
		return true
	}
	seen[fn] = true
	p := fn.Params[idx]
	refs := p.Referrers()
	if refs == nil {
		return true
	}
	for _, r := range *refs {
		c, ok := r.(*ssa.Call)
		if !ok {
			return false
		}
		if c.Call.Value == ssa.Value(p) {
			continue
		}
		callee := staticCallee(&c.Call)
		if callee == nil || callee.Blocks == nil {
			return false
		}
		okArg := false
		for j, a := range c.Call.Args {
			if a == ssa.Value(p) {
				if j >= len(callee.Params) || !syncOnlyParam(callee, j, seen) {
					return false
				}
				okArg = true
			}
		}
		if !okArg {
			return false
		}
	}
	return true
}

// invocationsOfParam: the call instructions through which the (synchronous-only) func-typed parameter
// idx of fn is invoked, in fn or in the callees it is handed on to.
func invocationsOfParam(fn *ssa.Function, idx int, seen map[*ssa.Function]bool) []*ssa.Call {
	if seen[fn] || idx >= len(fn.Params) {
		return nil
	}
	seen[fn] = true
	var out []*ssa.Call
	refs := fn.Params[idx].Referrers()
	if refs == nil {
		return nil
	}
	for _, r := range *refs {
		c, ok := r.(*ssa.Call)
		if !ok {
			continue
		}
		if c.Call.Value == ssa.Value(fn.Params[idx]) {
			out = append(out, c)
			continue
		}
		if callee := staticCallee(&c.Call); callee != nil {
			for j, a := range c.Call.Args {
				if a == ssa.Value(fn.Params[idx]) {
					out = append(out, invocationsOfParam(callee, j, seen)...)
				}
			}
		}
	}
	return out
}

// releasedBetween: some function between the passing call and the invocation (the callee and the
// functions it hands the callback on to) releases lock l.
func (la *LockAnalysis) releasedBetween(l *types.Var, cb callbackSite) bool {
	seen := map[*ssa.Function]bool{}
	var fns []*ssa.Function
	if g := staticCallee(cb.pass.Common()); g != nil {
		fns = append(fns, g)
	}
	fns = append(fns, cb.inv.Parent())
	for len(fns) > 0 {
		f := fns[0]
		fns = fns[1:]
		if f == nil || seen[f] || f.Blocks == nil {
			continue
		}
		seen[f] = true
		for _, in := range instrsOf(f) {
			ci, ok := in.(ssa.CallInstruction)
			if !ok {
				continue
			}
			if fl, acquire, _, ok := lockOp(ci.Common()); ok && !acquire && fl == l {
				return true
			}
		}
	}
	return false
}
