package main

// C10 — nothing received from a peer or client can crash or wedge a node:
// every panic-capable construct reachable from the network entry points is
// discharged by a dominating guard or by a frozen reason.

import (
	"fmt"
	"go/token"
	"go/types"
	"os"
	"strings"

	"golang.org/x/tools/go/ssa"
)

func init() { register("C10", checkC10) }

// siteReason: frozen reason table. Key: suffix of the function name, kind, prefix of the rendered operand ("" = any).
type siteReason struct {
	fn, kind, expr string
	reason         string
}

var reasonUsed = map[int]bool{}

func lookupReason(table []siteReason, fn, kind, expr string) (string, bool) {
	return lookupReasonSite(table, []string{fn}, kind, []string{expr})
}

// lookupReasonSite: the site may be named by its own function or by the function a transparent helper
// is inlined into; its operand by the rendering as written or by the canonical (name-free) rendering.
func lookupReasonSite(table []siteReason, fns []string, kind string, exprs []string) (string, bool) {
	for i, r := range table {
		if r.kind != kind {
			continue
		}
		okF := r.fn == ""
		for _, fn := range fns {
			fn = nameBack(fn)
			rb := r.fn
			if i := strings.Index(rb, "$"); i >= 0 {
				rb = rb[:i] // a reason naming a function literal also covers its enclosing function's other literals
			}
			if strings.HasSuffix(fn, r.fn) || strings.HasSuffix(fn, rb) || (strings.HasSuffix(r.fn, ".") && strings.HasPrefix(strings.TrimLeft(fn, "(*"), r.fn)) {
				okF = true // a reason may name a function (suffix) or a whole package ("mpc/ps.")
			}
		}
		if !okF && r.fn != "" && !strings.HasSuffix(r.fn, ".") && reasonFnGone(r.fn) {
			for _, fn := range fns {
				if strings.HasPrefix(strings.TrimLeft(fn, "(*"), pkgOfReasonFn(r.fn)+".") {
					okF = true // the helper that held the panic was inlined: the text identifies it in its package
				}
			}
		}
		okE := r.expr == ""
		for _, e := range exprs {
			if strings.HasPrefix(nameBack(e), r.expr) {
				okE = true
			}
		}
		if !okF || !okE {
			continue
		}
		reasonUsed[i] = true
		return r.reason, true
	}
	return "", false
}

// siteReason looks a panic site up in the frozen table.
func (pm *panicModel) siteReason(s panicSite) (string, bool) {
	fn := s.in.Parent()
	// the site's function, the functions it is nested in, and those a transparent helper is inlined into
	var names []string
	base := func(n string) string {
		if i := strings.Index(n, "$"); i >= 0 {
			return n[:i]
		}
		return n
	}
	var last *ssa.Function
	for f := fn; f != nil; {
		names = append(names, FuncName(f))
		if b := base(FuncName(f)); b != FuncName(f) {
			names = append(names, b)
		}
		if len(names) > 48 {
			break
		}
		last = f
		f = enclosingFn(f)
	}
	// the chain ended in a helper shared by several callers (a literal inside installRBC, called for the
	// key generation and for signing): the reason recorded for the code of each caller applies
	if last != nil && last.Object() != nil && !last.Object().Exported() {
		if cs := pm.sl.callers[last]; len(cs) >= 2 && len(cs) <= 4 {
			for _, c := range cs {
				for f, i := c.Parent(), 0; f != nil && i < 12; f, i = enclosingFn(f), i+1 {
					names = append(names, FuncName(f))
					if b := base(FuncName(f)); b != FuncName(f) {
						names = append(names, b)
					}
				}
			}
		}
	}
	keys := []string{s.canon}
	if s.alt != "" {
		keys = append(keys, s.alt)
	}
	if r, ok := lookupReasonSite(c10Reasons, names, s.kind, keys); ok {
		return r, true
	}
	if os.Getenv("TSS_REKEY") != "" {
		if r, ok := lookupReasonSite(c10Reasons, names, s.kind, []string{s.expr}); ok {
			fmt.Fprintf(os.Stderr, "REKEY\t%s\t%s\t%s\t%s\n", names[0], s.kind, s.expr, s.canon)
			return r, true
		}
	}
	return "", false
}

// siteReasonCtx: a site inside a helper with several callers whose operand is (a function of) the
// helper's parameters: the frozen reason is looked up once per calling context, for the operand as that
// caller passes it (`shortDigest(key.digest)` makes `digest[:8]` the site `key.digest[:8]` of the
// caller); every context must have a reason.
func (pm *panicModel) siteReasonCtx(s panicSite) (string, bool) {
	if s.render == nil {
		return "", false
	}
	fn := s.in.Parent()
	if len(fn.Params) == 0 || helperCall(fn) != nil {
		return "", false
	}
	var cfns []*ssa.Function
	for f := range pm.closure {
		cfns = append(cfns, f)
	}
	ctxs := contextsWithin(s.in, cfns, 3)
	if len(ctxs) == 0 {
		return "", false
	}
	reason := ""
	for _, sc := range ctxs {
		if len(sc.Calls) == 0 {
			return "", false
		}
		for _, p := range fn.Params {
			renderSubst[p] = sc.Resolve(p)
		}
		renderCanon++
		canon := s.render()
		renderCanon--
		for _, p := range fn.Params {
			delete(renderSubst, p)
		}
		var names []string
		for _, cs := range sc.Calls {
			for f, i := cs.Parent(), 0; f != nil && i < 16; f, i = enclosingFn(f), i+1 {
				names = append(names, FuncName(f))
			}
		}
		r, ok := lookupReasonSite(c10Reasons, names, s.kind, []string{canon})
		if !ok {
			return "", false
		}
		reason = r
	}
	return reason + " (looked up per calling context)", true
}

func checkC10(c *Ctx) {
	c.explanation = "Static decision over the five modules: the closure of functions reachable from the network entry points (dispatcher, silent-mode buffer, synchroniser, reliable broadcast, classifiers/handlers of the four backends, TPS.Sign, both Verifiers, the connection handler) — through static calls, closures, method values, the VTA call graph and, transitively, every function that reads a field which network-reachable code writes — is enumerated, and in it every panic-capable construct: index/slice expressions whose bounds check the Go compiler's prove pass could NOT eliminate (the compiler is the oracle for the rest), unchecked type assertions, explicit panics, stores into maps held in struct fields, calls through func/interface fields, wire-sized allocations, integer divisions, process-exit calls, and channel sends on the dispatcher's path. Each is discharged by a dominating length guard on the same value (with length arithmetic through re-slicing, conversions, hex encoding and SHA-256 helpers, canonical and validated-length loops), by a structural check (map/field initialised, assertion matches every value stored), or by one line of the frozen reason table (caller contract, or a premise decided by another rule). Anything else is a violation. Hangs in general, panics inside dependencies beyond the named wrappers and CPU exhaustion are not decided."
	c.notDecided = "absence of hangs in general; panics inside dependencies (tss-lib, mathlib internals beyond the recover wrapper, encoding/asn1); CPU exhaustion"
	c.Assume("the Go compiler's prove pass only removes bounds checks it has proved (its report lists all remaining ones); mathlib's New{G1,G2}FromBytes recover from malformed encodings (checked below); encoding/asn1 and proto.Unmarshal return errors on malformed input")
	const P1, P2, P3, P4, R1, R2 = "C10.P1", "C10.P2", "C10.P3", "C10.P4", "C10.R1", "C10.R2"
	c.Rule(P1, "every panic-capable construct in the network-reachable closure is discharged", 60)
	c.Rule(P2, "wire-sized allocations are bounded", 1)
	c.Rule(P3, "blocking sends on the dispatcher's path have a reason", 1)
	c.Rule(P4, "no process-exit call in the closure", 0)
	c.Rule(R1, "mathlib point parsing recovers from panics (dependency's source)", 1)
	c.Rule(R2, "premises of frozen reasons that are statements about this code (synchroniser decoder contract; digest lengths; parse before store)", 5)
	ruleC10DiscDecoderContract(c, R2)
	ruleC10DigestLengths(c, R2)
	ruleC10ParseBeforeStore(c, R2)
	ruleC10ResponseCapacity(c, R2)
	total := 0
	for _, rel := range []string{ModRoot, ModBLS, ModPS, ModECDSA, ModEDDSA} {
		pm := buildPanicModel(c, rel)
		if pm == nil {
			continue
		}
		// the functions the frozen reasons name are anchors (found again after a rename)
		for _, r := range c10Reasons {
			c.anchorReasonFn(r.fn)
		}
		for _, r := range panicReasons {
			c.anchorReasonFn(r.fnSuffix)
		}
		pm.m.resolveAllAnchors()
		sites := pm.sites(c)
		c.extra["closure_functions_"+strings.ReplaceAll(rel, "/", "_")] = len(pm.closure)
		for _, s := range sites {
			total++
			fn := FuncName(s.in.Parent())
			pos := pm.m.Pos(s.in.Pos())
			construct := s.kind + " " + s.expr
			switch s.kind {
			case "bounds":
				if ok, by := pm.dischargeBounds(s); ok {
					c.OK(P1, fn, construct, pos, by)
					continue
				}
				if r, ok := pm.siteReason(s); ok {
					c.OK(P1, fn, construct, pos, "reason: "+r)
					continue
				}
				if r, ok := pm.siteReasonCtx(s); ok {
					c.OK(P1, fn, construct, pos, "reason: "+r)
					continue
				}
				_, why := pm.dischargeBounds(s)
				c.Bad(P1, fn, construct, pos, "the compiler could not prove this "+s.detail+" check and no dominating length guard on the same value exists ("+why+"): a short or malformed message from the network makes the process panic (how reached: "+pm.why[s.in.Parent()]+")")
			case "assert":
				if ok, by := pm.dischargeAssert(s); ok {
					c.OK(P1, fn, construct, pos, by)
					continue
				}
				if r, ok := pm.siteReason(s); ok {
					c.OK(P1, fn, construct, pos, "reason: "+r)
					continue
				}
				c.Bad(P1, fn, construct, pos, "unchecked type assertion on a value that is not known to have that dynamic type on every path")
			case "nilcheck":
				c.OK(P1, fn, construct, pos, "method value taken from an interface value returned by a factory/constructor (injected dependency contract: factories return non-nil)")
			case "panic":
				if r, ok := pm.siteReason(s); ok {
					c.OK(P1, fn, construct, pos, "reason: "+r)
					continue
				}
				if r, ok := panicReasonFor(s.in.Parent(), s.expr, pm.m.PkgFuncs(pkgPathOf(s.in.Parent())), 0); ok {
					c.OK(P1, fn, construct, pos, "reason: "+r)
					goto next
				}
				c.Bad(P1, fn, construct, pos, "an explicit panic is reachable from a network entry point and no reason is recorded why received data cannot trigger it (how reached: "+pm.why[s.in.Parent()]+")")
			case "nilmap":
				if ok, by := pm.mapInitialised(s); ok {
					c.OK(P1, fn, construct, pos, by)
				} else {
					why := "nothing in the package ever makes this map"
					if by != "" {
						why = by
					}
					c.Bad(P1, fn, construct, pos, why+": a store panics (assignment to entry in nil map)")
				}
			case "nilcall":
				if ok, by := pm.fieldAssigned(s); ok {
					c.OK(P1, fn, construct, pos, by)
				} else {
					c.Bad(P1, fn, construct, pos, "this func/interface field of an unexported struct is never assigned anywhere in the package: calling through it panics with a nil dereference")
				}
			case "alloc":
				ms := s.in.(*ssa.MakeSlice)
				if ok, by := pm.allocBounded(ms); ok {
					c.OK(P2, fn, construct, pos, by)
				} else if r, ok := pm.siteReason(s); ok {
					c.OK(P2, fn, construct, pos, "reason: "+r)
				} else {
					c.Bad(P2, fn, construct, pos, "allocation sized by a value that is neither the size of data already in memory nor bounded by a dominating constant limit")
				}
			case "divide":
				if r, ok := pm.siteReason(s); ok {
					c.OK(P1, fn, construct, pos, "reason: "+r)
				} else {
					c.Bad(P1, fn, construct, pos, "integer division by a value not known to be non-zero")
				}
			case "exit":
				c.Bad(P4, fn, construct, pos, "a process-exit call is reachable from a network entry point")
			}
		next:
		}
		// P3: blocking sends
		for f := range pm.closure {
			for _, in := range instrsOf(f) {
				snd, ok := in.(*ssa.Send)
				if !ok {
					continue
				}
				// sends inside a select with default are non-blocking and appear as Select, not Send
				fn := FuncName(f)
				expr := render(snd.Chan)
				site := mkSite("block", snd, func() string { return render(snd.Chan) }, "")
				site.alt = canonType(snd.Chan.Type()) // a parameter, a local and a field of a session object alike
				if ch, isCh := snd.Chan.Type().Underlying().(*types.Chan); isCh && ch.Dir() != types.SendRecv {
					// a send-only view of the channel (`inMsgs chan<- InMsg` in a parameter object) is the same channel
					site.alt = canonType(types.NewChan(types.SendRecv, ch.Elem()))
				}
				if r, ok := pm.siteReason(site); ok {
					c.OK(P3, fn, "send on "+expr, pm.m.Pos(snd.Pos()), "reason: "+r)
				} else {
					c.Bad(P3, fn, "send on "+expr, pm.m.Pos(snd.Pos()), "a channel send on the path of a message dispatcher can block that dispatcher for ever (no reason recorded why it cannot)")
				}
			}
		}
	}
	// R1: the dependency's parsers recover
	for _, rel := range []string{ModBLS, ModPS} {
		m := c.Mod(rel)
		if m == nil {
			continue
		}
		p := m.Pkg(PkgMathlib)
		if p == nil {
			c.Fatalf("anchor", "mathlib not loaded in %s", rel)
			continue
		}
		for _, name := range []string{"NewG1FromBytes", "NewG2FromBytes"} {
			fn := m.Func(PkgMathlib, "Curve", name)
			ok := false
			if fn != nil {
				for _, in := range instrsOf(fn) {
					if d, isD := in.(*ssa.Defer); isD {
						if cl := d.Call.Value; cl != nil {
							if mc, isMC := cl.(*ssa.MakeClosure); isMC {
								for _, in2 := range instrsOf(mc.Fn.(*ssa.Function)) {
									if c2, isC := in2.(*ssa.Call); isC {
										if b, isB := c2.Call.Value.(*ssa.Builtin); isB && b.Name() == "recover" {
											ok = true
										}
									}
								}
							} else if f2, isF := cl.(*ssa.Function); isF {
								for _, in2 := range instrsOf(f2) {
									if c2, isC := in2.(*ssa.Call); isC {
										if b, isB := c2.Call.Value.(*ssa.Builtin); isB && b.Name() == "recover" {
											ok = true
										}
									}
								}
							}
						}
					}
				}
			}
			c.Check(ok, R1, "mathlib.Curve."+name+" ("+rel+")", "deferred recover", "-", "the resolved mathlib version defers a recover in "+name, "the resolved mathlib version does not recover in "+name+": a malformed point encoding panics in the curve library")
		}
	}
	c.extra["sites_total"] = total
	var stale []string
	for i, r := range c10Reasons {
		if !reasonUsed[i] {
			stale = append(stale, r.fn+" | "+r.kind+" | "+r.expr)
		}
	}
	c.extra["stale_reason_entries"] = stale
	if len(stale) > 0 {
		c.Note("%d reason-table entries match no site any more (stale, not a failure): %s", len(stale), strings.Join(stale, "; "))
	}
}

// dischargeAssert: the asserted value was loaded from a sync.Map (or received
// as Range callback argument) every Store into which has exactly the asserted type.
func (pm *panicModel) dischargeAssert(s panicSite) (bool, string) {
	ta := s.in.(*ssa.TypeAssert)
	v := strip(ta.X)
	var mapField *types.Var
	isKey := false
	switch x := v.(type) {
	case *ssa.Extract:
		if cl, ok := x.Tuple.(*ssa.Call); ok && x.Index == 0 {
			if isCallTo(&cl.Call, "sync", "Map.Load") || isCallTo(&cl.Call, "sync", "Map.LoadOrStore") {
				mapField = syncMapField(cl.Call.Args[0])
			}
		}
	case *ssa.Parameter:
		// argument of a Range callback
		fn := x.Parent()
		for _, mc := range pm.sl.closures[fn] {
			if mc.Referrers() == nil {
				continue
			}
			for _, r := range *mc.Referrers() {
				if cl, ok := r.(*ssa.Call); ok && isCallTo(&cl.Call, "sync", "Map.Range") {
					mapField = syncMapField(cl.Call.Args[0])
					isKey = paramIndex(x) == 0
				}
			}
		}
		// … or of a named method used (only) as a Range callback through a method value x.M
		if mapField == nil && fn.Signature.Recv() != nil && fn.Object() != nil && !fn.Object().Exported() && len(pm.sl.callers[fn]) == 0 {
			var fld *types.Var
			uses, all := 0, true
			for _, f := range pm.fns {
				for _, in := range instrsOf(f) {
					mc, ok := in.(*ssa.MakeClosure)
					if !ok {
						continue
					}
					if _, mo, isB := boundMethod(mc); !isB || mo != fn.Object() {
						continue
					}
					if mc.Referrers() == nil {
						continue
					}
					for _, r := range *mc.Referrers() {
						cl, ok := r.(*ssa.Call)
						if !ok || !isCallTo(&cl.Call, "sync", "Map.Range") {
							all = false
							continue
						}
						fm := syncMapField(cl.Call.Args[0])
						if fm == nil || (fld != nil && fld != fm) {
							all = false
							continue
						}
						fld = fm
						uses++
					}
				}
			}
			if all && uses > 0 && !implementsSomething(fn) {
				mapField = fld
				isKey = paramIndex(x) == 1 // after the receiver
			}
		}
		// parameter typed interface{} fed by callers with a Load result
		if mapField == nil {
			idx := paramIndex(x)
			var fld *types.Var
			all := len(pm.sl.callers[fn]) > 0
			for _, cs := range pm.sl.callers[fn] {
				a := strip(cs.Common().Args[idx])
				if e, ok := a.(*ssa.Extract); ok && e.Index == 0 {
					if cl, ok := e.Tuple.(*ssa.Call); ok && isCallTo(&cl.Call, "sync", "Map.Load") {
						f := syncMapField(cl.Call.Args[0])
						if fld == nil || fld == f {
							fld = f
							continue
						}
					}
				}
				all = false
			}
			if all {
				mapField = fld
			}
		}
	}
	if mapField == nil {
		return false, ""
	}
	// all stores into that sync.Map field
	n := 0
	for _, f := range pm.fns {
		for _, in := range instrsOf(f) {
			cl, ok := in.(*ssa.Call)
			if !ok {
				continue
			}
			var val ssa.Value
			switch {
			case isCallTo(&cl.Call, "sync", "Map.Store") && syncMapField(cl.Call.Args[0]) == mapField:
				val = cl.Call.Args[2]
				if isKey {
					val = cl.Call.Args[1]
				}
			case isCallTo(&cl.Call, "sync", "Map.LoadOrStore") && syncMapField(cl.Call.Args[0]) == mapField:
				val = cl.Call.Args[2]
				if isKey {
					val = cl.Call.Args[1]
				}
			default:
				continue
			}
			n++
			mi, ok := val.(*ssa.MakeInterface)
			if !ok || !types.Identical(mi.X.Type(), ta.AssertedType) {
				return false, ""
			}
		}
	}
	if n == 0 {
		return false, ""
	}
	return true, fmt.Sprintf("every Store/LoadOrStore into sync.Map field %s (%d sites) stores exactly %s", mapField.Name(), n, types.TypeString(ta.AssertedType, shortQual))
}

func syncMapField(recv ssa.Value) *types.Var {
	if fa, ok := recv.(*ssa.FieldAddr); ok {
		return fieldOfAddr(fa)
	}
	if _, f, ok := fieldLoad(strip(recv)); ok {
		return f
	}
	return nil
}

func (pm *panicModel) mapInitialised(s panicSite) (bool, string) {
	mu := s.in.(*ssa.MapUpdate)
	_, fld, _ := fieldLoad(strip(mu.Map))
	var where []string
	for _, f := range pm.fns {
		for _, st := range storesToField([]*ssa.Function{f}, fld) {
			if _, ok := strip(st.Val).(*ssa.MakeMap); ok {
				where = append(where, f.Name())
			} else if isNilConst(st.Val) && !isFreshLocal(st.Addr.(*ssa.FieldAddr).X, f) {
				return false, "the map is reset to nil in " + f.Name() + " while network-reachable code can still store into it"
			}
		}
	}
	if len(where) == 0 {
		return false, ""
	}
	return true, "map made in " + strings.Join(uniq(where), ", ") + " before the object is reachable (ordering: C20.O1 / sync.Once)"
}

func uniq(in []string) []string {
	seen := map[string]bool{}
	var out []string
	for _, s := range in {
		if !seen[s] {
			seen[s] = true
			out = append(out, s)
		}
	}
	return out
}

func (pm *panicModel) fieldAssigned(s panicSite) (bool, string) {
	var fld *types.Var
	cc := s.in.(ssa.CallInstruction).Common()
	_, fld, _ = fieldLoad(strip(cc.Value))
	if fld.Exported() {
		return true, "exported configuration field (constructor/caller contract: dependencies are injected non-nil)"
	}
	if fld.Embedded() {
		return true, "embedded dependency set at construction"
	}
	// every construction site of the struct sets it (composite literals), or an initialiser stores it
	nStores := 0
	for _, f := range pm.fns {
		nStores += len(storesToField([]*ssa.Function{f}, fld))
	}
	if nStores == 0 {
		return false, ""
	}
	// construction sites: allocations of the owning struct type must set the field
	for _, f := range pm.fns {
		for _, in := range instrsOf(f) {
			a, ok := in.(*ssa.Alloc)
			if !ok {
				continue
			}
			pt, ok := a.Type().(*types.Pointer)
			if !ok {
				continue
			}
			st, ok := pt.Elem().Underlying().(*types.Struct)
			if !ok {
				continue
			}
			owns := false
			for i := 0; i < st.NumFields(); i++ {
				if st.Field(i) == fld {
					owns = true
				}
			}
			if !owns {
				continue
			}
			// a variable that is assigned a whole struct value (a by-value parameter or receiver spilled
			// to a cell, a copy, a result slot) is not a construction site: what it holds was built elsewhere
			copied := false
			if a.Referrers() != nil {
				for _, r := range *a.Referrers() {
					if stw, ok := r.(*ssa.Store); ok && stw.Addr == ssa.Value(a) {
						copied = true
					}
				}
			}
			if copied {
				continue
			}
			if _, set := structLitFieldValue(a, fld); !set {
				// allowed when an initialiser method assigns it later (Init); otherwise a construction site forgets it
				initStores := 0
				for _, g := range pm.fns {
					for _, stx := range storesToField([]*ssa.Function{g}, fld) {
						if !isFreshLocal(stx.Addr.(*ssa.FieldAddr).X, g) {
							initStores++
						}
					}
				}
				if initStores == 0 {
					return false, ""
				}
			}
		}
	}
	return true, fmt.Sprintf("assigned at every construction site / by the initialiser (%d stores)", nStores)
}

func (pm *panicModel) allocBounded(ms *ssa.MakeSlice) (bool, string) {
	if ok, by := pm.sizeBounded(ms.Len, FactsAt(ms)); ok {
		return true, by
	}
	// the size is a parameter of a helper with several callers ("read exactly n bytes"): bounded in every
	// calling context
	noParamLook++
	lv := strip(ms.Len)
	if cv, ok := lv.(*ssa.Convert); ok {
		lv = strip(cv.X)
	}
	noParamLook--
	p, ok := lv.(*ssa.Parameter)
	if !ok || p.Parent() != ms.Parent() || helperCall(ms.Parent()) != nil {
		return false, ""
	}
	var cfns []*ssa.Function
	for f := range pm.closure {
		cfns = append(cfns, f)
	}
	ctxs := contextsWithin(ms, cfns, 3)
	if len(ctxs) == 0 {
		return false, ""
	}
	for _, sc := range ctxs {
		if len(sc.Calls) == 0 {
			return false, ""
		}
		v := sc.Resolve(p)
		if _, isK := constInt(v); isK {
			continue
		}
		if ok, _ := pm.sizeBounded(v, sc.Facts()); !ok {
			return false, ""
		}
	}
	return true, fmt.Sprintf("bounded in each of the %d calling contexts (constant, or dominated by a size limit there)", len(ctxs))
}

// sizeBounded: the value v, used as an allocation size where facts hold, is bounded.
func (pm *panicModel) sizeBounded(v ssa.Value, facts []Fact) (bool, string) {
	l := linOf(v)
	allLen := len(l.Terms) > 0
	for t := range l.Terms {
		if !strings.HasPrefix(t, "len(") {
			allLen = false
		}
	}
	if allLen {
		return true, "sized by the length of data already in memory (" + l.String() + ")"
	}
	// 16-bit length prefix
	if cv, ok := strip(v).(*ssa.Convert); ok && intWidth(cv.X.Type()) <= 16 {
		return true, "sized by a 16-bit value (≤ 65535)"
	}
	if intWidth(strip(v).Type()) <= 16 && intWidth(strip(v).Type()) > 0 {
		return true, "sized by a 16-bit value (≤ 65535)"
	}
	for _, f := range facts {
		if f.Op != token.LEQ && f.Op != token.LSS {
			continue
		}
		if k, ok := constInt(f.Y); ok && k > 0 {
			a, b := lanesOf(f.X, 0), lanesOf(v, 0)
			same := len(a) > 0 && len(b) > 0
			for i := 0; i < len(a) && i < len(b) && same; i++ {
				if a[i].Kind != b[i].Kind || a[i].Pos.String() != b[i].Pos.String() || a[i].Buf != b[i].Buf || a[i].Src != b[i].Src {
					same = false
				}
			}
			if same || sameValue(f.X, v) {
				return true, fmt.Sprintf("dominated by size ≤ %d", k)
			}
		}
	}
	// field / parameter configured locally (not from the wire)
	sl := pm.sl.Slice(v)
	fromWire := sliceHas(sl, func(v ssa.Value) bool {
		if u, ok := v.(*ssa.UnOp); ok && u.Op == token.MUL {
			if ia, ok := u.X.(*ssa.IndexAddr); ok {
				return isByteSlice(ia.X.Type()) || isByteArrayPtr(ia.X.Type())
			}
		}
		if cl, ok := v.(*ssa.Call); ok {
			if o := calleeObj(&cl.Call); o != nil && o.Pkg() != nil && o.Pkg().Path() == "encoding/binary" {
				return true
			}
		}
		return false
	})
	if !fromWire {
		return true, "size does not derive from received bytes (local configuration / protocol parameters)"
	}
	return false, ""
}

func isByteArrayPtr(t types.Type) bool {
	p, ok := t.Underlying().(*types.Pointer)
	if !ok {
		return false
	}
	a, ok := p.Elem().Underlying().(*types.Array)
	if !ok {
		return false
	}
	b, ok := a.Elem().Underlying().(*types.Basic)
	return ok && b.Kind() == types.Uint8
}

// c10Reasons is filled in c10reasons.go.
var c10Reasons []siteReason
