package main

// C02 — reliable broadcast agreement (structural necessary conditions).

import (
	"fmt"
	"go/token"
	"go/types"

	"golang.org/x/tools/go/ssa"
)

func init() { register("C02", checkC02) }

// quorumForms: len(voucher set) − N in linear normal form, keyed through the resolved field and type
// (so that renaming them changes nothing).
var quorumForms []map[string]int64
var quorumNKey string

func setQuorumForms(r *rbcModel) {
	quorumNKey = "field " + fieldKey(r.fN)
	quorumForms = []map[string]int64{
		{"len(field " + fieldKey(r.fEntryIDSet) + ")": 1, quorumNKey: -1},
		{"len(" + types.TypeString(r.idSet, shortQual) + ")": 1, quorumNKey: -1},
	}
}

func checkC02(c *Ctx) {
	c.explanation = "Static decision of the structural necessary conditions of RBC agreement on /repo's SSA: (G1) no voucher insertion on the acknowledgement path without a dominating from≠sender test; (N1) the broadcast hand-over is dominated by len(vouchers) ⋈ N−1 in linear normal form; (G2/O1) a digest conflicting with the pinned one sets the sticky flag, reaches no insertion/hand-over, the flag is tested before everything in Receive, and the pin is written before any insertion; (V1) round/broadcast class come from the local classifier applied to the received payload, the digest is hash() of that same payload value and the transport source is passed as `from`; (V2/G3/W1) only participant-filtered receivers are registered and the filter's lookup dominates the inner call; (V3/L1) every RBC instance is wrapped by the mutex-holding wrapper installed by setup. The agreement argument itself (N−1 distinct vouchers imply agreement) is a protocol proof and is not decided."
	c.notDecided = "the quorum-intersection argument; behaviour under concrete adversarial schedules"
	c.Assume("sync.Mutex provides mutual exclusion; sync.Once runs its function exactly once before Do returns")
	c.Assume("SHA-256 collision resistance (digest equality = payload equality)")
	r := buildRBCModel(c)
	if r == nil {
		return
	}
	ruleC02G1(c, r)
	ruleC02N1(c, r, "C02.N1")
	ruleC02G2(c, r)
	ruleRBCMonotone(c, r, "C02.M1")
	t := buildThresholdModel(c)
	if t == nil {
		return
	}
	ruleC02V1(c, t, "C02.V1")
	ruleC02V2(c, t, "C02.V2")
	ruleC02G3(c, t, "C02.G3")
	ruleC02W1(c, t)
	ruleC02V3(c, t)
	c.Rule("C02.V4", "constructors build the RBC receiver from the factory's arguments unchanged", 1)
	ruleConstructorWiring(c, t, "C02.V4", "")
}

// G1: a sender cannot vouch for itself.
func ruleC02G1(c *Ctx, r *rbcModel) {
	const rule = "C02.G1"
	c.Rule(rule, "every voucher insertion keyed by the transport source is dominated by source≠sender(ack)", 1)
	for _, mu := range r.inserts {
		fn := FuncName(mu.Parent())
		ctxs, ok := contextsOf(mu, r.entries, r.fns, 3)
		if !ok || len(ctxs) == 0 {
			c.Unk(rule, fn, "voucher insertion "+render(mu.Map)+"["+render(mu.Key)+"]", r.m.Pos(mu.Pos()), "cannot enumerate the calling contexts up to Receiver.Receive")
			continue
		}
		for _, sc := range ctxs {
			key := sc.Resolve(mu.Key)
			if r.isSelfID(key) {
				continue // self voucher: decided by C03.V1
			}
			construct := fmt.Sprintf("voucher insertion keyed by %s via %s", render(key), ctxName(sc))
			pos := r.m.Pos(mu.Pos())
			sender := r.senderOfReception(sc, r.receptionKeyOf(mu.Map))
			ok := hasFact(sc.Facts(), func(f Fact) bool {
				if f.Op != token.NEQ {
					return false
				}
				x, y := sc.Resolve(f.X), sc.Resolve(f.Y)
				isSender := func(v ssa.Value) bool {
					return r.isAckSender(v) || (sender != nil && strip(v) == sender) || isLoadOfField(v, r.fRecSender)
				}
				return (x == key && isSender(y)) || (y == key && isSender(x))
			})
			c.Check(ok, rule, fn, construct, pos,
				"dominated by "+render(key)+" != sender of the acknowledged message; the equal arm does not reach the insertion",
				"no dominating test that the acknowledging party differs from the party the acknowledgement is about: a Byzantine sender can vouch for its own (conflicting) payloads; with N=3 it sends m to B, m' to C plus its own ack for each and both deliver")
		}
	}
}

func ctxName(sc SiteCtx) string {
	s := ""
	for _, cs := range sc.Calls {
		s += FuncName(cs.Parent()) + "→"
	}
	return s + FuncName(sc.Site.Parent())
}

// N1: quorum N-1.
func ruleC02N1(c *Ctx, r *rbcModel, rule string) {
	c.Rule(rule, "broadcast hand-over dominated by len(vouchers) − N + 1 ⋈ 0, ⋈ ∈ {==, ≥}", 1)
	for _, h := range r.bcastHandovers {
		fn := FuncName(h.Parent())
		ctxs, ok := contextsOf(h, r.entries, r.fns, 3)
		if !ok {
			c.Unk(rule, fn, "broadcast hand-over", r.m.Pos(h.Pos()), "cannot enumerate calling contexts")
			continue
		}
		for _, sc := range ctxs {
			found := ""
			ok := hasFact(sc.Facts(), func(f Fact) bool {
				for _, form := range quorumForms {
					if matchLin(f, form, 1, token.EQL, token.GEQ) {
						l, op, _ := linFact(f)
						found = l.String() + " " + op.String() + " 0"
						return true
					}
				}
				return false
			})
			why := "the hand-over to the backend is not dominated by a comparison of the number of distinct vouchers with N−1"
			if !ok {
				// describe what is there
				for _, f := range sc.Facts() {
					if l, op, lok := linFact(f); lok {
						for t := range l.Terms {
							if t == quorumNKey {
								why += fmt.Sprintf("; found %s %s 0", l.String(), op)
							}
						}
					}
				}
			}
			c.Check(ok, rule, fn, "broadcast hand-over via "+ctxName(sc), r.m.Pos(h.Pos()), "guard "+found, why)
		}
	}
}

// G2 + O1: conflicting digest halts; pin precedes insertion.
func ruleC02G2(c *Ctx, r *rbcModel) {
	const rule = "C02.G2"
	const ruleO = "C02.O1"
	c.Rule(rule, "digest≠pinned digest ⇒ sticky flag set, no insertion/hand-over reachable; flag tested first in Receive", 1)
	c.Rule(ruleO, "pin written on the not-yet-pinned arm, keyed like the lookup, before any voucher insertion", 1)
	// (a) stores of true into the sticky flag
	var flagStores []*ssa.Store
	for _, st := range storesToField(r.fns, r.fEquiv) {
		if k, ok := st.Val.(*ssa.Const); ok && k.Value != nil && k.Value.String() == "true" {
			flagStores = append(flagStores, st)
		}
	}
	if len(flagStores) == 0 {
		c.Bad(rule, "rbc", "sticky flag store", "-", "no store of true into Receiver.equivocationDetected exists: conflicting digests never halt the instance")
	}
	isPinnedDigest := func(v ssa.Value) (*ssa.Lookup, bool) {
		// (also what a lookup helper hands back: `saved, known := ledger.pinnedDigest(slot)`)
		if rv := resultOf(v); rv != strip(v) {
			if e, ok := rv.(*ssa.Extract); ok && e.Index == 0 {
				if lk, ok := e.Tuple.(*ssa.Lookup); ok && isLoadOfField(lk.X, r.fPinned) {
					return lk, true
				}
			}
		}
		e, ok := strip(v).(*ssa.Extract)
		if ok && e.Index == 0 {
			if lk, ok := e.Tuple.(*ssa.Lookup); ok && isLoadOfField(lk.X, r.fPinned) {
				return lk, true
			}
		}
		if lk, ok := strip(v).(*ssa.Lookup); ok && isLoadOfField(lk.X, r.fPinned) {
			return lk, true
		}
		return nil, false
	}
	for _, st := range flagStores {
		fn := st.Parent()
		var mismatch *Fact
		for _, f := range FactsAt(st) {
			f := f
			if f.Op != token.NEQ {
				continue
			}
			_, px := isPinnedDigest(f.X)
			_, py := isPinnedDigest(f.Y)
			other := f.Y
			if py {
				other = f.X
			}
			if (px || py) && (isLoadOfField(other, r.fRecDigest) || r.isAckDigest(other) || structFieldValue(other, r.fRecDigest, 0) != nil || isFieldOfParamStruct(other, r.fRecDigest)) {
				mismatch = &f
			}
		}
		if mismatch == nil {
			c.Bad(rule, FuncName(fn), "sticky flag store", r.m.Pos(st.Pos()), "the store of the halt flag is not controlled by pinned-digest ≠ incoming-digest")
			continue
		}
		c.OK(rule, FuncName(fn), "sticky flag store", r.m.Pos(st.Pos()), "on the arm pinned digest != incoming digest")
		// (b) mismatch arm reaches no sink
		// the arm successor on which NEQ holds:
		iff := mismatch.If
		armTrue := condHoldsOnTrueArm(iff, token.NEQ)
		succ := iff.Block().Succs[1]
		if armTrue {
			succ = iff.Block().Succs[0]
		}
		reach := reachableBlocks(succ)
		okb := true
		what := ""
		for _, mu := range r.inserts {
			if mu.Parent() == fn && reach[mu.Block()] {
				okb = false
				what = "a voucher insertion"
			}
		}
		for _, h := range r.handovers {
			if h.Parent() == fn && reach[h.Block()] {
				okb = false
				what = "a hand-over to the backend"
			}
		}
		for _, in := range instrsOf(fn) {
			if ci, ok := in.(ssa.CallInstruction); ok && reach[in.Block()] {
				if cal := staticCallee(ci.Common()); cal != nil && r.reachesSink(cal, map[*ssa.Function]bool{}) {
					okb = false
					what = "a call to " + cal.Name() + " (which inserts/hands over)"
				}
			}
		}
		c.Check(okb, rule, FuncName(fn), "mismatch arm is terminal", r.m.Pos(iff.Pos()),
			"no voucher insertion or hand-over is reachable from the mismatch arm",
			"the arm taken on a conflicting digest still reaches "+what+": a second payload of the same (sender, round) is processed")
	}
	// (c) flag tested first in Receive
	n := 0
	for _, in := range instrsOf(r.receive) {
		sink := ""
		switch x := in.(type) {
		case *ssa.MapUpdate:
			if n := namedOf(x.Map.Type()); n != nil && n.Obj() == r.idSet.Obj() {
				sink = "voucher insertion"
			}
		case ssa.CallInstruction:
			if callsFuncField(x.Common(), r.fFwd) {
				sink = "hand-over"
			} else if cal := staticCallee(x.Common()); cal != nil && r.reachesSink(cal, map[*ssa.Function]bool{}) {
				sink = "call " + cal.Name()
			}
		}
		if sink == "" {
			continue
		}
		n++
		ok := boolFact(FactsAt(in), false, func(v ssa.Value) bool { return isLoadOfField(v, r.fEquiv) })
		c.Check(ok, rule, FuncName(r.receive), "halt flag dominates "+sink, r.m.Pos(in.Pos()),
			"dominated by equivocationDetected == false",
			"this "+sink+" in Receive is not dominated by the test of the halt flag: after an equivocation the instance keeps processing")
	}
	if n == 0 {
		c.Bad(rule, FuncName(r.receive), "halt flag dominates sinks", "-", "no sink found in Receive (model went blind)")
	}

	// O1: pin stores
	pins := mapUpdatesOfField(r.fns, r.fPinned)
	if len(pins) == 0 {
		c.Bad(ruleO, "rbc", "pin store", "-", "no store into receivedRoundFromSender: the first digest of (sender, round) is never pinned")
	}
	for _, pin := range pins {
		fn := pin.Parent()
		// guarded by not-exists of a lookup of the same map with the same key
		var lk *ssa.Lookup
		ok := hasFact(FactsAt(pin), func(f Fact) bool {
			if f.Op != 0 || f.True {
				return false
			}
			t, isOK := commaOK(f.Bool)
			if !isOK {
				return false
			}
			l, isL := t.(*ssa.Lookup)
			if isL && isLoadOfField(l.X, r.fPinned) && sameValue(l.Index, pin.Key) {
				lk = l
				return true
			}
			return false
		})
		c.Check(ok, ruleO, FuncName(fn), "pin store guarded by not-yet-pinned", r.m.Pos(pin.Pos()),
			"dominated by the not-found arm of the lookup with the same key value",
			"the pin is overwritten even when a digest is already pinned (or keyed differently from the lookup): the first value no longer wins")
		// key = (sender, round) of the reception, value = digest of the reception
		ks := structFieldValue(pin.Key, r.m.Field(PkgRBC, "senderAndRound", "s"), 0)
		kr := structFieldValue(pin.Key, r.m.Field(PkgRBC, "senderAndRound", "r"), 0)
		okk := ks != nil && kr != nil && isRecField(ks, r.fRecSender) && isRecField(kr, r.fRecRound) && isRecField(pin.Value, r.fRecDigest)
		c.Check(okk, ruleO, FuncName(fn), "pin key/value provenance", r.m.Pos(pin.Pos()),
			"key = (reception.sender, reception.msgRound), value = reception.digest",
			"the pin is not keyed by the (sender, round) of the registered message or does not store its digest")
		// every insertion in fn reachable from the not-found arm passes the pin
		if lk != nil {
			for _, mu := range r.inserts {
				if mu.Parent() != fn || !blockReaches(lk.Block(), mu.Block(), nil) {
					continue // another registration path of the same function (e.g. the acknowledgement arm)
				}
				// remove pin block: is the insertion still reachable from entry along the not-found arm?
				okp := pin.Block().Dominates(mu.Block()) || !reachAvoiding(fn.Blocks[0], mu.Block(), pin.Block()) || pinOnAllNotFoundPaths(lk, pin, mu)
				c.Check(okp, ruleO, FuncName(fn), "pin precedes voucher insertion", r.m.Pos(mu.Pos()),
					"every path on which the pair is not yet pinned writes the pin before the insertion",
					"a voucher can be inserted for a (sender, round) without its digest being pinned first")
			}
		}
	}
}

func fieldByName(t types.Type, name string) *types.Var {
	st, ok := t.Underlying().(*types.Struct)
	if !ok {
		return nil
	}
	for i := 0; i < st.NumFields(); i++ {
		if st.Field(i).Name() == name {
			return st.Field(i)
		}
	}
	return nil
}

// isRecField: v is field f of a msgReception value (parameter struct or local).
func isRecField(v ssa.Value, f *types.Var) bool {
	if f == nil || v == nil {
		return false
	}
	// (as written: a field of a local reception value is not looked through to what the literal gave it)
	if _, g, ok := fieldLoad(stripNoParam(v)); ok && g == f {
		return true
	}
	v = strip(v)
	if isLoadOfField(v, f) {
		return true
	}
	return isFieldOfParamStruct(v, f)
}

// isFieldOfParamStruct: v = Field(param, f) or load FieldAddr(alloc-of-param copy, f).
func isFieldOfParamStruct(v ssa.Value, f *types.Var) bool {
	_, g, ok := fieldLoad(strip(v))
	return ok && g == f
}

func condHoldsOnTrueArm(iff *ssa.If, want token.Token) bool {
	f := factOf(Guard{iff, true})
	return f.Op == want
}

func reachableBlocks(from *ssa.BasicBlock) map[*ssa.BasicBlock]bool {
	seen := map[*ssa.BasicBlock]bool{}
	stack := []*ssa.BasicBlock{from}
	for len(stack) > 0 {
		b := stack[len(stack)-1]
		stack = stack[:len(stack)-1]
		if seen[b] {
			continue
		}
		seen[b] = true
		stack = append(stack, b.Succs...)
	}
	return seen
}

// reachAvoiding: is `to` reachable from `from` without entering block `avoid`?
func reachAvoiding(from, to, avoid *ssa.BasicBlock) bool {
	if from == avoid {
		return false
	}
	seen := map[*ssa.BasicBlock]bool{}
	stack := []*ssa.BasicBlock{from}
	for len(stack) > 0 {
		b := stack[len(stack)-1]
		stack = stack[:len(stack)-1]
		if seen[b] || b == avoid {
			continue
		}
		seen[b] = true
		if b == to {
			return true
		}
		stack = append(stack, b.Succs...)
	}
	return false
}

// pinOnAllNotFoundPaths: from the not-found successor of the lookup's branch,
// the insertion is unreachable when the pin's block is removed.
func pinOnAllNotFoundPaths(lk *ssa.Lookup, pin *ssa.MapUpdate, mu *ssa.MapUpdate) bool {
	fn := pin.Parent()
	// edges on which the lookup's ok flag is true ("already pinned") are infeasible on a not-found path,
	// however many times the flag is tested
	type edge struct {
		b *ssa.BasicBlock
		k int
	}
	found := map[edge]bool{}
	var starts []*ssa.BasicBlock
	for _, b := range fn.Blocks {
		iff, ok := b.Instrs[len(b.Instrs)-1].(*ssa.If)
		if !ok {
			continue
		}
		f := factOf(Guard{iff, true})
		if f.Op != 0 {
			continue
		}
		t, isOK := commaOK(f.Bool)
		if !isOK || t != ssa.Value(lk) {
			continue
		}
		// f.True tells what holds on the then-arm for the ok flag
		if f.True {
			found[edge{b, 0}] = true
			starts = append(starts, b.Succs[1])
		} else {
			found[edge{b, 1}] = true
			starts = append(starts, b.Succs[0])
		}
	}
	if len(starts) == 0 {
		return false
	}
	// from every not-found arm: is the insertion reachable without passing the pin (and without taking a found edge)?
	for _, st := range starts {
		seen := map[*ssa.BasicBlock]bool{}
		stack := []*ssa.BasicBlock{st}
		for len(stack) > 0 {
			b := stack[len(stack)-1]
			stack = stack[:len(stack)-1]
			if seen[b] || b == pin.Block() {
				continue
			}
			seen[b] = true
			if b == mu.Block() {
				return false
			}
			for k, s2 := range b.Succs {
				if found[edge{b, k}] {
					continue
				}
				stack = append(stack, s2)
			}
		}
	}
	return true
}

// reachesSink: function (transitively, static calls) contains a voucher insertion or hand-over.
func (r *rbcModel) reachesSink(fn *ssa.Function, seen map[*ssa.Function]bool) bool {
	if fn == nil || seen[fn] || fn.Blocks == nil {
		return false
	}
	seen[fn] = true
	for _, mu := range r.inserts {
		if mu.Parent() == fn {
			return true
		}
	}
	for _, h := range r.handovers {
		if h.Parent() == fn {
			return true
		}
	}
	for _, in := range instrsOf(fn) {
		if ci, ok := in.(ssa.CallInstruction); ok {
			if cal := staticCallee(ci.Common()); cal != nil && pkgPathOf(cal) == PkgRBC && r.reachesSink(cal, seen) {
				return true
			}
		}
	}
	return false
}
