package main

// C06 — node-id / party-id translation: identifier spaces at the backend
// boundary, session-dependent destinations, duplicate-party refusal.

import (
	"fmt"
	"go/token"
	"go/types"
	"os"
	"sort"
	"strings"

	"golang.org/x/tools/go/ssa"
)

func init() { register("C06", checkC06) }

type idSpace int

const (
	spaceU idSpace = 1
	spaceP idSpace = 2
)

type spaceSet map[idSpace]bool

func (s spaceSet) String() string {
	var out []string
	if s[spaceU] {
		out = append(out, "UniversalID")
	}
	if s[spaceP] {
		out = append(out, "PartyID")
	}
	if len(out) == 0 {
		return "unknown"
	}
	return strings.Join(out, "+")
}

func spaceOfType(t types.Type) (idSpace, bool) {
	switch x := t.(type) {
	case *types.Named:
		if x.Obj().Pkg() != nil && x.Obj().Pkg().Path() == PkgTypes {
			switch x.Obj().Name() {
			case "UniversalID":
				return spaceU, true
			case "PartyID":
				return spaceP, true
			}
		}
		return spaceOfType(x.Underlying())
	case *types.Slice:
		return spaceOfType(x.Elem())
	case *types.Array:
		return spaceOfType(x.Elem())
	case *types.Pointer:
		return spaceOfType(x.Elem())
	}
	return 0, false
}

// is16Carrier: uint16, []uint16, map keyed by uint16 — values that can carry an identifier of either space.
func is16Carrier(t types.Type) bool {
	switch x := t.Underlying().(type) {
	case *types.Basic:
		return x.Kind() == types.Uint16
	case *types.Slice:
		return is16Carrier(x.Elem())
	case *types.Map:
		return is16Carrier(x.Key())
	}
	return false
}

type spaceAnalysis struct {
	t     *thrModel
	roles map[ssa.Value]idSpace // role seeds: closure parameters
	memo  map[ssa.Value]spaceSet
	busy  map[ssa.Value]bool
}

// seedRoles assigns spaces to parameters of closures by the slot they are passed in.
func (sa *spaceAnalysis) seedRoles() {
	t := sa.t
	seed := func(v ssa.Value, idx int, sp idSpace) {
		f := t.sl.localClosureCallee(v)
		if f == nil || idx >= len(f.Params) {
			return
		}
		sa.roles[f.Params[idx]] = sp
	}
	for _, fn := range t.fns {
		for _, in := range instrsOf(fn) {
			ci, ok := in.(ssa.CallInstruction)
			if !ok {
				continue
			}
			cc := ci.Common()
			switch {
			case callsFuncField(cc, t.fRBF) && len(cc.Args) == 3:
				seed(cc.Args[0], 1, spaceU) // BroadcastFunc(digest, sender, round)
				seed(cc.Args[1], 1, spaceU) // ForwardFunc(msg, from)
			case callsFuncField(cc, t.fSyncFactory) && len(cc.Args) == 3:
				seed(cc.Args[2], 1, spaceU) // send(msg, to)
			case invokesMethod(cc, "Init") && len(cc.Args) == 3:
				seed(cc.Args[2], 2, spaceP) // sendMsg(msg, isBroadcast, to)
			case invokesMethod(cc, "Synchronize") && len(cc.Args) >= 2:
				seed(cc.Args[1], 0, spaceU) // continuation(members)
			}
		}
	}
}

func (sa *spaceAnalysis) spaceOf(v ssa.Value) spaceSet {
	if s, ok := sa.memo[v]; ok {
		return s
	}
	if sa.busy[v] {
		return spaceSet{}
	}
	sa.busy[v] = true
	defer delete(sa.busy, v)
	out := spaceSet{}
	add := func(s spaceSet) {
		for k := range s {
			out[k] = true
		}
	}
	if sp, ok := spaceOfType(v.Type()); ok {
		out[sp] = true
		sa.memo[v] = out
		return out
	}
	if sp, ok := sa.roles[v]; ok {
		out[sp] = true
		sa.memo[v] = out
		return out
	}
	if !is16Carrier(v.Type()) {
		sa.memo[v] = out
		return out
	}
	switch x := v.(type) {
	case *ssa.Convert:
		add(sa.spaceOf(x.X))
	case *ssa.ChangeType:
		add(sa.spaceOf(x.X))
	case *ssa.Phi:
		for _, e := range x.Edges {
			add(sa.spaceOf(e))
		}
	case *ssa.Parameter:
		fn := x.Parent()
		idx := paramIndex(x)
		for _, ci := range sa.t.sl.callers[fn] {
			args := ci.Common().Args
			if idx < len(args) && len(args) == len(fn.Params) {
				add(sa.spaceOf(args[idx]))
			}
		}
	case *ssa.FreeVar:
		fn := x.Parent()
		for i, fv := range fn.FreeVars {
			if fv == x {
				for _, mc := range sa.t.sl.closures[fn] {
					add(sa.spaceOf(mc.Bindings[i]))
				}
			}
		}
	case *ssa.UnOp:
		if x.Op == token.MUL {
			if cell := cellOf(x.X); cell != nil {
				for _, st := range storesToCell(cell) {
					add(sa.spaceOf(st.Val))
				}
			} else if ia, ok := x.X.(*ssa.IndexAddr); ok {
				add(sa.spaceOf(ia.X))
			} else if fa, ok := x.X.(*ssa.FieldAddr); ok {
				f := fieldOfAddr(fa)
				for _, st := range storesToField(sa.t.fns, f) {
					add(sa.spaceOf(st.Val))
				}
			}
		}
	case *ssa.Extract:
		if nx, ok := x.Tuple.(*ssa.Next); ok {
			if rg, ok := nx.Iter.(*ssa.Range); ok {
				add(sa.spaceOf(rg.X))
			}
		} else if cl, ok := x.Tuple.(*ssa.Call); ok {
			if callee := staticCallee(&cl.Call); callee != nil && callee.Blocks != nil && ownPkgPath(pkgPathOf(callee)) {
				for _, in := range instrsOf(callee) {
					if r, ok := in.(*ssa.Return); ok && x.Index < len(r.Results) {
						add(sa.spaceOf(retResult(r, x.Index)))
					}
				}
			}
		}
	case *ssa.Call:
		if b, ok := x.Call.Value.(*ssa.Builtin); ok && b.Name() == "append" {
			add(sa.spaceOf(x.Call.Args[0]))
			if len(x.Call.Args) > 1 {
				for _, e := range variadicElems(x.Call.Args[1]) {
					add(sa.spaceOf(e))
				}
				if len(variadicElems(x.Call.Args[1])) == 0 {
					add(sa.spaceOf(x.Call.Args[1]))
				}
			}
			break
		}
		if callee := staticCallee(&x.Call); callee != nil && callee.Blocks != nil && ownPkgPath(pkgPathOf(callee)) {
			for _, in := range instrsOf(callee) {
				if r, ok := in.(*ssa.Return); ok {
					for i := range r.Results {
						if is16Carrier(r.Results[i].Type()) {
							add(sa.spaceOf(retResult(r, i)))
						}
					}
				}
			}
		}
	case *ssa.MakeSlice, *ssa.Alloc, *ssa.MakeMap:
		// elements stored into it
		if refs := v.Referrers(); refs != nil {
			for _, r := range *refs {
				switch u := r.(type) {
				case *ssa.IndexAddr:
					if rr := u.Referrers(); rr != nil {
						for _, q := range *rr {
							if st, ok := q.(*ssa.Store); ok && st.Addr == u {
								add(sa.spaceOf(st.Val))
							}
						}
					}
				case *ssa.MapUpdate:
					if u.Map == v {
						add(sa.spaceOf(u.Key))
					}
				case *ssa.Slice:
					// slice of the array: handled at the user
				}
			}
		}
	case *ssa.Slice:
		add(sa.spaceOf(x.X))
	case *ssa.Lookup:
		// value of a map keyed by 16-bit ids is not an id carrier itself unless typed
	}
	sa.memo[v] = out
	return out
}

func checkC06(c *Ctx) {
	c.explanation = "Static decision on threshold's SSA by a typed backward walk over 16-bit carriers (seeded by the named types UniversalID/PartyID and by the role of closure parameters: continuation lists, ForwardFunc/BroadcastFunc/sync-send ids are node ids; sendMsg's `to` is a party id) of: (D1) the list given to KeyGenerator/Signer.Init, the source given to OnMsg and the id given to KeyGenFactory/SignerFactory are party ids, the list given to SyncFactory and every conversion to a named id type stay in their space; (V1) the node id passed to Send on the point-to-point arm of each sendMsg closure is data-dependent on the agreed participant list of this session; (G1/O1) in the translation of the agreed list every append is dominated by the not-seen arm of the `used` lookup whose seen arm returns an error, the result is sorted before the success return; (V2) Init's list derives from that translation. Behaviour under a concrete map is implied by this space discipline."
	c.notDecided = "nothing structural; concrete maps are covered by the space discipline"
	c.Assume("README: the mpc backends speak PartyID, rbc/disc/transport speak UniversalID")
	t := buildThresholdModel(c)
	if t == nil {
		return
	}
	m := t.m
	const D1, V1, G1, V2 = "C06.D1", "C06.V1", "C06.G1", "C06.V2"
	c.Rule(D1, "identifier spaces at the backend / synchroniser boundary and at conversions", 4)
	c.Rule(V1, "point-to-point destination depends on the session's agreed list", 1)
	c.Rule(G1, "duplicate party refused; result sorted", 1)
	c.Rule(V2, "Init's list derives from the duplicate-checked translation", 1)
	sa := &spaceAnalysis{t: t, roles: map[ssa.Value]idSpace{}, memo: map[ssa.Value]spaceSet{}, busy: map[ssa.Value]bool{}}
	sa.seedRoles()

	want := func(v ssa.Value, sp idSpace, rule, fn, construct, pos, why string) {
		s := sa.spaceOf(v)
		ok := len(s) == 1 && s[sp]
		wantName := "PartyID"
		if sp == spaceU {
			wantName = "UniversalID"
		}
		c.Check(ok, rule, fn, construct, pos, "space = "+wantName, fmt.Sprintf("%s (value is in space %s, required %s)", why, s, wantName))
	}
	translate := m.Func(PkgThreshold, "membership", "partyIDsByUniversalIDs")
	if translate == nil {
		// by role: the function that collects, by append, party identifiers obtained from the node→party
		// table (its accessor or the table itself)
		fTab0 := m.Field(PkgThreshold, "membership", "uID2PID")
		var cands []*ssa.Function
		for _, fn := range t.fns {
			hit := false
			for _, in := range instrsOf(fn) {
				cl, ok := in.(*ssa.Call)
				if !ok {
					continue
				}
				if b, ok := cl.Call.Value.(*ssa.Builtin); !ok || b.Name() != "append" {
					continue
				}
				st, isS := cl.Type().Underlying().(*types.Slice)
				if !isS {
					continue
				}
				if sp, okSp := spaceOfType(st.Elem()); !okSp || sp != spaceP {
					continue
				}
				els := variadicElems(cl.Call.Args[1])
				if len(els) != 1 {
					continue
				}
				switch x := strip(els[0]).(type) {
				case *ssa.Call:
					if g := staticCallee(&x.Call); g != nil && g.Name() == "partyIDByUniversalID" {
						hit = true
					}
				case *ssa.Lookup:
					hit = hit || (fTab0 != nil && isLoadOfField(x.X, fTab0))
				case *ssa.Extract:
					if lk, isL := x.Tuple.(*ssa.Lookup); isL && fTab0 != nil && isLoadOfField(lk.X, fTab0) {
						hit = true
					}
				}
			}
			if hit {
				cands = append(cands, fn)
			}
		}
		if len(cands) == 1 {
			translate = cands[0]
			c.Note("anchor: membership.partyIDsByUniversalIDs found by role (the function that collects translated party identifiers): %s", FuncName(translate))
		}
	}
	for _, fn := range t.fns {
		for _, in := range instrsOf(fn) {
			pos := m.Pos(in.Pos())
			fname := FuncName(fn)
			switch x := in.(type) {
			case ssa.CallInstruction:
				cc := x.Common()
				switch {
				case invokesMethod(cc, "Init") && len(cc.Args) == 3:
					want(cc.Args[0], spaceP, D1, fname, "Init party list", pos, "the MPC backend is initialised with node identifiers instead of the party identifiers of the agreed participants: with a non-identity membership map it addresses and indexes the wrong parties")
					// V2
					okV2 := false
					if translate != nil {
						s := t.sl.Slice(cc.Args[0])
						okV2 = sliceHas(s, func(v ssa.Value) bool {
							cl, ok := v.(*ssa.Call)
							return ok && staticCallee(&cl.Call) == translate
						})
					}
					c.Check(okV2, V2, fname, "Init party list provenance", pos, "derives from membership.partyIDsByUniversalIDs(agreed list)", "the party list given to Init is not the duplicate-checked, sorted translation of the agreed participants")
				case invokesMethod(cc, "OnMsg") && len(cc.Args) == 3:
					want(cc.Args[1], spaceP, D1, fname, "OnMsg source", pos, "the backend is told the node identifier of the sender instead of its party identifier")
				case (callsFuncField(cc, t.fKGF) || callsFuncField(cc, t.fSF)) && len(cc.Args) == 1:
					want(cc.Args[0], spaceP, D1, fname, "factory id", pos, "the backend instance is created with this node's node identifier instead of its party identifier")
				case callsFuncField(cc, t.fSyncFactory) && len(cc.Args) == 3:
					want(cc.Args[0], spaceU, D1, fname, "SyncFactory member list", pos, "the synchroniser is given party identifiers; it addresses nodes")
				}
			case *ssa.Convert, *ssa.ChangeType:
				var opnd ssa.Value
				if cv, ok := x.(*ssa.Convert); ok {
					opnd = cv.X
				} else {
					opnd = x.(*ssa.ChangeType).X
				}
				xv := x.(ssa.Value)
				if sp, ok := spaceOfType(xv.Type()); ok && intWidth(opnd.Type()) == 16 {
					if _, typed := spaceOfType(opnd.Type()); !typed {
						s := sa.spaceOf(opnd)
						if len(s) > 0 { // untagged values (constants, loop counters) carry no space
							name := "UniversalID"
							if sp == spaceP {
								name = "PartyID"
							}
							ok := len(s) == 1 && s[sp]
							c.Check(ok, D1, fname, "conversion to "+name+" of "+render(opnd), pos, "operand already in that space", fmt.Sprintf("a value of space %s is relabelled as %s without translation", s, name))
						}
					}
				}
			}
		}
	}

	// ------------------------------------------------------------------ V1
	nV := 0
	for _, ci := range invokesOf(t.fns, "Init") {
		cc := ci.Common()
		if len(cc.Args) != 3 {
			continue
		}
		clo := t.sl.localClosureCallee(cc.Args[2])
		// a closure factory shared by the sessions: an own function whose only return is a closure literal
		var factory *ssa.Function
		var factoryCall *ssa.Call
		if clo == nil {
			if fc, ok := strip(cc.Args[2]).(*ssa.Call); ok {
				if g := staticCallee(&fc.Call); g != nil && g.Blocks != nil && pkgPathOf(g) == PkgThreshold && len(g.Params) == len(fc.Call.Args) {
					var rets []*ssa.Return
					for _, gi := range instrsOf(g) {
						if r, isR := gi.(*ssa.Return); isR {
							rets = append(rets, r)
						}
					}
					if len(rets) == 1 && len(rets[0].Results) == 1 {
						noParamLook++
						mc, isMC := strip(rets[0].Results[0]).(*ssa.MakeClosure)
						noParamLook--
						if isMC {
							clo, factory, factoryCall = mc.Fn.(*ssa.Function), g, fc
						}
					}
				}
			}
		}
		// a method value of a per-session link object (`link.send`): the method, its parameters after the receiver
		off := 0
		if _, meth, isBM := boundMethod(cc.Args[2]); isBM {
			if g := m.Prog.FuncValue(meth); g != nil && g.Blocks != nil && pkgPathOf(g) == PkgThreshold && len(g.Params) == 4 {
				clo, off = g, 1
			}
		}
		if clo == nil || len(clo.Params) < 3+off {
			c.Unk(V1, FuncName(ci.Parent()), "sendMsg closure", m.Pos(ci.Pos()), "the sendMsg argument of Init is not a closure literal")
			continue
		}
		c.Analysed(FuncName(clo))
		isB := strip(clo.Params[1+off])
		for _, in := range instrsOf(clo) {
			call, ok := in.(*ssa.Call)
			if !ok || !callsFuncField(&call.Call, t.fSend) {
				continue
			}
			// point-to-point arm: isBroadcast is false here
			if !boolFact(FactsAt(call), false, func(v ssa.Value) bool { return strip(v) == isB }) {
				continue
			}
			nV++
			dests := variadicElems(call.Call.Args[3])
			ok1 := len(dests) == 1
			dep := false
			if ok1 {
				s := t.sl.Slice(dests[0])
				if factory == nil {
					for f := range t.conts {
						if len(f.Params) > 0 && s[f.Params[0]] {
							dep = true
						}
					}
				} else {
					// per session: what THIS call of the factory passes for the parameters the destination
					// is computed from
					for i, gp := range factory.Params {
						if !s[gp] {
							continue
						}
						sa := t.sl.Slice(factoryCall.Call.Args[i])
						for f := range t.conts {
							if len(f.Params) > 0 && sa[f.Params[0]] {
								dep = true
							}
						}
					}
				}
				// and on the addressed party
				if os.Getenv("TSS_DEBUG") != "" {
					for v := range s {
						if p, ok := v.(*ssa.Parameter); ok {
							fmt.Println("DBG param in slice:", FuncName(p.Parent()), p.Name())
						}
					}
				}
				dep = dep && s[clo.Params[2+off]]
			}
			c.Check(ok1 && dep, V1, FuncName(clo), "point-to-point destination", m.Pos(call.Pos()), "one node, derived from sendMsg's `to` and from the agreed participant list of this session",
				"the node a point-to-point protocol message is sent to is taken from the global party→node table, which is built by ranging over a Go map: with several nodes per party an arbitrary replica — not the one that participates in this session — receives the secret share")
		}
	}
	if nV < 2 {
		c.Bad(V1, "threshold", "point-to-point arms", "-", fmt.Sprintf("found %d point-to-point send arms, expected 2 (DKG and signing)", nV))
	}

	// ------------------------------------------------------------------ V3: party→node maps file a node under ITS party
	const V3 = "C06.V3"
	c.Rule(V3, "party→node maps are keyed by the translation of the very node they store", 1)
	nRev := 0
	for _, fn := range t.fns {
		for _, in := range instrsOf(fn) {
			mu, ok := in.(*ssa.MapUpdate)
			if !ok {
				continue
			}
			mt, ok := mu.Map.Type().Underlying().(*types.Map)
			if !ok {
				continue
			}
			ks, okk := spaceOfType(mt.Key())
			vs, okv := spaceOfType(mt.Elem())
			if !okk || !okv || ks != spaceP || vs != spaceU {
				continue
			}
			nRev++
			okDep := t.sl.Slice(mu.Key)[strip(mu.Value)] || t.sl.Slice(mu.Key)[mu.Value]
			// or key and value are the two components of one map-iteration step
			if !okDep {
				ek, ok1 := strip(mu.Key).(*ssa.Extract)
				ev, ok2 := strip(mu.Value).(*ssa.Extract)
				if ok1 && ok2 && ek.Tuple == ev.Tuple {
					if _, isNext := ek.Tuple.(*ssa.Next); isNext {
						okDep = true
					}
				}
			}
			c.Check(okDep, V3, FuncName(fn), "entry of a party→node map", m.Pos(mu.Pos()), "key = party of the node stored (computed from it, or the same membership entry)",
				"a node is filed under a party identifier that is not computed from that node (e.g. two independently ordered lists paired by position): with a membership map that does not preserve order, point-to-point messages go to a node of another party")
		}
	}
	if nRev == 0 {
		c.Bad(V3, "threshold", "party→node map", "-", "no party→node map is built")
	}

	// ------------------------------------------------------------------ G1 / O1
	if translate == nil {
		c.Fatalf("anchor", "membership.partyIDsByUniversalIDs not found (by name, fingerprint or role)")
		return
	}
	c.Analysed(FuncName(translate))
	if translate.Signature.Results().Len() != 2 {
		c.Bad(G1, FuncName(translate), "translation can refuse", m.Pos(translate.Pos()), "the translation of the agreed node list into parties no longer returns an error: a party represented by two selected nodes cannot be refused, the backend is initialised with a duplicated party identifier")
		return
	}
	nApp := 0
	var usedLookup *ssa.Lookup
	var listFA *ssa.FieldAddr // the list is a field of an object (set at the append)
	for _, in := range instrsOf(translate) {
		cl, ok := in.(*ssa.Call)
		if !ok {
			continue
		}
		if b, ok := cl.Call.Value.(*ssa.Builtin); !ok || b.Name() != "append" {
			continue
		}
		els := variadicElems(cl.Call.Args[1])
		if len(els) != 1 {
			continue
		}
		nApp++
		pid := strip(els[0])
		if ld, isLd := strip(cl.Call.Args[0]).(*ssa.UnOp); isLd && ld.Op == token.MUL {
			if fa, isFA := ld.X.(*ssa.FieldAddr); isFA {
				listFA = fa
			}
		}
		// the not-seen test: `_, seen := used[pid]` or, for a map to bool, `used[pid]` itself
		ok2 := boolFact(FactsAt(cl), false, func(v ssa.Value) bool {
			var lk *ssa.Lookup
			if tup, isOK := commaOK(v); isOK {
				lk, _ = tup.(*ssa.Lookup)
			} else if l, isL := v.(*ssa.Lookup); isL && !l.CommaOk {
				lk = l
			}
			if lk != nil && strip(lk.Index) == pid {
				usedLookup = lk
				return true
			}
			return false
		})
		// the seen arm returns an error; the set is updated with the same key before the next iteration
		okErr, okMark := false, false
		if usedLookup != nil {
			for _, b := range translate.Blocks {
				iff, isIf := b.Instrs[len(b.Instrs)-1].(*ssa.If)
				if !isIf {
					continue
				}
				f := factOf(Guard{iff, true})
				if f.Op != 0 {
					continue
				}
				if tup, isOK := commaOK(f.Bool); (!isOK || tup != ssa.Value(usedLookup)) && f.Bool != ssa.Value(usedLookup) {
					continue
				}
				seen := b.Succs[0]
				if !f.True {
					seen = b.Succs[1]
				}
				if r, isR := seen.Instrs[len(seen.Instrs)-1].(*ssa.Return); isR && !isNilConst(retResult(r, 1)) {
					okErr = true
				}
			}
			for _, in2 := range instrsOf(translate) {
				if mu, isMU := in2.(*ssa.MapUpdate); isMU && (strip(mu.Map) == strip(usedLookup.X) || sameValue(mu.Map, usedLookup.X)) && strip(mu.Key) == pid {
					okMark = true
				}
			}
		}
		c.Check(ok2 && okErr && okMark, G1, FuncName(translate), "append of translated party", m.Pos(cl.Pos()), "not-seen arm of used[pid]; seen arm returns an error; used[pid] marked",
			"two selected nodes that represent the same party are both admitted: the backend is initialised with a duplicated party identifier")
	}
	if nApp == 0 {
		c.Bad(G1, FuncName(translate), "append of translated party", "-", "no translated party is collected")
	}
	// sorted before success
	for _, in := range instrsOf(translate) {
		r, ok := in.(*ssa.Return)
		if !ok || !isNilConst(retResult(r, 1)) {
			continue
		}
		res := strip(retResult(r, 0))
		okSort := false
		// the list is collected in a field of the object that is returned (a session struct): sorted means
		// a sort of that field of that object dominates the return and nothing stores to the field after it
		if listFA != nil && (strip(listFA.X) == res || sameObject(listFA.X, res) || sameValue(listFA.X, res)) {
			lf := fieldOfAddr(listFA)
			for _, in2 := range instrsOf(translate) {
				cl, ok := in2.(*ssa.Call)
				if !ok || !isSortCall(cl) || len(cl.Call.Args) < 1 || !instrDominates(cl, r) {
					continue
				}
				_, f2, isF := fieldLoad(strip(cl.Call.Args[0]))
				if !isF || f2 != lf {
					continue
				}
				after := reachableBlocks(cl.Block())
				written := false
				for _, st := range storesToField([]*ssa.Function{translate}, lf) {
					if st.Block() == cl.Block() {
						if instrIndex(st) > instrIndex(cl) {
							written = true
						}
						for _, sb := range cl.Block().Succs {
							if reachableBlocks(sb)[cl.Block()] {
								written = true // the block is inside a loop
							}
						}
						continue
					}
					if after[st.Block()] {
						written = true
					}
				}
				if !written {
					okSort = true
				}
			}
			c.Check(okSort, G1, FuncName(translate), "result sorted before the success return", m.Pos(r.Pos()), "a sort of the collected list dominates the return, nothing is appended after it", "parties initialise their backends with differently ordered party lists")
			continue
		}
		for _, in2 := range instrsOf(translate) {
			cl, ok := in2.(*ssa.Call)
			if !ok {
				continue
			}
			cal := staticCallee(&cl.Call)
			isSort := cal != nil && (cal.Name() == "sortPartyIdentifiers" || isSortHelper(cal))
			for _, nm := range [][2]string{{"sort", "Sort"}, {"sort", "Slice"}, {"sort", "SliceStable"}, {"sort", "Stable"}, {"slices", "Sort"}} {
				if isCallTo(&cl.Call, nm[0], nm[1]) {
					isSort = true
				}
			}
			if isSort && len(cl.Call.Args) >= 1 && (strip(cl.Call.Args[0]) == res || sameValue(cl.Call.Args[0], res) || sameCellUnwrittenAfter(cl.Call.Args[0], res, cl)) && instrDominates(cl, r) {
				okSort = true
			}
			// the translated list handed back as a field of a result struct (`return roster{nodes: …,
			// parties: parties}, nil`): the sorted value is what that field is given
			if isSort && !okSort && len(cl.Call.Args) >= 1 && instrDominates(cl, r) {
				rv := retResult(r, 0)
				var rst *types.Struct
				if st, ok := rv.Type().Underlying().(*types.Struct); ok {
					rst = st
				} else if pt, ok := rv.Type().Underlying().(*types.Pointer); ok {
					rst, _ = pt.Elem().Underlying().(*types.Struct)
				}
				for i := 0; rst != nil && i < rst.NumFields(); i++ {
					fv := structFieldValue(rv, rst.Field(i), 0)
					if fv != nil && (strip(fv) == strip(cl.Call.Args[0]) || sameValue(fv, cl.Call.Args[0]) || sameCellUnwrittenAfter(cl.Call.Args[0], strip(fv), cl)) {
						okSort = true
					}
				}
			}
		}
		c.Check(okSort, G1, FuncName(translate), "result sorted before the success return", m.Pos(r.Pos()), "sortPartyIdentifiers(res) dominates return res, nil", "parties initialise their backends with differently ordered party lists")
	}
	// the translation uses the node→party table on the very id iterated
	okTab := false
	fTab := m.Field(PkgThreshold, "membership", "uID2PID")
	for _, in := range instrsOf(translate) {
		if cl, ok := in.(*ssa.Call); ok {
			if cal := staticCallee(&cl.Call); cal != nil && cal.Name() == "partyIDByUniversalID" {
				okTab = true
			}
		}
		// the accessor written out: a lookup in the node→party table
		if lk, ok := in.(*ssa.Lookup); ok && fTab != nil && isLoadOfField(lk.X, fTab) {
			okTab = true
		}
	}
	c.Check(okTab, G1, FuncName(translate), "translation through the node→party table", m.Pos(translate.Pos()), "partyIDByUniversalID(id) per agreed node", "the agreed nodes are not translated through the membership table")
	_ = sort.Strings
	ruleC06TableTotal(c, m, fTab)
}

// ruleC06TableTotal (C06.T1): the node→party table is total over the configured mapping.  Every
// translation of the property (party list for Init, source of a received message, destination of a
// point-to-point message, refusal of two nodes of one party) reads membership.uID2PID; a configured node
// without an entry is read as party 0.  Decided: the map that the membership literal is given for that
// field is filled by stores that are unconditional inside their loop — no data test (such as "this party
// already has a representative") stands between the iteration over the configured nodes and the store.
func ruleC06TableTotal(c *Ctx, m *Module, fTab *types.Var) {
	const T1 = "C06.T1"
	c.Rule(T1, "the node→party table gets an entry for every configured node", 1)
	if fTab == nil {
		c.Unk(T1, "threshold", "node→party table", "-", "membership.uID2PID not found")
		return
	}
	n := 0
	for _, fn := range m.PkgFuncs(PkgThreshold) {
		for _, st := range storesToField([]*ssa.Function{fn}, fTab) {
			mk, ok := strip(st.Val).(*ssa.MakeMap)
			if !ok {
				// the map comes from elsewhere: only a make in the building function is understood
				c.Unk(T1, FuncName(fn), "node→party table", m.Pos(st.Pos()), "the table stored into the membership is not a map made in the same function")
				n++
				continue
			}
			ups := 0
			for _, in := range instrsDeep(fn) {
				mu, isMU := in.(*ssa.MapUpdate)
				// (the map itself, or the table read back from the membership that is being built)
				if !isMU || !(strip(mu.Map) == ssa.Value(mk) || isLoadOfField(mu.Map, fTab)) {
					continue
				}
				ups++
				n++
				uncond := len(GuardsOf(mu)) == 0 || onlyLoopGuards(mu)
				c.Check(uncond, T1, FuncName(mu.Parent()), "store into the node→party table", m.Pos(mu.Pos()),
					"unconditional inside the loop over the configured nodes",
					"a configured node gets an entry in the node→party table only under a condition: a node without an entry is translated to party 0 — the party list handed to the backends, the attribution of its messages, the destination of point-to-point messages and the refusal of two nodes of one party are all wrong for memberships in which a party has several nodes")
			}
			if ups == 0 {
				n++
				c.Bad(T1, FuncName(fn), "store into the node→party table", m.Pos(mk.Pos()), "the table is never filled")
			}
		}
	}
	if n == 0 {
		c.Bad(T1, "threshold", "node→party table", "-", "no construction of membership.uID2PID found")
	}
}

// sameCellUnwrittenAfter: a and b are loads of one local variable that lives in a cell (it is captured
// by a literal, e.g. the less function of sort.Slice), and nothing writes the variable after `from`:
// no store in the function that `from` can reach, and no literal capturing the cell stores to it.
func sameCellUnwrittenAfter(a, b ssa.Value, from ssa.Instruction) bool {
	la, ok1 := strip(a).(*ssa.UnOp)
	lb, ok2 := strip(b).(*ssa.UnOp)
	if !ok1 || !ok2 || la.Op != token.MUL || lb.Op != token.MUL {
		return false
	}
	cell, ok := la.X.(*ssa.Alloc)
	if !ok || lb.X != ssa.Value(cell) || cell.Referrers() == nil {
		return false
	}
	after := reachableBlocks(from.Block())
	for _, r := range *cell.Referrers() {
		switch x := r.(type) {
		case *ssa.Store:
			if x.Addr != ssa.Value(cell) {
				return false // the address itself is stored somewhere
			}
			if x.Block() == from.Block() {
				if instrIndex(x) > instrIndex(from) {
					return false
				}
				// the block may also be re-entered through a loop
				inLoop := false
				for _, sblk := range from.Block().Succs {
					if reachableBlocks(sblk)[from.Block()] {
						inLoop = true
					}
				}
				if inLoop {
					return false
				}
				continue
			}
			if after[x.Block()] {
				return false
			}
		case *ssa.UnOp:
		case *ssa.MakeClosure:
			fn, _ := x.Fn.(*ssa.Function)
			if fn == nil {
				return false
			}
			for i, bnd := range x.Bindings {
				if bnd != ssa.Value(cell) || i >= len(fn.FreeVars) {
					continue
				}
				fv := fn.FreeVars[i]
				if fv.Referrers() == nil {
					continue
				}
				for _, q := range *fv.Referrers() {
					if _, isLoad := q.(*ssa.UnOp); !isLoad {
						return false // the literal writes the variable or passes its address on
					}
				}
			}
		default:
			return false
		}
	}
	return true
}

func isSortCall(cl *ssa.Call) bool {
	if cal := staticCallee(&cl.Call); cal != nil && (cal.Name() == "sortPartyIdentifiers" || isSortHelper(cal)) {
		return true
	}
	for _, nm := range [][2]string{{"sort", "Sort"}, {"sort", "Slice"}, {"sort", "SliceStable"}, {"sort", "Stable"}, {"slices", "Sort"}} {
		if isCallTo(&cl.Call, nm[0], nm[1]) {
			return true
		}
	}
	return false
}

// isSortHelper: an own function of one slice parameter whose body, unconditionally, hands that
// parameter (possibly converted to a sort.Interface type) to a sorting function of the standard library
// (`func sortIDs[ID ~uint16](ids []ID) { sort.Slice(ids, …) }`).  Generic helpers are read through their
// instantiation, or through the generic origin when the instance has no body of its own.
func isSortHelper(g *ssa.Function) bool {
	if g == nil || !ownPkgPath(pkgPathOf(g)) && (g.Origin() == nil || !ownPkgPath(pkgPathOf(g.Origin()))) {
		return false
	}
	body := g
	if len(body.Blocks) == 0 && g.Origin() != nil {
		body = g.Origin()
	}
	if len(body.Blocks) == 0 || len(body.Params) != 1 {
		return false
	}
	if _, isSl := body.Params[0].Type().Underlying().(*types.Slice); !isSl {
		if _, isTP := body.Params[0].Type().(*types.TypeParam); !isTP {
			return false
		}
	}
	for _, in := range body.Blocks[0].Instrs {
		cl, ok := in.(*ssa.Call)
		if !ok || len(cl.Call.Args) < 1 {
			continue
		}
		for _, nm := range [][2]string{{"sort", "Sort"}, {"sort", "Slice"}, {"sort", "SliceStable"}, {"sort", "Stable"}, {"slices", "Sort"}} {
			if isCallTo(&cl.Call, nm[0], nm[1]) {
				noParamLook++
				a := strip(cl.Call.Args[0])
				noParamLook--
				if a == ssa.Value(body.Params[0]) {
					return true
				}
			}
		}
	}
	return false
}
