package main

import (
	"encoding/json"
	"fmt"
	"os"
)

// runThorough is extended in mutants.go; placeholder until then.
var thoroughHook func(c *Ctx)

func runThorough(c *Ctx) {
	if thoroughHook != nil {
		thoroughHook(c)
	}
}

// doReplay re-evaluates the property named in a replay file on the current
// tree and prints whether each recorded violation is still reported.
func doReplay(path, repo, verif string, seed int64) int {
	b, err := os.ReadFile(path)
	if err != nil {
		fmt.Fprintln(os.Stderr, err)
		return 2
	}
	var doc struct {
		Property   string        `json:"property"`
		Violations []*Obligation `json:"violations"`
		Failures   []string      `json:"analysis_failures"`
	}
	if err := json.Unmarshal(b, &doc); err != nil {
		fmt.Fprintln(os.Stderr, err)
		return 2
	}
	f, ok := props[doc.Property]
	if !ok {
		fmt.Fprintf(os.Stderr, "unknown property %q in replay file\n", doc.Property)
		return 2
	}
	fmt.Printf("replaying %d recorded violation(s) of %s:\n", len(doc.Violations), doc.Property)
	for _, o := range doc.Violations {
		fmt.Printf("  recorded: rule=%s func=%s construct=[%s] at %s: %s\n", o.Rule, o.Func, o.Construct, o.Pos, o.By)
	}
	for _, s := range doc.Failures {
		fmt.Printf("  recorded analysis failure: %s\n", s)
	}
	return runProp(doc.Property, f, "quick", repo, verif, seed)
}
