package main

// Engine P (panic sites): closure of functions reachable from the network
// entry points, enumeration of panic-capable constructs in it, discharge by
// dominating guards or by the frozen reason table.

import (
	"bytes"
	"fmt"
	"go/token"
	"go/types"
	"os"
	"os/exec"
	"path/filepath"
	"regexp"
	"sort"
	"strconv"
	"strings"

	"golang.org/x/tools/go/callgraph"
	"golang.org/x/tools/go/ssa"
)

type entryPoint struct {
	pkg, recv, name string
}

// Network entry points per module (C10's observe_at).
var networkEntries = map[string][]entryPoint{
	ModRoot: {
		{PkgThreshold, "Scheme", "HandleMessage"}, {PkgThreshold, "embeddedBoxWithScheme", "HandleMessage"},
		{PkgMsg, "Box", "HandleMessage"}, {PkgDisc, "Member", "HandleMessage"}, {PkgDisc, "SilentSynchronizer", "HandleMessage"},
		{PkgRBC, "Receiver", "Receive"}, {PkgNet, "", "handleConn"},
		{PkgThreshold, "rbcFilter", "Receive"}, {PkgThreshold, "threadSafeRBC", "Receive"}, {PkgThreshold, "threadSafeSync", "HandleMessage"}, {PkgThreshold, "receiver", "Receive"},
	},
	ModBLS:   {{PkgBLS, "TBLS", "ClassifyMsg"}, {PkgBLS, "TBLS", "OnMsg"}, {PkgBLS, "Verifier", "Init"}, {PkgBLS, "Verifier", "Verify"}},
	ModPS:    {{PkgPS, "TPS", "ClassifyMsg"}, {PkgPS, "TPS", "OnMsg"}, {PkgPS, "TPS", "Sign"}, {PkgPS, "Verifier", "Init"}, {PkgPS, "Verifier", "Verify"}},
	ModECDSA: {{PkgECDSA, "party", "ClassifyMsg"}, {PkgECDSA, "party", "OnMsg"}},
	ModEDDSA: {{PkgEDDSA, "party", "ClassifyMsg"}, {PkgEDDSA, "party", "OnMsg"}},
}

type bceSite struct {
	file      string
	line, col int
	kind      string // IsInBounds | IsSliceInBounds
}

var bceRe = regexp.MustCompile(`^(.+\.go):(\d+):(\d+): Found (IsInBounds|IsSliceInBounds)`)

// compilerBounds runs the Go compiler on the module with the prove pass's
// bounds-check report enabled and returns the checks it could NOT eliminate.
func compilerBounds(m *Module) ([]bceSite, error) {
	modPath := ""
	for _, p := range m.Initial {
		if p.Module != nil {
			modPath = p.Module.Path
			break
		}
	}
	if modPath == "" {
		return nil, fmt.Errorf("cannot determine module path of %s", m.Rel)
	}
	cmd := exec.Command("go", "build", "-gcflags="+modPath+"/...=-l -d=ssa/check_bce/debug=1", "./...")
	cmd.Dir = m.Dir
	cmd.Env = goEnv()
	var stderr bytes.Buffer
	cmd.Stderr = &stderr
	cmd.Stdout = &stderr
	err := cmd.Run()
	var out []bceSite
	for _, line := range strings.Split(stderr.String(), "\n") {
		mm := bceRe.FindStringSubmatch(strings.TrimSpace(line))
		if mm == nil {
			continue
		}
		f := mm[1]
		if !filepath.IsAbs(f) {
			f = filepath.Join(m.Dir, f)
		}
		l, _ := strconv.Atoi(mm[2])
		c, _ := strconv.Atoi(mm[3])
		out = append(out, bceSite{filepath.Clean(f), l, c, mm[4]})
	}
	if err != nil && len(out) == 0 {
		return nil, fmt.Errorf("go build for the bounds oracle failed in %s: %v: %s", m.Rel, err, tailLines(stderr.String(), 5))
	}
	return out, nil
}

type panicSite struct {
	kind   string // bounds | assert | panic | nilmap | nilcall | alloc | exit | divide
	in     ssa.Instruction
	expr   string // stable rendering of the operand
	detail string
	canon  string        // the same expression with local names replaced by their types (stable under renaming)
	alt    string        // optional second canonical key (e.g. the type of the channel of a send)
	render func() string // renders the operand (used again under a calling context)
}

type panicModel struct {
	m       *Module
	rel     string
	pkgs    []string
	fns     []*ssa.Function
	inPkg   map[*ssa.Function]bool
	closure map[*ssa.Function]bool
	why     map[*ssa.Function]string // how a function entered the closure
	sl      *Slicer
}

func ownPkgsOf(m *Module) []string {
	var out []string
	for _, p := range m.InitialOwn() {
		if strings.Contains(p.PkgPath, "/testutil") {
			continue
		}
		out = append(out, p.PkgPath)
	}
	return out
}

func buildPanicModel(c *Ctx, rel string) *panicModel {
	m := c.Mod(rel)
	if m == nil {
		return nil
	}
	pm := &panicModel{m: m, rel: rel, inPkg: map[*ssa.Function]bool{}, closure: map[*ssa.Function]bool{}, why: map[*ssa.Function]string{}}
	pm.pkgs = ownPkgsOf(m)
	// the unexported stateful types are anchors (a renamed one is found by its shape)
	for _, pk := range pm.pkgs {
		for name := range statefulTypes {
			m.LookupType(pk, name)
		}
	}
	m.resolveAllAnchors()
	for _, p := range pm.pkgs {
		for _, f := range m.PkgFuncs(p) {
			pm.fns = append(pm.fns, f)
			pm.inPkg[f] = true
		}
	}
	pm.sl = NewSlicer(m, pm.pkgs...)
	// roots
	var work []*ssa.Function
	add := func(f *ssa.Function, why string) {
		if f == nil || !pm.inPkg[f] || pm.closure[f] {
			return
		}
		pm.closure[f] = true
		pm.why[f] = why
		work = append(work, f)
	}
	for _, e := range networkEntries[rel] {
		f := m.Func(e.pkg, e.recv, e.name)
		if f == nil {
			c.Fatalf("anchor", "network entry point %s.%s.%s not found", e.pkg, e.recv, e.name)
			continue
		}
		add(f, "entry point")
	}
	// the VTA call graph is needed where handlers travel through func-typed fields and maps (the root module);
	// in the backend modules every own-package callee is reached by a static call, a closure or a method value.
	var cg *callgraph.Graph
	if rel == ModRoot {
		cg = m.CallGraph()
	}
	for {
		for len(work) > 0 {
			f := work[len(work)-1]
			work = work[:len(work)-1]
			for _, in := range instrsOf(f) {
				switch x := in.(type) {
				case *ssa.MakeClosure:
					add(x.Fn.(*ssa.Function), "closure created in "+f.Name())
					if _, meth, ok := boundMethod(x); ok {
						add(m.Prog.FuncValue(meth), "method value taken in "+f.Name())
					}
				case ssa.CallInstruction:
					add(staticCallee(x.Common()), "called from "+f.Name())
				}
			}
			if cg == nil {
				continue
			}
			if n := cg.Nodes[f]; n != nil {
				for _, e := range n.Out {
					add(e.Callee.Func, "call graph edge from "+f.Name())
				}
			}
		}
		// consumers of stored network data: fields written inside the closure make their readers roots
		written := map[*types.Var]bool{}
		for f := range pm.closure {
			for _, in := range instrsOf(f) {
				switch x := in.(type) {
				case *ssa.Store:
					if fa, ok := x.Addr.(*ssa.FieldAddr); ok && statefulOwner(fa.X.Type()) {
						written[fieldOfAddr(fa)] = true
					}
				case *ssa.MapUpdate:
					if b, fld, ok := fieldLoad(strip(x.Map)); ok && statefulOwner(b.Type()) {
						written[fld] = true
					}
				}
			}
		}
		grew := false
		for _, f := range pm.fns {
			if pm.closure[f] {
				continue
			}
			for _, in := range instrsOf(f) {
				if u, ok := in.(*ssa.UnOp); ok && u.Op == token.MUL {
					if fa, ok := u.X.(*ssa.FieldAddr); ok && written[fieldOfAddr(fa)] && ownField(fieldOfAddr(fa)) {
						add(f, "reads field "+fieldOfAddr(fa).Name()+" that network-reachable code writes")
						grew = true
						break
					}
				}
			}
		}
		if !grew && len(work) == 0 {
			break
		}
	}
	_ = callgraph.CalleesOf
	return pm
}

func ownField(f *types.Var) bool { return f.Pkg() != nil && ownPkgPath(f.Pkg().Path()) }

// sites enumerates the panic-capable constructs of the closure.
func (pm *panicModel) sites(c *Ctx) []panicSite {
	bce, err := compilerBounds(pm.m)
	if err != nil {
		c.Fatalf("bounds-oracle", "%v", err)
		return nil
	}
	byPos := map[string]bceSite{}
	for _, s := range bce {
		byPos[fmt.Sprintf("%s:%d:%d", s.file, s.line, s.col)] = s
	}
	c.extra["compiler_unproven_bounds_checks_"+strings.ReplaceAll(pm.rel, "/", "_")] = len(bce)
	var out []panicSite
	matched := map[string]bool{}
	var fns []*ssa.Function
	for f := range pm.closure {
		fns = append(fns, f)
	}
	sort.Slice(fns, func(i, j int) bool { return fns[i].String() < fns[j].String() })
	for _, f := range fns {
		c.Analysed(FuncName(f))
		for _, in := range instrsOf(f) {
			posKey := func() string {
				p := pm.m.Fset.Position(in.Pos())
				return fmt.Sprintf("%s:%d:%d", filepath.Clean(p.Filename), p.Line, p.Column)
			}
			switch x := in.(type) {
			case *ssa.IndexAddr:
				if s, ok := byPos[posKey()]; ok {
					matched[posKey()] = true
					out = append(out, mkSite("bounds", in, func() string { return render(x.X) + "[" + render(x.Index) + "]" }, s.kind))
				}
			case *ssa.Index:
				if s, ok := byPos[posKey()]; ok {
					matched[posKey()] = true
					out = append(out, mkSite("bounds", in, func() string { return render(x.X) + "[" + render(x.Index) + "]" }, s.kind))
				}
			case *ssa.Lookup:
				if _, isStr := x.X.Type().Underlying().(*types.Basic); isStr {
					if s, ok := byPos[posKey()]; ok {
						matched[posKey()] = true
						out = append(out, mkSite("bounds", in, func() string { return render(x.X) + "[" + render(x.Index) + "]" }, s.kind))
					}
				}
			case *ssa.Slice:
				if s, ok := byPos[posKey()]; ok {
					matched[posKey()] = true
					out = append(out, mkSite("bounds", in, func() string { return render(x) }, s.kind))
				}
			case *ssa.TypeAssert:
				if !x.CommaOk && x.Pos().IsValid() {
					kind := "assert"
					if types.IsInterface(x.AssertedType) && types.Identical(x.X.Type(), x.AssertedType) {
						kind = "nilcheck" // method value taken from an interface value
					}
					out = append(out, mkSite(kind, in, func() string { return render(x.X) + ".(" + types.TypeString(x.AssertedType, shortQual) + ")" }, ""))
				}
			case *ssa.Panic:
				if x.Pos().IsValid() {
					out = append(out, mkSite("panic", in, func() string { return panicText(x) }, ""))
				}
			case *ssa.MapUpdate:
				// store into a map held in a field that may never have been made
				if _, fld, ok := fieldLoad(strip(x.Map)); ok && ownField(fld) {
					out = append(out, mkSite("nilmap", in, func() string { return "store into ." + fld.Name() }, fld.Name()))
				}
			case *ssa.MakeSlice:
				if _, isK := constInt(x.Len); !isK {
					out = append(out, mkSite("alloc", in, func() string { return "make(" + types.TypeString(x.Type(), shortQual) + ", " + render(x.Len) + ")" }, ""))
				}
			case ssa.CallInstruction:
				cc := x.Common()
				if o := calleeObj(cc); o != nil && o.Pkg() != nil {
					full := o.Pkg().Path() + "." + o.Name()
					switch full {
					case "os.Exit", "log.Fatal", "log.Fatalf", "log.Fatalln", "runtime.Goexit":
						out = append(out, mkSite("exit", in, func() string { return full }, ""))
					}
				}
				// call of a func/interface field of an own struct
				if !cc.IsInvoke() && staticCallee(cc) == nil {
					if _, fld, ok := fieldLoad(strip(cc.Value)); ok && ownField(fld) {
						out = append(out, mkSite("nilcall", in, func() string { return "call of field ." + fld.Name() }, fld.Name()))
					}
				} else if cc.IsInvoke() {
					if _, fld, ok := fieldLoad(strip(cc.Value)); ok && ownField(fld) {
						out = append(out, mkSite("nilcall", in, func() string { return "method call on interface field ." + fld.Name() }, fld.Name()))
					}
				}
			case *ssa.BinOp:
				if (x.Op == token.QUO || x.Op == token.REM) && intWidth(x.Type()) > 0 {
					if _, isK := constInt(x.Y); !isK {
						out = append(out, mkSite("divide", in, func() string { return render(x) }, ""))
					}
				}
			}
		}
	}
	return out
}

// ---------------------------------------------------------------------------
// length reasoning

type boundsProver struct {
	pm    *panicModel
	sc    SiteCtx
	facts []Fact
}

// path: access path of v with parameters resolved through the calling context ("" if none).
func (bp *boundsProver) path(v ssa.Value, depth int) string {
	if depth > 6 {
		return ""
	}
	v = strip(v)
	// a field of a parameter object: what the calling context put there
	if po, _ := paramObjectField(v); po != nil {
		if r := bp.sc.Resolve(v); r != v {
			return bp.path(r, depth+1)
		}
	}
	switch x := v.(type) {
	case *ssa.Parameter:
		r := bp.sc.Resolve(x)
		if r != ssa.Value(x) {
			// (what the context passes, when that has a path of its own; else the parameter itself)
			if p := bp.path(r, depth+1); p != "" {
				return p
			}
		}
		return fmt.Sprintf("param(%s#%d)", x.Parent().Name(), paramIndex(x))
	case *ssa.UnOp:
		if x.Op == token.MUL {
			// a whole struct value read from a local cell (a by-value parameter object handed on)
			if a, ok := x.X.(*ssa.Alloc); ok {
				return bp.path(a, depth+1)
			}
			if fa, ok := x.X.(*ssa.FieldAddr); ok {
				b := bp.path(fa.X, depth+1)
				if b == "" {
					return ""
				}
				return b + "." + fieldOfAddr(fa).Name()
			}
		}
	case *ssa.FieldAddr:
		b := bp.path(x.X, depth+1)
		if b == "" {
			return ""
		}
		return "&" + b + "." + fieldOfAddr(x).Name()
	case *ssa.Field:
		b := bp.path(x.X, depth+1)
		if b == "" {
			return ""
		}
		st := x.X.Type().Underlying().(*types.Struct)
		return b + "." + st.Field(x.Field).Name()
	case *ssa.Alloc:
		// spilled struct parameter copy
		for _, st := range storesToCell(x) {
			if p, ok := st.Val.(*ssa.Parameter); ok {
				return bp.path(p, depth+1)
			}
		}
		return fmt.Sprintf("local(%s@%p)", x.Parent().Name(), x)
	}
	return ""
}

func (bp *boundsProver) same(a, b ssa.Value) bool {
	if sameValue(a, b) {
		return true
	}
	ra, rb := bp.sc.Resolve(a), bp.sc.Resolve(b)
	if sameValue(ra, rb) {
		return true
	}
	pa, pb := bp.path(a, 0), bp.path(b, 0)
	return pa != "" && pa == pb
}

func (bp *boundsProver) sameLen(a, b ssa.Value) bool {
	la, ok1 := lenOperand(strip(a))
	lb, ok2 := lenOperand(strip(b))
	return ok1 && ok2 && bp.same(la, lb)
}

// lenLB: a lower bound on len(x) that holds in this context.
func (bp *boundsProver) lenLB(x ssa.Value, depth int) int64 {
	if depth > 6 {
		return 0
	}
	x = strip(x)
	best := int64(0)
	upd := func(v int64) {
		if v > best {
			best = v
		}
	}
	if p, ok := x.Type().Underlying().(*types.Pointer); ok {
		if arr, ok := p.Elem().Underlying().(*types.Array); ok {
			return arr.Len()
		}
	}
	if arr, ok := x.Type().Underlying().(*types.Array); ok {
		return arr.Len()
	}
	for _, f := range bp.facts {
		if f.Op == 0 {
			continue
		}
		lx, okx := lenOperand(strip(f.X))
		ly, oky := lenOperand(strip(f.Y))
		if okx && bp.same(lx, x) {
			if k, ok := constInt(f.Y); ok {
				switch f.Op {
				case token.GEQ, token.EQL:
					upd(k)
				case token.GTR:
					upd(k + 1)
				case token.NEQ:
					if k == 0 {
						upd(1)
					}
				}
			}
		}
		if oky && bp.same(ly, x) {
			if k, ok := constInt(f.X); ok {
				switch f.Op {
				case token.LEQ, token.EQL:
					upd(k)
				case token.LSS:
					upd(k + 1)
				case token.NEQ:
					if k == 0 {
						upd(1)
					}
				}
			}
		}
	}
	switch v := x.(type) {
	case *ssa.Extract:
		// buf, err := readExactly(conn, K, …) with err == nil on this path: an allocating read helper
		// returns a buffer of exactly K bytes when it succeeds
		if cl, ok := v.Tuple.(*ssa.Call); ok && v.Index == 0 {
			if g := cl.Call.StaticCallee(); g != nil && ownPkgPath(pkgPathOf(g)) {
				if ni, isAR := allocatingReader(g); isAR && ni < len(cl.Call.Args) {
					if k, isK := constInt(cl.Call.Args[ni]); isK && k > 0 {
						for _, f := range bp.facts {
							if f.Op != token.EQL || !isNilConst(f.Y) {
								continue
							}
							ev := errValueOf(f.X)
							if e, isE := ev.(*ssa.Extract); isE && e.Index == 1 && e.Tuple == ssa.Value(cl) {
								upd(k)
							}
						}
					}
				}
			}
		}
	case *ssa.Parameter:
		if r := bp.sc.Resolve(v); r != ssa.Value(v) {
			upd(bp.lenLB(r, depth+1))
		}
	case *ssa.Slice:
		lo := int64(0)
		if v.Low != nil {
			k, ok := constInt(v.Low)
			if !ok {
				return best
			}
			lo = k
		}
		if v.High == nil {
			upd(bp.lenLB(v.X, depth+1) - lo)
		} else if hi, ok := constInt(v.High); ok {
			upd(hi - lo)
		}
	case *ssa.Convert:
		upd(bp.lenLB(v.X, depth+1))
	case *ssa.Call:
		if isCallTo(&v.Call, "encoding/hex", "EncodeToString") {
			upd(2 * bp.lenLB(v.Call.Args[0], depth+1))
		}
		if callee := staticCallee(&v.Call); callee != nil && isSHA256Helper(callee) {
			upd(32)
		}
	case *ssa.MakeSlice:
		l := linOf(v.Len)
		pos := true
		for t, c := range l.Terms {
			if c < 0 || !strings.HasPrefix(t, "len(") {
				pos = false
			}
		}
		if pos {
			upd(l.K)
		}
	case *ssa.UnOp:
		if v.Op == token.MUL {
			// struct field holding a slice assigned once in this function
			if fa, ok := v.X.(*ssa.FieldAddr); ok {
				sts := fieldStores(v.Parent(), fa.X, fieldOfAddr(fa))
				if len(sts) == 1 && instrDominates(sts[0], v) {
					upd(bp.lenLB(sts[0].Val, depth+1))
				}
			}
		}
	}
	return best
}

// madeLen: the length expression a slice value was made with in its function.
func madeLen(base ssa.Value) ssa.Value {
	base = strip(base)
	if ms, ok := base.(*ssa.MakeSlice); ok {
		return ms.Len
	}
	if ld, ok := base.(*ssa.UnOp); ok && ld.Op == token.MUL {
		if fa, ok := ld.X.(*ssa.FieldAddr); ok {
			sts := fieldStores(ld.Parent(), fa.X, fieldOfAddr(fa))
			if len(sts) == 1 {
				if ms, ok := strip(sts[0].Val).(*ssa.MakeSlice); ok && instrDominates(sts[0], ld) {
					return ms.Len
				}
			}
		}
	}
	return nil
}

func (bp *boundsProver) indexOK(base, idx ssa.Value) (bool, string) {
	if k, ok := constInt(idx); ok {
		lb := bp.lenLB(base, 0)
		if lb > k {
			return true, fmt.Sprintf("len(%s) ≥ %d on every path (index %d)", render(base), lb, k)
		}
		return false, fmt.Sprintf("len(%s) is only known to be ≥ %d, index %d", render(base), lb, k)
	}
	ml := madeLen(base)
	madeWhere := "in this function"
	if ml == nil {
		// the slice is a parameter: what the calling context made it with
		if rb := bp.sc.Resolve(base); rb != strip(base) {
			ml = madeLen(rb)
			madeWhere = "by the caller"
		}
	}
	// a constant upper bound on the index (an entry of a local table of constants)
	if ub, ok := constUB(idx, 0); ok {
		if lb := bp.lenLB(base, 0); lb > ub {
			return true, fmt.Sprintf("0 ≤ index ≤ %d (every value the index can take is one of the constants of a local table) and len(%s) ≥ %d on every path", ub, render(base), lb)
		}
	}
	// upper bounds on idx: idx < bound
	for _, f := range bp.facts {
		if f.Op != token.LSS && f.Op != token.GTR {
			continue
		}
		i, bound := f.X, f.Y
		if f.Op == token.GTR {
			i, bound = f.Y, f.X
		}
		if !bp.same(i, idx) {
			continue
		}
		if lx, ok := lenOperand(strip(bound)); ok && bp.same(lx, base) {
			return true, "index < len(" + render(base) + ")"
		}
		if ml != nil && (bp.same(ml, bound) || bp.sameLen(ml, bound)) {
			return true, "index < n and the slice was made with length n " + madeWhere
		}
		// bound = len(z) where z was made with len(base)
		if lz, ok := lenOperand(strip(bound)); ok {
			if mz := madeLen(lz); mz != nil {
				if lb, ok := lenOperand(strip(mz)); ok && bp.same(lb, base) {
					return true, "index < len(z) and z was made with len(" + render(base) + ")"
				}
			}
		}
		// validated length: len(base) ≥ bound / == bound on this path (either orientation)
		for _, g := range bp.facts {
			if g.Op == 0 {
				continue
			}
			type ord struct {
				l, r ssa.Value
				op   token.Token
			}
			for _, o := range []ord{{g.X, g.Y, g.Op}, {g.Y, g.X, flipOp(g.Op)}} {
				if o.op != token.EQL && o.op != token.GEQ {
					continue
				}
				lg, ok := lenOperand(strip(o.l))
				if ok && bp.same(lg, base) && (bp.same(o.r, bound) || bp.sameLen(o.r, bound)) {
					return true, "index < n and len(" + render(base) + ") " + o.op.String() + " n is validated on every path to here"
				}
			}
		}
	}
	// a buffer made in this function with a length that is a linear expression of lengths, indexed by
	// another such expression: 0 ≤ idx and idx < length by linear arithmetic over non-negative lengths
	// (make([]byte, 2+len(label)+2) … buff[2+len(label)+1])
	if ml != nil {
		if in, ok := idx.(ssa.Instruction); ok && in.Parent() != nil {
			le := &lenEnv{fn: in.Parent()}
			L, I := le.of(ml), le.of(idx)
			room := vadd(vadd(L, I, -1), vconst(1), -1)
			if I.nonneg() && room.nonneg() {
				return true, "0 ≤ index < length of the slice made here, by linear arithmetic over lengths (index = " + I.String() + ", length = " + L.String() + ")"
			}
		}
	}
	// sort.Slice(x, func(i, j int) bool { … x[i] … x[j] … }): the standard library calls less with 0 ≤ i, j < len(x)
	if ip, ok := strip(idx).(*ssa.Parameter); ok && ip.Parent().Parent() != nil && paramIndex(ip) <= 1 && len(ip.Parent().Params) == 2 {
		lit := ip.Parent()
		for _, in := range instrsOf(lit.Parent()) {
			cl, ok := in.(*ssa.Call)
			if !ok || len(cl.Call.Args) != 2 || !(isCallTo(&cl.Call, "sort", "Slice") || isCallTo(&cl.Call, "sort", "SliceStable")) {
				continue
			}
			mc, ok := strip(cl.Call.Args[1]).(*ssa.MakeClosure)
			if !ok || mc.Fn != ssa.Value(lit) {
				continue
			}
			sorted := cl.Call.Args[0]
			if mi, isMI := sorted.(*ssa.MakeInterface); isMI {
				sorted = mi.X
			}
			b := strip(base)
			if ld, ok := b.(*ssa.UnOp); ok && ld.Op == token.MUL {
				b = ld.X
			}
			if fv, ok := b.(*ssa.FreeVar); ok {
				for k, v := range lit.FreeVars {
					if v != fv || k >= len(mc.Bindings) {
						continue
					}
					bind := mc.Bindings[k]
					if sameValue(bind, sorted) {
						return true, "index is an argument sort.Slice passes to its less function: 0 ≤ i < len of the slice being sorted"
					}
					if al, ok := bind.(*ssa.Alloc); ok {
						sts := storesToCell(al)
						if sl, ok := strip(sorted).(*ssa.UnOp); ok && sl.Op == token.MUL && sl.X == ssa.Value(al) && len(sts) == 1 {
							return true, "index is an argument sort.Slice passes to its less function: 0 ≤ i < len of the captured slice (assigned once)"
						}
						// a parameter spilled to a cell and captured: the same parameter is what is sorted
						if len(sts) == 1 && sameValue(sts[0].Val, sorted) {
							return true, "index is an argument sort.Slice passes to its less function: 0 ≤ i < len of the slice being sorted (captured parameter)"
						}
					}
				}
			}
		}
	}
	// sort.Search(n, func(i int) bool { ... base[i] ... }): the standard library calls the predicate with 0 ≤ i < n
	if ip, ok := strip(idx).(*ssa.Parameter); ok && ip.Parent().Parent() != nil && paramIndex(ip) == 0 {
		lit := ip.Parent()
		for _, in := range instrsOf(lit.Parent()) {
			cl, ok := in.(*ssa.Call)
			if !ok || !isCallTo(&cl.Call, "sort", "Search") || len(cl.Call.Args) != 2 {
				continue
			}
			mc, ok := strip(cl.Call.Args[1]).(*ssa.MakeClosure)
			if !ok || mc.Fn != ssa.Value(lit) {
				continue
			}
			n, isLen := lenOperand(strip(cl.Call.Args[0]))
			if !isLen {
				continue
			}
			// base inside the literal is a captured variable; find the binding
			b := strip(base)
			if ld, ok := b.(*ssa.UnOp); ok && ld.Op == token.MUL {
				b = ld.X
			}
			if fv, ok := b.(*ssa.FreeVar); ok {
				for k, v := range lit.FreeVars {
					if v != fv || k >= len(mc.Bindings) {
						continue
					}
					bind := mc.Bindings[k]
					// captured by value (the slice itself) or by reference (its cell, stored once)
					if sameValue(bind, n) {
						return true, "index is the argument sort.Search passes to its predicate: 0 ≤ i < len(" + render(n) + ")"
					}
					if al, ok := bind.(*ssa.Alloc); ok {
						sts := storesToCell(al)
						if nl, ok := strip(n).(*ssa.UnOp); ok && nl.Op == token.MUL && nl.X == ssa.Value(al) && len(sts) == 1 {
							return true, "index is the argument sort.Search passes to its predicate: 0 ≤ i < len of the captured slice (assigned once)"
						}
					}
				}
			}
		}
	}
	// parity loop: idx = φ + 1, φ = induction(init c0, stride 2), φ < len(base), (len(base) − c0) % 2 == 0 validated
	if bo, ok := strip(idx).(*ssa.BinOp); ok && bo.Op == token.ADD {
		if one, ok := constInt(bo.Y); ok && one == 1 {
			p := posOf(bo.X)
			if p.OK && strings.Contains(p.Base, "stride=2") && p.Off == 0 {
				var c0 int64
				fmt.Sscanf(p.Base, "loop(init=%d,stride=2)", &c0)
				lt, par := false, false
				for _, f := range bp.facts {
					if f.Op == token.LSS && bp.same(f.X, bo.X) {
						if lx, ok := lenOperand(strip(f.Y)); ok && bp.same(lx, base) {
							lt = true
						}
					}
					if f.Op == token.EQL && isZero(f.Y) {
						if rem, ok := strip(f.X).(*ssa.BinOp); ok && rem.Op == token.REM {
							if two, ok := constInt(rem.Y); ok && two == 2 {
								l := linOf(rem.X)
								if l.K == -c0 && len(l.Terms) == 1 {
									for t, c := range l.Terms {
										if c == 1 && strings.HasPrefix(t, "len(") {
											if lx, ok := lenOperand(strip(rem.X.(*ssa.BinOp).X)); ok && bp.same(lx, base) {
												par = true
											}
										}
									}
								}
							}
						}
					}
				}
				if lt && par {
					return true, fmt.Sprintf("i < len and both i and len are ≡ %d (mod 2) on every path, so i+1 < len", c0%2)
				}
			}
		}
	}
	return false, ""
}

func (bp *boundsProver) prove(in ssa.Instruction) (bool, string) {
	switch x := in.(type) {
	case *ssa.IndexAddr:
		return bp.indexOK(x.X, x.Index)
	case *ssa.Index:
		return bp.indexOK(x.X, x.Index)
	case *ssa.Lookup:
		return bp.indexOK(x.X, x.Index)
	case *ssa.Slice:
		need := int64(-1)
		if x.High != nil {
			if k, ok := constInt(x.High); ok {
				need = k
			}
		} else if x.Low != nil {
			if k, ok := constInt(x.Low); ok {
				need = k
			}
		}
		if need < 0 {
			// x[lo:] with a variable lower bound: lo ≤ len(x) from a dominating comparison
			if x.Low != nil && x.High == nil {
				for _, f := range bp.facts {
					if f.Op != token.LSS && f.Op != token.LEQ && f.Op != token.GTR && f.Op != token.GEQ {
						continue
					}
					lo, bound := f.X, f.Y
					if f.Op == token.GTR || f.Op == token.GEQ {
						lo, bound = f.Y, f.X
					}
					if !bp.same(lo, x.Low) {
						continue
					}
					if lx, ok := lenOperand(strip(bound)); ok && (bp.same(lx, x.X) || sameBytes(lx, x.X)) {
						return true, "lower bound ≤ len(" + render(x.X) + ") on every path"
					}
				}
				// x[i·k:] with i < len(x)/k: i ≤ len(x)/k − 1, so i·k ≤ len(x) − k
				if mul, ok := strip(x.Low).(*ssa.BinOp); ok && mul.Op == token.MUL {
					for _, pr := range [][2]ssa.Value{{mul.X, mul.Y}, {mul.Y, mul.X}} {
						k, isK := constInt(pr[1])
						if !isK || k <= 0 {
							continue
						}
						for _, f := range bp.facts {
							if f.Op != token.LSS && f.Op != token.GTR {
								continue
							}
							i, q := f.X, f.Y
							if f.Op == token.GTR {
								i, q = f.Y, f.X
							}
							if !bp.same(i, pr[0]) {
								continue
							}
							quo, isQ := strip(q).(*ssa.BinOp)
							if !isQ || quo.Op != token.QUO {
								continue
							}
							if k2, isK2 := constInt(quo.Y); !isK2 || k2 != k {
								continue
							}
							if lx, isLen := lenOperand(strip(quo.X)); isLen && (bp.same(lx, x.X) || sameBytes(lx, x.X)) {
								return true, fmt.Sprintf("lower bound i·%d with i < len(%s)/%d on every path", k, render(x.X), k)
							}
						}
					}
				}
			}
			return false, ""
		}
		lb := bp.lenLB(x.X, 0)
		if lb >= need {
			return true, fmt.Sprintf("len(%s) ≥ %d on every path (needs ≥ %d)", render(x.X), lb, need)
		}
		return false, fmt.Sprintf("len(%s) is only known to be ≥ %d, %d needed", render(x.X), lb, need)
	}
	return false, ""
}

// dischargeBounds tries the site locally, then in every calling context inside the closure (≤ 3 levels).
func (pm *panicModel) dischargeBounds(s panicSite) (bool, string) {
	local := &boundsProver{pm: pm, sc: SiteCtx{Site: s.in}, facts: FactsAt(s.in)}
	if ok, by := local.prove(s.in); ok {
		return true, by
	}
	_, why := local.prove(s.in)
	fn := s.in.Parent()
	entries := map[*ssa.Function]bool{}
	for _, e := range networkEntries[pm.rel] {
		if f := pm.m.Func(e.pkg, e.recv, e.name); f != nil {
			entries[f] = true
		}
	}
	if entries[fn] {
		return false, why
	}
	// callers restricted to the closure
	var cfns []*ssa.Function
	for f := range pm.closure {
		cfns = append(cfns, f)
	}
	ctxs := contextsWithin(s.in, cfns, 3)
	if len(ctxs) == 0 {
		return false, why
	}
	by := ""
	for _, sc := range ctxs {
		bp := &boundsProver{pm: pm, sc: sc, facts: sc.Facts()}
		ok, b := bp.prove(s.in)
		if !ok {
			return false, why + " (context " + ctxName(sc) + ")"
		}
		by = b + " — established in the callers (" + ctxName(sc) + ")"
	}
	return true, by
}

// contextsWithin: calling contexts of site through static callers in fns, up to depth levels;
// a chain stops at a function without callers in fns (or at the depth limit).
func contextsWithin(site ssa.Instruction, fns []*ssa.Function, depth int) []SiteCtx {
	var out []SiteCtx
	var rec func(cur ssa.Instruction, chain []ssa.CallInstruction, d int)
	rec = func(cur ssa.Instruction, chain []ssa.CallInstruction, d int) {
		callers := staticCallsTo(fns, cur.Parent())
		var plain []ssa.CallInstruction
		for _, c := range callers {
			if _, ok := c.(*ssa.Call); ok {
				plain = append(plain, c)
			}
		}
		if len(plain) == 0 || d == 0 {
			out = append(out, SiteCtx{Calls: append([]ssa.CallInstruction(nil), chain...), Site: site})
			return
		}
		for _, c := range plain {
			rec(c.(ssa.Instruction), append([]ssa.CallInstruction{c}, chain...), d-1)
		}
	}
	rec(site, nil, depth)
	return out
}

var _ = os.Getenv

// statefulTypes: long-lived objects whose fields carry network data from one call to a later one.
var statefulTypes = map[string]bool{
	"Scheme": true, "Box": true, "storedMessages": true, "Member": true, "topicPeerView": true, "SilentSynchronizer": true,
	"Receiver": true, "msgAndIdSet": true, "TBLS": true, "TPS": true, "party": true, "Verifier": true, "remoteParty": true,
}

func statefulOwner(t types.Type) bool {
	n := namedOf(t)
	return n != nil && n.Obj().Pkg() != nil && ownPkgPath(n.Obj().Pkg().Path()) && statefulTypes[nameBack(n.Obj().Name())]
}

// mkSite renders the operand twice: as written (for reports) and canonically (for the reason table).
func mkSite(kind string, in ssa.Instruction, r func() string, detail string) panicSite {
	expr := r()
	renderCanon++
	canon := r()
	// the same site seen from its own function alone (a transparent helper's parameters by their types,
	// not by what the only caller passes): a reason recorded for the function applies either way
	renderLocalParams++
	alt := r()
	renderLocalParams--
	renderCanon--
	if alt == canon {
		alt = ""
	}
	return panicSite{kind: kind, in: in, expr: expr, detail: detail, canon: canon, alt: alt, render: r}
}

// constUB: an upper bound for a non-negative integer value that can only be one of finitely many
// constants: a constant, a φ of such values, or field f of an element of a local array/slice literal in
// which every element's field f is given a non-negative constant (`for _, e := range table { x[e.pos] }`).
func constUB(v ssa.Value, depth int) (int64, bool) {
	if depth > 4 || v == nil {
		return 0, false
	}
	noParamLook++
	v = strip(v)
	noParamLook--
	if k, ok := constInt(v); ok {
		return k, k >= 0
	}
	switch x := v.(type) {
	case *ssa.Phi:
		var ub int64
		for _, e := range x.Edges {
			k, ok := constUB(e, depth+1)
			if !ok {
				return 0, false
			}
			if k > ub {
				ub = k
			}
		}
		return ub, true
	case *ssa.Field:
		// field of an element loaded from the table
		ld, ok := x.X.(*ssa.UnOp)
		if !ok || ld.Op != token.MUL {
			return 0, false
		}
		st, ok := x.X.Type().Underlying().(*types.Struct)
		if !ok {
			return 0, false
		}
		return tableFieldUB(ld.X, st.Field(x.Field))
	case *ssa.UnOp:
		if x.Op != token.MUL {
			return 0, false
		}
		fa, ok := x.X.(*ssa.FieldAddr)
		if !ok {
			return 0, false
		}
		f := fieldOfAddr(fa)
		// &table[i].f, or the field of a local copy of table[i] (the range variable)
		if a, isA := fa.X.(*ssa.Alloc); isA {
			if src := wholeStoreOf(a, x); src != nil {
				if ld, ok := src.(*ssa.UnOp); ok && ld.Op == token.MUL {
					return tableFieldUB(ld.X, f)
				}
			}
			return 0, false
		}
		return tableFieldUB(fa.X, f)
	}
	return 0, false
}

// tableFieldUB: elemAddr is &table[i] for a local array literal `table` (the backing array of a slice
// literal) that never escapes; the maximum of the constants stored into field f of its elements, which
// must all be non-negative constants — and every element must be given one (a field left out is 0).
func tableFieldUB(elemAddr ssa.Value, f *types.Var) (int64, bool) {
	ia, ok := elemAddr.(*ssa.IndexAddr)
	if !ok {
		return 0, false
	}
	base := ia.X
	if sl, ok := base.(*ssa.Slice); ok {
		base = sl.X
	}
	arr, ok := base.(*ssa.Alloc)
	if !ok || arr.Referrers() == nil {
		return 0, false
	}
	if _, isArr := arr.Type().Underlying().(*types.Pointer).Elem().Underlying().(*types.Array); !isArr {
		return 0, false
	}
	var ub int64
	for _, r := range *arr.Referrers() {
		switch y := r.(type) {
		case *ssa.Slice, *ssa.DebugRef:
			if sl, isSl := y.(*ssa.Slice); isSl && sl.Referrers() != nil {
				// the slice of the table may be ranged over / indexed / measured, nothing else
				for _, q := range *sl.Referrers() {
					switch z := q.(type) {
					case *ssa.IndexAddr, *ssa.DebugRef, *ssa.Range:
					case *ssa.Call:
						if bi, isB := z.Call.Value.(*ssa.Builtin); !isB || bi.Name() != "len" {
							return 0, false
						}
					default:
						return 0, false
					}
				}
			}
		case *ssa.IndexAddr:
			if y.Referrers() == nil {
				continue
			}
			for _, q := range *y.Referrers() {
				switch z := q.(type) {
				case *ssa.FieldAddr:
					if z.Referrers() == nil {
						continue
					}
					for _, w := range *z.Referrers() {
						switch st := w.(type) {
						case *ssa.Store:
							if st.Addr != ssa.Value(z) {
								return 0, false
							}
							if fieldOfAddr(z) == f {
								k, isK := constInt(st.Val)
								if !isK || k < 0 {
									return 0, false
								}
								if k > ub {
									ub = k
								}
							}
						case *ssa.UnOp, *ssa.DebugRef:
						default:
							return 0, false
						}
					}
				case *ssa.UnOp, *ssa.DebugRef:
				case *ssa.Store:
					if z.Addr == ssa.Value(y) {
						return 0, false // a whole element is stored: not a literal of constants we can read
					}
					return 0, false
				default:
					return 0, false
				}
			}
		default:
			return 0, false
		}
	}
	return ub, true
}
