package main

// C02 rules on package threshold: V1 (receiver-side class/digest), V2/G3/W1
// (participant filter), V3/L1 (serialised instance).

import (
	"fmt"
	"go/token"
	"go/types"

	"golang.org/x/tools/go/ssa"
)

// V1: provenance of the fields of the message handed to the RBC instance.
func ruleC02V1(c *Ctx, t *thrModel, rule string) {
	c.Rule(rule, "rbcMsg fields: round/broadcast ← local classifier(payload); digest ← hash(same payload); from ← IncMessage.Source; ack fields ← decoder", 4)
	allocs := t.rbcMsgAllocs()
	nPayload, nAck := 0, 0
	for _, a := range allocs {
		fn := a.Parent()
		fname := FuncName(fn)
		pos := t.m.Pos(a.Pos())
		payload, hasPayload := structLitFieldValue(a, t.fMsgPayload)
		get := func(f *types.Var) ssa.Value {
			v, ok := structLitFieldValue(a, f)
			if !ok {
				return nil
			}
			return strip(v)
		}
		// the hand-over call: callee is a func value, arg0 is this message
		var call ssa.CallInstruction
		for _, in := range instrsOf(fn) {
			ci, ok := in.(ssa.CallInstruction)
			if !ok || len(ci.Common().Args) != 2 || ci.Common().IsInvoke() {
				continue
			}
			if strip(ci.Common().Args[0]) == ssa.Value(a) {
				call = ci
			}
		}
		// … or the message is built by a decoding helper that returns it, and its only caller hands it over:
		// what holds at the helper's return of this very message holds at the hand-over too
		var viaReturn *ssa.Return
		if call == nil {
			if hc := helperCall(fn); hc != nil {
				for _, in := range instrsOf(fn) {
					if r, ok := in.(*ssa.Return); ok && len(r.Results) >= 1 && strip(retResult(r, 0)) == ssa.Value(a) {
						viaReturn = r
					}
				}
				if viaReturn != nil {
					var res ssa.Value = hc
					if hc.Referrers() != nil {
						for _, rf := range *hc.Referrers() {
							if e, ok := rf.(*ssa.Extract); ok && e.Index == 0 {
								res = e
							}
						}
					}
					for _, in := range instrsOf(hc.Parent()) {
						ci, ok := in.(ssa.CallInstruction)
						if !ok || len(ci.Common().Args) != 2 || ci.Common().IsInvoke() {
							continue
						}
						noParamLook++
						a0 := strip(ci.Common().Args[0])
						noParamLook--
						if a0 == res {
							call = ci
						}
					}
				}
			}
		}
		if call == nil {
			c.Unk(rule, fname, "rbcMsg hand-over call", pos, "the message built here is not passed to a handler call the analyser recognises")
			continue
		}
		factsAtHandOver := FactsAt(call)
		if viaReturn != nil {
			factsAtHandOver = append(factsAtHandOver, FactsAt(viaReturn)...)
		}
		// transport source
		c.Check(isLoadOfField(call.Common().Args[1], t.fIncSource), rule, fname, "handler `from` argument", t.m.Pos(call.Pos()),
			"from ← IncMessage.Source (transport-authenticated)",
			"the RBC instance is told a `from` that is not the transport-authenticated source of the message")
		// handler comes from the topic-keyed table
		hv := t.upParam(call.Common().Value)
		okTab := false
		if e, ok := hv.(*ssa.Extract); ok {
			if lk, ok := e.Tuple.(*ssa.Lookup); ok && isLoadOfField(lk.X, t.fRBCTab) {
				okTab = t.keyIsTopic(lk.Index)
			}
		}
		c.Check(okTab, rule, fname, "handler resolved by topic", t.m.Pos(call.Pos()),
			"handler ← rbcInProgress[string(msg.Topic)]", "the handler is not the entry of rbcInProgress for the message's own topic")

		if hasPayload && !isNilConst(payload) {
			nPayload++
			p := strip(payload)
			// classifier call on the same payload
			var cls *ssa.Call
			// (the classification and the construction of the message may be separate steps of the handler)
			for _, in := range instrsDeep(rootOfHelper(fn)) {
				cl, ok := in.(*ssa.Call)
				if !ok || cl.Call.IsInvoke() || staticCallee(&cl.Call) != nil || len(cl.Call.Args) != 1 {
					continue
				}
				sig, ok := cl.Call.Value.Type().Underlying().(*types.Signature)
				if !ok || sig.Results().Len() != 3 {
					continue
				}
				if strip(cl.Call.Args[0]) == p {
					cls = cl
				}
			}
			if cls == nil {
				c.Bad(rule, fname, "classifier applied to payload", pos, "no call of the classifier on the very value stored as payload")
			} else {
				cv := t.upParam(cls.Call.Value)
				okCls := false
				if e, ok := cv.(*ssa.Extract); ok {
					if lk, ok := e.Tuple.(*ssa.Lookup); ok && isLoadOfField(lk.X, t.fClsTab) {
						okCls = t.keyIsTopic(lk.Index)
					}
				}
				c.Check(okCls, rule, fname, "classifier is the local one", t.m.Pos(cls.Pos()),
					"classifier ← messageClassifiers[string(msg.Topic)]", "the classifier applied is not the locally registered one for the topic")
				isExtract := func(v ssa.Value, idx int) bool {
					e, ok := v.(*ssa.Extract)
					return ok && e.Index == idx && e.Tuple == ssa.Value(cls)
				}
				c.Check(isExtract(get(t.fMsgRound), 0), rule, fname, "rbcMsg.round", pos, "round ← classifier(payload)#0",
					"the round is not the local classifier's verdict on the received payload (a sender-chosen round defeats the per-round pin)")
				c.Check(isExtract(get(t.fMsgBroadcast), 1), rule, fname, "rbcMsg.broadcast", pos, "broadcast ← classifier(payload)#1",
					"the broadcast class is not the local classifier's verdict on the received payload (a sender could bypass RBC)")
				// the error of the classifier is checked before the hand-over
				okErr := hasFact(factsAtHandOver, func(f Fact) bool {
					e, ok := strip(f.X).(*ssa.Extract)
					if f.Op == 0 || !ok {
						return false
					}
					return e.Tuple == ssa.Value(cls) && e.Index == 2 && isNilConst(f.Y) && f.Op.String() == "=="
				})
				c.Check(okErr, rule, fname, "classifier error guards hand-over", t.m.Pos(call.Pos()), "dominated by err == nil", "a message the classifier rejected is still handed to the RBC instance")
			}
			dg := get(t.fMsgDigest)
			okD := false
			if dc, ok := dg.(*ssa.Call); ok {
				if cal := staticCallee(&dc.Call); cal != nil && isSHA256Helper(cal) && len(dc.Call.Args) == 1 && strip(dc.Call.Args[0]) == p {
					okD = true
				}
			}
			c.Check(okD, rule, fname, "rbcMsg.digest", pos, "digest ← SHA-256 helper over the same SSA value stored as payload",
				"the digest is not recomputed by the receiver over the received payload")
			c.Check(isLoadOfField(get(t.fMsgSender), t.fIncSource), rule, fname, "rbcMsg.sender", pos, "sender ← IncMessage.Source", "payload message attributed to something other than the transport source")
			// payload comes from msg.Data
			sl := t.sl.Slice(p)
			c.Check(sliceHasFieldLoad(sl, t.fIncData), rule, fname, "rbcMsg.payload", pos, "payload derives from IncMessage.Data", "payload does not derive from the received bytes")
		} else {
			nAck++
			for _, fi := range []struct {
				f   *types.Var
				idx int
			}{{t.fMsgDigest, 0}, {t.fMsgSender, 1}, {t.fMsgRound, 2}} {
				v := t.upParam(get(fi.f))
				ok := false
				if rawv, has := structLitFieldValue(a, fi.f); has {
					// the decoder hands its outputs back as one struct: the field of that struct which
					// alone has this field's type
					if cl, fld := decoderStructField(rawv); cl != nil {
						if cal := staticCallee(&cl.Call); cal != nil && cal.Name() == "Ack" && cal.Signature.Recv() != nil && isNamed(cal.Signature.Recv().Type(), PkgThreshold, "rbcEncoding") {
							st, _ := fld.Type(), 0
							n := 0
							if rs, isS := cal.Signature.Results().At(0).Type().Underlying().(*types.Struct); isS {
								for i := 0; i < rs.NumFields(); i++ {
									if types.Identical(rs.Field(i).Type(), st) {
										n++
									}
								}
							}
							sl := t.sl.Slice(cl.Call.Args[0])
							ok = n == 1 && types.Identical(st, fi.f.Type()) && sliceHasFieldLoad(sl, t.fIncData)
						}
					}
				}
				if e, isE := v.(*ssa.Extract); isE && e.Index == fi.idx {
					if cl, isC := e.Tuple.(*ssa.Call); isC {
						if cal := staticCallee(&cl.Call); cal != nil && cal.Name() == "Ack" && cal.Signature.Recv() != nil && isNamed(cal.Signature.Recv().Type(), PkgThreshold, "rbcEncoding") {
							sl := t.sl.Slice(cl.Call.Args[0])
							ok = sliceHasFieldLoad(sl, t.fIncData)
						}
					}
				}
				c.Check(ok, rule, fname, "ack rbcMsg."+fi.f.Name(), pos, fmt.Sprintf("← rbcEncoding(msg.Data).Ack()#%d", fi.idx),
					"acknowledgement field "+fi.f.Name()+" is not the decoder's output for the received bytes")
			}
		}
	}
	if nPayload == 0 || nAck == 0 {
		c.Bad(rule, "threshold", "payload and ack construction sites", "-", fmt.Sprintf("found %d payload and %d ack message constructions; expected at least one each", nPayload, nAck))
	}
}

// keyIsTopic: v = string(x.Topic) for an IncMessage x.
func (t *thrModel) keyIsTopic(v ssa.Value) bool {
	return isLoadOfField(strip(v), t.fIncTopic)
}

// V2: only participant-filtered receivers are registered.
func ruleC02V2(c *Ctx, t *thrModel, rule string) {
	c.Rule(rule, "every value stored into rbcInProgress is rbcFilter.Receive with allowedList derived from the agreed member list", 1)
	for _, ts := range tableStoresOfField(t.fns, t.fRBCTab) {
		fname := FuncName(ts.at.Parent())
		pos := t.m.Pos(ts.at.Pos())
		recv, meth, ok := boundMethod(ts.val)
		var alloc *ssa.Alloc
		var via *ssa.Call
		resolve := func(v ssa.Value) ssa.Value { return v }
		if ok && meth.Name() == "Receive" {
			if a, vc, rs := ctorLiteral(recv); a != nil {
				if p, isP := a.Type().(*types.Pointer); isP && t.m.isNamedA(p.Elem(), PkgThreshold, "rbcFilter") {
					alloc, via, resolve = a, vc, rs
				}
			}
		}
		if alloc == nil {
			c.Bad(rule, fname, "store into rbcInProgress", pos, "the registered handler is not the Receive method of a freshly built rbcFilter: traffic of non-participants reaches the protocol instance")
			continue
		}
		al, ok := structLitFieldValue(alloc, t.fFilterAllowed)
		okList := false
		if ok {
			sl := t.sl.Slice(al)
			if via != nil {
				sl = t.sl.SliceIn(al, via) // the literal sits in a constructor shared by the sessions: as called here
			}
			for f := range t.conts {
				if len(f.Params) > 0 && sl[f.Params[0]] {
					okList = true
				}
			}
		}
		c.Check(okList, rule, fname, "store into rbcInProgress: allowedList", pos,
			"allowedList derives from the member list parameter of the enclosing Synchronize continuation",
			"the filter's allowed list does not derive from the agreed participant list of this session")
		// V3 part: inner handler is Receive of an instance obtained through Scheme.RBF
		h, ok := structLitFieldValue(alloc, t.fFilterH)
		okH := false
		if ok {
			if r2, m2, ok2 := boundMethod(h); ok2 && m2.Name() == "Receive" {
				if cl, isC := strip(resolve(r2)).(*ssa.Call); isC && callsFuncField(&cl.Call, t.fRBF) {
					okH = true
				}
			}
		}
		c.Check(okH, "C02.V3", fname, "rbcFilter.h", pos, "h ← (s.RBF(...)).Receive — the factory installed by setup",
			"the filtered instance is not obtained through Scheme.RBF, so it lacks the one-message-at-a-time wrapper")
	}
}

// G3: the filter's lookup dominates the inner call.
func ruleC02G3(c *Ctx, t *thrModel, rule string) {
	c.Rule(rule, "rbcFilter.Receive: inner call dominated by allowedList[from] found", 1)
	fn := c.mustFunc(t.m, PkgThreshold, "rbcFilter", "Receive")
	if fn == nil {
		return
	}
	calls := callsOfFuncField(deepFuncs(fn), t.fFilterH)
	if len(calls) == 0 {
		c.Bad(rule, FuncName(fn), "inner call", "-", "rbcFilter.Receive never calls its inner handler")
	}
	for _, call := range calls {
		from := strip(fn.Params[2])
		ok := boolFact(FactsAt(call), true, func(v ssa.Value) bool {
			tup, isOK := commaOK(v)
			if !isOK {
				return false
			}
			lk, isL := tup.(*ssa.Lookup)
			return isL && isLoadOfField(lk.X, t.fFilterAllowed) && strip(lk.Index) == from
		})
		ok = ok && len(call.Common().Args) == 2 && strip(call.Common().Args[1]) == from && strip(call.Common().Args[0]) == strip(fn.Params[1])
		c.Check(ok, rule, FuncName(fn), "inner call f.h(m, from)", t.m.Pos(call.Pos()),
			"dominated by the found arm of allowedList[from]; passes (m, from) unchanged",
			"the inner RBC instance is reachable for a `from` that is not in the allowed list (or arguments are altered)")
	}
}

// W1: nothing else writes the table.
func ruleC02W1(c *Ctx, t *thrModel) {
	const rule = "C02.W1"
	c.Rule(rule, "whole-table stores into Scheme.rbcInProgress only in setup", 1)
	for _, st := range storesToField(t.fns, t.fRBCTab) {
		ok := inlinedInto(st.Parent(), t.setup)
		c.Check(ok, rule, FuncName(st.Parent()), "store to Scheme.rbcInProgress", t.m.Pos(st.Pos()), "in setup (run once via setupOnce)", "the handler table is replaced outside setup")
	}
}

// V3/L1: serialised instance.
func ruleC02V3(c *Ctx, t *thrModel) {
	const rule = "C02.V3"
	c.Rule(rule, "setup wraps RBF results in threadSafeRBC; its Receive calls the inner handler under its lock; setupOnce.Do(setup) opens every API entry", 2)
	// (a) setup stores a closure into RBF whose results are &threadSafeRBC{h: old(...).Receive}
	okA := false
	for _, st := range storesToField(deepFuncs(t.setup), t.fRBF) {
		mc, _ := closureLiteral(st.Val)
		if mc == nil {
			continue
		}
		f := mc.Fn.(*ssa.Function)
		c.Analysed(FuncName(f))
		all := true
		n := 0
		// (a method value of a configuration object standing for the literal: the method's body)
		for _, in := range instrsOf(litBody(f)) {
			r, ok := in.(*ssa.Return)
			if !ok {
				continue
			}
			n++
			a, isA := strip(r.Results[0]).(*ssa.Alloc)
			if !isA {
				all = false
				continue
			}
			p, _ := a.Type().(*types.Pointer)
			if p == nil || !t.m.isNamedA(p.Elem(), PkgThreshold, "threadSafeRBC") {
				all = false
				continue
			}
			h, ok := structLitFieldValue(a, t.fTSH)
			if !ok {
				all = false
				continue
			}
			r2, m2, ok2 := boundMethod(h)
			if !ok2 || m2.Name() != "Receive" {
				all = false
				continue
			}
			cl, isC := strip(r2).(*ssa.Call)
			if !isC || staticCallee(&cl.Call) != nil {
				all = false
				continue
			}
			// callee is the previous factory captured from the RBF field
			sl := t.sl.Slice(cl.Call.Value)
			if !sliceHasFieldLoad(sl, t.fRBF) {
				all = false
			}
		}
		okA = all && n > 0
	}
	c.Check(okA, rule, FuncName(t.setup), "RBF wrapper", t.m.Pos(t.setup.Pos()),
		"setup replaces RBF by a factory returning &threadSafeRBC{h: oldRBF(...).Receive}",
		"setup no longer wraps every RBC instance in the mutex-holding wrapper")
	// (b) threadSafeRBC.Receive holds its lock around the inner call
	fn := c.mustFunc(t.m, PkgThreshold, "threadSafeRBC", "Receive")
	if fn != nil {
		calls := callsOfFuncField(deepFuncs(fn), t.fTSH)
		if len(calls) == 0 {
			c.Bad(rule, FuncName(fn), "inner call under lock", "-", "threadSafeRBC.Receive never calls its inner handler")
		}
		for _, call := range calls {
			c.Check(t.la.Holds(call.(ssa.Instruction), t.fTSLock, LockW), rule, FuncName(fn), "inner call under lock", t.m.Pos(call.Pos()),
				"must-lockset "+t.la.At(call.(ssa.Instruction)).String(),
				"the inner RBC instance is entered without holding threadSafeRBC.lock: two dispatcher goroutines can run Receive concurrently")
		}
	}
	// (c) every API root from which an RBF call is reachable starts with setupOnce.Do(setup)
	roots := t.apiRootsReaching(func(in ssa.Instruction) bool {
		ci, ok := in.(ssa.CallInstruction)
		return ok && callsFuncField(ci.Common(), t.fRBF)
	})
	if len(roots) == 0 {
		c.Bad(rule, "threshold", "API roots using RBF", "-", "no API entry reaches a call through Scheme.RBF")
	}
	for _, root := range roots {
		ok, why := t.startsWithSetupOnce(root)
		c.Check(ok, rule, FuncName(root), "setupOnce.Do(setup) first", t.m.Pos(root.Pos()), "first call of the entry block", why)
	}
}

// apiRootsReaching: functions without in-package static callers/creators from
// which (via static calls, closure creation, go/defer) an instruction
// satisfying pred is reachable.
func (t *thrModel) apiRootsReaching(pred func(ssa.Instruction) bool) []*ssa.Function {
	parents := map[*ssa.Function][]*ssa.Function{}
	for _, fn := range t.fns {
		for _, in := range instrsOf(fn) {
			switch x := in.(type) {
			case *ssa.MakeClosure:
				g := x.Fn.(*ssa.Function)
				parents[g] = append(parents[g], fn)
			case ssa.CallInstruction:
				if g := staticCallee(x.Common()); g != nil {
					parents[g] = append(parents[g], fn)
				}
				// bound method values used as callbacks
			}
			// method values: s.setup etc.
			if mc, ok := in.(*ssa.MakeClosure); ok {
				if _, meth, ok := boundMethod(mc); ok {
					if g := t.m.Prog.FuncValue(meth); g != nil {
						parents[g] = append(parents[g], fn)
					}
				}
			}
		}
	}
	rootSet := map[*ssa.Function]bool{}
	seen := map[*ssa.Function]bool{}
	var up func(f *ssa.Function)
	up = func(f *ssa.Function) {
		if seen[f] {
			return
		}
		seen[f] = true
		ps := parents[f]
		if len(ps) == 0 {
			rootSet[f] = true
			return
		}
		for _, p := range ps {
			up(p)
		}
	}
	for _, fn := range t.fns {
		for _, in := range instrsOf(fn) {
			if pred(in) {
				up(fn)
			}
		}
	}
	var out []*ssa.Function
	for _, fn := range t.fns {
		if rootSet[fn] {
			out = append(out, fn)
		}
	}
	return out
}

func (t *thrModel) startsWithSetupOnce(root *ssa.Function) (bool, string) {
	for _, in := range root.Blocks[0].Instrs {
		switch x := in.(type) {
		case *ssa.Call:
			if isCallTo(&x.Call, "sync", "Once.Do") {
				fa, ok := x.Call.Args[0].(*ssa.FieldAddr)
				if !ok || fieldOfAddr(fa) != t.fSetupOnce {
					return false, "the first call is Once.Do on another Once"
				}
				_, meth, ok := boundMethod(x.Call.Args[1])
				if !ok || t.m.Prog.FuncValue(meth) != t.setup {
					return false, "setupOnce.Do is not given Scheme.setup"
				}
				return true, ""
			}
			return false, "a call precedes setupOnce.Do(s.setup): the RBC/sync wrappers may not be installed when factories are used"
		case *ssa.MakeClosure:
			if _, _, ok := boundMethod(x); ok {
				continue
			}
			return false, "a closure is created before setupOnce.Do(s.setup)"
		case *ssa.Go, *ssa.Defer:
			return false, "go/defer precedes setupOnce.Do(s.setup)"
		}
	}
	return false, "the entry block does not call setupOnce.Do(s.setup)"
}

// instanceSizeMatchesFilter: for every rbcFilter registered, the size handed
// to the RBC factory equals the number of admitted participants: either
// len(X) with the allowed list built from the same X, or the very value used
// as expected member count of the Synchronize whose continuation delivers the
// list (exact size by C07). Returns "" if so.
func (t *thrModel) instanceSizeMatchesFilter() string {
	n := 0
	for _, ts := range tableStoresOfField(t.fns, t.fRBCTab) {
		mu := ts.at
		recv, _, ok := boundMethod(ts.val)
		if !ok {
			return "a registered handler is not a bound method"
		}
		alloc, _, resolve := ctorLiteral(recv)
		if alloc == nil {
			return "a registered handler's receiver is not a local filter literal"
		}
		h, ok := structLitFieldValue(alloc, t.fFilterH)
		if !ok {
			return "filter without inner handler"
		}
		r2, _, ok2 := boundMethod(h)
		if !ok2 {
			return "inner handler is not a bound method"
		}
		cl, isC := strip(resolve(r2)).(*ssa.Call)
		if !isC || !callsFuncField(&cl.Call, t.fRBF) || len(cl.Call.Args) != 3 {
			return "inner handler not obtained from Scheme.RBF"
		}
		al, ok := structLitFieldValue(alloc, t.fFilterAllowed)
		if !ok {
			return "filter without allowed list"
		}
		// the construction may sit in a helper shared by the sessions (installRBC(rbcSession{…}, …)): then the
		// size and the list are judged per call, with parameters and parameter-object fields resolved there
		fn := mu.Parent()
		views := []SiteCtx{{Site: mu}}
		if helperCall(fn) == nil {
			if cs := staticCallsTo(t.fns, fn); len(cs) >= 2 {
				views = nil
				for _, c := range cs {
					views = append(views, SiteCtx{Calls: []ssa.CallInstruction{c}, Site: mu})
				}
			}
		}
		for _, view := range views {
			size := view.Resolve(cl.Call.Args[2])
			matched := false
			// (a) size = len(X), allowedList = f(X)
			if x, isLen := lenOperand(size); isLen {
				if alc, isCall := strip(al).(*ssa.Call); isCall && len(alc.Call.Args) == 1 && sameValue(view.Resolve(resolve(alc.Call.Args[0])), x) {
					matched = true
				}
			}
			// (a') both read the same field of one roster object through its getters:
			// size = r.size() (= len(r.nodes)), allowedList = r.senders() (= f(r.nodes))
			if !matched {
				if r1, f1 := getterOfField(size, true); f1 != nil {
					if r2, f2 := getterOfField(al, false); f2 == f1 && sameObjectValue(r1, r2) {
						matched = true
					}
				}
			}
			// (b) size is the expected-count argument of the Synchronize delivering the member list
			if !matched {
				alv := al
				if alc, isCall := strip(al).(*ssa.Call); isCall && len(alc.Call.Args) == 1 {
					if rv := resolve(alc.Call.Args[0]); rv != alc.Call.Args[0] {
						alv = rv
					}
					if len(view.Calls) > 0 {
						alv = view.Resolve(resolve(alc.Call.Args[0]))
					}
				}
				for f, ci := range t.conts {
					if len(f.Params) == 0 {
						continue
					}
					sl := t.sl.Slice(alv)
					if !sl[f.Params[0]] {
						continue
					}
					args := ci.Common().Args
					if len(args) >= 4 && t.sameSessionValue(args[3], size) {
						matched = true
					}
				}
			}
			if !matched {
				return "the size given to the RBC factory at " + t.m.Pos(cl.Pos()) + " is not tied to the number of admitted participants"
			}
		}
		n++
	}
	if n == 0 {
		return "no registered filter found"
	}
	return ""
}

// sameSessionValue: the same value of one session — equal SSA values, loads of one captured variable,
// or values with one root (a parameter handed down, a field of the session object).
func (t *thrModel) sameSessionValue(a, b ssa.Value) bool {
	if sameCellOrValue(a, b) {
		return true
	}
	ra, rb := t.sl.rootOf(a), t.sl.rootOf(b)
	if ra == rb {
		return true
	}
	return strip(ra) == strip(rb)
}

// sameCellOrValue: equal SSA values, or loads of the same captured variable.
func sameCellOrValue(a, b ssa.Value) bool {
	a, b = strip(a), strip(b)
	if a == b {
		return true
	}
	return sameObject(a, b)
}

// decoderStructField: v reads field fld of the struct that is result #0 of a call — directly, through a
// local variable assigned once with that result, or through a by-value parameter of a transparent
// helper that is given it.  Returns the call and the field.
func decoderStructField(v ssa.Value) (*ssa.Call, *types.Var) {
	var base ssa.Value
	var fld *types.Var
	if p, f := paramObjectField(v); p != nil {
		hc := helperCall(p.Parent())
		idx := paramIndex(p)
		if hc == nil || idx < 0 || idx >= len(hc.Call.Args) {
			return nil, nil
		}
		base, fld = hc.Call.Args[idx], f
	} else {
		switch x := v.(type) {
		case *ssa.Field:
			st, ok := x.X.Type().Underlying().(*types.Struct)
			if !ok {
				return nil, nil
			}
			base, fld = x.X, st.Field(x.Field)
		case *ssa.UnOp:
			fa, ok := x.X.(*ssa.FieldAddr)
			if !ok || x.Op != token.MUL {
				return nil, nil
			}
			a, ok := fa.X.(*ssa.Alloc)
			if !ok {
				return nil, nil
			}
			base, fld = wholeStoreOf(a, x), fieldOfAddr(fa)
		default:
			return nil, nil
		}
	}
	for i := 0; i < 6 && base != nil; i++ {
		base = strip(base)
		switch y := base.(type) {
		case *ssa.UnOp:
			a, ok := y.X.(*ssa.Alloc)
			if !ok || y.Op != token.MUL {
				return nil, nil
			}
			base = wholeStoreOf(a, y)
		case *ssa.Extract:
			cl, ok := y.Tuple.(*ssa.Call)
			if !ok || y.Index != 0 {
				return nil, nil
			}
			return cl, fld
		case *ssa.Call:
			if y.Call.Signature().Results().Len() == 1 {
				return y, fld
			}
			return nil, nil
		default:
			return nil, nil
		}
	}
	return nil, nil
}

// wholeStoreOf: the value assigned to the local struct variable a by its only assignment, which
// dominates the read `at`; nil if the variable is written in any other way or its address escapes.
func wholeStoreOf(a *ssa.Alloc, at ssa.Instruction) ssa.Value {
	if a.Referrers() == nil {
		return nil
	}
	var st *ssa.Store
	for _, r := range *a.Referrers() {
		switch y := r.(type) {
		case *ssa.Store:
			if y.Addr != ssa.Value(a) || st != nil {
				return nil
			}
			st = y
		case *ssa.UnOp:
			if y.Op != token.MUL {
				return nil
			}
		case *ssa.DebugRef:
		case *ssa.FieldAddr:
			if y.Referrers() != nil {
				for _, q := range *y.Referrers() {
					if u, ok := q.(*ssa.UnOp); !ok || u.Op != token.MUL {
						if _, isD := q.(*ssa.DebugRef); !isD {
							return nil
						}
					}
				}
			}
		default:
			return nil
		}
	}
	if st == nil || !instrDominates(st, at) {
		return nil
	}
	return st.Val
}

// ctorLiteral: the struct literal that v denotes — an allocation (possibly handed back by a
// transparent helper) or the literal returned by a constructor helper SHARED by several callers that v
// is a call of (`s.restrictSenders(rbc, participants)`).  In the second case `via` is that call and
// resolve maps a parameter of the constructor, as used inside the literal, to the argument of the call.
func ctorLiteral(v ssa.Value) (alloc *ssa.Alloc, via *ssa.Call, resolve func(ssa.Value) ssa.Value) {
	resolve = func(x ssa.Value) ssa.Value { return x }
	if a, ok := resultOf(v).(*ssa.Alloc); ok {
		return a, nil, resolve
	}
	cl, ok := strip(v).(*ssa.Call)
	if !ok {
		return nil, nil, resolve
	}
	g := cl.Call.StaticCallee()
	if g == nil || g.Blocks == nil || !ownPkgPath(pkgPathOf(g)) || len(g.Params) != len(cl.Call.Args) {
		return nil, nil, resolve
	}
	var ret *ssa.Return
	for _, in := range instrsOf(g) {
		if r, ok := in.(*ssa.Return); ok {
			if ret != nil {
				return nil, nil, resolve
			}
			ret = r
		}
	}
	if ret == nil || len(ret.Results) != 1 {
		return nil, nil, resolve
	}
	noParamLook++
	a, ok := strip(retResult(ret, 0)).(*ssa.Alloc)
	noParamLook--
	if !ok {
		return nil, nil, resolve
	}
	resolve = func(x ssa.Value) ssa.Value {
		noParamLook++
		sx := strip(x)
		noParamLook--
		if p, ok := sx.(*ssa.Parameter); ok && p.Parent() == g {
			if i := paramIndex(p); i >= 0 && i < len(cl.Call.Args) {
				return cl.Call.Args[i]
			}
		}
		return x
	}
	return a, cl, resolve
}

// getterOfField: v is a call of a one-block method of an own struct type that returns len(recv.f)
// (wantLen) or g(recv.f) for a one-argument function g (!wantLen): the receiver passed and the field f.
func getterOfField(v ssa.Value, wantLen bool) (ssa.Value, *types.Var) {
	cl, ok := stripNoParam(v).(*ssa.Call)
	if !ok {
		return nil, nil
	}
	g := cl.Call.StaticCallee()
	if g == nil || len(g.Blocks) != 1 || g.Signature.Recv() == nil || len(cl.Call.Args) < 1 || !ownPkgPath(pkgPathOf(g)) {
		return nil, nil
	}
	var ret *ssa.Return
	for _, in := range g.Blocks[0].Instrs {
		switch x := in.(type) {
		case *ssa.Return:
			ret = x
		case *ssa.Store:
			if _, isLocal := x.Addr.(*ssa.Alloc); !isLocal {
				return nil, nil // (the spill of the by-value receiver into its cell is fine)
			}
		case *ssa.MapUpdate, *ssa.Send, *ssa.Go, *ssa.Defer:
			return nil, nil
		}
	}
	if ret == nil || len(ret.Results) != 1 {
		return nil, nil
	}
	rv := ret.Results[0]
	var inner ssa.Value
	if wantLen {
		x, isLen := lenOperand(rv)
		if !isLen {
			return nil, nil
		}
		inner = x
	} else {
		c2, isC := rv.(*ssa.Call)
		if !isC || len(c2.Call.Args) != 1 || c2.Call.StaticCallee() == nil {
			return nil, nil
		}
		inner = c2.Call.Args[0]
	}
	noParamLook++
	si := strip(inner)
	noParamLook--
	po, fld := paramObjectField(si)
	if po == nil || po != g.Params[0] {
		if b, f, isF := fieldLoad(si); isF {
			noParamLook++
			sb := strip(b)
			noParamLook--
			if sb == ssa.Value(g.Params[0]) {
				return cl.Call.Args[0], f
			}
		}
		return nil, nil
	}
	return cl.Call.Args[0], fld
}

// sameObjectValue: two struct values that are reads of one variable which is only assigned once (a
// by-value parameter spilled to a cell, a local), or the same SSA value.
func sameObjectValue(a, b ssa.Value) bool {
	if a == nil || b == nil {
		return false
	}
	if sameValue(a, b) {
		return true
	}
	la, ok1 := stripNoParam(a).(*ssa.UnOp)
	lb, ok2 := stripNoParam(b).(*ssa.UnOp)
	if !ok1 || !ok2 || la.Op != token.MUL || lb.Op != token.MUL || la.X != lb.X {
		return false
	}
	cell, ok := la.X.(*ssa.Alloc)
	return ok && cellFieldsOnlyRead(cell)
}
