package main

// C03 — reliable broadcast integrity (structural necessary conditions).

import (
	"fmt"
	"go/token"
	"go/types"

	"golang.org/x/tools/go/ssa"
)

func init() { register("C03", checkC03) }

func checkC03(c *Ctx) {
	c.explanation = "Static decision on /repo's SSA of: (G1) the broadcast hand-over is dominated by a test-and-set on a per-reception flag (at most once); (G2) the value handed over is non-nil on every path (the message parameter itself, or a field under a dominating ≠nil test); (V1) the only voucher insertion keyed by the own id is on the direct-receipt path, attributed to the transport source; (V3) point-to-point hand-over passes exactly Receive's (m, from); plus the rules shared with C02: quorum (N1), receiver-side digest/class (V2), participant filter (G3). 'Exactly that payload' beyond digest provenance (collision resistance) is not decided."
	c.notDecided = "behaviour under concrete adversarial schedules; collision resistance of SHA-256"
	c.Assume("SHA-256 collision resistance")
	r := buildRBCModel(c)
	if r == nil {
		return
	}
	ruleC03G1(c, r)
	ruleC03G2(c, r)
	ruleC03V1(c, r)
	ruleC03V3(c, r)
	ruleRBCMonotone(c, r, "C03.M1")
	ruleC02N1(c, r, "C03.N1")
	t := buildThresholdModel(c)
	if t == nil {
		return
	}
	ruleC02V1(c, t, "C03.V2")
	ruleC02G3(c, t, "C03.G3")
	ruleC02V2(c, t, "C03.G3b")
}

// entryOf: the reception entry object (pointer value) a field access goes through.
func entryBaseOf(v ssa.Value) (base ssa.Value, f *types.Var, ok bool) {
	b, fld, ok := fieldLoad(strip(v))
	return b, fld, ok
}

// G1: at most once.
func ruleC03G1(c *Ctx, r *rbcModel) {
	const rule = "C03.G1"
	c.Rule(rule, "broadcast hand-over dominated by a test-and-set on state of the same reception entry", 1)
	for _, h := range r.bcastHandovers {
		fn := h.Parent()
		key := r.receptionKeyOf(h.Common().Args[0])
		ok := false
		by := ""
		for _, f := range FactsAt(h.(ssa.Instruction)) {
			if f.Op != 0 || f.True {
				continue
			}
			base, fld, isF := entryBaseOf(f.Bool)
			if !isF {
				continue
			}
			// flag belongs to an entry of the reception table, the same one the message is taken from
			k2 := r.receptionKeyOf(f.Bool)
			if k2 == nil || (key != nil && !sameValue(k2, key)) {
				continue
			}
			_ = base
			// a store of true to the same field of the same entry inside the guarded region, ordered with the call
			for _, st := range storesToField(deepFuncs(fn), fld) {
				k, isK := st.Val.(*ssa.Const)
				if !isK || k.Value == nil || k.Value.String() != "true" {
					continue
				}
				k3 := r.receptionKeyOf(st.Addr)
				if k3 == nil || !sameValue(k3, k2) {
					continue
				}
				guarded := false
				for _, g := range GuardsOf(st) {
					if g.If == f.If {
						guarded = true
					}
				}
				if guarded && (instrDominates(st, h.(ssa.Instruction)) || instrDominates(h.(ssa.Instruction), st)) {
					ok = true
					by = "test-and-set on " + fieldKey(fld)
				}
			}
		}
		c.Check(ok, rule, FuncName(fn), "broadcast hand-over at most once", r.m.Pos(h.Pos()), by,
			"the hand-over is controlled only by the voucher count: a replayed acknowledgement or payload after delivery finds the count still equal to N−1 and hands the message to the backend again")
	}
	if len(r.bcastHandovers) == 0 {
		c.Bad(rule, "rbc", "broadcast hand-over", "-", "no broadcast hand-over found")
	}
}

// G2: never an empty placeholder.
func ruleC03G2(c *Ctx, r *rbcModel) {
	const rule = "C03.G2"
	c.Rule(rule, "value handed to the backend is non-nil on every path", 1)
	for _, h := range r.handovers {
		fn := h.Parent()
		arg := strip(h.Common().Args[0])
		ok := false
		by := ""
		if arg == ssa.Value(r.paramM) {
			// m was used as the receiver of an interface invoke that dominates the hand-over => non-nil
			for _, a := range r.ackInvokes {
				if a.Parent() == fn && strip(a.Common().Value) == arg && instrDominates(a.(ssa.Instruction), h.(ssa.Instruction)) {
					ok = true
					by = "the message parameter, already dereferenced by m.Ack()"
				}
			}
		}
		if !ok {
			for _, f := range FactsAt(h.(ssa.Instruction)) {
				if f.Op != token.NEQ {
					continue
				}
				x, y := f.X, f.Y
				if isNilConst(x) {
					x, y = y, x
				}
				if !isNilConst(y) {
					continue
				}
				if sameValue(x, arg) || sameEntryField(r, x, arg) {
					ok = true
					by = "dominated by " + render(x) + " != nil"
				}
			}
		}
		if !ok {
			// counting argument: every voucher other than the own id is a party different from the
			// sender and from this party, the own id vouches only where the message is stored, and
			// the instance is only reachable for the N agreed participants; hence a quorum of N−1
			// distinct vouchers contains the own id, i.e. the message was stored.
			if why := r.countingArgument(c); why == "" {
				ok = true
				by = "counting argument: vouchers ⊆ participants∖{sender}; non-self vouchers ≠ self; self vouches only where m is stored; |participants| = N (premises re-checked in this run)"
			} else {
				by = why
			}
		}
		c.Check(ok, rule, FuncName(fn), "hand-over argument "+render(arg), r.m.Pos(h.Pos()), by,
			"the stored message may still be nil (only acknowledgements received) when the count reaches the quorum: the backend is handed an empty placeholder (nil type assertion panic downstream); "+by)
	}
}

// sameEntryField: both values load the same field of reception entries keyed by the same value, with no store in between.
func sameEntryField(r *rbcModel, a, b ssa.Value) bool {
	_, fa, ok1 := fieldLoad(strip(a))
	_, fb, ok2 := fieldLoad(strip(b))
	if !ok1 || !ok2 || fa != fb {
		return false
	}
	ka, kb := r.receptionKeyOf(a), r.receptionKeyOf(b)
	if ka == nil || kb == nil || !sameValue(ka, kb) {
		return false
	}
	ia, okA := strip(a).(ssa.Instruction)
	ib, okB := strip(b).(ssa.Instruction)
	if !okA || !okB {
		return false
	}
	// no store to that field between the two loads
	for _, st := range storesToField([]*ssa.Function{ia.Parent()}, fa) {
		if !(instrDominates(st, ia) && instrDominates(st, ib)) {
			// a store that may execute after the test: it must store a non-nil parameter-derived value
			if isNilConst(st.Val) {
				return false
			}
			if instrDominates(ia, st) && instrDominates(st, ib) {
				return false
			}
		}
	}
	return true
}

// V1: self vouches only on direct receipt.
func ruleC03V1(c *Ctx, r *rbcModel) {
	const rule = "C03.V1"
	c.Rule(rule, "self voucher only where the message parameter is stored as payload, non-ack, broadcast, sender = transport source", 1)
	n := 0
	for _, mu := range r.inserts {
		ctxs, ok := contextsOf(mu, r.entries, r.fns, 3)
		if !ok {
			continue // reported by C02.G1
		}
		for _, sc := range ctxs {
			key := sc.Resolve(mu.Key)
			if !r.isSelfID(key) {
				continue
			}
			n++
			fn := FuncName(mu.Parent())
			pos := r.m.Pos(mu.Pos())
			facts := sc.Facts()
			// broadcast & not an ack
			okB := boolFact(facts, true, func(v ssa.Value) bool {
				cl, ok := v.(*ssa.Call)
				return ok && invokesMethod(&cl.Call, "WasBroadcast") && strip(cl.Call.Value) == ssa.Value(r.paramM)
			})
			okNA := hasFact(facts, func(f Fact) bool {
				// len(digest) <= 0  (negation of len(digest) > 0) on the Ack() digest
				l, op, ok := linFact(f)
				if !ok {
					return false
				}
				x, isLen := lenOperand(strip(f.X))
				if !isLen || !r.isAckDigest(x) {
					return false
				}
				_ = l
				return (op == token.LEQ || op == token.EQL) && isZero(f.Y)
			})
			// sender of the reception = transport `from`
			sender := r.senderOfReception(sc, r.receptionKeyOf(mu.Map))
			okS := sender != nil && sender == ssa.Value(r.paramFrom)
			// the message stored for this entry in this context is the parameter m
			okM := false
			for _, st := range storesToField(deepFuncs(rootOfHelper(mu.Parent())), r.fEntryM) {
				k := r.receptionKeyOf(st.Addr)
				if k != nil && sameValue(k, r.receptionKeyOf(mu.Map)) && sc.Resolve(st.Val) == ssa.Value(r.paramM) && r.storeUnconditionalIn(sc, st) {
					okM = true
				}
			}
			c.Check(okB && okNA && okS && okM, rule, fn, "self voucher via "+ctxName(sc), pos,
				"on the non-ack, broadcast path; reception.sender = from; the entry's message is Receive's m",
				fmt.Sprintf("the party adds itself as a voucher on a path that is not the direct receipt of the payload from the sender it is attributed to (broadcast-arm=%v non-ack-arm=%v sender-is-transport-source=%v stores-received-message=%v)", okB, okNA, okS, okM))
		}
	}
	if n == 0 {
		c.Bad(rule, "rbc", "self voucher", "-", "no voucher insertion keyed by SelfID found: payloads received directly are never vouched for")
	}
}

func isZero(v ssa.Value) bool {
	k, ok := constInt(v)
	return ok && k == 0
}

// V3: point-to-point pass-through.
func ruleC03V3(c *Ctx, r *rbcModel) { ruleC03V3Named(c, r, "C03.V3") }

func ruleC03V3Named(c *Ctx, r *rbcModel, rule string) {
	c.Rule(rule, "point-to-point hand-over passes exactly Receive's (m, from)", 1)
	if len(r.p2pHandovers) == 0 {
		c.Bad(rule, FuncName(r.receive), "p2p hand-over", "-", "no hand-over on the non-broadcast arm: point-to-point messages never reach the backend")
	}
	for _, h := range r.p2pHandovers {
		a := h.Common().Args
		ctxs, okC := contextsOf(h.(ssa.Instruction), r.entries, r.fns, 3)
		ok := okC && len(ctxs) > 0 && len(a) == 2
		for _, sc := range ctxs {
			if !ok {
				break
			}
			ok = sc.Resolve(a[0]) == ssa.Value(r.paramM) && sc.Resolve(a[1]) == ssa.Value(r.paramFrom)
			// and it is not an acknowledgement
			ok = ok && hasFact(sc.Facts(), func(f Fact) bool {
				x, isLen := lenOperand(strip(f.X))
				return f.Op != 0 && isLen && r.isAckDigest(x) && (f.Op == token.LEQ || f.Op == token.EQL) && isZero(f.Y)
			})
		}
		c.Check(ok, rule, FuncName(h.Parent()), "p2p hand-over", r.m.Pos(h.Pos()), "ForwardToBackend(m, from) on the non-ack, non-broadcast arm",
			"a point-to-point message is not handed over exactly as received / attributed to the transport source")
	}
}

// countingArgument re-checks the premises under which |vouchers| ≥ N−1 implies
// that the payload was received directly. Returns "" when all hold, else the
// first premise that fails.
func (r *rbcModel) countingArgument(c *Ctx) string {
	selfSeen := false
	for _, mu := range r.inserts {
		ctxs, ok := contextsOf(mu, r.entries, r.fns, 3)
		if !ok || len(ctxs) == 0 {
			return "premise failed: calling contexts of a voucher insertion cannot be enumerated"
		}
		for _, sc := range ctxs {
			key := sc.Resolve(mu.Key)
			facts := sc.Facts()
			if r.isSelfID(key) {
				selfSeen = true
				stored := false
				for _, st := range storesToField(deepFuncs(rootOfHelper(mu.Parent())), r.fEntryM) {
					k := r.receptionKeyOf(st.Addr)
					if k != nil && sameValue(k, r.receptionKeyOf(mu.Map)) && sc.Resolve(st.Val) == ssa.Value(r.paramM) && r.storeUnconditionalIn(sc, st) {
						// the store happens on every path of this context: guarded only by msg != nil
						stored = true
					}
				}
				if !stored {
					return "premise failed: a self voucher is inserted without storing the received message in the same entry"
				}
				continue
			}
			sender := r.senderOfReception(sc, r.receptionKeyOf(mu.Map))
			neqSender := hasFact(facts, func(f Fact) bool {
				if f.Op != token.NEQ {
					return false
				}
				x, y := sc.Resolve(f.X), sc.Resolve(f.Y)
				isS := func(v ssa.Value) bool { return r.isAckSender(v) || (sender != nil && strip(v) == sender) }
				return (x == key && isS(y)) || (y == key && isS(x))
			})
			neqSelf := hasFact(facts, func(f Fact) bool {
				if f.Op != token.NEQ {
					return false
				}
				x, y := sc.Resolve(f.X), sc.Resolve(f.Y)
				return (x == key && r.isSelfID(y)) || (y == key && r.isSelfID(x))
			})
			senderNotSelf := hasFact(facts, func(f Fact) bool {
				if f.Op != token.NEQ {
					return false
				}
				x, y := sc.Resolve(f.X), sc.Resolve(f.Y)
				isS := func(v ssa.Value) bool { return r.isAckSender(v) || (sender != nil && strip(v) == sender) }
				return (isS(x) && r.isSelfID(y)) || (isS(y) && r.isSelfID(x))
			})
			if !senderNotSelf {
				return "premise failed: acknowledgements about this party's own messages are registered (N−1 peers can acknowledge a message this party never receives)"
			}
			if !neqSender {
				return "premise failed: a voucher may be the sender itself"
			}
			if !neqSelf {
				return "premise failed: an acknowledgement may be attributed to this party itself without direct receipt"
			}
		}
	}
	if !selfSeen {
		return "premise failed: no self voucher"
	}
	// the hand-over requires at least N−1 vouchers
	for _, h := range r.bcastHandovers {
		ctxs, ok := contextsOf(h, r.entries, r.fns, 3)
		if !ok {
			return "premise failed: contexts of the hand-over"
		}
		for _, sc := range ctxs {
			if !hasFact(sc.Facts(), func(f Fact) bool {
				for _, form := range quorumForms {
					if matchLin(f, form, 1, token.EQL, token.GEQ) {
						return true
					}
				}
				return false
			}) {
				return "premise failed: hand-over not guarded by the N−1 quorum"
			}
		}
	}
	// |participants admitted to the instance| = N
	if t := buildThresholdModel(c); t != nil {
		if why := t.instanceSizeMatchesFilter(); why != "" {
			return "premise failed: " + why
		}
	} else {
		return "premise failed: threshold model unavailable"
	}
	return ""
}

// storeUnconditionalIn: in context sc the store executes whenever its function
// does: every mandatory branch outcome is "<the message> != nil", which holds
// in a context whose message argument is Receive's (already dereferenced) m,
// and the store's block post-dominates nothing else conditional (all guards listed).
func (r *rbcModel) storeUnconditionalIn(sc SiteCtx, st *ssa.Store) bool {
	// the insertion as seen from the function that holds the store (the insertion may sit in a small
	// helper of it: `entry.idSet.add(from)`)
	site := sc.Site
	if site.Parent() != st.Parent() {
		if l := liftTo(site, st.Parent()); l != nil {
			site = l
		}
	}
	for _, g := range GuardsOf(st) {
		f := factOf(g)
		if f.Op == token.NEQ {
			x, y := f.X, f.Y
			if isNilConst(x) {
				x, y = y, x
			}
			if isNilConst(y) && sc.Resolve(x) == ssa.Value(r.paramM) {
				continue
			}
		}
		// guards shared with the voucher insertion itself (e.g. the conflicting-digest exit) are fine:
		shared := false
		for _, g2 := range GuardsOf(site) {
			if g2.If == g.If && g2.Arm == g.Arm {
				shared = true
			}
		}
		if !shared {
			return false
		}
	}
	// every path from the function entry that reaches the insertion also reaches the store or
	// comes after it: the store's block must dominate or be dominated by the insertion's block
	// modulo the msg != nil diamond; approximate by requiring the guard set check above plus
	// reachability of one from the other.
	if site.Parent() != st.Parent() {
		return false
	}
	sb, ib := st.Block(), site.Block()
	return sb == ib || blockReaches(sb, ib, nil) || blockReaches(ib, sb, nil)
}

// ruleRBCMonotone (C03.M1 = C02.M1): the receiver's records only grow.  "At most once per sender and
// round" and "no two honest parties accept different payloads" both rest on records that are permanent:
// the digest pinned for a (sender, round), the reception entries with their voucher sets and delivered
// flag, and the sticky equivocation flag.  Decided: nothing is ever deleted from the pin table or the
// reception table; the tables are replaced only where they are found nil (first use); the delivered flag
// and the equivocation flag are never stored anything but true.  A pin removed at delivery lets a second,
// different payload of the same sender and round be registered, vouched for and handed over as well.
func ruleRBCMonotone(c *Ctx, r *rbcModel, rule string) {
	c.Rule(rule, "receiver records are permanent: no delete from the pin/reception tables, tables replaced only when nil, flags only set", 3)
	n := 0
	delivered := r.deliveredFlag()
	for _, fn := range r.fns {
		for _, in := range instrsOf(fn) {
			switch x := in.(type) {
			case ssa.CallInstruction:
				bi, ok := x.Common().Value.(*ssa.Builtin)
				if !ok || bi.Name() != "delete" || len(x.Common().Args) != 2 {
					continue
				}
				for _, f := range []*types.Var{r.fPinned, r.fReception} {
					if isLoadOfField(x.Common().Args[0], f) {
						n++
						c.Bad(rule, FuncName(fn), "delete from "+f.Name(), r.m.Pos(in.Pos()),
							"a record of the receiver is removed: once the pinned digest (or the reception entry with its delivered flag) of a (sender, round) is gone, a different payload of the same sender and round is no longer recognised as conflicting (or as already delivered) — it collects vouchers and is handed over as well")
					}
				}
				// the voucher set of an entry
				if _, fld, isF := fieldLoad(strip(x.Common().Args[0])); isF && fld == r.fEntryIDSet {
					n++
					c.Bad(rule, FuncName(fn), "delete from a voucher set", r.m.Pos(in.Pos()), "vouchers are removed from a reception entry: the count can reach the quorum again")
				}
			case *ssa.Store:
				fa, ok := x.Addr.(*ssa.FieldAddr)
				if !ok {
					continue
				}
				f := fieldOfAddr(fa)
				switch {
				case f == r.fPinned || f == r.fReception:
					n++
					okNil := hasFact(FactsAt(x), func(ft Fact) bool {
						return ft.Op == token.EQL && ((isLoadOfField(ft.X, f) && isNilConst(ft.Y)) || (isLoadOfField(ft.Y, f) && isNilConst(ft.X)))
					})
					// (both tables are made together under the nil test of one of them)
					if !okNil {
						okNil = hasFact(FactsAt(x), func(ft Fact) bool {
							return ft.Op == token.EQL && (isNilConst(ft.Y) || isNilConst(ft.X)) && (isLoadOfField(ft.X, r.fPinned) || isLoadOfField(ft.X, r.fReception) || isLoadOfField(ft.Y, r.fPinned) || isLoadOfField(ft.Y, r.fReception))
						})
					}
					c.Check(okNil, rule, FuncName(fn), "store to Receiver."+f.Name(), r.m.Pos(x.Pos()), "on the arm where the table was found nil (first use)",
						"a record table of the receiver is replaced although it may hold records: pins / reception entries are forgotten")
				case f == r.fEquiv || (delivered != nil && f == delivered):
					n++
					k, isK := x.Val.(*ssa.Const)
					c.Check(isK && k.Value != nil && k.Value.String() == "true", rule, FuncName(fn), "store to "+f.Name(), r.m.Pos(x.Pos()), "stores true",
						"a flag of the receiver that must stay set once it is set is stored something other than true")
				}
			}
		}
	}
	if n == 0 {
		c.Bad(rule, "rbc", "receiver records", "-", "no store to the receiver's tables or flags found (model went blind)")
	}
}
