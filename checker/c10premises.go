package main

// Premises of frozen reasons of C10 that are statements about /repo's code are decided here on
// every run, so that a reason cannot silently become false (found by a seeded change: the
// synchroniser's "impossible message type" panic became reachable when the decoder started to
// return the tag on its error path, without any guard being removed).

import (
	"fmt"
	"go/constant"
	"go/token"
	"go/types"

	"golang.org/x/tools/go/ssa"
)

// ruleC10DiscDecoderContract: Member.HandleMessage does not stop on a decoding error; it relies on
//
//	(a) every error return of decodeTagAndMembershipList carrying the empty tag,
//	(b) every success return carrying a type within the range the decoder validated,
//	(c) the empty tag never being a key of the tag table (keys are PRF outputs),
//	(d) the switch panicking only after the tag lookup succeeded and only for types outside that range.
func ruleC10DiscDecoderContract(c *Ctx, rule string) {
	m := c.Mod(ModRoot)
	if m == nil {
		return
	}
	dec := c.mustFunc(m, PkgDisc, "", "decodeTagAndMembershipList")
	hm := c.mustFunc(m, PkgDisc, "Member", "HandleMessage")
	fTags := c.mustField(m, PkgDisc, "Member", "tagsToIDsAndTopics")
	if dec == nil || hm == nil || fTags == nil {
		return
	}
	c.Analysed(FuncName(dec))
	c.Analysed(FuncName(hm))
	// the decoder's results by role: (type, tag, peers, error), or one struct holding the first three
	// (the type is its 8-bit integer field, the tag its string field) and the error
	nres := dec.Signature.Results().Len()
	errIdx := nres - 1
	var typeField, tagField *types.Var
	if nres == 2 {
		if st, ok := dec.Signature.Results().At(0).Type().Underlying().(*types.Struct); ok {
			for i := 0; i < st.NumFields(); i++ {
				f := st.Field(i)
				if b, isB := f.Type().Underlying().(*types.Basic); isB {
					switch {
					case b.Info()&types.IsInteger != 0 && intWidth(f.Type()) == 8 && typeField == nil:
						typeField = f
					case b.Info()&types.IsString != 0 && tagField == nil:
						tagField = f
					}
				}
			}
		}
	}
	if !(nres == 4 || (nres == 2 && typeField != nil && tagField != nil)) {
		c.Bad(rule, FuncName(dec), "decoder returns", "-", "the decoder's results are neither (type, tag, peers, error) nor a struct of those with an error")
		return
	}
	// part(ret, role): what a return hands out as type (0) / tag (1); zero=true for the zero value
	part := func(r *ssa.Return, role int) (v ssa.Value, zero bool) {
		if nres == 4 {
			return retResult(r, role), false
		}
		sv := retResult(r, 0)
		f := typeField
		if role == 1 {
			f = tagField
		}
		if k, isK := sv.(*ssa.Const); isK && k.Value == nil {
			return nil, true
		}
		fv := structFieldValue(sv, f, 0)
		if fv == nil {
			// a literal that leaves the field out: the zero value
			if a := allocOfStructValue(sv); a != nil {
				if _, set := structLitFieldValue(a, f); !set {
					return nil, true
				}
			}
		}
		return fv, false
	}
	// does the handler stop on a decoding error after all?  then (a) and (c) are not needed
	stopsOnError := false
	for _, in := range instrsOf(hm) {
		cl, ok := in.(*ssa.Call)
		if !ok || !isCallTo(&cl.Call, "sync", "Map.Load") {
			continue
		}
		stopsOnError = hasFact(FactsAt(cl), func(f Fact) bool {
			if f.Op != token.EQL || !isNilConst(f.Y) {
				return false
			}
			e, ok := stripNoParam(f.X).(*ssa.Extract)
			if !ok || e.Index != errIdx {
				return false
			}
			dc, ok := e.Tuple.(*ssa.Call)
			return ok && staticCallee(&dc.Call) == dec
		})
		break
	}
	// (a), (b)
	var succTags, succTypes []ssa.Value // what the successful returns hand out (struct form: seen through the call)
	lo, hi := int64(-1), int64(-1)
	nErr, nOK := 0, 0
	for _, in := range instrsOf(dec) {
		r, ok := in.(*ssa.Return)
		if !ok {
			continue
		}
		res := retResults(r)
		if len(res) != nres {
			continue
		}
		if !isNilConst(res[errIdx]) {
			nErr++
			tagV, zero := part(r, 1)
			empty := zero
			if tagV != nil {
				k, isK := strip(tagV).(*ssa.Const)
				empty = isK && k.Value != nil && k.Value.Kind() == constant.String && constant.StringVal(k.Value) == ""
			}
			if stopsOnError {
				c.OK(rule, FuncName(dec), "error return carries the empty tag", m.Pos(r.Pos()), "not needed: Member.HandleMessage returns on a decoding error")
				continue
			}
			c.Check(empty, rule, FuncName(dec), "error return carries the empty tag", m.Pos(r.Pos()), `tag result is ""`,
				"the decoder returns a tag taken from the wire together with an error; Member.HandleMessage does not stop on a decoding error (it relies on the empty tag missing the tag table), so a rejected message is processed further and reaches the switch with a type the decoder did not accept")
			continue
		}
		nOK++
		typeV, _ := part(r, 0)
		if tv, _ := part(r, 1); tv != nil {
			succTags = append(succTags, strip(tv))
		}
		if typeV != nil {
			succTypes = append(succTypes, strip(typeV))
		}
		var l, h int64 = -1, -1
		for _, f := range FactsAt(r) {
			if f.Op == 0 || typeV == nil || strip(f.X) != strip(typeV) {
				continue
			}
			k, isK := constInt(f.Y)
			if !isK {
				continue
			}
			switch f.Op {
			case token.GEQ:
				l = k
			case token.GTR:
				l = k + 1
			case token.LEQ:
				h = k
			case token.LSS:
				h = k - 1
			}
		}
		c.Check(l >= 0 && h >= l, rule, FuncName(dec), "success return carries a validated type", m.Pos(r.Pos()), fmt.Sprintf("type within %d..%d on this path", l, h),
			"the decoder can succeed with a message type it did not range-check")
		if lo < 0 || l > lo {
			lo = l
		}
		if hi < 0 || h < hi {
			hi = h
		}
	}
	if nErr == 0 || nOK == 0 {
		c.Bad(rule, FuncName(dec), "decoder returns", "-", "could not find both error and success returns")
		return
	}
	// (c) keys stored into the tag table are PRF outputs
	sl := NewSlicer(m, PkgDisc)
	nSt := 0
	for _, fn := range m.PkgFuncs(PkgDisc) {
		for _, in := range instrsOf(fn) {
			cl, ok := in.(*ssa.Call)
			if !ok || !isCallTo(&cl.Call, "sync", "Map.Store") || len(cl.Call.Args) != 3 {
				continue
			}
			fa, ok := cl.Call.Args[0].(*ssa.FieldAddr)
			if !ok || fieldOfAddr(fa) != fTags {
				continue
			}
			nSt++
			prf := sliceHas(sl.Slice(cl.Call.Args[1]), func(v ssa.Value) bool {
				x, ok := v.(*ssa.Call)
				if !ok {
					return false
				}
				if x.Call.IsInvoke() && x.Call.Method.Name() == "Sum" {
					return true
				}
				if f := staticCallee(&x.Call); f != nil && (f.Name() == "makePRF" || discPRFEvals(m)[f]) {
					return true
				}
				return false
			})
			c.Check(prf, rule, FuncName(fn), "tag table key is a PRF output", m.Pos(cl.Pos()), "key derives from the HMAC closure of makePRF (32 bytes, never empty)",
				"a key that is not a PRF output is stored into the tag table: the empty tag of a rejected message may now hit")
		}
	}
	if nSt == 0 {
		c.Bad(rule, "disc", "tag table stores", "-", "no store into tagsToIDsAndTopics found")
	}
	// (d) the panic in HandleMessage
	var decCall *ssa.Call
	for _, in := range instrsOf(hm) {
		if cl, ok := in.(*ssa.Call); ok && staticCallee(&cl.Call) == dec {
			decCall = cl
		}
	}
	// isDecPart: v is what the decoder call handed out as type (0) / tag (1)
	isDecPart := func(v ssa.Value, role int) bool {
		if decCall == nil {
			return false
		}
		if e, ok := stripNoParam(v).(*ssa.Extract); ok && nres == 4 && e.Tuple == ssa.Value(decCall) && e.Index == role {
			return true
		}
		if e, ok := strip(v).(*ssa.Extract); ok && nres == 4 && e.Tuple == ssa.Value(decCall) && e.Index == role {
			return true
		}
		if nres == 2 {
			// a field of the struct the call returned: seen through to the successful return's value
			vals := succTypes
			if role == 1 {
				vals = succTags
			}
			sv := strip(v)
			for _, x := range vals {
				if sv == x {
					return true
				}
			}
		}
		return false
	}
	nP := 0
	for _, in := range instrsDeep(hm) {
		p, ok := in.(*ssa.Panic)
		if !ok {
			continue
		}
		nP++
		facts := FactsAt(p)
		found := hasFact(facts, func(f Fact) bool {
			if f.Op != 0 || !f.True {
				return false
			}
			tup, ok := commaOKAny(f.Bool)
			if !ok {
				return false
			}
			cl, ok := tup.(*ssa.Call)
			if !ok || !isCallTo(&cl.Call, "sync", "Map.Load") {
				return false
			}
			fa, ok := cl.Call.Args[0].(*ssa.FieldAddr)
			if !ok || fieldOfAddr(fa) != fTags {
				return false
			}
			return isDecPart(unwrapIface(cl.Call.Args[1]), 1)
		})
		excluded := map[int64]bool{}
		for _, f := range facts {
			if f.Op != token.NEQ {
				continue
			}
			k, isK := constInt(f.Y)
			if isK && isDecPart(f.X, 0) {
				excluded[k] = true
			}
		}
		all := lo >= 0
		for k := lo; k <= hi && all; k++ {
			if !excluded[k] {
				all = false
			}
		}
		c.Check(found && all, rule, FuncName(hm), "impossible-type panic only behind the tag lookup and outside the validated range", m.Pos(p.Pos()),
			fmt.Sprintf("dominated by Load(tag) found and type ∉ %d..%d", lo, hi),
			"the panic for an unsupported message type is reachable without the tag lookup having succeeded, or for a type the decoder accepts: a peer can crash the node with one message")
	}
	if nP == 0 {
		c.OK(rule, FuncName(hm), "impossible-type panic", m.Pos(hm.Pos()), "no explicit panic left in HandleMessage")
	}
}

// commaOKAny: v is element #1 of a two-result call or comma-ok instruction; returns the producer.
func commaOKAny(v ssa.Value) (ssa.Value, bool) {
	e, ok := v.(*ssa.Extract)
	if !ok || e.Index != 1 {
		return nil, false
	}
	return e.Tuple, true
}

func unwrapIface(v ssa.Value) ssa.Value {
	if mi, ok := v.(*ssa.MakeInterface); ok {
		return mi.X
	}
	return v
}

// ruleC10DigestLengths: the reliable-broadcast receiver slices digests with [:8] for logging and is
// excused by the reason "digests are SHA-256 values".  Decided here: every value stored into
// rbcMsg.digest is either the result of threshold.hash (sha256) or, in every calling context from the
// dispatcher, validated to be 32 bytes long.
func ruleC10DigestLengths(c *Ctx, rule string) {
	m := c.Mod(ModRoot)
	if m == nil {
		return
	}
	fDigest := c.mustField(m, PkgThreshold, "rbcMsg", "digest")
	hashFn := c.mustFunc(m, PkgThreshold, "", "hash")
	entry := c.mustFunc(m, PkgThreshold, "Scheme", "HandleMessage")
	if fDigest == nil || hashFn == nil || entry == nil {
		return
	}
	fns := m.PkgFuncs(PkgThreshold)
	// hash returns the Sum of a sha256 state
	okHash := false
	for _, in := range instrsOf(hashFn) {
		if cl, ok := in.(*ssa.Call); ok {
			if isCallTo(&cl.Call, "crypto/sha256", "New") || isCallTo(&cl.Call, "crypto/sha256", "Sum256") {
				okHash = true
			}
		}
	}
	c.Check(okHash, rule, FuncName(hashFn), "hash() is SHA-256", m.Pos(hashFn.Pos()), "uses crypto/sha256", "threshold.hash no longer computes a SHA-256 value: digests may be shorter than the 8 bytes the receiver slices for logging")
	n := 0
	check := func(val ssa.Value, at ssa.Instruction) {
		n++
		if cl, ok := strip(val).(*ssa.Call); ok && staticCallee(&cl.Call) == hashFn {
			c.OK(rule, FuncName(at.Parent()), "digest handed to the RBC instance", m.Pos(at.Pos()), "result of hash()")
			return
		}
		ctxs, okc := contextsOf(at, map[*ssa.Function]bool{entry: true}, fns, 4)
		ok := okc && len(ctxs) > 0
		for _, sc := range ctxs {
			rv := sc.Resolve(val)
			if !hasFact(sc.Facts(), func(f Fact) bool {
				if f.Op != token.EQL && f.Op != token.GEQ {
					return false
				}
				x, isLen := lenOperand(strip(f.X))
				k, isK := constInt(f.Y)
				return isLen && isK && k >= 8 && (sameValue(x, rv) || sameValue(sc.Resolve(x), rv))
			}) {
				ok = false
			}
		}
		c.Check(ok, rule, FuncName(at.Parent()), "digest handed to the RBC instance", m.Pos(at.Pos()), "validated to 32 bytes in every calling context from the dispatcher",
			"a digest taken from the wire reaches the reliable-broadcast receiver without a length check: its [:8] slices (excused as SHA-256 values) panic on a short digest")
	}
	for _, st := range storesToField(fns, fDigest) {
		check(st.Val, st)
	}
	// composite literals &rbcMsg{digest: …} store through FieldAddr as well; nothing else to scan
	if n == 0 {
		c.Bad(rule, "threshold", "stores to rbcMsg.digest", "-", "no store found")
	}
}

// sameBytes: two byte-slice values denote the same bytes (same value, or equal constant re-slicings of the same value).
func sameBytes(a, b ssa.Value) bool {
	a, b = strip(a), strip(b)
	if a == b || sameValue(a, b) {
		return true
	}
	sa, ok1 := a.(*ssa.Slice)
	sb, ok2 := b.(*ssa.Slice)
	if !ok1 || !ok2 || !sameBytes(sa.X, sb.X) {
		return false
	}
	eq := func(x, y ssa.Value) bool {
		if x == nil || y == nil {
			return x == nil && y == nil
		}
		kx, okx := constInt(x)
		ky, oky := constInt(y)
		return (okx && oky && kx == ky) || sameValue(x, y)
	}
	return eq(sa.Low, sb.Low) && eq(sa.High, sb.High) && eq(sa.Max, sb.Max)
}

// ruleC10ParseBeforeStore: the BLS/PS key assembly panics ("programming error") when a stored public
// key does not parse, excused by "each was parsed successfully before being stored".  Decided here:
// every store of received bytes into publicKeysOfParties is dominated by the success of the same
// parser (the one the assembly uses) on the same bytes.
func ruleC10ParseBeforeStore(c *Ctx, rule string) {
	for _, b := range builtinBackends {
		d := buildDKGModel(c, b)
		if d == nil {
			continue
		}
		onMsg := d.m.Func(b.pkg, b.typ, "OnMsg")
		if onMsg == nil {
			c.Fatalf("anchor", "%s.OnMsg not found", b.typ)
			continue
		}
		// the parser(s) whose failure panics on the consuming side: calls with a byte-slice argument that
		// derives from a lookup in publicKeysOfParties, whose error result guards a panic
		parsers := map[string]bool{}
		for _, fn := range d.fns {
			for _, in := range instrsOf(fn) {
				p, ok := in.(*ssa.Panic)
				if !ok {
					continue
				}
				for _, f := range FactsAt(p) {
					if f.Op != token.NEQ || !isNilConst(f.Y) {
						continue
					}
					e, ok := strip(f.X).(*ssa.Extract)
					if !ok {
						continue
					}
					cl, ok := e.Tuple.(*ssa.Call)
					if !ok {
						continue
					}
					for _, a := range cl.Call.Args {
						if !isByteSlice(a.Type()) {
							continue
						}
						if sliceHas(d.sl.Slice(a), func(v ssa.Value) bool {
							lk, ok := v.(*ssa.Lookup)
							return ok && isLoadOfField(lk.X, d.fPKs)
						}) {
							if o := calleeObj(&cl.Call); o != nil {
								parsers[o.FullName()] = true
							}
						}
					}
				}
			}
		}
		if len(parsers) == 0 {
			c.OK(rule, b.typ, "stored keys parsed before use", d.m.Pos(onMsg.Pos()), "no consumer panics on an unparsable stored key")
			continue
		}
		n := 0
		for _, fn := range WithAnon(onMsg) {
			for _, st := range fieldMapStores(deepFuncs(fn), d.fPKs) {
				mu := st.mu
				stored := st.resolve(mu.Value)
				n++
				ok := hasFact(FactsAt(st.at()), func(f Fact) bool {
					if f.Op != token.EQL || !isNilConst(f.Y) {
						return false
					}
					e, ok := strip(f.X).(*ssa.Extract)
					if !ok {
						return false
					}
					cl, ok := e.Tuple.(*ssa.Call)
					if !ok {
						return false
					}
					o := calleeObj(&cl.Call)
					if o == nil || !parsers[o.FullName()] {
						return false
					}
					for _, a := range cl.Call.Args {
						if isByteSlice(a.Type()) && sameBytes(a, stored) {
							return true
						}
					}
					return false
				})
				c.Check(ok, rule, FuncName(fn), "received key parsed before it is stored", d.m.Pos(st.at().Pos()), "dominated by the success of the parser the assembly uses, on the same bytes",
					"received bytes are stored as a party's public key without having been parsed with the parser the key assembly uses: the assembly panics (\"programming error … is malformed\") on them, so one malformed reveal crashes every honest party at the end of key generation")
			}
		}
		if n == 0 {
			c.Bad(rule, FuncName(onMsg), "received key parsed before it is stored", "-", "OnMsg never stores a revealed key")
		}
	}
}

// ruleC10ResponseCapacity: the blocking send in the synchroniser's response handler is excused by the
// reason "the channel has len(Membership)−1 slots and at most one send per authenticated member".  The
// first half is a statement about this code, decided here: every channel stored into
// topicPeerView.responses is made with capacity len(Member.Membership) − 1 (or more).  A capacity tied to
// anything smaller (the expected member count of one Synchronize call) lets late or non-selected
// members, whose tags are valid, fill the buffer: the next send blocks inside HandleMessage, on the
// dispatcher's goroutine and under the synchroniser's lock, for ever once Synchronize has returned.
func ruleC10ResponseCapacity(c *Ctx, rule string) {
	m := c.Mod(ModRoot)
	if m == nil {
		return
	}
	fResp := c.mustField(m, PkgDisc, "topicPeerView", "responses")
	fMemb := c.mustField(m, PkgDisc, "Member", "Membership")
	if fResp == nil || fMemb == nil {
		return
	}
	want := "len(field " + fieldKey(fMemb) + ")"
	n := 0
	for _, fn := range m.PkgFuncs(PkgDisc) {
		for _, st := range storesToField([]*ssa.Function{fn}, fResp) {
			n++
			mk, ok := resultOf(st.Val).(*ssa.MakeChan)
			if !ok {
				c.Unk(rule, FuncName(fn), "capacity of the response channel", m.Pos(st.Pos()), "the value stored is not a make(chan …) the analyser can see")
				continue
			}
			l := linOf(mk.Size)
			ok2 := l.OK && len(l.Terms) == 1 && l.Terms[want] >= 1 && (l.Terms[want] > 1 || l.K >= -1)
			c.Check(ok2, rule, FuncName(fn), "capacity of the response channel", m.Pos(mk.Pos()),
				"make(chan, len(Membership) − 1): one slot for every other member",
				"the response channel has fewer slots ("+l.String()+") than there are members who can send a valid response: once it is full the send in the response handler blocks the dispatcher goroutine inside HandleMessage (under the synchroniser's lock) for ever — a late or non-selected member wedges the node")
		}
	}
	if n == 0 {
		c.Bad(rule, "disc", "capacity of the response channel", "-", "no store into topicPeerView.responses found")
	}
}
