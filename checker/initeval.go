package main

// A small concrete interpreter for package initialisation code: it evaluates a package's synthetic
// init function (global variable initialisers and init() bodies) as far as it is made of constants,
// composite literals, loops over literals and map updates, and yields the contents of package-level
// maps with constant keys.  It lets the table rules read msgURL2Round / broadcastMessages however they
// are built — a map literal, or a slice of structs loaded into the maps by a loop in init() — instead of
// pattern-matching one source form.  Nothing of /repo is run: this is abstract evaluation of the SSA of
// initialisers, with every unknown (a call into another package, a non-constant branch) ending it.

import (
	"fmt"
	"go/constant"
	"go/token"
	"go/types"

	"golang.org/x/tools/go/ssa"
)

type ival interface{}

type icell struct {
	v      ival
	fields []*icell // struct
	elems  []*icell // array
}

type imap struct {
	keys []string
	m    map[string]ival
	pos  token.Pos
}

type islice struct {
	arr    *icell
	lo, hi int
}

type iunknown struct{ why string }

type ifail struct{ why string }

type initEval struct {
	prog    *ssa.Program
	globals map[*ssa.Global]*icell
	steps   int
	fail    string
}

func zeroCell(t types.Type) *icell {
	switch u := t.Underlying().(type) {
	case *types.Struct:
		c := &icell{}
		for i := 0; i < u.NumFields(); i++ {
			c.fields = append(c.fields, zeroCell(u.Field(i).Type()))
		}
		return c
	case *types.Array:
		c := &icell{}
		if u.Len() > 1<<16 {
			return &icell{v: iunknown{"large array"}}
		}
		for i := int64(0); i < u.Len(); i++ {
			c.elems = append(c.elems, zeroCell(u.Elem()))
		}
		return c
	case *types.Basic:
		switch {
		case u.Info()&types.IsBoolean != 0:
			return &icell{v: constant.MakeBool(false)}
		case u.Info()&types.IsInteger != 0:
			return &icell{v: constant.MakeInt64(0)}
		case u.Info()&types.IsString != 0:
			return &icell{v: constant.MakeString("")}
		}
	}
	return &icell{v: nil}
}

func copyCell(c *icell) *icell {
	if c == nil {
		return nil
	}
	n := &icell{v: c.v}
	for _, f := range c.fields {
		n.fields = append(n.fields, copyCell(f))
	}
	for _, e := range c.elems {
		n.elems = append(n.elems, copyCell(e))
	}
	return n
}

// evalPackageInit interprets the init function of pkg and returns the final contents of its globals.
func evalPackageInit(pkg *ssa.Package) (*initEval, error) {
	ev := &initEval{prog: pkg.Prog, globals: map[*ssa.Global]*icell{}}
	for _, mem := range pkg.Members {
		if g, ok := mem.(*ssa.Global); ok {
			ev.globals[g] = zeroCell(g.Type().(*types.Pointer).Elem())
		}
	}
	init := pkg.Func("init")
	if init == nil {
		return nil, fmt.Errorf("package has no init function")
	}
	ev.call(init, nil, 0, pkg)
	if ev.fail != "" {
		return ev, fmt.Errorf("%s", ev.fail)
	}
	return ev, nil
}

// mapOf returns the evaluated contents of a package-level map variable.
func (ev *initEval) mapOf(pkg *ssa.Package, name string) (*imap, bool) {
	g, ok := pkg.Members[name].(*ssa.Global)
	if !ok {
		return nil, false
	}
	c := ev.globals[g]
	if c == nil {
		return nil, false
	}
	m, ok := c.v.(*imap)
	return m, ok
}

func (ev *initEval) call(fn *ssa.Function, args []ival, depth int, home *ssa.Package) []ival {
	if ev.fail != "" {
		return nil
	}
	if fn.Blocks == nil || depth > 6 {
		return nil // external: unknown results
	}
	if fn.Pkg != home {
		return nil // another package's code (its init included): not needed for this package's tables
	}
	env := map[ssa.Value]ival{}
	for i, p := range fn.Params {
		if i < len(args) {
			env[p] = args[i]
		}
	}
	var prev *ssa.BasicBlock
	b := fn.Blocks[0]
	for {
		for _, in := range b.Instrs {
			ev.steps++
			if ev.steps > 400000 {
				ev.fail = "initialisation code does not terminate within the evaluation budget"
				return nil
			}
			switch x := in.(type) {
			case *ssa.Phi:
				for i, p := range b.Preds {
					if p == prev {
						env[x] = ev.val(env, x.Edges[i])
					}
				}
			case *ssa.Alloc:
				env[x] = zeroCell(x.Type().(*types.Pointer).Elem())
			case *ssa.Store:
				if c, ok := ev.val(env, x.Addr).(*icell); ok && c != nil {
					v := ev.val(env, x.Val)
					if src, isCell := v.(*icell); isCell && (len(src.fields) > 0 || len(src.elems) > 0) {
						n := copyCell(src)
						c.v, c.fields, c.elems = n.v, n.fields, n.elems
					} else {
						c.v = v
					}
				}
			case *ssa.UnOp:
				switch x.Op {
				case token.MUL:
					if c, ok := ev.val(env, x.X).(*icell); ok && c != nil {
						if len(c.fields) > 0 || len(c.elems) > 0 {
							env[x] = copyCell(c) // a struct/array value
						} else {
							env[x] = c.v
						}
					} else {
						env[x] = iunknown{"load through an unknown pointer"}
					}
				case token.NOT:
					if k, ok := ev.val(env, x.X).(constant.Value); ok && k.Kind() == constant.Bool {
						env[x] = constant.MakeBool(!constant.BoolVal(k))
					} else {
						env[x] = iunknown{"not"}
					}
				case token.SUB:
					if k, ok := ev.val(env, x.X).(constant.Value); ok {
						env[x] = constant.UnaryOp(token.SUB, k, 0)
					} else {
						env[x] = iunknown{"neg"}
					}
				default:
					env[x] = iunknown{"unop"}
				}
			case *ssa.FieldAddr:
				if c, ok := ev.val(env, x.X).(*icell); ok && c != nil && x.Field < len(c.fields) {
					env[x] = c.fields[x.Field]
				} else {
					env[x] = iunknown{"field address"}
				}
			case *ssa.Field:
				if c, ok := ev.val(env, x.X).(*icell); ok && c != nil && x.Field < len(c.fields) {
					f := c.fields[x.Field]
					if len(f.fields) > 0 || len(f.elems) > 0 {
						env[x] = copyCell(f)
					} else {
						env[x] = f.v
					}
				} else {
					env[x] = iunknown{"field"}
				}
			case *ssa.IndexAddr:
				idx, okI := ev.intOf(env, x.Index)
				switch base := ev.val(env, x.X).(type) {
				case *icell:
					if okI && base != nil && idx >= 0 && idx < len(base.elems) {
						env[x] = base.elems[idx]
						continue
					}
				case *islice:
					if okI && base.arr != nil && base.lo+idx < base.hi && base.lo+idx < len(base.arr.elems) && idx >= 0 {
						env[x] = base.arr.elems[base.lo+idx]
						continue
					}
				}
				env[x] = iunknown{"element address"}
			case *ssa.Slice:
				bound := func(v ssa.Value, def int) int {
					if v != nil {
						if k, ok := ev.intOf(env, v); ok {
							return k
						}
					}
					return def
				}
				switch base := ev.val(env, x.X).(type) {
				case *icell:
					if base != nil {
						env[x] = &islice{base, bound(x.Low, 0), bound(x.High, len(base.elems))}
						continue
					}
				case *islice:
					env[x] = &islice{base.arr, base.lo + bound(x.Low, 0), base.lo + bound(x.High, base.hi-base.lo)}
					continue
				}
				env[x] = iunknown{"slice"}
			case *ssa.MakeMap:
				env[x] = &imap{m: map[string]ival{}, pos: x.Pos()}
			case *ssa.MapUpdate:
				m, ok := ev.val(env, x.Map).(*imap)
				if !ok {
					continue
				}
				k, ok := ev.val(env, x.Key).(constant.Value)
				if !ok {
					ev.fail = "a package-level map is updated with a key that is not a constant of the initialisation code"
					return nil
				}
				ks := k.ExactString()
				if k.Kind() == constant.String {
					ks = constant.StringVal(k)
				}
				if _, has := m.m[ks]; !has {
					m.keys = append(m.keys, ks)
				}
				m.m[ks] = ev.val(env, x.Value)
			case *ssa.BinOp:
				a, okA := ev.val(env, x.X).(constant.Value)
				c2, okB := ev.val(env, x.Y).(constant.Value)
				if !okA || !okB {
					env[x] = iunknown{"binop on unknown"}
					continue
				}
				switch x.Op {
				case token.EQL, token.NEQ, token.LSS, token.LEQ, token.GTR, token.GEQ:
					env[x] = constant.MakeBool(constant.Compare(a, x.Op, c2))
				case token.SHL, token.SHR:
					if s, ok := constant.Uint64Val(c2); ok {
						env[x] = constant.Shift(a, x.Op, uint(s))
					} else {
						env[x] = iunknown{"shift"}
					}
				case token.QUO:
					if a.Kind() == constant.Int {
						env[x] = constant.BinaryOp(a, token.QUO_ASSIGN, c2)
					} else {
						env[x] = constant.BinaryOp(a, x.Op, c2)
					}
				default:
					func() {
						defer func() {
							if recover() != nil {
								env[x] = iunknown{"binop"}
							}
						}()
						env[x] = constant.BinaryOp(a, x.Op, c2)
					}()
				}
			case *ssa.Convert:
				env[x] = ev.val(env, x.X)
			case *ssa.ChangeType:
				env[x] = ev.val(env, x.X)
			case *ssa.MakeInterface:
				env[x] = ev.val(env, x.X)
			case *ssa.ChangeInterface:
				env[x] = ev.val(env, x.X)
			case *ssa.Extract:
				if t, ok := ev.val(env, x.Tuple).([]ival); ok && x.Index < len(t) {
					env[x] = t[x.Index]
				} else {
					env[x] = iunknown{"extract"}
				}
			case *ssa.Lookup:
				m, ok := ev.val(env, x.X).(*imap)
				k, okK := ev.val(env, x.Index).(constant.Value)
				if ok && okK {
					ks := k.ExactString()
					if k.Kind() == constant.String {
						ks = constant.StringVal(k)
					}
					v, has := m.m[ks]
					if x.CommaOk {
						env[x] = []ival{v, constant.MakeBool(has)}
					} else {
						env[x] = v
					}
				} else {
					env[x] = iunknown{"lookup"}
				}
			case *ssa.Call:
				if bi, ok := x.Call.Value.(*ssa.Builtin); ok {
					switch bi.Name() {
					case "len":
						switch a := ev.val(env, x.Call.Args[0]).(type) {
						case *islice:
							env[x] = constant.MakeInt64(int64(a.hi - a.lo))
						case *imap:
							env[x] = constant.MakeInt64(int64(len(a.m)))
						case constant.Value:
							if a.Kind() == constant.String {
								env[x] = constant.MakeInt64(int64(len(constant.StringVal(a))))
							} else {
								env[x] = iunknown{"len"}
							}
						default:
							env[x] = iunknown{"len"}
						}
					default:
						env[x] = iunknown{"builtin " + bi.Name()}
					}
					continue
				}
				if g := x.Call.StaticCallee(); g != nil && g.Pkg == home {
					var as []ival
					for _, a := range x.Call.Args {
						as = append(as, ev.val(env, a))
					}
					res := ev.call(g, as, depth+1, home)
					if ev.fail != "" {
						return nil
					}
					switch len(res) {
					case 0:
						env[x] = iunknown{"call result"}
					case 1:
						env[x] = res[0]
					default:
						env[x] = res
					}
					continue
				}
				env[x] = iunknown{"external call"}
			case *ssa.If:
				k, ok := ev.val(env, x.Cond).(constant.Value)
				if !ok || k.Kind() != constant.Bool {
					ev.fail = "initialisation code of " + fn.String() + " branches on a value that is not a constant of the initialisation code"
					return nil
				}
				prev = b
				if constant.BoolVal(k) {
					b = b.Succs[0]
				} else {
					b = b.Succs[1]
				}
				goto next
			case *ssa.Jump:
				prev = b
				b = b.Succs[0]
				goto next
			case *ssa.Return:
				var out []ival
				for _, r := range x.Results {
					out = append(out, ev.val(env, r))
				}
				return out
			case *ssa.Panic:
				return nil
			case *ssa.DebugRef, *ssa.RunDefers:
			default:
				if v, ok := in.(ssa.Value); ok {
					env[v] = iunknown{fmt.Sprintf("%T", in)}
				}
			}
		}
		return nil
	next:
	}
}

func (ev *initEval) val(env map[ssa.Value]ival, v ssa.Value) ival {
	switch x := v.(type) {
	case *ssa.Const:
		if x.Value == nil {
			return nil
		}
		return x.Value
	case *ssa.Global:
		if c, ok := ev.globals[x]; ok {
			return c
		}
		return iunknown{"foreign global"}
	case *ssa.Function:
		return iunknown{"function value"}
	}
	if r, ok := env[v]; ok {
		return r
	}
	return iunknown{"undefined"}
}

func (ev *initEval) intOf(env map[ssa.Value]ival, v ssa.Value) (int, bool) {
	k, ok := ev.val(env, v).(constant.Value)
	if !ok || k.Kind() != constant.Int {
		return 0, false
	}
	i, ok := constant.Int64Val(k)
	return int(i), ok
}

// evalUnder evaluates an integer/boolean SSA value of a function under a binding of some of its values to
// constants: arithmetic and comparisons, conversions, φ at the join of a branch whose condition is itself
// evaluable, and calls of own functions with evaluable arguments (interpreted by the initialisation
// interpreter).  Used to read a small pure computation (e.g. a round normalisation) as a function,
// whatever its source form.
func evalUnder(v ssa.Value, bind map[ssa.Value]constant.Value, depth int) (constant.Value, bool) {
	if depth > 12 || v == nil {
		return nil, false
	}
	if k, ok := bind[v]; ok {
		return k, true
	}
	switch x := v.(type) {
	case *ssa.Const:
		if x.Value == nil {
			return nil, false
		}
		return x.Value, true
	case *ssa.Convert:
		return evalUnder(x.X, bind, depth+1)
	case *ssa.ChangeType:
		return evalUnder(x.X, bind, depth+1)
	case *ssa.UnOp:
		if x.Op == token.NOT {
			if k, ok := evalUnder(x.X, bind, depth+1); ok && k.Kind() == constant.Bool {
				return constant.MakeBool(!constant.BoolVal(k)), true
			}
		}
		return nil, false
	case *ssa.BinOp:
		a, ok1 := evalUnder(x.X, bind, depth+1)
		b, ok2 := evalUnder(x.Y, bind, depth+1)
		if !ok1 || !ok2 {
			return nil, false
		}
		switch x.Op {
		case token.EQL, token.NEQ, token.LSS, token.LEQ, token.GTR, token.GEQ:
			return constant.MakeBool(constant.Compare(a, x.Op, b)), true
		case token.ADD, token.SUB, token.MUL:
			return constant.BinaryOp(a, x.Op, b), true
		}
		return nil, false
	case *ssa.Phi:
		blk := x.Block()
		idom := blk.Idom()
		for idom != nil {
			if iff, ok := idom.Instrs[len(idom.Instrs)-1].(*ssa.If); ok {
				c, okc := evalUnder(iff.Cond, bind, depth+1)
				if !okc || c.Kind() != constant.Bool {
					return nil, false
				}
				taken := idom.Succs[1]
				if constant.BoolVal(c) {
					taken = idom.Succs[0]
				}
				for i, p := range blk.Preds {
					viaTaken := (p == idom && taken == blk) || p == taken || taken.Dominates(p)
					if taken == blk {
						viaTaken = p == idom
					}
					if viaTaken {
						return evalUnder(x.Edges[i], bind, depth+1)
					}
				}
				return nil, false
			}
			idom = idom.Idom()
		}
		return nil, false
	case *ssa.Call:
		g := x.Call.StaticCallee()
		if g == nil || g.Blocks == nil || g.Pkg == nil || !ownPkgPath(g.Pkg.Pkg.Path()) {
			return nil, false
		}
		var args []ival
		for _, a := range x.Call.Args {
			k, ok := evalUnder(a, bind, depth+1)
			if !ok {
				// a transparent helper whose body contains the bound values: read it in place — the one
				// return whose guards all hold under the binding
				if isHelperCall(x) == g && g.Signature.Results().Len() == 1 {
					return evalHelperReturn(g, 0, bind, depth+1)
				}
				return nil, false
			}
			args = append(args, k)
		}
		ev := &initEval{prog: g.Prog, globals: map[*ssa.Global]*icell{}}
		res := ev.call(g, args, 0, g.Pkg)
		if ev.fail != "" || len(res) != 1 {
			return nil, false
		}
		k, ok := res[0].(constant.Value)
		return k, ok
	}
	return nil, false
}

// evalHelperReturn: result idx of the return of g that is taken under the binding (every guard of that
// return evaluates and holds; the guards of every other return evaluate and at least one fails).
func evalHelperReturn(g *ssa.Function, idx int, bind map[ssa.Value]constant.Value, depth int) (constant.Value, bool) {
	var taken *ssa.Return
	for _, in := range instrsOf(g) {
		r, ok := in.(*ssa.Return)
		if !ok {
			continue
		}
		feasible := true
		for _, gd := range GuardsLocal(r) {
			c, okc := evalUnder(gd.If.Cond, bind, depth+1)
			if !okc || c.Kind() != constant.Bool {
				return nil, false
			}
			if constant.BoolVal(c) != gd.Arm {
				feasible = false
				break
			}
		}
		if !feasible {
			continue
		}
		if taken != nil {
			return nil, false
		}
		taken = r
	}
	if taken == nil || idx >= len(taken.Results) {
		return nil, false
	}
	return evalUnder(retResult(taken, idx), bind, depth+1)
}
