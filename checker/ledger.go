package main

// Obligation ledger, known findings, evidence and exit protocol.

import (
	"encoding/json"
	"fmt"
	"os"
	"path/filepath"
	"sort"
	"strings"
	"time"
)

type Verdict string

const (
	Discharged Verdict = "discharged"
	Violated   Verdict = "violated"
	Undecided  Verdict = "undecided"
	Known      Verdict = "known-finding"
)

// An Obligation is one instance of a rule at one construct. Its identity
// (Rule, Func, Construct) never contains a line number.
type Obligation struct {
	Rule      string  `json:"rule"`
	Func      string  `json:"func"`
	Construct string  `json:"construct"`
	Pos       string  `json:"pos,omitempty"`
	Verdict   Verdict `json:"verdict"`
	By        string  `json:"by,omitempty"`
}

func (o *Obligation) Key() string { return o.Rule + " | " + o.Func + " | " + o.Construct }

type RuleInfo struct {
	ID        string `json:"id"`
	Text      string `json:"text"`
	Floor     int    `json:"floor"`
	Instances int    `json:"instances"`
	Done      int    `json:"discharged"`
}

type Ctx struct {
	Prop     string
	Tier     string
	Repo     string
	VerifDir string
	Seed     int64
	start    time.Time

	mods        map[string]*Module
	obls        []*Obligation
	rules       map[string]*RuleInfo
	ruleOrder   []string
	assumptions []string
	analysed    map[string]bool
	notes       []string
	extra       map[string]interface{}
	fatal       []string
	explanation string
	notDecided  string
}

func NewCtx(prop, tier, repo, verif string, seed int64) *Ctx {
	return &Ctx{Prop: prop, Tier: tier, Repo: repo, VerifDir: verif, Seed: seed, start: time.Now(),
		mods: map[string]*Module{}, rules: map[string]*RuleInfo{}, analysed: map[string]bool{}, extra: map[string]interface{}{},
		assumptions: []string{"go/types and go/ssa (x/tools v0.29.0) represent the program faithfully; the analysed build configuration (no build tags, GOARCH of the host) is the supported one"},
		notes:       []string{}, fatal: []string{}}
}

// Mod loads (once per run) a module of the repository.
func (c *Ctx) Mod(rel string) *Module {
	if m, ok := c.mods[rel]; ok {
		return m
	}
	m, err := LoadModule(c.Repo, rel)
	if err != nil {
		c.Fatalf("load", "%v", err)
		c.mods[rel] = nil
		return nil
	}
	c.mods[rel] = m
	return m
}

// Rule declares a rule with its floor: about half of the number of instances confirmed by hand on the
// reference tree (inlining and merging legitimately lower the count; a rule gone blind drops to near zero).
func (c *Ctx) Rule(id, text string, floor int) {
	if _, ok := c.rules[id]; ok {
		return
	}
	c.rules[id] = &RuleInfo{ID: id, Text: text, Floor: floor}
	c.ruleOrder = append(c.ruleOrder, id)
}

func (c *Ctx) Assume(s string) {
	for _, a := range c.assumptions {
		if a == s {
			return
		}
	}
	c.assumptions = append(c.assumptions, s)
}

func (c *Ctx) Analysed(fn string) { c.analysed[fn] = true }

func (c *Ctx) Note(format string, a ...interface{}) {
	c.notes = append(c.notes, fmt.Sprintf(format, a...))
}

// Fatalf records a failure of the analysis itself (unresolved anchor, load
// error, analyser limitation). It fails the check.
func (c *Ctx) Fatalf(kind, format string, a ...interface{}) {
	c.fatal = append(c.fatal, kind+": "+fmt.Sprintf(format, a...))
}

func (c *Ctx) add(rule, fn, construct, pos string, v Verdict, by string) *Obligation {
	if _, ok := c.rules[rule]; !ok {
		c.Rule(rule, "", 0)
	}
	o := &Obligation{Rule: rule, Func: fn, Construct: construct, Pos: pos, Verdict: v, By: by}
	// de-duplicate identical keys (number them so that keys stay unique and stable)
	n := 1
	base := construct
	for {
		dup := false
		for _, e := range c.obls {
			if e.Key() == o.Key() {
				dup = true
				break
			}
		}
		if !dup {
			break
		}
		n++
		o.Construct = fmt.Sprintf("%s #%d", base, n)
	}
	c.obls = append(c.obls, o)
	return o
}

func (c *Ctx) OK(rule, fn, construct, pos, by string) {
	c.add(rule, fn, construct, pos, Discharged, by)
}
func (c *Ctx) Bad(rule, fn, construct, pos, why string) {
	c.add(rule, fn, construct, pos, Violated, why)
}
func (c *Ctx) Unk(rule, fn, construct, pos, why string) {
	c.add(rule, fn, construct, pos, Undecided, why)
}

// Check adds a discharged or violated obligation depending on ok.
func (c *Ctx) Check(ok bool, rule, fn, construct, pos, by, why string) bool {
	if ok {
		c.OK(rule, fn, construct, pos, by)
	} else {
		c.Bad(rule, fn, construct, pos, why)
	}
	return ok
}

// ---------------------------------------------------------------------------
// Known findings

type KnownFinding struct {
	Property  string `json:"property"`
	Status    string `json:"status"` // "open" or "fixed"
	Rule      string `json:"rule"`
	Func      string `json:"func"`
	Construct string `json:"construct"`
	What      string `json:"what"`
	Commit    string `json:"commit,omitempty"`
	Line      string `json:"line,omitempty"` // the textual form required by the interface
}

func loadKnown(verif string) ([]KnownFinding, error) {
	b, err := os.ReadFile(filepath.Join(verif, "known_findings.json"))
	if err != nil {
		if os.IsNotExist(err) {
			return nil, nil
		}
		return nil, err
	}
	var doc struct {
		Findings []KnownFinding `json:"findings"`
	}
	if err := json.Unmarshal(b, &doc); err != nil {
		return nil, err
	}
	return doc.Findings, nil
}

// ---------------------------------------------------------------------------
// Finish: floors, known findings, evidence, exit code.

func (c *Ctx) Finish() int {
	known, err := loadKnown(c.VerifDir)
	if err != nil {
		c.Fatalf("known-findings", "%v", err)
	}
	// instance counts and floors
	for _, o := range c.obls {
		ri := c.rules[o.Rule]
		ri.Instances++
	}
	// known-finding matching: only open entries suppress
	var knownLines []string
	usedKnown := map[int]bool{}
	for _, o := range c.obls {
		if o.Verdict != Violated {
			continue
		}
		for i, k := range known {
			if k.Status != "open" || k.Property != c.Prop {
				continue
			}
			if k.Rule == o.Rule && k.Func == o.Func && k.Construct == o.Construct {
				o.Verdict = Known
				o.By = k.What
				usedKnown[i] = true
				knownLines = append(knownLines, fmt.Sprintf("KNOWN-FINDING: property=%s rule=%s at %s [%s]: %s", c.Prop, o.Rule, o.Func, o.Construct, k.What))
				break
			}
		}
	}
	for i, k := range known {
		if k.Status == "open" && k.Property == c.Prop && !usedKnown[i] {
			c.Note("stale known finding (no longer reported by the rule): %s | %s | %s", k.Rule, k.Func, k.Construct)
		}
	}
	var bad []*Obligation
	discharged := 0
	for _, o := range c.obls {
		switch o.Verdict {
		case Discharged:
			discharged++
			c.rules[o.Rule].Done++
		case Violated, Undecided:
			bad = append(bad, o)
		}
	}
	for _, id := range c.ruleOrder {
		ri := c.rules[id]
		if ri.Instances < ri.Floor {
			c.Fatalf("floor", "rule %s matched %d instance(s), fewer than its floor of %d (about half of what was confirmed by hand on the reference tree; legitimate consolidation lowers counts, a rule gone blind drops to near zero)", id, ri.Instances, ri.Floor)
		}
	}

	// ------------------------------------------------------------------ evidence
	var samples []interface{}
	perRule := map[string]int{}
	for _, o := range c.obls {
		if perRule[o.Rule] < 2 || o.Verdict != Discharged {
			perRule[o.Rule]++
			samples = append(samples, o)
		}
	}
	if len(samples) > 60 {
		samples = samples[:60]
	}
	var rules []*RuleInfo
	for _, id := range c.ruleOrder {
		rules = append(rules, c.rules[id])
	}
	var fns []string
	for f := range c.analysed {
		fns = append(fns, f)
	}
	sort.Strings(fns)
	var mods []string
	pkgCount := 0
	for rel, m := range c.mods {
		if m != nil {
			mods = append(mods, rel)
			pkgCount += len(m.Initial)
		}
	}
	sort.Strings(mods)
	nviol := len(bad) + len(c.fatal)
	cov := map[string]interface{}{
		"explanation":        c.explanation,
		"not_decided":        c.notDecided,
		"obligations":        len(c.obls),
		"discharged":         discharged,
		"known_findings":     len(knownLines),
		"rule":               "one obligation per (rule, function, construct) found by the analyser in /repo's current source; an obligation is non-trivial by construction (it names a concrete SSA/AST construct that the rule had to decide)",
		"rules":              rules,
		"samples":            samples,
		"all_obligations":    c.obls,
		"functions_analysed": fns,
		"modules_loaded":     mods,
		"packages_loaded":    pkgCount,
		"checker_cmd":        strings.Join(os.Args, " "),
		"trusted_base":       []string{"go/types, go/ssa, go/packages (x/tools v0.29.0)", "the Go compiler's prove pass where the rule cites it", "frozen tables in the checker source (each with a reason)"},
		"analysis_failures":  c.fatal,
		"notes":              c.notes,
		"exhaustive":         true,
	}
	for k, v := range c.extra {
		cov[k] = v
	}
	ev := map[string]interface{}{
		"property_id": c.Prop,
		"tier":        c.Tier,
		"seed":        c.Seed,
		"level":       "other",
		"coverage":    cov,
		"assumptions": c.assumptions,
		"wall_s":      time.Since(c.start).Seconds(),
		"violations":  nviol,
	}
	evDir := filepath.Join(c.VerifDir, "evidence")
	os.MkdirAll(evDir, 0o755)
	b, _ := json.MarshalIndent(ev, "", " ")
	if err := os.WriteFile(filepath.Join(evDir, c.Prop+".json"), append(b, '\n'), 0o644); err != nil {
		fmt.Fprintf(os.Stderr, "cannot write evidence: %v\n", err)
		return 2
	}

	// ------------------------------------------------------------------ report
	fmt.Printf("property %s tier=%s: %d obligation(s), %d discharged, %d known finding(s), %d violation(s)/undecided, %d analysis failure(s)\n",
		c.Prop, c.Tier, len(c.obls), discharged, len(knownLines), len(bad), len(c.fatal))
	for _, id := range c.ruleOrder {
		ri := c.rules[id]
		fmt.Printf("  rule %-8s instances=%d discharged=%d floor=%d  %s\n", ri.ID, ri.Instances, ri.Done, ri.Floor, ri.Text)
	}
	for _, l := range knownLines {
		fmt.Println(l)
	}
	for _, n := range c.notes {
		fmt.Println("  note:", n)
	}
	if nviol == 0 {
		return 0
	}
	repDir := filepath.Join(c.VerifDir, "out", "replay")
	os.MkdirAll(repDir, 0o755)
	replay := filepath.Join(repDir, c.Prop+".json")
	rb, _ := json.MarshalIndent(map[string]interface{}{"property": c.Prop, "violations": bad, "analysis_failures": c.fatal}, "", " ")
	os.WriteFile(replay, append(rb, '\n'), 0o644)
	for _, o := range bad {
		fmt.Printf("  %s rule=%s func=%s construct=[%s] at %s: %s\n", strings.ToUpper(string(o.Verdict)), o.Rule, o.Func, o.Construct, o.Pos, o.By)
	}
	for _, f := range c.fatal {
		fmt.Printf("  ANALYSIS-FAILURE %s\n", f)
	}
	fmt.Printf("VIOLATION property=%s replay=%s\n", c.Prop, replay)
	return 1
}
