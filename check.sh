#!/bin/sh
# usage: ./check.sh <property> [quick|thorough]
# Builds the checker if needed (offline) and runs one property against /repo's working tree.
set -u
cd "$(dirname "$0")"
export GOFLAGS=-mod=mod GOPROXY=off GOSUMDB=off GOTOOLCHAIN=local
unset GOWORK
if [ ! -x bin/tsscheck ] || [ -n "$(find checker -newer bin/tsscheck -name '*.go' 2>/dev/null | head -1)" ]; then
  (cd checker && go build -o ../bin/tsscheck .) || { echo "cannot build checker"; exit 2; }
fi
exec ./bin/tsscheck -property "$1" -tier "${2:-${VERIF_TIER:-quick}}" -repo "${TSS_REPO:-/repo}" -verif "$(pwd)"
